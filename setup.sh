#!/bin/sh
# Build the framework from files on disk only (offline): the whole Coq
# development and the Rust harnesses. Run once after a fresh restore.
set -e
cd "$(dirname "$0")"
export CARGO_NET_OFFLINE=true
mkdir -p .cache evidence
lib/coqbuild.sh
for h in harness/*/; do
  [ -f "$h/Cargo.toml" ] || continue
  [ -f "$h/Cargo.lock" ] || cp /repo/Cargo.lock "$h/Cargo.lock" 2>/dev/null || cp harness/Cargo.lock.seed "$h/Cargo.lock"
  (cd "$h" && CARGO_TARGET_DIR="$(pwd)/../../.cache/target" RUSTFLAGS="--cfg wtransport_verif" cargo build --offline --quiet)
done
echo "setup done"
