//! E1 codec correspondence harness (DESIGN.md 3.1).
//!
//! e1 gen <suite> --seed N --tier quick|thorough --out DIR
//!     generates cases, runs them through the implementation, writes
//!     DIR/<suite>_<k>.v (Coq cases with observed outcomes), DIR/<suite>_<k>.txt
//!     (one human-readable line per case) and DIR/<suite>.json (statistics and
//!     the property-oracle verdicts evaluated on the implementation alone).
//! e1 replay <f> <args>   re-executes one case: args like "1,2,3;4,5"
mod io;
mod rng;
mod suites;

use std::collections::BTreeMap;
use std::collections::HashSet;
use std::fmt::Write as _;
use std::io::Write as _;

pub type Args = Vec<Vec<u64>>;

pub struct Case {
    pub f: u32,
    pub args: Args,
    pub label: String,
    pub trivial: bool,
}

impl Case {
    pub fn new(f: u32, args: Args, label: &str) -> Self {
        Case { f, args, label: label.to_string(), trivial: false }
    }
    pub fn triv(f: u32, args: Args, label: &str) -> Self {
        Case { f, args, label: label.to_string(), trivial: true }
    }
}

pub const PANIC: u64 = 999_999_999;

/// Counting global allocator: bytes requested while a case executes (C11: a decoder allocates no
/// more than a fixed bound beyond the input size).  A single request above 4 GiB cannot be served:
/// the case being executed is printed and the process exits with status 97.
pub mod meter {
    use std::alloc::{GlobalAlloc, Layout, System};
    use std::sync::atomic::{AtomicBool, AtomicPtr, AtomicU64, AtomicUsize, Ordering::Relaxed};
    pub struct Counting;
    static ACTIVE: AtomicBool = AtomicBool::new(false);
    static TOTAL: AtomicU64 = AtomicU64::new(0);
    static LAST: AtomicU64 = AtomicU64::new(0);
    static CASE_PTR: AtomicPtr<u8> = AtomicPtr::new(std::ptr::null_mut());
    static CASE_LEN: AtomicUsize = AtomicUsize::new(0);
    const BOMB: usize = 1 << 32;

    fn bomb(size: usize) -> ! {
        use std::io::Write;
        ACTIVE.store(false, Relaxed);
        let p = CASE_PTR.load(Relaxed);
        let n = CASE_LEN.load(Relaxed);
        let case: &[u8] = if p.is_null() { b"?" } else { unsafe { std::slice::from_raw_parts(p, n) } };
        let mut e = std::io::stderr().lock();
        let _ = e.write_all(b"ALLOC-BOMB size=");
        let _ = e.write_all(size.to_string().as_bytes());
        let _ = e.write_all(b" case=");
        let _ = e.write_all(case);
        let _ = e.write_all(b"\n");
        std::process::exit(97)
    }

    unsafe impl GlobalAlloc for Counting {
        unsafe fn alloc(&self, l: Layout) -> *mut u8 {
            if ACTIVE.load(Relaxed) {
                TOTAL.fetch_add(l.size() as u64, Relaxed);
                if l.size() > BOMB {
                    bomb(l.size());
                }
            }
            System.alloc(l)
        }
        unsafe fn alloc_zeroed(&self, l: Layout) -> *mut u8 {
            if ACTIVE.load(Relaxed) {
                TOTAL.fetch_add(l.size() as u64, Relaxed);
                if l.size() > BOMB {
                    bomb(l.size());
                }
            }
            System.alloc_zeroed(l)
        }
        unsafe fn dealloc(&self, p: *mut u8, l: Layout) {
            System.dealloc(p, l)
        }
        unsafe fn realloc(&self, p: *mut u8, l: Layout, new_size: usize) -> *mut u8 {
            if ACTIVE.load(Relaxed) {
                TOTAL.fetch_add(new_size.saturating_sub(l.size()) as u64, Relaxed);
                if new_size > BOMB {
                    bomb(new_size);
                }
            }
            System.realloc(p, l, new_size)
        }
    }

    /// run `f` with the meter on; `case` is what a bomb report prints
    pub fn measured<T>(case: &str, f: impl FnOnce() -> T) -> T {
        CASE_PTR.store(case.as_ptr() as *mut u8, Relaxed);
        CASE_LEN.store(case.len(), Relaxed);
        TOTAL.store(0, Relaxed);
        ACTIVE.store(true, Relaxed);
        let r = f();
        ACTIVE.store(false, Relaxed);
        LAST.store(TOTAL.load(Relaxed), Relaxed);
        CASE_PTR.store(std::ptr::null_mut(), Relaxed);
        r
    }
    pub fn stop() {
        ACTIVE.store(false, Relaxed);
        LAST.store(TOTAL.load(Relaxed), Relaxed);
        CASE_PTR.store(std::ptr::null_mut(), Relaxed);
    }
    /// bytes requested from the allocator during the last measured execution
    pub fn last() -> u64 {
        LAST.load(Relaxed)
    }
}

#[global_allocator]
static GLOBAL: meter::Counting = meter::Counting;

pub fn b2a(bs: &[u8]) -> Vec<u64> {
    bs.iter().map(|b| *b as u64).collect()
}
pub fn a2b(a: &[u64]) -> Vec<u8> {
    a.iter().map(|b| *b as u8).collect()
}

fn coq_list(v: &[u64]) -> String {
    let mut s = String::with_capacity(v.len() * 4 + 2);
    s.push('[');
    for (i, x) in v.iter().enumerate() {
        if i > 0 {
            s.push(';');
        }
        write!(s, "{}", x).unwrap();
    }
    s.push(']');
    s
}
fn coq_lists(v: &Args) -> String {
    let mut s = String::from("[");
    for (i, x) in v.iter().enumerate() {
        if i > 0 {
            s.push(';');
        }
        s.push_str(&coq_list(x));
    }
    s.push(']');
    s
}
pub fn args_str(v: &Args) -> String {
    v.iter()
        .map(|x| x.iter().map(|n| n.to_string()).collect::<Vec<_>>().join(","))
        .collect::<Vec<_>>()
        .join(";")
}
pub fn parse_args(s: &str) -> Args {
    if s.is_empty() {
        return vec![];
    }
    s.split(';')
        .map(|p| {
            if p.is_empty() {
                vec![]
            } else {
                p.split(',').map(|n| n.trim().parse::<u64>().expect("number")).collect()
            }
        })
        .collect()
}

fn json_escape(s: &str) -> String {
    let mut o = String::new();
    for c in s.chars() {
        match c {
            '"' => o.push_str("\\\""),
            '\\' => o.push_str("\\\\"),
            '\n' => o.push_str("\\n"),
            c if (c as u32) < 0x20 => write!(o, "\\u{:04x}", c as u32).unwrap(),
            c => o.push(c),
        }
    }
    o
}

pub fn run_exec(f: u32, args: &Args) -> Args {
    let a = args.clone();
    let case = format!("{} {}", f, args_str(args));
    let r = std::panic::catch_unwind(move || meter::measured(&case, || suites::exec(f, &a)));
    meter::stop();
    match r {
        Ok(v) => v,
        Err(_) => vec![vec![PANIC]],
    }
}

fn hash_case(f: u32, args: &Args) -> u64 {
    // FNV-1a over the canonical text
    let mut h: u64 = 0xcbf29ce484222325;
    let mut feed = |x: u64| {
        for b in x.to_le_bytes() {
            h ^= b as u64;
            h = h.wrapping_mul(0x100000001b3);
        }
    };
    feed(f as u64);
    for a in args {
        feed(0xffff_ffff_ffff_fffe);
        for x in a {
            feed(*x);
        }
    }
    h
}

thread_local! {
    /// where the last panic happened (file of the panic location)
    static LAST_PANIC_FILE: std::cell::RefCell<String> = std::cell::RefCell::new(String::new());
}

/// does the property oracle still fail for `prop` on these arguments?  A panic raised by the
/// harness itself (arguments outside what a generator produces) does not count.
fn still_fails(f: u32, args: &Args, prop: &str) -> bool {
    LAST_PANIC_FILE.with(|c| c.borrow_mut().clear());
    let out = run_exec(f, args);
    let harness_panic = LAST_PANIC_FILE.with(|c| { let s = c.borrow(); s.contains("harness") || s.contains("src/suites") || s.contains("src/io.rs") || s.contains("src/main.rs") });
    if harness_panic {
        return false;
    }
    let a2 = args.clone();
    let o2 = out.clone();
    match std::panic::catch_unwind(move || suites::oracle(f, &a2, &o2)) {
        Ok(Some((p, _))) => p.split('+').any(|x| x == prop),
        _ => false,
    }
}

/// greedy minimisation of a failing case: delete chunks of every argument list, then lower values
fn shrink(f: u32, mut args: Args, prop: &str, budget: std::time::Duration) -> Args {
    let t0 = std::time::Instant::now();
    if !still_fails(f, &args, prop) {
        return args;
    }
    loop {
        let mut progress = false;
        for i in 0..args.len() {
            let mut chunk = (args[i].len() / 2).max(1);
            while chunk >= 1 && !args[i].is_empty() {
                let mut start = 0;
                while start < args[i].len() {
                    if t0.elapsed() > budget {
                        return args;
                    }
                    let end = (start + chunk).min(args[i].len());
                    let mut cand = args.clone();
                    cand[i].drain(start..end);
                    if still_fails(f, &cand, prop) {
                        args = cand;
                        progress = true;
                    } else {
                        start += chunk;
                    }
                }
                if chunk == 1 {
                    break;
                }
                chunk /= 2;
            }
            for j in 0..args[i].len() {
                let v = args[i][j];
                for c in [0u64, 1, v / 2, v.saturating_sub(1)] {
                    if c < args[i][j] {
                        if t0.elapsed() > budget {
                            return args;
                        }
                        let mut cand = args.clone();
                        cand[i][j] = c;
                        if still_fails(f, &cand, prop) {
                            args = cand;
                            progress = true;
                        }
                    }
                }
            }
        }
        if !progress {
            return args;
        }
    }
}

fn main() {
    std::panic::set_hook(Box::new(|info| {
        let file = info.location().map(|l| l.file().to_string()).unwrap_or_default();
        LAST_PANIC_FILE.with(|c| *c.borrow_mut() = file);
    }));
    let argv: Vec<String> = std::env::args().collect();
    if argv.len() >= 5 && argv[1] == "shrink" {
        let f: u32 = argv[2].parse().expect("f");
        let args = parse_args(&argv[3]);
        // only oracles that are total functions of (arguments, outcome) for arbitrary arguments;
        // the metamorphic ones (typestate, settings) are only meaningful on generated shapes
        const SHRINKABLE: [u32; 31] = [101, 102, 103, 104, 105, 106, 107, 201, 202, 203, 204, 205, 251, 252, 253, 254, 255,
            403, 404, 405, 406, 407, 408, 409, 501, 503, 504, 521, 522, 523, 524];
        if !SHRINKABLE.contains(&f) {
            return;
        }
        let small = shrink(f, args.clone(), &argv[4], std::time::Duration::from_secs(20));
        let out = run_exec(f, &small);
        println!("minimized_args={}", args_str(&small));
        println!("minimized_out={}", args_str(&out));
        if let Some((p, m)) = suites::oracle(f, &small, &out) {
            println!("minimized_what={} {}", p, m);
        }
        return;
    }
    if argv.len() >= 4 && argv[1] == "replay" {
        let f: u32 = argv[2].parse().expect("f");
        let args = parse_args(&argv[3]);
        let out = run_exec(f, &args);
        let orc = suites::oracle(f, &args, &out);
        println!("f={} args={} out={}", f, args_str(&args), args_str(&out));
        println!("coq=({}, {}, {})", f, coq_lists(&args), coq_lists(&out));
        match orc {
            Some((p, m)) => println!("oracle=FAIL property={} {}", p, m),
            None => println!("oracle=ok"),
        }
        return;
    }
    if argv.len() < 3 || argv[1] != "gen" {
        eprintln!("usage: e1 gen <suite> --seed N --tier quick|thorough --out DIR | e1 replay <f> <args>");
        std::process::exit(2);
    }
    let suite = argv[2].clone();
    let mut seed: u64 = 1;
    let mut tier = "quick".to_string();
    let mut out_dir = ".".to_string();
    let mut shard = 1500usize;
    let mut i = 3;
    while i < argv.len() {
        match argv[i].as_str() {
            "--seed" => {
                seed = argv[i + 1].parse().expect("seed");
                i += 2;
            }
            "--tier" => {
                tier = argv[i + 1].clone();
                i += 2;
            }
            "--out" => {
                out_dir = argv[i + 1].clone();
                i += 2;
            }
            "--shard" => {
                shard = argv[i + 1].parse().expect("shard");
                i += 2;
            }
            x => panic!("unknown arg {}", x),
        }
    }
    let thorough = tier == "thorough";
    let mut rng = rng::Rng::new(seed.wrapping_mul(0x1000193) ^ hash_case(0, &vec![b2a(suite.as_bytes())]));
    let (corr_module, mut cases) = suites::generate(&suite, &mut rng, thorough);
    // corpus first
    let corpus_path = format!("{}/../../corpus/e1/{}.txt", env!("CARGO_MANIFEST_DIR"), suite);
    if let Ok(txt) = std::fs::read_to_string(&corpus_path) {
        let mut pre = vec![];
        for line in txt.lines() {
            let line = line.trim();
            if line.is_empty() || line.starts_with('#') {
                continue;
            }
            let mut it = line.splitn(2, ' ');
            let f: u32 = it.next().unwrap().parse().expect("corpus f");
            let args = parse_args(it.next().unwrap_or(""));
            pre.push(Case::new(f, args, "corpus"));
        }
        pre.append(&mut cases);
        cases = pre;
    }
    std::fs::create_dir_all(&out_dir).unwrap();

    let mut seen = HashSet::new();
    let mut distinct_nontrivial = 0u64;
    let mut hist: BTreeMap<String, u64> = BTreeMap::new();
    let mut outcome_hist: BTreeMap<String, u64> = BTreeMap::new();
    let mut oracle_fail: Vec<String> = vec![];
    let mut samples: Vec<String> = vec![];
    let mut panics = 0u64;
    let total = cases.len();
    let nshards = ((total + shard - 1) / shard.max(1)).max(16);
    let mut open = 1usize;
    let mut vs: Vec<String> = vec![];
    let mut ts: Vec<String> = vec![];
    let mut counts: Vec<usize> = vec![0; nshards];
    // evaluation weight of a shard in bytes-of-text equivalents (Coq parses ~50 KB/s;
    // a case that makes the model iterate is charged for the iterations)
    let mut wts: Vec<usize> = vec![0; nshards];
    for _ in 0..nshards {
        let mut v = String::new();
        writeln!(v, "From WT.Model Require Import Base.\nFrom WT.Corr Require Import CorrBase {}.", corr_module).unwrap();
        writeln!(v, "Local Open Scope N_scope.").unwrap();
        writeln!(v, "Definition cases : list (N * list (list N) * list (list N)) := [").unwrap();
        vs.push(v);
        ts.push(String::new());
    }
    for (idx, c) in cases.iter().enumerate() {
        // each case goes to the currently smallest shard (by text size) so that
        // expensive cases spread evenly over the parallel coqc runs
        let k = {
            let mut best = 0usize;
            for q in 1..open {
                if wts[q] < wts[best] {
                    best = q;
                }
            }
            // open another shard only when every open one is already large
            if wts[best] > 120_000 && open < nshards {
                open += 1;
                open - 1
            } else {
                best
            }
        };
        let out = run_exec(c.f, &c.args);
        if out.len() == 1 && out[0] == vec![PANIC] {
            panics += 1;
        }
        *hist.entry(format!("{}:{}", c.f, c.label)).or_insert(0) += 1;
        let oc = suites::outcome_class(c.f, &out);
        *outcome_hist.entry(format!("{}:{}", c.f, oc)).or_insert(0) += 1;
        if seen.insert(hash_case(c.f, &c.args)) && !c.trivial {
            distinct_nontrivial += 1;
        }
        if let Some((p, m)) = suites::oracle(c.f, &c.args, &out) {
            oracle_fail.push(format!(
                "{{\"property\":\"{}\",\"f\":{},\"args\":\"{}\",\"out\":\"{}\",\"what\":\"{}\",\"shard\":{},\"index\":{}}}",
                p, c.f, args_str(&c.args), args_str(&out), json_escape(&m), k, counts[k]
            ));
        }
        if samples.len() < 6 && (idx % (total / 6 + 1) == 0) {
            samples.push(format!(
                "{{\"f\":{},\"label\":\"{}\",\"args\":\"{}\",\"out\":\"{}\"}}",
                c.f, json_escape(&c.label), json_escape(&trunc(&args_str(&c.args))), json_escape(&trunc(&args_str(&out)))
            ));
        }
        if counts[k] > 0 {
            vs[k].push_str(";\n");
        }
        counts[k] += 1;
        let before = vs[k].len();
        write!(vs[k], " ({}, {}, {})", c.f, coq_lists(&c.args), coq_lists(&out)).unwrap();
        wts[k] += vs[k].len() - before + suites::extra_weight(c.f, &c.args);
        writeln!(ts[k], "{} {} | {} | {}", c.f, args_str(&c.args), args_str(&out), c.label).unwrap();
    }
    for k in 0..nshards {
        if counts[k] == 0 {
            continue;
        }
        writeln!(vs[k], "\n].").unwrap();
        writeln!(vs[k], "Eval vm_compute in (bad_indices {}.chk cases).", corr_module).unwrap();
        std::fs::write(format!("{}/{}_{}.v", out_dir, suite, k), &vs[k]).unwrap();
        std::fs::write(format!("{}/{}_{}.txt", out_dir, suite, k), &ts[k]).unwrap();
    }
    let mut j = String::new();
    write!(
        j,
        "{{\"suite\":\"{}\",\"corr_module\":\"{}\",\"seed\":{},\"tier\":\"{}\",\"evaluations\":{},\"distinct_nontrivial\":{},\"shards\":{},\"panics\":{},\"build\":\"{}\",",
        suite,
        corr_module,
        seed,
        tier,
        total,
        distinct_nontrivial,
        nshards,
        panics,
        if cfg!(debug_assertions) { "debug" } else { "release" }
    )
    .unwrap();
    j.push_str("\"input_histogram\":{");
    j.push_str(&hist.iter().map(|(k, v)| format!("\"{}\":{}", json_escape(k), v)).collect::<Vec<_>>().join(","));
    j.push_str("},\"outcome_histogram\":{");
    j.push_str(&outcome_hist.iter().map(|(k, v)| format!("\"{}\":{}", json_escape(k), v)).collect::<Vec<_>>().join(","));
    j.push_str("},\"samples\":[");
    j.push_str(&samples.join(","));
    j.push_str("],\"oracle_failures\":[");
    j.push_str(&oracle_fail.join(","));
    j.push_str("]}");
    let mut fjson = std::fs::File::create(format!("{}/{}.json", out_dir, suite)).unwrap();
    fjson.write_all(j.as_bytes()).unwrap();
    println!("suite={} cases={} shards={} oracle_failures={} panics={}", suite, total, nshards, oracle_fail.len(), panics);
}

fn trunc(s: &str) -> String {
    if s.len() > 160 {
        format!("{}...({} chars)", &s[..160], s.len())
    } else {
        s.to_string()
    }
}
