//! Suite "request" (520s): SessionRequest / SessionResponse over header maps (C18, C02).
use crate::rng::Rng;
use crate::{a2b, b2a, Args, Case};
use wtransport_proto::headers::Headers;
use wtransport_proto::session::{HeadersParseError, SessionRequest, SessionResponse, UrlParseError};

fn herr_idx(e: &HeadersParseError) -> u64 {
    match e {
        HeadersParseError::MissingMethod => 0,
        HeadersParseError::MethodNotConnect => 1,
        HeadersParseError::MissingScheme => 2,
        HeadersParseError::SchemeNotHttps => 3,
        HeadersParseError::MissingProtocol => 4,
        HeadersParseError::ProtocolNotWebTransport => 5,
        HeadersParseError::MissingAuthority => 6,
        HeadersParseError::MissingPath => 7,
        HeadersParseError::MissingStatusCode => 8,
        HeadersParseError::InvalidStatusCode => 9,
        // (a variant this harness does not know: the model has no such error either)
        #[allow(unreachable_patterns)]
        _ => 99,
    }
}

fn sorted(h: &Headers) -> Args {
    let m: &std::collections::HashMap<String, String> = h.as_ref();
    let mut v: Vec<(&String, &String)> = m.iter().collect();
    v.sort();
    let mut out = vec![vec![1, v.len() as u64]];
    for (k, val) in v {
        out.push(b2a(k.as_bytes()));
        out.push(b2a(val.as_bytes()));
    }
    out
}
fn s(a: &[u64]) -> String {
    String::from_utf8(a2b(a)).expect("generator gives UTF-8")
}
fn pairs(a: &[Vec<u64>]) -> Vec<(String, String)> {
    a.chunks(2).filter(|c| c.len() == 2).map(|c| (s(&c[0]), s(&c[1]))).collect()
}

pub fn exec(f: u32, a: &Args) -> Args {
    match f {
        // SessionRequest::new(url); a[1], a[2] = authority and path-with-query as the `url` crate sees them
        521 => match SessionRequest::new(s(&a[0])) {
            Ok(req) => {
                let mut out = vec![vec![1], b2a(req.authority().as_bytes()), b2a(req.path().as_bytes())];
                out.extend(sorted(req.headers()));
                out
            }
            Err(UrlParseError::SchemeNotHttps) => vec![vec![0, 1]],
            Err(_) => vec![vec![0, 0]],
        },
        // request for (authority, path) then a sequence of inserts
        522 => {
            let url = format!("https://{}{}", s(&a[0]), s(&a[1]));
            let mut req = SessionRequest::new(url).expect("generator gives valid URLs");
            let mut res = vec![];
            for (k, v) in pairs(&a[2..]) {
                res.push(req.insert(k, v).is_ok() as u64);
            }
            let mut out = vec![vec![1], res, b2a(req.authority().as_bytes()), b2a(req.path().as_bytes())];
            out.extend(sorted(req.headers()));
            out
        }
        523 => {
            let h: Headers = pairs(a).into_iter().collect();
            match SessionRequest::try_from(h) {
                Ok(req) => {
                    // an admitted request must answer its accessors (they rely on the admission rule)
                    let _ = (req.authority().len(), req.path().len(), req.origin().map(|x| x.len()), req.user_agent().map(|x| x.len()));
                    let mut out = vec![vec![1]];
                    out.extend(sorted(req.headers()));
                    out
                }
                Err(e) => vec![vec![0, herr_idx(&e)]],
            }
        }
        524 => {
            let h: Headers = pairs(a).into_iter().collect();
            match SessionResponse::try_from(h) {
                Ok(r) => {
                    let c = r.code();
                    let mut out = vec![vec![1, c.into_inner() as u64, c.is_successful() as u64]];
                    out.extend(sorted(r.headers()));
                    out
                }
                Err(e) => vec![vec![0, herr_idx(&e)]],
            }
        }
        _ => panic!("request: unknown f {}", f),
    }
}

const RESERVED: [&str; 5] = [":method", ":scheme", ":protocol", ":authority", ":path"];

pub fn oracle(f: u32, a: &Args, out: &Args) -> Option<(&'static str, String)> {
    match f {
        521 => {
            if out[0][0] == 1 && a.len() < 3 {
                return Some(("C18", "a non-https or unparsable URL produced a request".into()));
            }
            if out[0][0] == 1 && a.len() >= 3 && (out[1] != a[1] || out[2] != a[2]) {
                return Some(("C18+C02", format!("authority/path of the request {:?} {:?} differ from the URL's {:?} {:?}", s(&out[1]), s(&out[2]), s(&a[1]), s(&a[2]))));
            }
            None
        }
        522 => {
            // reserved fields are never overridden, whatever is inserted
            if out[2] != a[0] || out[3] != a[1] {
                return Some(("C18", format!("after inserts authority/path are {:?}/{:?}", s(&out[2]), s(&out[3]))));
            }
            let entries: Vec<(String, String)> = out[5..].chunks(2).map(|c| (s(&c[0]), s(&c[1]))).collect();
            for (k, v) in [(":method", "CONNECT"), (":scheme", "https"), (":protocol", "webtransport")] {
                if !entries.iter().any(|(kk, vv)| kk == k && vv == v) {
                    return Some(("C18", format!("reserved field {} was overridden or lost", k)));
                }
            }
            for (i, (k, _)) in pairs(&a[2..]).iter().enumerate() {
                let refused = out[1][i] == 0;
                if refused != RESERVED.contains(&k.as_str()) {
                    return Some(("C18", format!("insert({:?}) refused={}", k, refused)));
                }
            }
            None
        }
        523 => {
            let p = pairs(a);
            let mut m = std::collections::HashMap::new();
            for (k, v) in p {
                m.insert(k, v);
            }
            let want = m.get(":method").map(|v| v == "CONNECT").unwrap_or(false)
                && m.get(":scheme").map(|v| v == "https").unwrap_or(false)
                && m.get(":protocol").map(|v| v == "webtransport").unwrap_or(false)
                && m.contains_key(":authority")
                && m.contains_key(":path");
            if (out[0][0] == 1) != want {
                return Some(("C18+C02", format!("request admitted={} but well-formed={} (fields: {:?})", out[0][0] == 1, want, m)));
            }
            None
        }
        524 => {
            if out[0][0] == 1 {
                let c = out[0][1];
                if !(100..=599).contains(&c) {
                    return Some(("C18", format!("response admitted with status {}", c)));
                }
                if (out[0][2] == 1) != (200..=299).contains(&c) {
                    return Some(("C18", format!("status {} counts as acceptance = {}", c, out[0][2] == 1)));
                }
            }
            None
        }
        _ => None,
    }
}

pub fn generate(rng: &mut Rng, thorough: bool) -> Vec<Case> {
    let mut cs = vec![];
    let k = if thorough { 6 } else { 1 };
    // URLs: hosts x ports x paths x queries
    let hosts = ["localhost", "example.com", "127.0.0.1", "[::1]", "[2001:db8::1]", "a.b.c.example", "xn--bcher-kva.example"];
    let ports = ["", ":443", ":4433", ":65535", ":1"];
    let paths = ["", "/", "/a", "/a/b/c", "/index.html", "/p%20q", "/\u{e9}t\u{e9}"];
    let queries = ["", "?", "?a=b", "?a=b&c=d", "?x=%2F", "?a="];
    for h in hosts {
        for p in ports {
            for pa in paths {
                for q in queries {
                    if !thorough && rng.below(4) != 0 {
                        continue;
                    }
                    // a fragment is never sent to the server (RFC 9110 4.2.3 / 7.1: the target excludes it)
                    let frag = ["", "", "#section-2", "#", "#a?b=c"][rng.below(5) as usize];
                    let url = format!("https://{}{}{}{}{}", h, p, pa, q, frag);
                    if let Ok(u) = url::Url::parse(&url) {
                        let authority = u.authority().to_string();
                        let path = format!("{}{}", u.path(), u.query().map(|s| format!("?{s}")).unwrap_or_default());
                        cs.push(Case::new(521, vec![b2a(url.as_bytes()), b2a(authority.as_bytes()), b2a(path.as_bytes())], "url"));
                    }
                }
            }
        }
    }
    for u in ["http://example.com/", "ftp://example.com/", "wss://example.com/", "example.com", "https://", "", "https://:443/", "//x"] {
        // the url crate is an oracle of the model: it says whether the URL parses at all
        let cls = match url::Url::parse(u) { Ok(_) => 1u64, Err(_) => 0 };
        cs.push(Case::new(521, vec![b2a(u.as_bytes()), vec![cls]], "url-rejected"));
    }
    // inserts: reserved, near-reserved and ordinary names
    let names = [
        ":method", ":scheme", ":protocol", ":authority", ":path", ":Path", ":PATH", ":AUTHORITY", ":Method", " :path", ":path ",
        "path", ":paths", ":pat", ":status", "origin", "user-agent", "x-custom", "sec-webtransport-http3-draft", "Origin", ":", "",
    ];
    for _ in 0..60 * k {
        let n = rng.range(1, 5) as usize;
        let mut args = vec![b2a(b"example.com:4433"), b2a(b"/wt?x=1")];
        for _ in 0..n {
            args.push(b2a(rng.pick(&names).as_bytes()));
            args.push(b2a(rng.pick(&["v", "", "CONNECT", "overridden", "/evil"]).as_bytes()));
        }
        cs.push(Case::new(522, args, "insert-sequence"));
    }
    for name in names {
        cs.push(Case::new(522, vec![b2a(b"h"), b2a(b"/"), b2a(name.as_bytes()), b2a(b"overridden")], "insert-one"));
    }
    // request admission: each pseudo-header missing / wrong / right, extra fields
    let good = [(":method", "CONNECT"), (":scheme", "https"), (":protocol", "webtransport"), (":authority", "a"), (":path", "/")];
    let wrong = [(":method", "GET"), (":scheme", "http"), (":protocol", "websocket"), (":authority", ""), (":path", "")];
    for mask in 0..243u32 {
        // per field: 0 right, 1 wrong, 2 missing
        let mut m = mask;
        let mut args = vec![];
        for i in 0..5 {
            match m % 3 {
                0 => { args.push(b2a(good[i].0.as_bytes())); args.push(b2a(good[i].1.as_bytes())); }
                1 => { args.push(b2a(wrong[i].0.as_bytes())); args.push(b2a(wrong[i].1.as_bytes())); }
                _ => {}
            }
            m /= 3;
        }
        if mask % 5 == 0 {
            args.push(b2a(b"origin"));
            args.push(b2a(b"https://o"));
        }
        cs.push(Case::new(523, args, "admission-matrix"));
    }
    // every shape an authority can take (the admission rule asks for its presence, not for a syntax the
    // server would have to guess): IPv6 literals with and without port, IPv4, names, ports at the limits
    for auth in ["[::1]", "[2001:db8::7]", "[::1]:4433", "[fe80::1%25eth0]:443", "example.com", "example.com:443", "1.2.3.4", "1.2.3.4:65535",
                 "a.b.c.d.e:1", "xn--e1afmkfd.xn--p1ai", "host_with_underscore", "UPPER.example", "localhost:0", "user@host:8443"] {
        let mut args = vec![];
        for g in good {
            let v = if g.0 == ":authority" { auth } else { g.1 };
            args.push(b2a(g.0.as_bytes()));
            args.push(b2a(v.as_bytes()));
        }
        cs.push(Case::new(523, args, "admission-authority-shapes"));
    }
    for path in ["/", "/a?b=c", "/%F0%9F%98%80", "/a//b/./c", "*", "/very/long/path/with/many/segments/and/a/query?x=1&y=2&z=3"] {
        let mut args = vec![];
        for g in good {
            let v = if g.0 == ":path" { path } else { g.1 };
            args.push(b2a(g.0.as_bytes()));
            args.push(b2a(v.as_bytes()));
        }
        cs.push(Case::new(523, args, "admission-path-shapes"));
    }
    // one pseudo-header missing, a regular field of similar meaning in its place: not a substitute
    for (i, alikes) in [vec![("method", "CONNECT"), ("x-http-method-override", "CONNECT")], vec![("scheme", "https"), ("x-forwarded-proto", "https")],
                        vec![("protocol", "webtransport"), ("upgrade", "webtransport")], vec![("host", "a"), ("authority", "a"), ("x-forwarded-host", "a"), ("Host", "a")],
                        vec![("path", "/"), ("x-original-url", "/")]].iter().enumerate() {
        for (k, v) in alikes {
            let mut args = vec![];
            for (j, g) in good.iter().enumerate() {
                if j != i {
                    args.push(b2a(g.0.as_bytes()));
                    args.push(b2a(g.1.as_bytes()));
                }
            }
            args.push(b2a(k.as_bytes()));
            args.push(b2a(v.as_bytes()));
            cs.push(Case::new(523, args, "admission-lookalike-field"));
        }
    }
    for (kk, vv) in [(":method", "connect"), (":method", "CONNECT "), (":scheme", "HTTPS"), (":protocol", "WebTransport")] {
        let mut args = vec![];
        for g in good {
            let (a0, a1) = if g.0 == kk { (kk, vv) } else { (g.0, g.1) };
            args.push(b2a(a0.as_bytes()));
            args.push(b2a(a1.as_bytes()));
        }
        cs.push(Case::new(523, args, "admission-case-variants"));
    }
    // responses: every class of status string, extra fields
    for st in ["200", "204", "299", "300", "199", "100", "99", "599", "600", "404", "403", "429", "0", "999", "65535", "65536", "+200", "0200", "-200", " 200", "200 ", "2e2", "abc", ""] {
        cs.push(Case::new(524, vec![b2a(b":status"), b2a(st.as_bytes())], "response-status"));
        cs.push(Case::new(524, vec![b2a(b":status"), b2a(st.as_bytes()), b2a(b"server"), b2a(b"x"), b2a(b"sec-x"), b2a(b"1")], "response-status-extra"));
    }
    cs.push(Case::new(524, vec![b2a(b"status"), b2a(b"200")], "response-missing-status"));
    cs.push(Case::new(524, vec![], "response-empty"));
    for c in 95..605u64 {
        cs.push(Case::new(524, vec![b2a(b":status"), b2a(c.to_string().as_bytes())], "response-status-sweep"));
    }
    cs
}
