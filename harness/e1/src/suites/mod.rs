//! Suite registry: generators, the implementation-side executor and the
//! property oracles (each property stated on the implementation's own results).
use crate::rng::Rng;
use crate::{Args, Case};

pub mod frame;
pub mod qpack;
pub mod static_ref;
pub mod session;
pub mod typestate;
pub mod varint;
pub mod wire;

/// returns (Coq correspondence module, cases)
pub fn generate(suite: &str, rng: &mut Rng, thorough: bool) -> (&'static str, Vec<Case>) {
    match suite {
        "varint" => ("VarintC", varint::generate(rng, thorough)),
        "frame" => ("FrameC", frame::generate_frame(rng, thorough)),
        "sheader" => ("FrameC", frame::generate_sheader(rng, thorough)),
        "typestate" => ("StreamTSC", typestate::generate(rng, thorough)),
        "wire" => ("WireC", wire::generate(rng, thorough)),
        "qpack" => ("QpackC", qpack::generate(rng, thorough)),
        "request" => ("SessionC", session::generate(rng, thorough)),
        "settings" => ("WireC", only(wire::generate(rng, thorough), 401, 402)),
        "dgram" => ("WireC", only(wire::generate(rng, thorough), 403, 404)),
        "capsule" => ("WireC", only(wire::generate(rng, thorough), 405, 406)),
        "ids" => ("WireC", only(wire::generate(rng, thorough), 407, 407)),
        "status" => ("WireC", only(wire::generate(rng, thorough), 408, 409)),
        _ => panic!("unknown suite {}", suite),
    }
}

fn only(cs: Vec<Case>, lo: u32, hi: u32) -> Vec<Case> {
    cs.into_iter().filter(|c| c.f >= lo && c.f <= hi).collect()
}

pub fn exec(f: u32, args: &Args) -> Args {
    if (520..530).contains(&f) {
        return session::exec(f, args);
    }
    match f / 100 {
        1 => varint::exec(f, args),
        2 => frame::exec(f, args),
        3 => typestate::exec(f, args),
        4 => wire::exec(f, args),
        5 => qpack::exec(f, args),
        _ => panic!("unknown function id {}", f),
    }
}

/// Property oracle: Some((property id, what)) when the property itself fails on
/// the implementation's own output for this case.
pub fn oracle(f: u32, args: &Args, out: &Args) -> Option<(&'static str, String)> {
    if out.len() == 1 && out[0] == vec![crate::PANIC] {
        // a panic while admitting a request or answering the accessors of an admitted one is also a
        // failure of the admission rule (C18); everywhere it is a failure of totality (C11)
        let who = if (520..530).contains(&f) { "C11+C18+C02" } else { "C11" };
        return Some((who, format!("panic in function {}", f)));
    }
    // C11: a decoder allocates no more than a fixed bound beyond (a multiple of) the input size.
    // Measured over the whole execution of the case, harness bookkeeping included, which is why the
    // factor is generous; an attacker-controlled length used as a capacity exceeds any such bound.
    const DECODERS: [u32; 22] = [101, 102, 201, 202, 203, 251, 252, 253, 301, 302, 303, 304, 305, 306, 401, 403, 405, 406, 408, 501, 505, 523];
    if DECODERS.contains(&f) {
        let n: u64 = args.iter().map(|a| a.len() as u64).sum();
        let used = crate::meter::last();
        if std::env::var("E1_ALLOC_STATS").is_ok() && used > 64 * n + 4096 {
            eprintln!("alloc f={} n={} used={}", f, n, used);
        }
        if used > 256 * n + 65_536 {
            return Some(("C11", format!("decoding {} input elements requested {} bytes from the allocator", n, used)));
        }
    }
    if (520..530).contains(&f) {
        return session::oracle(f, args, out);
    }
    match f / 100 {
        1 => varint::oracle(f, args, out),
        2 => frame::oracle(f, args, out),
        3 => typestate::oracle(f, args, out),
        4 => wire::oracle(f, args, out),
        5 => qpack::oracle(f, args, out),
        _ => None,
    }
}

/// extra evaluation cost of a case on the model side, in bytes-of-text equivalents
pub fn extra_weight(f: u32, args: &Args) -> usize {
    match f {
        // exhaustive range sweeps: ~0.2 ms per value in the VM
        107 => args.first().map(|a| (a[1].saturating_sub(a[0]) as usize) * 10).unwrap_or(0),
        _ => 0,
    }
}

pub fn outcome_class(_f: u32, out: &Args) -> String {
    if out.len() == 1 && out[0] == vec![crate::PANIC] {
        return "panic".into();
    }
    match out.first().and_then(|v| v.first()) {
        Some(t) => format!("tag{}", t),
        None => "empty".into(),
    }
}
