//! Suites "frame" (200s: Frame, async byte machines) and "sheader" (250s: StreamHeader).
use crate::io::{block_on, Ev, Sink, Src, Term};
use crate::rng::Rng;
use crate::suites::varint::{boundaries, enc, MAXV};
use crate::{a2b, b2a, Args, Case};
use std::borrow::Cow;
use wtransport_proto::bytes::{
    BufferReader, BufferWriter, BytesReaderAsync, BytesWriterAsync, IoReadError as BIo,
};
use wtransport_proto::frame::{Frame, FrameKind, IoReadError, ParseError};
use wtransport_proto::ids::{SessionId, StreamId};
use wtransport_proto::stream_header as sh;
use wtransport_proto::stream_header::{StreamHeader, StreamKind};
use wtransport_proto::varint::VarInt;

pub fn frame_hdr(f: &Frame) -> Vec<u64> {
    let (k, id) = match f.kind() {
        FrameKind::Data => (0, 0),
        FrameKind::Headers => (1, 1),
        FrameKind::Settings => (2, 4),
        FrameKind::WebTransport => (3, 0x41),
        FrameKind::Exercise(id) => (4, id.into_inner()),
    };
    match f.session_id() {
        Some(s) => vec![k, id, 1, s.into_u64()],
        None => vec![k, id, 0, 0],
    }
}
pub fn perr_idx(e: &ParseError) -> u64 {
    match e {
        ParseError::UnknownFrame => 0,
        ParseError::InvalidSessionId => 1,
        ParseError::PayloadTooBig => 2,
    }
}
pub fn ioerr_idx(e: &BIo) -> u64 {
    match e {
        BIo::ImmediateFin => 0,
        BIo::UnexpectedFin => 1,
        BIo::Reset => 2,
        BIo::NotConnected => 3,
    }
}
pub fn sched_of(a: &[u64]) -> Vec<Ev> {
    a.iter().map(|n| if *n == 0 { Ev::Pend } else { Ev::Chunk(*n as usize) }).collect()
}
pub fn term_of(n: u64) -> Term {
    match n {
        0 => Term::Fin,
        1 => Term::Reset,
        _ => Term::Lost,
    }
}
fn sid(v: u64) -> SessionId {
    SessionId::try_from_session_stream(StreamId::new(VarInt::try_from_u64(v).unwrap())).expect("valid session id")
}
/// frame spec: [kind, id_or_sid], payload
pub fn mk_frame(spec: &[u64], payload: &[u64]) -> Frame<'static> {
    let p: Cow<'static, [u8]> = Cow::Owned(a2b(payload));
    match spec[0] {
        0 => Frame::new_data(p),
        1 => Frame::new_headers(p),
        2 => Frame::new_settings(p),
        3 => Frame::new_webtransport(sid(spec[1])),
        _ => Frame::new_exercise(VarInt::try_from_u64(spec[1]).unwrap(), p),
    }
}
pub fn header_hdr(h: &StreamHeader) -> Vec<u64> {
    let (k, id) = match h.kind() {
        StreamKind::Control => (0, 0),
        StreamKind::QPackEncoder => (1, 2),
        StreamKind::QPackDecoder => (2, 3),
        StreamKind::WebTransport => (3, 0x54),
        StreamKind::Exercise(id) => (4, id.into_inner()),
    };
    match h.session_id() {
        Some(s) => vec![k, id, 1, s.into_u64()],
        None => vec![k, id, 0, 0],
    }
}
fn sperr_idx(e: &sh::ParseError) -> u64 {
    match e {
        sh::ParseError::UnknownStream => 0,
        sh::ParseError::InvalidSessionId => 1,
    }
}

pub fn exec(f: u32, a: &Args) -> Args {
    match f {
        201 => {
            let bs = a2b(&a[0]);
            let mut r: &[u8] = &bs;
            let res = Frame::read(&mut r);
            let consumed = (bs.len() - r.len()) as u64;
            match res {
                Ok(Some(fr)) => vec![vec![1, consumed], frame_hdr(&fr), b2a(fr.payload())],
                Ok(None) => vec![vec![0, consumed]],
                Err(e) => vec![vec![2, consumed, perr_idx(&e)]],
            }
        }
        202 => {
            let bs = a2b(&a[0]);
            let off = a[1][0] as usize;
            let mut r = BufferReader::new(&bs);
            r.skip(off).expect("generator keeps off within the buffer");
            let res = Frame::read_from_buffer(&mut r);
            let o = r.offset() as u64;
            match res {
                Ok(Some(fr)) => vec![vec![1, o], frame_hdr(&fr), b2a(fr.payload())],
                Ok(None) => vec![vec![0, o]],
                Err(e) => vec![vec![2, o, perr_idx(&e)]],
            }
        }
        203 => {
            let bs = a2b(&a[0]);
            let mut src = Src::new(&bs, sched_of(&a[1]), term_of(a[2][0]));
            let res = block_on(Frame::read_async(&mut src));
            let c = src.consumed() as u64;
            match res {
                Ok(fr) => vec![vec![1, c], frame_hdr(&fr), b2a(fr.payload())],
                Err(IoReadError::Parse(e)) => vec![vec![2, c, perr_idx(&e)]],
                Err(IoReadError::IO(e)) => vec![vec![3, c, ioerr_idx(&e)]],
            }
        }
        // write (Vec), write_size, async write with a partial-write schedule, read back (3 paths)
        204 => {
            let fr = mk_frame(&a[0], &a[1]);
            let mut buf: Vec<u8> = vec![];
            fr.write(&mut buf).unwrap();
            let size = fr.write_size() as u64;
            let mut sink = Sink::new(a[2].iter().map(|n| *n as usize).collect());
            block_on(fr.write_async(&mut sink)).unwrap();
            let mut with_tail = buf.clone();
            with_tail.push(0xAB);
            let mut r: &[u8] = &with_tail;
            let back = match Frame::read(&mut r) {
                Ok(Some(g)) => vec![vec![1, (with_tail.len() - r.len()) as u64], frame_hdr(&g), b2a(g.payload())],
                Ok(None) => vec![vec![0]],
                Err(e) => vec![vec![2, perr_idx(&e)]],
            };
            let mut out = vec![vec![1], b2a(&buf), vec![size], b2a(&sink.out)];
            out.extend(back);
            out
        }
        205 => {
            let cap = a[2][0] as usize;
            let fr = mk_frame(&a[0], &a[1]);
            let mut buf = vec![0xAAu8; cap];
            let mut w = BufferWriter::new(&mut buf);
            let r = fr.write_to_buffer(&mut w);
            let off = w.offset() as u64;
            vec![vec![r.is_ok() as u64], b2a(&buf), vec![off]]
        }
        206 => {
            let id = VarInt::try_from_u64(a[0][0]).unwrap();
            vec![vec![FrameKind::is_id_exercise(id) as u64, StreamKind::is_id_exercise(id) as u64]]
        }
        // GetVarint machine
        207 => {
            let bs = a2b(&a[0]);
            let mut src = Src::new(&bs, sched_of(&a[1]), term_of(a[2][0]));
            let res = block_on(src.get_varint());
            let c = src.consumed() as u64;
            let sp = src.sp as u64;
            match res {
                Ok(v) => vec![vec![1, c, sp, v.into_inner()]],
                Err(e) => vec![vec![3, c, sp, ioerr_idx(&e)]],
            }
        }
        // GetBuffer machine
        208 => {
            let n = a[3][0] as usize;
            let bs = a2b(&a[0]);
            let mut src = Src::new(&bs, sched_of(&a[1]), term_of(a[2][0]));
            let mut buf = vec![0u8; n];
            let res = block_on(src.get_buffer(&mut buf));
            let c = src.consumed() as u64;
            let sp = src.sp as u64;
            match res {
                Ok(()) => vec![vec![1, c, sp], b2a(&buf)],
                Err(e) => vec![vec![3, c, sp, ioerr_idx(&e)]],
            }
        }
        // PutVarint / PutBuffer with partial writes
        209 => {
            let v = VarInt::try_from_u64(a[0][0]).unwrap();
            let bs = a2b(&a[1]);
            let mut sink = Sink::new(a[2].iter().map(|n| *n as usize).collect());
            block_on(sink.put_varint(v)).unwrap();
            block_on(sink.put_buffer(&bs)).unwrap();
            vec![vec![1], b2a(&sink.out)]
        }
        251 => {
            let bs = a2b(&a[0]);
            let mut r: &[u8] = &bs;
            let res = StreamHeader::read(&mut r);
            let consumed = (bs.len() - r.len()) as u64;
            match res {
                Ok(Some(h)) => vec![vec![1, consumed], header_hdr(&h)],
                Ok(None) => vec![vec![0, consumed]],
                Err(e) => vec![vec![2, consumed, sperr_idx(&e)]],
            }
        }
        252 => {
            let bs = a2b(&a[0]);
            let off = a[1][0] as usize;
            let mut r = BufferReader::new(&bs);
            r.skip(off).expect("off within buffer");
            let res = StreamHeader::read_from_buffer(&mut r);
            let o = r.offset() as u64;
            match res {
                Ok(Some(h)) => vec![vec![1, o], header_hdr(&h)],
                Ok(None) => vec![vec![0, o]],
                Err(e) => vec![vec![2, o, sperr_idx(&e)]],
            }
        }
        253 => {
            let bs = a2b(&a[0]);
            let mut src = Src::new(&bs, sched_of(&a[1]), term_of(a[2][0]));
            let res = block_on(StreamHeader::read_async(&mut src));
            let c = src.consumed() as u64;
            match res {
                Ok(h) => vec![vec![1, c], header_hdr(&h)],
                Err(sh::IoReadError::Parse(e)) => vec![vec![2, c, sperr_idx(&e)]],
                Err(sh::IoReadError::IO(e)) => vec![vec![3, c, ioerr_idx(&e)]],
            }
        }
        // header round trip: spec [kind(0 control, 3 wt), sid], sink sched
        254 => {
            let h = if a[0][0] == 0 { StreamHeader::new_control() } else { StreamHeader::new_webtransport(sid(a[0][1])) };
            let mut buf: Vec<u8> = vec![];
            h.write(&mut buf).unwrap();
            let size = h.write_size() as u64;
            let mut sink = Sink::new(a[1].iter().map(|n| *n as usize).collect());
            block_on(h.write_async(&mut sink)).unwrap();
            let mut with_tail = buf.clone();
            with_tail.push(0xAB);
            let mut r: &[u8] = &with_tail;
            let back = match StreamHeader::read(&mut r) {
                Ok(Some(g)) => vec![vec![1, (with_tail.len() - r.len()) as u64], header_hdr(&g)],
                Ok(None) => vec![vec![0]],
                Err(e) => vec![vec![2, sperr_idx(&e)]],
            };
            let mut out = vec![vec![1], b2a(&buf), vec![size], b2a(&sink.out)];
            out.extend(back);
            out
        }
        255 => {
            let cap = a[1][0] as usize;
            let h = if a[0][0] == 0 { StreamHeader::new_control() } else { StreamHeader::new_webtransport(sid(a[0][1])) };
            let mut buf = vec![0xAAu8; cap];
            let mut w = BufferWriter::new(&mut buf);
            let r = h.write_to_buffer(&mut w);
            let off = w.offset() as u64;
            vec![vec![r.is_ok() as u64], b2a(&buf), vec![off]]
        }
        _ => panic!("frame: unknown f {}", f),
    }
}

/// C17 on the readers: a WebTransport signal / stream type followed by a complete varint v is
/// accepted exactly when v names a client-initiated bidirectional stream (v mod 4 = 0), for every
/// v up to 2^62-1, and the session id returned is v
fn session_id_oracle(first: u64, bytes: &[u64], out: &Args) -> Option<(&'static str, String)> {
    let vi = |b: &[u64]| -> Option<(u64, usize)> {
        let f0 = *b.first()?;
        let n = 1usize << (f0 >> 6);
        if b.len() < n { return None; }
        let mut v = f0 & 0x3f;
        for x in &b[1..n] { v = v << 8 | *x; }
        Some((v, n))
    };
    let (t, l) = vi(bytes)?;
    if t != first { return None; }
    let (v, _) = vi(&bytes[l..])?;
    if v % 4 == 0 {
        if out[0][0] != 1 || out[1][0] != 3 || out[1][2] != 1 || out[1][3] != v {
            return Some(("C17", format!("valid session id {} after 0x{:x} was not accepted as such: {:?}", v, first, out)));
        }
    } else if out[0][0] != 2 {
        return Some(("C17", format!("session id {} does not name a client-initiated bidirectional stream but was not refused: {:?}", v, out)));
    }
    None
}

pub fn oracle(f: u32, a: &Args, out: &Args) -> Option<(&'static str, String)> {
    // a stream that ends after the reader has consumed bytes of a frame did not end cleanly: "end of stream
    // before anything was read" (ImmediateFin) is only an answer when nothing was consumed (C12: a truncated
    // frame is H3_FRAME_ERROR; C04: a clean finish of the session stream means something else)
    if f == 203 && out[0].len() == 3 && out[0][0] == 3 && out[0][2] == 0 && out[0][1] > 0 {
        return Some(("C12+C15+C04+C05", format!("the stream ended after {} bytes of a frame had been consumed and the reader reported a clean end of stream", out[0][1])));
    }
    if f == 201 || (f == 203 && a[2][0] == 0) {
        if let Some(x) = session_id_oracle(0x41, &a[0], out) { return Some(x); }
    }
    if f == 251 || (f == 253 && a[2][0] == 0) {
        if let Some(x) = session_id_oracle(0x54, &a[0], out) { return Some(x); }
        // C13 / C12: the stream type decides, compared as the full 62-bit value: 0, 2, 3 and 0x54 are the
        // known ones, 0x21 + 0x1f n is reserved, everything else is unknown
        let b = &a[0];
        if let Some(f0) = b.first() {
            let n = 1usize << (f0 >> 6);
            if b.len() >= n {
                let mut t = f0 & 0x3f;
                for x in &b[1..n] { t = t << 8 | *x; }
                let known = t == 0 || t == 2 || t == 3 || t == 0x54;
                let grease = t >= 0x21 && (t - 0x21) % 0x1f == 0;
                if !known && !grease && !(out[0][0] == 2 && out[0][2] == 0) {
                    return Some(("C13+C12", format!("stream type {:#x} is unknown but the header reader returned {:?}", t, out)));
                }
                if grease && !(out[0][0] == 1 && out[1][0] == 4 && out[1][1] == t) {
                    return Some(("C13", format!("reserved stream type {:#x} was not recognised as such: {:?}", t, out)));
                }
            }
        }
    }
    match f {
        201 | 202 | 203 => {
            // C11: returned values respect their invariants
            if out[0][0] == 1 {
                let h = &out[1];
                if h[0] == 3 && (h[2] != 1 || h[3] % 4 != 0 || h[3] > MAXV) {
                    return Some(("C11", format!("WebTransport frame with invalid session id {}", h[3])));
                }
                if out[2].len() > 4096 {
                    return Some(("C11", format!("frame payload of {} bytes exceeds the parse limit", out[2].len())));
                }
            }
            // C15: read_from_buffer leaves the offset where it was unless a frame is returned
            if f == 202 && out[0][0] != 1 && out[0][1] != a[1][0] {
                return Some(("C15", format!("read_from_buffer moved the offset from {} to {} without returning a frame", a[1][0], out[0][1])));
            }
            if f == 203 {
                if let Some(m) = async_oracle(f, a, out) {
                    return Some((seg_label(&m), m));
                }
                // three paths agree on (value | error class, bytes consumed) when the source ends with FIN
                if a[2][0] == 0 {
                    let sync = super::exec(201, &vec![a[0].clone()]);
                    let agree = match (sync[0][0], out[0][0]) {
                        (1, 1) => sync[0][1] == out[0][1] && sync[1] == out[1] && sync[2] == out[2],
                        (2, 2) => sync[0][2] == out[0][2] && sync[0][1] == out[0][1],
                        (0, 3) => true,
                        _ => false,
                    };
                    if !agree {
                        // when the one-shot reader does return the frame, the async reader is not an inverse of the writer either
                        return Some((if sync[0][0] == 1 { "C15+C14" } else { "C15" }, format!("one-shot {:?} vs async {:?}", sync[0], out[0])));
                    }
                }
            }
            None
        }
        204 | 254 => {
            let bytes = &out[1];
            let size = out[2][0];
            if bytes.len() as u64 != size {
                return Some(("C14", format!("wrote {} bytes but write_size() = {}", bytes.len(), size)));
            }
            if out[3] != *bytes {
                return Some(("C14", "async writer emitted different bytes than the Vec writer".into()));
            }
            let back = &out[4];
            if f == 204 && a[0][0] != 3 && a[1].len() > 4096 {
                // beyond the parse limit the decoder must refuse, not truncate
                if back[0] != 2 {
                    return Some(("C11", format!("frame with {} byte payload was not refused: {:?}", a[1].len(), back)));
                }
                return None;
            }
            if back[0] != 1 || back[1] != size {
                return Some(("C14", format!("decode(encode) did not consume exactly the encoding: {:?}", back)));
            }
            // value equality
            let hdr = &out[5];
            let ok = if f == 204 {
                let spec = &a[0];
                let kind_ok = hdr[0] == spec[0];
                let id_ok = match spec[0] { 3 => hdr[2] == 1 && hdr[3] == spec[1], 4 => hdr[1] == spec[1], _ => true };
                let payload_ok = spec[0] == 3 || out[6] == a[1];
                kind_ok && id_ok && payload_ok
            } else {
                let spec = &a[0];
                (spec[0] == 0 && hdr[0] == 0) || (spec[0] != 0 && hdr[0] == 3 && hdr[2] == 1 && hdr[3] == spec[1])
            };
            if !ok {
                return Some(("C14", "decode(encode(x)) differs from x".into()));
            }
            None
        }
        205 | 255 => {
            let ok = out[0][0] == 1;
            if !ok && (out[2][0] != 0 || out[1].iter().any(|b| *b != 0xAA)) {
                return Some(("C14", "write_to_buffer failed but modified the destination".into()));
            }
            None
        }
        251 | 252 | 253 => {
            if out[0][0] == 1 {
                let h = &out[1];
                if h[0] == 3 && (h[2] != 1 || h[3] % 4 != 0 || h[3] > MAXV) {
                    return Some(("C11", format!("WebTransport stream header with invalid session id {}", h[3])));
                }
            }
            if f == 252 && out[0][0] != 1 && out[0][1] != a[1][0] {
                return Some(("C15", "read_from_buffer moved the offset without returning a header".into()));
            }
            if f == 253 {
                if let Some(m) = async_oracle(f, a, out) {
                    return Some((seg_label(&m), m));
                }
            }
            None
        }
        207 | 208 => async_oracle(f, a, out).map(|m| (seg_label(&m), m)),
        209 => {
            let mut expect = b2a(&enc(a[0][0]));
            expect.extend(&a[1]);
            if out[1] != expect {
                return Some(("C14+C16+C01", format!("async writers with partial writes / Pending emitted {} bytes instead of the {} of the encoding", out[1].len(), expect.len())));
            }
            None
        }
        _ => None,
    }
}

/// dependence of the outcome on how the bytes were cut is also what C05 excludes for the control plane
fn seg_label(m: &str) -> &'static str {
    if m.starts_with("outcome depends on chunking") { "C15+C05" } else { "C15" }
}

/// C15 on one async call: (a) the end-of-stream error distinguishes 'nothing read' from
/// 'partially read'; (b) the outcome does not depend on chunking / Pending (compare with the
/// same bytes delivered all at once).
fn async_oracle(f: u32, a: &Args, out: &Args) -> Option<String> {
    let tag = out[0][0];
    let consumed = out[0][1];
    let term = a[2][0];
    if tag == 3 {
        let e = *out[0].last().unwrap();
        if term == 0 && e == 0 && consumed != 0 {
            return Some(format!("ImmediateFin reported after {} bytes were consumed", consumed));
        }
        if term == 0 && e == 1 && consumed == 0 {
            return Some("UnexpectedFin reported although nothing was read".into());
        }
    }
    if !a[1].is_empty() {
        let mut b = a.clone();
        b[1] = vec![];
        let base = super::exec(f, &b);
        // position 2 of 207/208 is the schedule pointer: not comparable
        let norm = |o: &Args| -> Args {
            let mut o = o.clone();
            if f == 207 || f == 208 {
                o[0][2] = 0;
            }
            o
        };
        if norm(&base) != norm(out) {
            return Some(format!("outcome depends on chunking/Pending: {:?} vs all-at-once {:?}", out[0], base[0]));
        }
    }
    None
}

// ---------------- generators ----------------

pub fn grease_ids(rng: &mut Rng) -> Vec<u64> {
    let mut v = vec![0x21u64, 0x21 + 0x1f, 0x21 + 0x1f * 2, 0x21 + 0x1f * 500, 0x21 + 0x1f * 40_000_000];
    let n = (MAXV - 0x21) / 0x1f;
    v.push(0x21 + 0x1f * n);
    v.push(0x21 + 0x1f * rng.below(n));
    v
}
pub fn unknown_ids(rng: &mut Rng) -> Vec<u64> {
    let mut v = vec![2u64, 3, 5, 6, 7, 0x0d, 0x20, 0x22, 0x40, 0x42, 0x4242, 0x42_4242, 0x4000_0000, MAXV];
    for _ in 0..3 {
        let x = rng.varint();
        if x != 0 && x != 1 && x != 4 && x != 0x41 && !(x >= 0x21 && (x - 0x21) % 0x1f == 0) {
            v.push(x);
        }
    }
    v
}
pub fn session_ids(rng: &mut Rng) -> Vec<u64> {
    let mut v = vec![0u64, 4, 60, 64, 16380, 16384, (1 << 30) - 4, 1 << 30, (1 << 60) - 4, 1 << 60, (1 << 60) + 4, (1 << 61) + 8, MAXV - 3];
    v.push(rng.varint() & !3);
    v
}
pub fn bad_session_ids(rng: &mut Rng) -> Vec<u64> {
    vec![1, 2, 3, 5, 63, 16383, MAXV, MAXV - 1, MAXV - 2, rng.varint() | 1, (rng.varint() & !3) | 2]
}
pub fn raw_frame(id: u64, payload: &[u8]) -> Vec<u8> {
    let mut b = enc(id);
    b.extend(enc(payload.len() as u64));
    b.extend(payload);
    b
}
pub fn raw_wt(id: u64, s: u64) -> Vec<u8> {
    let mut b = enc(id);
    b.extend(enc(s));
    b
}
/// a library of encoded frames: (bytes, label)
pub fn frame_library(rng: &mut Rng, big: bool) -> Vec<(Vec<u8>, &'static str)> {
    let mut lib = vec![];
    let lens: Vec<usize> = if big { vec![0, 1, 2, 63, 64, 200, 4095, 4096] } else { vec![0, 1, 3, 64] };
    for id in [0u64, 1, 4] {
        for l in &lens {
            lib.push((raw_frame(id, &rng.bytes(*l)), "known"));
        }
    }
    for id in grease_ids(rng) {
        for l in [0usize, 5] {
            lib.push((raw_frame(id, &rng.bytes(l)), "grease"));
        }
    }
    for id in unknown_ids(rng) {
        for l in [0usize, 1, 7, 300] {
            lib.push((raw_frame(id, &rng.bytes(l)), "unknown"));
        }
        // payload that itself looks like frames
        let mut inner = raw_frame(4, &[]);
        inner.extend(raw_frame(0, &[1, 2]));
        inner.extend(raw_wt(0x41, 0));
        lib.push((raw_frame(id, &inner), "unknown-with-frames-inside"));
    }
    if big {
        for id in [7u64, 0x4242] {
            for l in [4096usize, 4097, 5000] {
                lib.push((raw_frame(id, &rng.bytes(l)), "unknown-big-payload"));
            }
        }
    }
    for s in session_ids(rng) {
        lib.push((raw_wt(0x41, s), "webtransport"));
    }
    for s in bad_session_ids(rng) {
        lib.push((raw_wt(0x41, s), "webtransport-invalid-sid"));
    }
    // oversize declared lengths (payload need not be there)
    for id in [0u64, 1, 4, 0x21] {
        for l in [4097u64, 16384, 1 << 30, MAXV] {
            let mut b = enc(id);
            b.extend(enc(l));
            b.extend(rng.bytes(3));
            lib.push((b, "oversize"));
        }
    }
    for id in [7u64, 0x4242] {
        for l in [4097u64, 1 << 30, MAXV] {
            let mut b = enc(id);
            b.extend(enc(l));
            b.extend(rng.bytes(5));
            lib.push((b, "unknown-huge-length"));
        }
    }
    lib
}

pub fn schedules(rng: &mut Rng, len: usize, thorough: bool) -> Vec<Vec<u64>> {
    let mut v = vec![vec![], vec![1; len + 2], vec![0, 1].repeat(len + 2)];
    // cut at one offset
    let k = if thorough { 4 } else { 2 };
    for _ in 0..k {
        let mut s = vec![];
        let mut left = len + 1;
        while left > 0 {
            if rng.below(3) == 0 {
                s.push(0);
            } else {
                let c = rng.range(1, 5.min(left as u64).max(1));
                s.push(c);
                left = left.saturating_sub(c as usize);
            }
            if s.len() > 3 * len + 10 {
                break;
            }
        }
        v.push(s);
    }
    v
}

pub fn generate_frame(rng: &mut Rng, thorough: bool) -> Vec<Case> {
    let mut cs = vec![];
    let lib = frame_library(rng, true);
    cs.push(Case::triv(201, vec![vec![]], "empty"));
    cs.push(Case::triv(203, vec![vec![], vec![], vec![0]], "empty"));
    for (bytes, label) in &lib {
        // exact, with tail, every proper prefix (short ones), through the 3 paths
        let mut tail = bytes.clone();
        tail.extend(rng.bytes(4));
        cs.push(Case::new(201, vec![b2a(bytes)], label));
        cs.push(Case::new(201, vec![b2a(&tail)], label));
        let off = rng.below(3);
        let mut pre = rng.bytes(off as usize);
        pre.extend(&tail);
        cs.push(Case::new(202, vec![b2a(&pre), vec![off]], label));
        let big = bytes.len() > 600 && !thorough;
        for term in 0..3u64 {
            if big && term != rng.below(3) {
                continue;
            }
            let sch = schedules(rng, bytes.len().min(12), false);
            let s = rng.pick(&sch).clone();
            cs.push(Case::new(203, vec![b2a(&tail), s, vec![term]], label));
        }
        let cuts: Vec<usize> = if bytes.len() <= 24 { (0..bytes.len()).collect() } else if big {
            vec![1, 3, bytes.len() - 1]
        } else {
            let mut c: Vec<usize> = (0..12).collect();
            c.push(bytes.len() / 2);
            c.push(bytes.len() - 1);
            c
        };
        // long frames cut where a chunked reader could have a boundary (powers of two behind any header
        // length), with every way the stream can end there: the verdict is that of any other cut
        if bytes.len() > 300 {
            for hdr in 2..=5usize {
                for k in [255usize, 256, 257, 512, 1024, 2048, 3072, 4096] {
                    let cut = hdr + k;
                    if cut >= bytes.len() { continue; }
                    for term in 0..3u64 {
                        cs.push(Case::new(203, vec![b2a(&bytes[..cut]), vec![], vec![term]], "prefix-on-chunk-boundary"));
                    }
                    cs.push(Case::new(201, vec![b2a(&bytes[..cut])], "prefix-on-chunk-boundary"));
                }
            }
        }
        for cut in cuts {
            let p = &bytes[..cut];
            cs.push(Case::new(201, vec![b2a(p)], "prefix"));
            let mut pre2 = vec![0x55u8; 2];
            pre2.extend(p);
            cs.push(Case::new(202, vec![b2a(&pre2), vec![2]], "prefix"));
            let term = rng.below(3);
            let sch = schedules(rng, p.len().min(10), false);
            let s = rng.pick(&sch).clone();
            cs.push(Case::new(203, vec![b2a(p), s, vec![term]], "prefix"));
        }
    }
    // exhaustive short strings through the three paths
    for b0 in 0..256u64 {
        cs.push(Case::new(201, vec![vec![b0]], "exhaustive-1"));
        cs.push(Case::new(203, vec![vec![b0], vec![], vec![0]], "exhaustive-1"));
    }
    let stride = if thorough { 1 } else { 11 };
    let mut i = 0u64;
    while i < 65536 {
        let (b0, b1) = (i >> 8, i & 255);
        cs.push(Case::new(201, vec![vec![b0, b1]], "exhaustive-2"));
        if i % 3 == 0 {
            cs.push(Case::new(203, vec![vec![b0, b1], vec![1, 0, 1], vec![0]], "exhaustive-2"));
        }
        i += stride;
    }
    // single-byte mutations of valid frames
    let n_mut = if thorough { 3000 } else { 400 };
    for _ in 0..n_mut {
        let (bytes, _) = rng.pick(&lib).clone();
        if bytes.is_empty() || bytes.len() > 600 {
            continue;
        }
        let mut m = bytes.clone();
        let pos = rng.below(m.len().min(12) as u64) as usize;
        m[pos] = rng.byte();
        cs.push(Case::new(201, vec![b2a(&m)], "mutation"));
        let term = rng.below(3);
        cs.push(Case::new(203, vec![b2a(&m), vec![2, 0, 3], vec![term]], "mutation"));
    }
    // round trips
    let plens: Vec<usize> = if thorough { vec![0, 1, 63, 64, 4095, 4096, 4097, 16383, 16384, 70000] } else { vec![0, 1, 63, 64, 4096, 4097, 16384] };
    for kind in [0u64, 1, 2] {
        for l in &plens {
            let p = b2a(&rng.bytes(*l));
            let sink: Vec<u64> = vec![1, 0, 2, 0, 3];
            cs.push(Case::new(204, vec![vec![kind, 0], p.clone(), sink], "roundtrip"));
            let size = 1 + enc(*l as u64).len() + *l;
            for cap in [0usize, size - 1, size, size + 1] {
                if *l <= 4097 {
                    cs.push(Case::new(205, vec![vec![kind, 0], p.clone(), vec![cap as u64]], "cap"));
                }
            }
        }
    }
    for id in grease_ids(rng) {
        let p = b2a(&rng.bytes(9));
        cs.push(Case::new(204, vec![vec![4, id], p.clone(), vec![]], "roundtrip-grease"));
        cs.push(Case::new(205, vec![vec![4, id], p, vec![3]], "cap"));
    }
    for s in session_ids(rng) {
        cs.push(Case::new(204, vec![vec![3, s], vec![], vec![1, 1]], "roundtrip-wt"));
        let size = 2 + enc(s).len();
        for cap in [0usize, size - 1, size, size + 1] {
            cs.push(Case::new(205, vec![vec![3, s], vec![], vec![cap as u64]], "cap"));
        }
    }
    // exercise predicate
    for id in 0..200u64 {
        cs.push(Case::new(206, vec![vec![id]], "is_exercise"));
    }
    for id in grease_ids(rng) {
        for d in [0u64, 1, 30, 31] {
            if id + d <= MAXV {
                cs.push(Case::new(206, vec![vec![id + d]], "is_exercise"));
            }
        }
    }
    // machines
    for v in boundaries() {
        let e = enc(v);
        let mut t = e.clone();
        t.extend(rng.bytes(2));
        for term in 0..3u64 {
            for s in schedules(rng, e.len(), thorough) {
                cs.push(Case::new(207, vec![b2a(&t), s.clone(), vec![term]], "get_varint-machine"));
                for cut in 0..e.len() {
                    cs.push(Case::new(207, vec![b2a(&e[..cut]), s.clone(), vec![term]], "get_varint-machine-prefix"));
                }
            }
        }
        cs.push(Case::new(209, vec![vec![v], b2a(&rng.bytes(5)), vec![1, 0, 0, 2, 1]], "put-machines"));
        // longer payloads: a few bytes accepted, then Pending, again and again
        for sched in [vec![8u64, 0, 8, 0, 8, 0, 8], vec![1, 1, 0, 5, 0, 0, 3, 0, 64], vec![3, 0, 3, 0, 3, 0, 3, 0, 3, 0, 300]] {
            let n = 10 + rng.below(30) as usize;
            cs.push(Case::new(209, vec![vec![v], b2a(&rng.bytes(n)), sched], "put-machines-long"));
        }
    }
    for n in [0usize, 1, 2, 5, 17] {
        for avail in [0usize, 1, n.saturating_sub(1), n, n + 3] {
            let d = rng.bytes(avail);
            for term in 0..3u64 {
                for s in schedules(rng, avail, false) {
                    cs.push(Case::new(208, vec![b2a(&d), s, vec![term], vec![n as u64]], "get_buffer-machine"));
                }
            }
        }
    }
    cs
}

pub fn generate_sheader(rng: &mut Rng, thorough: bool) -> Vec<Case> {
    let mut cs = vec![];
    let mut lib: Vec<(Vec<u8>, &'static str)> = vec![];
    for id in [0u64, 2, 3] {
        lib.push((enc(id), "known"));
    }
    for id in grease_ids(rng) {
        lib.push((enc(id), "grease"));
    }
    for id in [1u64, 4, 5, 0x20, 0x22, 0x41, 0x42, 0x53, 0x55, 0x4242, 1 << 30, MAXV,
               // 8-byte types whose low 32 bits look like a known type
               0x1_0000_0000, 0x1_0000_0002, 0x1_0000_0003, 0x1_0000_0054, 0x3fff_ffff_0000_0054, 0x2_0000_0021] {
        lib.push((enc(id), "unknown"));
    }
    for s in session_ids(rng) {
        lib.push((raw_wt(0x54, s), "webtransport"));
    }
    for s in bad_session_ids(rng) {
        lib.push((raw_wt(0x54, s), "webtransport-invalid-sid"));
    }
    // non-minimal type encodings
    lib.push((vec![0x40, 0x54, 0x00], "non-minimal"));
    lib.push((vec![0x80, 0, 0, 0x54, 0x04], "non-minimal"));
    cs.push(Case::triv(251, vec![vec![]], "empty"));
    for (bytes, label) in &lib {
        let mut tail = bytes.clone();
        tail.extend(rng.bytes(3));
        cs.push(Case::new(251, vec![b2a(bytes)], label));
        cs.push(Case::new(251, vec![b2a(&tail)], label));
        let mut pre = vec![9u8];
        pre.extend(&tail);
        cs.push(Case::new(252, vec![b2a(&pre), vec![1]], label));
        for term in 0..3u64 {
            for s in schedules(rng, bytes.len(), thorough) {
                cs.push(Case::new(253, vec![b2a(&tail), s.clone(), vec![term]], label));
            }
        }
        for cut in 0..bytes.len() {
            let p = &bytes[..cut];
            cs.push(Case::new(251, vec![b2a(p)], "prefix"));
            let mut pre2 = vec![9u8, 9];
            pre2.extend(p);
            cs.push(Case::new(252, vec![b2a(&pre2), vec![2]], "prefix"));
            for term in 0..3u64 {
                cs.push(Case::new(253, vec![b2a(p), vec![1, 0, 1, 0], vec![term]], "prefix"));
            }
        }
    }
    for b0 in 0..256u64 {
        cs.push(Case::new(251, vec![vec![b0]], "exhaustive-1"));
        cs.push(Case::new(253, vec![vec![b0], vec![], vec![0]], "exhaustive-1"));
    }
    let stride = if thorough { 1 } else { 7 };
    let mut i = 0u64;
    while i < 65536 {
        cs.push(Case::new(251, vec![vec![i >> 8, i & 255]], "exhaustive-2"));
        i += stride;
    }
    cs.push(Case::new(254, vec![vec![0, 0], vec![]], "roundtrip"));
    cs.push(Case::new(255, vec![vec![0, 0], vec![0]], "cap"));
    cs.push(Case::new(255, vec![vec![0, 0], vec![1]], "cap"));
    for s in session_ids(rng) {
        cs.push(Case::new(254, vec![vec![3, s], vec![1, 0, 1]], "roundtrip-wt"));
        let size = 2 + enc(s).len();
        for cap in [0usize, size - 1, size, size + 1, 16] {
            cs.push(Case::new(255, vec![vec![3, s], vec![cap as u64]], "cap"));
        }
    }
    cs
}
