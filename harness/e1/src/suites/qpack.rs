//! Suite "qpack" (500s): QPACK encoder/decoder, Huffman (httlib), header maps.
use crate::rng::Rng;
use crate::{a2b, b2a, Args, Case};
use wtransport_proto::frame::Frame;
use wtransport_proto::headers::Headers;
use wtransport_proto::qpack::{Decoder, DecodingError, Encoder};

fn qerr_idx(e: &DecodingError) -> u64 {
    match e {
        DecodingError::UnexpectedFin => 0,
        DecodingError::IntegerOverflow => 1,
        DecodingError::InvalidString => 2,
        DecodingError::DynamicNotSupported => 3,
        DecodingError::IndexNotfound => 4,
    }
}

fn sorted_entries(m: &std::collections::HashMap<String, String>) -> Args {
    let mut v: Vec<(&String, &String)> = m.iter().collect();
    v.sort();
    let mut out = vec![vec![1, v.len() as u64]];
    for (k, val) in v {
        out.push(b2a(k.as_bytes()));
        out.push(b2a(val.as_bytes()));
    }
    out
}

fn pairs_of(a: &Args) -> Vec<(String, String)> {
    let mut v = vec![];
    let mut i = 0;
    while i + 1 < a.len() {
        v.push((String::from_utf8(a2b(&a[i])).expect("generator gives UTF-8"), String::from_utf8(a2b(&a[i + 1])).expect("UTF-8")));
        i += 2;
    }
    v
}

pub fn exec(f: u32, a: &Args) -> Args {
    match f {
        501 => match Decoder::decode(a2b(&a[0])) {
            Ok(m) => sorted_entries(&m),
            Err(e) => vec![vec![2, qerr_idx(&e)]],
        },
        502 => {
            let pairs = pairs_of(a);
            let enc = Encoder::encode(pairs.iter().map(|(k, v)| (k.as_str(), v.as_str())));
            vec![vec![1], b2a(&enc)]
        }
        // Headers: from_iter -> generate_frame -> with_frame
        503 => {
            let pairs = pairs_of(a);
            let h: Headers = pairs.iter().map(|(k, v)| (k.clone(), v.clone())).collect();
            let fr = h.generate_frame();
            let payload = fr.payload().to_vec();
            let back = Headers::with_frame(&Frame::new_headers(payload.clone().into()));
            let mut out = vec![vec![1], b2a(&payload)];
            match back {
                Ok(h2) => out.extend(sorted_entries(h2.as_ref())),
                Err(e) => out.push(vec![2, crate::suites::typestate::ecode_idx(e)]),
            }
            out
        }
        504 => {
            let mut dst = vec![];
            match httlib_huffman::encode(&a2b(&a[0]), &mut dst) {
                Ok(()) => vec![vec![1], b2a(&dst)],
                Err(_) => vec![vec![0]],
            }
        }
        505 => {
            let mut dst = vec![];
            match httlib_huffman::decode(&a2b(&a[0]), &mut dst, httlib_huffman::DecoderSpeed::OneBit) {
                Ok(()) => vec![vec![1], b2a(&dst)],
                Err(_) => vec![vec![0]],
            }
        }
        _ => panic!("qpack: unknown f {}", f),
    }
}

/// the mathematical value of the prefix integer starting at b[0] (prefix width n), None if truncated
fn math_int(b: &[u64], n: u32) -> Option<u128> {
    let mask = (1u128 << n) - 1;
    let mut v = (*b.first()? as u128) & mask;
    if v < mask {
        return Some(v);
    }
    let mut power = 0u32;
    for x in &b[1..] {
        if power > 110 {
            return Some(u128::MAX);
        }
        v = v.saturating_add(((*x as u128) & 0x7f) << power);
        power += 7;
        if x & 0x80 == 0 {
            return Some(v);
        }
    }
    None
}

/// independent walk over an encoded field section (RFC 9204 4.5): for each field line whether its
/// name is a pseudo-header; Err if anything but static-table / literal representations is used
fn walk_section(b: &[u64]) -> Result<Vec<bool>, String> {
    walk_fields(b).map(|v| v.iter().map(|(k, _)| k.first() == Some(&b':')).collect())
}

/// independent decoder of an encoded field section (RFC 9204 4.5 with the frozen static table):
/// the (name, value) pairs in emission order; Err if anything but static-table / literal
/// representations is used
fn walk_fields(b: &[u64]) -> Result<Vec<(Vec<u8>, Vec<u8>)>, String> {
    use super::static_ref::STATIC_REF;
    fn int(b: &[u64], pos: &mut usize, n: u32) -> Result<u64, String> {
        let v = math_int(&b[*pos..], n).ok_or("truncated integer")?;
        let mask = (1u64 << n) - 1;
        if b[*pos] & mask == mask {
            *pos += 1;
            while b[*pos] & 0x80 != 0 {
                *pos += 1;
            }
        }
        *pos += 1;
        u64::try_from(v).map_err(|_| "integer too large".to_string())
    }
    fn string(b: &[u64], pos: &mut usize, n: u32) -> Result<Vec<u8>, String> {
        if *pos >= b.len() {
            return Err("truncated string".into());
        }
        let h = b[*pos] >> n & 1 == 1;
        let len = int(b, pos, n)? as usize;
        if *pos + len > b.len() {
            return Err(format!("string of {} bytes overruns the section", len));
        }
        let raw: Vec<u8> = b[*pos..*pos + len].iter().map(|x| *x as u8).collect();
        *pos += len;
        if h {
            let mut dst = vec![];
            httlib_huffman::decode(&raw, &mut dst, httlib_huffman::DecoderSpeed::OneBit).map_err(|_| "bad Huffman string".to_string())?;
            Ok(dst)
        } else {
            Ok(raw)
        }
    }
    if b.len() < 2 || b[0] != 0 || b[1] != 0 {
        return Err("section prefix is not 00 00 (required insert count 0, base 0)".into());
    }
    let mut pos = 2;
    let mut flags: Vec<(Vec<u8>, Vec<u8>)> = vec![];
    while pos < b.len() {
        let x = b[pos];
        if x & 0x80 != 0 {
            if x & 0x40 == 0 {
                return Err("indexed field line refers to the dynamic table".into());
            }
            let i = int(b, &mut pos, 6)?;
            if i > 98 {
                return Err(format!("static index {} out of range", i));
            }
            flags.push((STATIC_REF[i as usize].0.as_bytes().to_vec(), STATIC_REF[i as usize].1.as_bytes().to_vec()));
        } else if x & 0x40 != 0 {
            if x & 0x10 == 0 {
                return Err("literal field line with a dynamic name reference".into());
            }
            let i = int(b, &mut pos, 4)?;
            if i > 98 {
                return Err(format!("static index {} out of range", i));
            }
            let v = string(b, &mut pos, 7)?;
            flags.push((STATIC_REF[i as usize].0.as_bytes().to_vec(), v));
        } else if x & 0x20 != 0 {
            let name = string(b, &mut pos, 3)?;
            let v = string(b, &mut pos, 7)?;
            flags.push((name, v));
        } else {
            return Err("post-base representation with a zero-capacity table".into());
        }
    }
    Ok(flags)
}

pub fn oracle(f: u32, a: &Args, out: &Args) -> Option<(&'static str, String)> {
    match f {
        501 => {
            // C11: a numeric field too large to represent is an error, never a silently wrong value.
            // Section prefix 00 00, then an indexed static field line: its index, computed here with
            // 128-bit arithmetic, must either fit 64 bits or be refused.
            let b = &a[0];
            if b.len() >= 3 && b[0] == 0 && b[1] == 0 && b[2] >> 6 == 3 {
                if let Some(v) = math_int(&b[2..], 6) {
                    if v > u64::MAX as u128 && out[0][0] == 1 {
                        return Some(("C11", format!("QPACK index {} does not fit 64 bits but the section decoded to {} fields", v, out[0][1])));
                    }
                    if v >= 99 && v <= u64::MAX as u128 && out[0][0] == 1 {
                        return Some(("C11", format!("QPACK static index {} is out of the table but the section decoded", v)));
                    }
                }
            }
            None
        }
        503 => {
            // C14/C02: the header map survives encode -> decode (when within the parse limit the frame layer imposes)
            let mut pairs = pairs_of(a);
            // HashMap semantics: last insert wins
            let mut m = std::collections::HashMap::new();
            for (k, v) in pairs.drain(..) {
                m.insert(k, v);
            }
            let expect = sorted_entries(&m);
            let rt = if out[2..] != expect[..] { Some(format!("header map does not round-trip ({} fields)", m.len())) } else { None };
            // C16: the emitted section, walked by an independent reader, uses only static/literal
            // representations and puts pseudo-header fields first
            let wf = match walk_section(&out[1]) {
                Err(e) => Some(format!("emitted field section is not well-formed: {}", e)),
                Ok(flags) => {
                    let mut seen_regular = false;
                    let mut bad = None;
                    // what an independent decoder reads is exactly the map that went in
                    if let Ok(fields) = walk_fields(&out[1]) {
                        let mut got: Vec<(String, String)> = fields.iter().map(|(k, v)| (String::from_utf8_lossy(k).into_owned(), String::from_utf8_lossy(v).into_owned())).collect();
                        let mut want: Vec<(String, String)> = m.iter().map(|(k, v)| (k.clone(), v.clone())).collect();
                        got.sort();
                        want.sort();
                        if got != want {
                            let diff = got.iter().find(|x| !want.contains(x)).cloned();
                            bad = Some(format!("an independent decoder reads a different field set from the emitted section (e.g. {:?})", diff));
                        }
                    }
                    if flags.len() != m.len() {
                        bad = Some(format!("emitted section has {} field lines for {} fields", flags.len(), m.len()));
                    }
                    for p in flags {
                        if p && seen_regular && bad.is_none() {
                            bad = Some("a pseudo-header field is emitted after a regular field".to_string());
                        }
                        seen_regular |= !p;
                    }
                    bad
                }
            };
            return match (rt, wf) {
                (Some(r), Some(w)) => Some(("C14+C02+C16", format!("{}; {}", r, w))),
                (Some(r), None) => Some(("C14+C02", r)),
                (None, Some(w)) => Some(("C16+C02", w)),
                (None, None) => None,
            };
        }
        504 => {
            // Huffman: decode(encode(s)) = s
            if out[0][0] == 1 {
                let mut dst = vec![];
                let ok = httlib_huffman::decode(&a2b(&out[1]), &mut dst, httlib_huffman::DecoderSpeed::OneBit).is_ok();
                if !ok || b2a(&dst) != a[0] {
                    return Some(("C14", "Huffman decode(encode(s)) != s".into()));
                }
            }
            None
        }
        _ => None,
    }
}

// ---------- generators ----------
const NAMES: [&str; 20] = [
    ":method", ":scheme", ":protocol", ":authority", ":path", ":status", "origin", "user-agent", "accept",
    "content-type", "x-custom", "sec-webtransport-http3-draft", "cookie", "x",
    // names that differ from a static-table name only by case: they are different strings
    "Origin", "Content-Type", "ACCEPT", "Cookie", "X-Custom", "User-Agent",
];

fn rand_token(rng: &mut Rng, n: usize) -> String {
    const AL: &[u8] = b"abcdefghijklmnopqrstuvwxyz0123456789-_.";
    (0..n).map(|_| *rng.pick(AL) as char).collect()
}
fn rand_value(rng: &mut Rng, n: usize) -> String {
    match rng.below(4) {
        // Huffman-friendly
        0 => (0..n).map(|_| *rng.pick(b"aeiost0123 /-.") as char).collect(),
        // Huffman-hostile (long codes): the raw form is shorter
        1 => (0..n).map(|_| *rng.pick(b"\\^`{}<>#$@~|!") as char).collect(),
        // non-ASCII UTF-8
        2 => {
            let mut s = String::new();
            while s.len() < n {
                s.push(*rng.pick(&['\u{e9}', '\u{20ac}', 'a', '\u{10348}', '/', '\u{7ff}']));
            }
            s
        }
        _ => rand_token(rng, n),
    }
}

pub fn int_boundaries() -> Vec<u64> {
    vec![0, 1, 6, 7, 8, 14, 15, 16, 30, 31, 62, 63, 64, 98, 99, 100, 126, 127, 128, 129, 254, 255, 256, 16382, 16383, 16384, 16385, 2097151, 2097152]
}

/// prefix integer bytes as the RFC writes them (independent of the implementation)
pub fn raw_int(n: u32, flags: u64, value: u64) -> Vec<u8> {
    let mask = (1u64 << n) - 1;
    let fl = ((flags << n) & 0xff) as u8;
    if value < mask {
        return vec![fl | value as u8];
    }
    let mut v = vec![fl | mask as u8];
    let mut rem = value - mask;
    while rem >= 128 {
        v.push((rem % 128) as u8 | 0x80);
        rem /= 128;
    }
    v.push(rem as u8);
    v
}

pub fn generate(rng: &mut Rng, thorough: bool) -> Vec<Case> {
    let mut cs = vec![];
    let k = if thorough { 8 } else { 1 };
    // ---- Huffman: every symbol, every pair (thorough) / sampled pairs, random strings
    cs.push(Case::triv(504, vec![vec![]], "empty"));
    cs.push(Case::triv(505, vec![vec![]], "empty"));
    for s in 0..256u64 {
        cs.push(Case::new(504, vec![vec![s]], "huffman-symbol"));
        cs.push(Case::new(504, vec![vec![s, s, s]], "huffman-symbol-x3"));
        cs.push(Case::new(505, vec![vec![s]], "huffman-decode-1"));
    }
    let pair_stride = if thorough { 1 } else { 37 };
    let mut i = 0u64;
    while i < 65536 {
        cs.push(Case::new(504, vec![vec![i >> 8, i & 255]], "huffman-pair"));
        i += pair_stride;
    }
    let dstride = if thorough { 1 } else { 11 };
    let mut i = 0u64;
    while i < 65536 {
        cs.push(Case::new(505, vec![vec![i >> 8, i & 255]], "huffman-decode-2"));
        i += dstride;
    }
    for _ in 0..300 * k {
        let n = rng.range(1, 40) as usize;
        let s = rand_value(rng, n);
        cs.push(Case::new(504, vec![b2a(s.as_bytes())], "huffman-string"));
        let m = rng.range(1, 12) as usize;
        cs.push(Case::new(505, vec![b2a(&rng.bytes(m))], "huffman-decode-random"));
        // valid encoding with mutated last byte (padding rules)
        let mut e = vec![];
        httlib_huffman::encode(s.as_bytes(), &mut e).unwrap();
        if !e.is_empty() {
            let l = e.len() - 1;
            e[l] ^= 1 << rng.below(8);
            cs.push(Case::new(505, vec![b2a(&e)], "huffman-decode-padding-mutation"));
        }
    }
    for pad in [vec![0xffu8], vec![0xff, 0xff], vec![0xff, 0xff, 0xff, 0xff], vec![0x00], vec![0x7f], vec![0xfe], vec![0x1f], vec![0x3f, 0xff, 0xff, 0xff]] {
        cs.push(Case::new(505, vec![b2a(&pad)], "huffman-decode-padding"));
    }
    // ---- decoder: integers through the section prefix and through field lines
    cs.push(Case::triv(501, vec![vec![]], "empty"));
    for n in [8u32, 7] {
        for v in int_boundaries() {
            let mut b = if n == 8 { raw_int(8, 0, v) } else { let mut x = vec![0u8]; x.extend(raw_int(7, 0, v)); x };
            if n == 8 { b.push(0); }
            b.push(0xc0 | 17);
            cs.push(Case::new(501, vec![b2a(&b)], "prefix-int"));
        }
    }
    for i in 0..140u64 {
        let mut b = vec![0u8, 0];
        b.extend(raw_int(6, 3, i));
        cs.push(Case::new(501, vec![b2a(&b)], "indexed-static"));
        let mut d = vec![0u8, 0];
        d.extend(raw_int(6, 2, i));
        cs.push(Case::new(501, vec![b2a(&d)], "indexed-dynamic"));
        let mut l = vec![0u8, 0];
        l.extend(raw_int(4, 5, i));
        l.extend(raw_int(7, 0, 2));
        l.extend(b"ok");
        cs.push(Case::new(501, vec![b2a(&l)], "literal-name-ref"));
    }
    // continuation runs: the C11 defect class (maximal runs, zero and non-zero groups)
    for run in 1..=12usize {
        for last in [0u8, 1, 2, 0x7f] {
            for fill in [0x80u8, 0x81, 0xff] {
                let mut b = vec![0u8, 0, 0xff];
                b.extend(std::iter::repeat(fill).take(run));
                b.push(last);
                cs.push(Case::new(501, vec![b2a(&b)], "continuation-run"));
                let mut c = vec![0xffu8];
                c.extend(std::iter::repeat(fill).take(run));
                c.push(last);
                c.push(0);
                cs.push(Case::new(501, vec![b2a(&c)], "continuation-run-prefix"));
            }
        }
    }
    for v in [u64::MAX, u64::MAX - 1, (u64::MAX - 62), 1 << 63, (1 << 63) - 1, 1 << 56, (1 << 57) + 3] {
        let mut b = vec![0u8, 0];
        b.extend(raw_int(6, 3, v));
        cs.push(Case::new(501, vec![b2a(&b)], "huge-index"));
        let mut s = vec![0u8, 0];
        s.extend(raw_int(3, 4, v));
        s.extend(b"abc");
        cs.push(Case::new(501, vec![b2a(&s)], "huge-string-length"));
    }
    // declared string lengths at every power of two (and its neighbours), Huffman bit on and off, in the
    // three places a string can stand: literal name, value after a static name reference, value after a
    // literal name -- the decoder must answer with an error whatever arithmetic it does on the length
    for k in 3..64u32 {
        for v in [(1u64 << k) - 1, 1u64 << k, (1u64 << k) + 1, (1u64 << k) + (1u64 << (k - 1))] {
            for h in [0u64, 1] {
                // literal field line with literal name: 001 N H len(3+)
                let mut b = vec![0u8, 0];
                b.extend(raw_int(3, 4 | h, v));
                b.extend(b"abc");
                cs.push(Case::new(501, vec![b2a(&b)], "string-length-pow2-name"));
                if k % 4 == 1 || v == 1u64 << k {
                    // literal with static name reference (index 1): value H len(7+)
                    let mut b = vec![0u8, 0, 0x51];
                    b.extend(raw_int(7, h, v));
                    b.extend(b"abc");
                    cs.push(Case::new(501, vec![b2a(&b)], "string-length-pow2-value"));
                    // literal name 'a', then the value
                    let mut b = vec![0u8, 0, 0x21, 0x61];
                    b.extend(raw_int(7, h, v));
                    b.extend(b"abc");
                    cs.push(Case::new(501, vec![b2a(&b)], "string-length-pow2-value2"));
                }
            }
        }
    }
    // string forms
    for (name, val) in [("x", "y"), ("origin", "https://example.com"), ("a\u{e9}", "\u{20ac}"), ("", "")] {
        for hname in [false, true] {
            for hval in [false, true] {
                let mut b = vec![0u8, 0];
                let put = |b: &mut Vec<u8>, n: u32, flags: u64, s: &str, h: bool| {
                    let data = if h { let mut e = vec![]; httlib_huffman::encode(s.as_bytes(), &mut e).unwrap(); e } else { s.as_bytes().to_vec() };
                    b.extend(raw_int(n, (flags << 1) | h as u64, data.len() as u64));
                    b.extend(data);
                };
                put(&mut b, 3, 2, name, hname);
                put(&mut b, 7, 0, val, hval);
                cs.push(Case::new(501, vec![b2a(&b)], "literal-literal"));
                for cut in 2..b.len() {
                    cs.push(Case::new(501, vec![b2a(&b[..cut])], "literal-truncated"));
                }
            }
        }
    }
    // invalid strings: non-UTF-8 raw, bad Huffman padding, EOS inside
    for bad in [vec![0xffu8, 0xfe], vec![0xc0, 0x80], vec![0xed, 0xa0, 0x80]] {
        let mut b = vec![0u8, 0];
        b.extend(raw_int(3, 4, 1));
        b.push(b'k');
        b.extend(raw_int(7, 0, bad.len() as u64));
        b.extend(&bad);
        cs.push(Case::new(501, vec![b2a(&b)], "non-utf8-value"));
        let mut h = vec![0u8, 0];
        h.extend(raw_int(3, 4, 1));
        h.push(b'k');
        h.extend(raw_int(7, 1, bad.len() as u64));
        h.extend(&bad);
        cs.push(Case::new(501, vec![b2a(&h)], "huffman-value-bytes"));
    }
    for b0 in 0..256u64 {
        cs.push(Case::new(501, vec![vec![0, 0, b0]], "first-byte"));
        cs.push(Case::new(501, vec![vec![0, 0, b0, 0x01, 0x61, 0x01, 0x62]], "first-byte-x-tail"));
        cs.push(Case::new(501, vec![vec![b0]], "exhaustive-1"));
    }
    let stride = if thorough { 1 } else { 9 };
    let mut i = 0u64;
    while i < 65536 {
        cs.push(Case::new(501, vec![vec![0, 0, i >> 8, i & 255]], "exhaustive-2-after-prefix"));
        i += stride;
    }
    for _ in 0..300 * k {
        let n = rng.range(1, 16) as usize;
        let mut b = vec![0u8, 0];
        b.extend(rng.bytes(n));
        cs.push(Case::new(501, vec![b2a(&b)], "random"));
    }
    // duplicate keys on the decode side (last wins)
    {
        let mut b = vec![0u8, 0];
        for v in ["1", "2", "3"] {
            b.extend(raw_int(3, 4, 1));
            b.push(b'k');
            b.extend(raw_int(7, 0, 1));
            b.extend(v.as_bytes());
        }
        b.extend(raw_int(6, 3, 25));
        b.extend(raw_int(6, 3, 27));
        cs.push(Case::new(501, vec![b2a(&b)], "duplicate-keys"));
    }
    // ---- encoder / header maps
    for (i, _) in (0..99).enumerate() {
        // name+value hits and name-only hits of every static row, via the decoder's view of the table
        let mut b = vec![0u8, 0];
        b.extend(raw_int(6, 3, i as u64));
        if let Ok(m) = Decoder::decode(&b) {
            for (kk, vv) in m {
                cs.push(Case::new(502, vec![b2a(kk.as_bytes()), b2a(vv.as_bytes())], "static-name-value"));
                cs.push(Case::new(502, vec![b2a(kk.as_bytes()), b2a(b"other")], "static-name-only"));
                cs.push(Case::new(503, vec![b2a(kk.as_bytes()), b2a(vv.as_bytes())], "headers-static"));
            }
        }
    }
    for len in [0usize, 1, 6, 7, 8, 9, 126, 127, 128, 129, 254, 255, 256, 300] {
        let name = rand_token(rng, len.max(1).min(300));
        for vkind in 0..2 {
            let val = if vkind == 0 { rand_value(rng, len) } else { "a".repeat(len) };
            cs.push(Case::new(502, vec![b2a(name.as_bytes()), b2a(val.as_bytes())], "length-boundary"));
            cs.push(Case::new(503, vec![b2a(name.as_bytes()), b2a(val.as_bytes())], "headers-length-boundary"));
        }
    }
    for _ in 0..250 * k {
        let n = rng.range(1, 7) as usize;
        let mut args = vec![];
        for _ in 0..n {
            let name = if rng.below(3) == 0 { let l = rng.range(1, 12) as usize; rand_token(rng, l) } else { rng.pick(&NAMES).to_string() };
            let vl = rng.range(0, 30) as usize;
            let val = match name.as_str() {
                ":method" => rng.pick(&["CONNECT", "GET", "POST", "connect"]).to_string(),
                ":scheme" => rng.pick(&["https", "http", "ftp"]).to_string(),
                ":status" => rng.pick(&["200", "404", "403", "429", "999", "abc"]).to_string(),
                ":path" => rng.pick(&["/", "/a?b=c", "/index.html"]).to_string(),
                _ => rand_value(rng, vl),
            };
            args.push(b2a(name.as_bytes()));
            args.push(b2a(val.as_bytes()));
        }
        cs.push(Case::new(502, args.clone(), "encode-random"));
        cs.push(Case::new(503, args, "headers-random"));
    }
    cs
}
