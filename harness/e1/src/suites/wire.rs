//! Suite "wire" (400s): settings, HTTP/3 datagrams, capsules, UTF-8, ids, status codes.
use crate::rng::Rng;
use crate::suites::frame::{grease_ids, session_ids, bad_session_ids};
use crate::suites::typestate::ecode_idx;
use crate::suites::varint::{boundaries, enc, MAXV};
use crate::{a2b, b2a, Args, Case};
use std::borrow::Cow;
use wtransport_proto::bytes::{BufferReader, BytesReader};
use wtransport_proto::capsule::{capsules::CloseWebTransportSession, Capsule};
use wtransport_proto::datagram::Datagram;
use wtransport_proto::frame::{Frame, FrameKind};
use wtransport_proto::ids::{QStreamId, SessionId, StatusCode, StreamId};
use wtransport_proto::settings::{SettingId, Settings};
use wtransport_proto::varint::VarInt;

const KNOWN: [(u64, SettingId); 7] = [
    (0x01, SettingId::QPackMaxTableCapacity),
    (0x06, SettingId::MaxFieldSectionSize),
    (0x07, SettingId::QPackBlockedStreams),
    (0x08, SettingId::EnableConnectProtocol),
    (0x33, SettingId::H3Datagram),
    (0x2b60_3742, SettingId::EnableWebTransport),
    (0xc671_706a, SettingId::WebTransportMaxSessions),
];

fn is_ex(id: u64) -> bool {
    id >= 0x21 && (id - 0x21) % 0x1f == 0
}

/// independent reading of a settings payload: (id, value) pairs in order, None if truncated
fn raw_pairs(bs: &[u8]) -> Option<Vec<(u64, u64)>> {
    let mut r = BufferReader::new(bs);
    let mut v = vec![];
    while r.capacity() > 0 {
        let id = r.get_varint()?.into_inner();
        let val = r.get_varint()?.into_inner();
        v.push((id, val));
    }
    Some(v)
}

fn settings_view(s: &Settings, ids: &[u64]) -> Vec<u64> {
    let mut all: Vec<u64> = KNOWN.iter().map(|k| k.0).collect();
    for id in ids {
        if is_ex(*id) {
            all.push(*id);
        }
    }
    all.sort();
    all.dedup();
    let mut out = vec![];
    for id in all {
        let key = match KNOWN.iter().find(|k| k.0 == id) {
            Some(k) => k.1,
            None => SettingId::Exercise(VarInt::try_from_u64(id).unwrap()),
        };
        if let Some(v) = s.get(key) {
            out.push(id);
            out.push(v.into_inner());
        }
    }
    out
}

pub fn exec(f: u32, a: &Args) -> Args {
    match f {
        401 => {
            let payload = a2b(&a[0]);
            let ids: Vec<u64> = raw_pairs(&payload).map(|v| v.iter().map(|p| p.0).collect()).unwrap_or_default();
            let fr = Frame::new_settings(Cow::Owned(payload));
            match Settings::with_frame(&fr) {
                Ok(s) => vec![vec![1], settings_view(&s, &ids)],
                Err(e) => vec![vec![2, ecode_idx(e)]],
            }
        }
        // builder -> generate_frame -> with_frame; flags choose which setters are called
        402 => {
            let fl = a[0][0];
            let (v1, v2, v3) = (a[0][1], a[0][2], a[0][3]);
            let mut b = Settings::builder();
            if fl & 1 != 0 { b = b.qpack_max_table_capacity(VarInt::try_from_u64(v1).unwrap()); }
            if fl & 2 != 0 { b = b.qpack_blocked_streams(VarInt::try_from_u64(v2).unwrap()); }
            if fl & 4 != 0 { b = b.enable_connect_protocol(); }
            if fl & 8 != 0 { b = b.enable_webtransport(); }
            if fl & 16 != 0 { b = b.enable_h3_datagrams(); }
            if fl & 32 != 0 { b = b.webtransport_max_sessions(VarInt::try_from_u64(v3).unwrap()); }
            let s = b.build();
            let fr = s.generate_frame();
            let is_settings = matches!(fr.kind(), FrameKind::Settings) as u64;
            let mut pairs = raw_pairs(fr.payload()).expect("own payload parses");
            pairs.sort();
            let flat: Vec<u64> = pairs.iter().flat_map(|p| [p.0, p.1]).collect();
            let back = match Settings::with_frame(&fr) {
                Ok(s2) => settings_view(&s2, &[]),
                Err(e) => vec![PANICISH, ecode_idx(e)],
            };
            // generate_frame_ref with an exact and a too-small buffer
            let need = fr.payload().len();
            let mut exact = vec![0u8; need];
            let ok_exact = s.generate_frame_ref(&mut exact).is_ok() as u64;
            let ok_small = if need > 0 {
                let mut small = vec![0u8; need - 1];
                s.generate_frame_ref(&mut small).is_ok() as u64
            } else { 0 };
            vec![vec![1, is_settings, need as u64, ok_exact, ok_small], flat, back]
        }
        403 => {
            let bs = a2b(&a[0]);
            match Datagram::read(&bs) {
                Ok(d) => vec![vec![1, d.qstream_id().into_u64(), (bs.len() - d.payload().len()) as u64], b2a(d.payload())],
                Err(e) => vec![vec![2, ecode_idx(e)]],
            }
        }
        404 => {
            let q = a[0][0];
            let cap = a[0][1] as usize;
            let payload = a2b(&a[1]);
            // a QStreamId can only be built from a SessionId
            let sid = SessionId::try_from_session_stream(StreamId::new(VarInt::try_from_u64(q << 2).unwrap())).unwrap();
            let qid = QStreamId::from_session_id(sid);
            let d = Datagram::new(qid, &payload);
            let mut buf = vec![0xAAu8; cap];
            let r = d.write(&mut buf);
            let (ok, n) = match r { Ok(n) => (1, n as u64), Err(_) => (0, 0) };
            vec![vec![ok, n, d.write_size() as u64, Datagram::header_size(qid) as u64], b2a(&buf)]
        }
        405 => {
            let payload = a2b(&a[0]);
            let fr = Frame::new_data(Cow::Owned(payload));
            match Capsule::with_frame(&fr) {
                None => vec![vec![0]],
                Some(c) => match CloseWebTransportSession::with_capsule(&c) {
                    Ok(cl) => vec![vec![1, cl.error_code().into_inner()], b2a(cl.reason().as_bytes())],
                    Err(e) => vec![vec![2, ecode_idx(e)]],
                },
            }
        }
        406 => vec![vec![std::str::from_utf8(&a2b(&a[0])).is_ok() as u64]],
        407 => {
            let x = a[0][0];
            let sid = StreamId::new(VarInt::try_from_u64(x).unwrap());
            let mut o = vec![
                sid.is_bidirectional() as u64,
                sid.is_client_initiated() as u64,
                sid.is_local(true) as u64,
                sid.is_local(false) as u64,
            ];
            match SessionId::try_from_session_stream(sid) {
                Ok(s) => {
                    let q = QStreamId::from_session_id(s);
                    o.extend([1, q.into_u64(), q.into_stream_id().into_u64(), q.into_session_id().into_u64(), s.session_stream().into_u64()]);
                }
                Err(_) => o.push(0),
            }
            o.push((QStreamId::MAX.into_u64() == (1 << 60) - 1) as u64);
            vec![o]
        }
        408 => {
            let bs = a2b(&a[0]);
            let from_str = match std::str::from_utf8(&bs) {
                Ok(s) => match s.parse::<StatusCode>() {
                    Ok(c) => vec![1, c.into_inner() as u64, c.is_successful() as u64],
                    Err(_) => vec![0],
                },
                Err(_) => vec![9],
            };
            vec![from_str]
        }
        409 => {
            let v = a[0][0];
            let t8 = if v <= 255 { StatusCode::try_from(v as u8).map(|c| c.into_inner() as u64).ok() } else { None };
            let t16 = if v <= 65535 { StatusCode::try_from(v as u16).map(|c| c.into_inner() as u64).ok() } else { None };
            let t32 = if v <= u32::MAX as u64 { StatusCode::try_from_u32(v as u32).map(|c| c.into_inner() as u64).ok() } else { None };
            let t64 = StatusCode::try_from(v).map(|c| c.into_inner() as u64).ok();
            let enc1 = |o: Option<u64>| -> Vec<u64> { match o { Some(x) => vec![1, x], None => vec![0] } };
            let shown = t64.map(|_| StatusCode::try_from(v).unwrap().to_string()).unwrap_or_default();
            vec![enc1(t8), enc1(t16), enc1(t32), enc1(t64), b2a(shown.as_bytes()),
                 vec![StatusCode::default().into_inner() as u64, StatusCode::MIN.into_inner() as u64, StatusCode::MAX.into_inner() as u64]]
        }
        _ => panic!("wire: unknown f {}", f),
    }
}
const PANICISH: u64 = 888_888_888;

pub fn oracle(f: u32, a: &Args, out: &Args) -> Option<(&'static str, String)> {
    match f {
        401 => {
            // C13: unknown and GREASE settings never change the known ones nor cause an error
            if a.len() >= 2 {
                let base = super::exec(401, &vec![a[1].clone()]);
                let strip = |o: &Args| -> Args {
                    if o[0][0] != 1 { return o.clone(); }
                    let mut v = vec![];
                    let mut i = 0;
                    while i + 1 < o[1].len() { if !is_ex(o[1][i]) { v.push(o[1][i]); v.push(o[1][i + 1]); } i += 2; }
                    vec![vec![1], v]
                };
                if strip(out) != strip(&base) {
                    return Some(("C13", "unknown/GREASE settings changed the interpretation of the known settings".into()));
                }
            }
            None
        }
        402 => {
            if out[0][1] != 1 { return Some(("C16", "generate_frame did not produce a SETTINGS frame".into())); }
            if out[1] != out[2] { return Some(("C14", format!("settings do not round-trip: wrote {:?}, read {:?}", out[1], out[2]))); }
            if out[0][3] != 1 { return Some(("C14", "generate_frame_ref refused an exactly sized buffer".into())); }
            if out[0][4] != 0 { return Some(("C14", "generate_frame_ref accepted a too small buffer".into())); }
            None
        }
        403 => {
            // C14/C03: every datagram that starts with a complete quarter stream id in range is accepted,
            // whatever follows -- an empty payload included
            if let Some(first) = a[0].first() {
                let w = 1usize << (first >> 6);
                if a[0].len() >= w {
                    let mut v = first & 0x3f;
                    for x in &a[0][1..w] { v = (v << 8) | *x; }
                    if v <= (1 << 60) - 1 && out[0][0] != 1 {
                        return Some(("C14+C03", format!("a datagram with the complete quarter stream id {} ({} bytes) and a payload of {} bytes was refused: {:?}", v, w, a[0].len() - w, out[0])));
                    }
                }
            }
            if out[0][0] == 1 {
                let q = out[0][1];
                if q > (1 << 60) - 1 { return Some(("C11+C17", format!("quarter stream id {} out of range", q))); }
                // C03: the payload is exactly the suffix after the quarter stream id as encoded on the
                // wire (whatever varint width the peer chose), computed here independently
                let want = 1usize << (a[0][0] >> 6);
                if out[0][2] as usize != want || a[0][want..] != out[1][..] {
                    return Some(("C03", format!("datagram payload is not the suffix after the {}-byte quarter stream id", want)));
                }
            }
            None
        }
        404 => {
            let cap = a[0][1];
            let size = out[0][2];
            let ok = out[0][0] == 1;
            if ok != (cap >= size) { return Some(("C14", format!("datagram write: cap {} size {} ok {}", cap, size, ok))); }
            if !ok && out[1].iter().any(|b| *b != 0xAA) { return Some(("C14", "datagram write failed but modified the destination".into())); }
            if ok {
                if out[0][1] != size { return Some(("C14", "datagram write: bytes written differ from write_size".into())); }
                let w = a2b(&out[1][..size as usize]);
                match Datagram::read(&w) {
                    Ok(d) if d.qstream_id().into_u64() == a[0][0] && b2a(d.payload()) == a[1] => {}
                    _ => return Some(("C03+C14", format!("datagram (quarter id {}, {} payload bytes) does not round-trip through write and read", a[0][0], a[1].len()))),
                }
                if out[0][3] + a[1].len() as u64 != size { return Some(("C14", "header_size + payload != write_size".into())); }
            }
            None
        }
        405 => {
            // C04: a well-formed close capsule yields exactly (code, reason); a malformed one is an
            // error, never a close.  Read here independently: type, length, 4-byte code, UTF-8 reason <= 1024.
            let b = a2b(&a[0]);
            let vi = |pos: &mut usize| -> Option<u64> {
                let first = *b.get(*pos)?;
                let n = 1usize << (first >> 6);
                if *pos + n > b.len() { return None; }
                let mut v = (first & 0x3f) as u64;
                for i in 1..n { v = v << 8 | b[*pos + i] as u64; }
                *pos += n;
                Some(v)
            };
            // C13: a capsule of another type whose declared length runs past the end of the frame is an
            // incomplete unknown element: nothing in it may be taken for a close capsule
            {
                let mut p0 = 0;
                if let (Some(ty), Some(l)) = (vi(&mut p0), vi(&mut p0)) {
                    if ty != 0x2843 && l > (b.len() - p0) as u64 && out[0] != vec![0] {
                        return Some(("C13+C04", format!("the value bytes of an incomplete capsule of unknown type {:#x} (declared {} bytes, {} present) were interpreted: {:?}", ty, l, b.len() - p0, out)));
                    }
                }
            }
            let mut pos = 0;
            if let (Some(0x2843), Some(l)) = (vi(&mut pos), vi(&mut pos)) {
                if l as usize == b.len() - pos {
                    let body = &b[pos..];
                    let good = body.len() >= 4 && body.len() <= 4 + 1024 && std::str::from_utf8(&body[4..]).is_ok();
                    if good {
                        let code = u32::from_be_bytes([body[0], body[1], body[2], body[3]]) as u64;
                        if out[0] != vec![1, code] || out.get(1).map(|r| a2b(r)) != Some(body[4..].to_vec()) {
                            return Some(("C04", format!("close capsule ({}, {:?}) read as {:?}", code, String::from_utf8_lossy(&body[4..]), out)));
                        }
                    } else if out[0][0] == 1 {
                        return Some(("C04", format!("malformed close capsule accepted as a close: {:?}", out)));
                    }
                }
            }
            None
        }
        408 => {
            if out[0][0] == 1 && !(100..=599).contains(&out[0][1]) {
                return Some(("C18", format!("status string parsed to out-of-range value {}", out[0][1])));
            }
            if out[0][0] == 1 && (out[0][2] == 1) != (200..=299).contains(&out[0][1]) {
                return Some(("C18", format!("status {} counts as acceptance = {}", out[0][1], out[0][2] == 1)));
            }
            None
        }
        409 => {
            for i in 0..4 {
                if out[i][0] == 1 && !(100..=599).contains(&out[i][1]) {
                    return Some(("C18", format!("numeric constructor produced out-of-range status {}", out[i][1])));
                }
            }
            if !(100..=599).contains(&out[5][0]) {
                return Some(("C18", format!("StatusCode::default() = {} is out of range", out[5][0])));
            }
            None
        }
        _ => None,
    }
}

fn settings_payload(pairs: &[(u64, u64)]) -> Vec<u8> {
    let mut b = vec![];
    for (k, v) in pairs {
        b.extend(enc(*k));
        b.extend(enc(*v));
    }
    b
}

pub fn utf8_samples(rng: &mut Rng, n: usize) -> Vec<Vec<u8>> {
    let mut v: Vec<Vec<u8>> = vec![
        vec![], b"bye".to_vec(), "h\u{e9}llo".as_bytes().to_vec(), "\u{20ac}".as_bytes().to_vec(),
        "\u{10348}\u{7ff}\u{800}\u{ffff}\u{10000}\u{10ffff}".as_bytes().to_vec(),
        vec![0xc0, 0x80], vec![0xc1, 0xbf], vec![0xc2], vec![0xc2, 0x7f], vec![0xe0, 0x9f, 0x80], vec![0xe0, 0xa0, 0x80],
        vec![0xed, 0x9f, 0xbf], vec![0xed, 0xa0, 0x80], vec![0xef, 0xbf, 0xbf], vec![0xf0, 0x8f, 0x80, 0x80],
        vec![0xf0, 0x90, 0x80, 0x80], vec![0xf4, 0x8f, 0xbf, 0xbf], vec![0xf4, 0x90, 0x80, 0x80], vec![0xf5, 0x80, 0x80, 0x80],
        vec![0x80], vec![0xff], vec![0xe2, 0x82], vec![0xf0, 0x9f, 0x98],
    ];
    for _ in 0..n {
        let l = rng.range(1, 6) as usize;
        let mut b = vec![];
        for _ in 0..l {
            // bias toward lead/continuation bytes
            b.push(match rng.below(5) { 0 => rng.range(0x80, 0xbf) as u8, 1 => rng.range(0xc0, 0xf7) as u8, 2 => rng.range(0, 0x7f) as u8, _ => rng.byte() });
        }
        v.push(b);
    }
    v
}

pub fn generate(rng: &mut Rng, thorough: bool) -> Vec<Case> {
    let mut cs = vec![];
    let k = if thorough { 8 } else { 1 };
    // ---- settings
    let known: Vec<u64> = KNOWN.iter().map(|k| k.0).collect();
    cs.push(Case::triv(401, vec![vec![]], "empty"));
    for _ in 0..200 * k {
        // permutation of a subset of known ids with random values
        let mut ids = known.clone();
        for i in (1..ids.len()).rev() { let j = rng.below(i as u64 + 1) as usize; ids.swap(i, j); }
        ids.truncate(rng.range(0, 7) as usize);
        let base: Vec<(u64, u64)> = ids.iter().map(|id| (*id, rng.varint())).collect();
        cs.push(Case::new(401, vec![b2a(&settings_payload(&base))], "known-permutation"));
        // with unknown / GREASE insertions (metamorphic, C13)
        let mut with = vec![];
        let gr = grease_ids(rng);
        for p in &base {
            for _ in 0..rng.below(3) {
                let id = if rng.coin() { *rng.pick(&gr) } else { *rng.pick(&[9u64, 0x0a, 0x20, 0x22, 0x34, 0x4242, 1 << 40, MAXV]) };
                with.push((id, rng.varint()));
            }
            with.push(*p);
        }
        // GREASE ids must not repeat (duplicate setting => error by RFC); dedup them
        let mut seen = std::collections::HashSet::new();
        with.retain(|p| !is_ex(p.0) || seen.insert(p.0));
        cs.push(Case::new(401, vec![b2a(&settings_payload(&with)), b2a(&settings_payload(&base))], "with-unknown-and-grease"));
    }
    for id in [0u64, 2, 3, 4, 5] {
        cs.push(Case::new(401, vec![b2a(&settings_payload(&[(1, 5), (id, 1)]))], "reserved"));
    }
    for id in &known {
        cs.push(Case::new(401, vec![b2a(&settings_payload(&[(*id, 1), (7, 2), (*id, 1)]))], "duplicate"));
        let p = settings_payload(&[(*id, 77)]);
        for cut in 1..p.len() {
            cs.push(Case::new(401, vec![b2a(&p[..cut])], "truncated"));
        }
    }
    cs.push(Case::new(401, vec![b2a(&settings_payload(&[(0x21, 1), (0x21, 2)]))], "duplicate-grease"));
    for _ in 0..100 * k {
        let n = rng.range(1, 12) as usize;
        cs.push(Case::new(401, vec![b2a(&rng.bytes(n))], "random-bytes"));
    }
    for fl in 0..64u64 {
        cs.push(Case::new(402, vec![vec![fl, rng.varint(), rng.varint(), rng.varint()]], "builder"));
    }
    cs.push(Case::new(402, vec![vec![63, 0, 0, 1]], "builder-local-settings"));
    // ---- datagrams
    cs.push(Case::triv(403, vec![vec![]], "empty"));
    for q in boundaries() {
        let mut b = enc(q);
        let pl = rng.range(0, 20) as usize;
        b.extend(rng.bytes(pl));
        cs.push(Case::new(403, vec![b2a(&b)], if q <= (1 << 60) - 1 { "valid" } else { "qid-too-large" }));
        for cut in 0..enc(q).len() {
            cs.push(Case::new(403, vec![b2a(&b[..cut])], "truncated-header"));
        }
    }
    // non-minimal encodings of the quarter stream id (every wider varint form)
    for q in [0u64, 1, 63, 64, 16383, 16384, (1 << 30) - 1] {
        for n in [2usize, 4, 8] {
            if n > enc(q).len() {
                let tag = match n { 2 => 0x40u8, 4 => 0x80, _ => 0xc0 };
                let mut b = q.to_be_bytes()[8 - n..].to_vec();
                b[0] |= tag;
                b.extend(b"payload");
                cs.push(Case::new(403, vec![b2a(&b)], "non-minimal-qid"));
            }
        }
    }
    for q in [(1u64 << 60) - 1, 1 << 60, (1 << 60) + 1, (1 << 60) - 2] {
        cs.push(Case::new(403, vec![b2a(&enc(q))], "qid-boundary"));
    }
    for b0 in 0..256u64 {
        cs.push(Case::new(403, vec![vec![b0]], "exhaustive-1"));
        cs.push(Case::new(403, vec![vec![b0, rng.byte() as u64, rng.byte() as u64]], "exhaustive-1-tail"));
    }
    for q in [0u64, 1, 15, 16, 63, 64, 4095, 4096, 16383, 16384, (1 << 28) - 1, 1 << 28, (1 << 30) - 1, 1 << 30, (1 << 60) - 1] {
        for pl in [0usize, 1, 5, 1200] {
            let size = enc(q).len() + pl;
            for cap in [0usize, size.saturating_sub(1), size, size + 1] {
                if pl == 1200 && cap != size && cap != size - 1 { continue; }
                cs.push(Case::new(404, vec![vec![q, cap as u64], b2a(&rng.bytes(pl))], "write"));
            }
        }
    }
    // ---- capsules
    cs.push(Case::triv(405, vec![vec![]], "empty"));
    let mk = |ty: u64, len: u64, body: &[u8]| -> Vec<u8> { let mut b = enc(ty); b.extend(enc(len)); b.extend(body); b };
    let codes = [0u32, 1, 255, 256, 65535, 65536, 0x7fff_ffff, 0x8000_0000, u32::MAX, 7];
    for code in codes {
        for rl in [0usize, 1, 3, 1023, 1024, 1025] {
            if rl > 3 && code != 7 && code != u32::MAX { continue; }
            let mut body = code.to_be_bytes().to_vec();
            body.extend(std::iter::repeat(b'r').take(rl));
            let c = mk(0x2843, body.len() as u64, &body);
            cs.push(Case::new(405, vec![b2a(&c)], "close"));
            let mut t = c.clone();
            t.extend(rng.bytes(2));
            cs.push(Case::new(405, vec![b2a(&t)], "close-with-trailing"));
            if rl <= 3 {
                for cut in 0..c.len() {
                    cs.push(Case::new(405, vec![b2a(&c[..cut])], "close-truncated"));
                }
            }
        }
    }
    for l in 0..4u64 {
        cs.push(Case::new(405, vec![b2a(&mk(0x2843, l, &rng.bytes(l as usize)))], "close-too-short"));
    }
    for r in utf8_samples(rng, 40 * k) {
        let mut body = 9u32.to_be_bytes().to_vec();
        body.extend(&r);
        cs.push(Case::new(405, vec![b2a(&mk(0x2843, body.len() as u64, &body))], "close-reason-utf8"));
        cs.push(Case::new(406, vec![b2a(&r)], "utf8"));
    }
    // reasons cut inside a multi-byte character, invalid bytes in the middle, lone continuation bytes
    for r in [&b"caf\xC3"[..], b"\xC3", b"ab\xE2\x82", b"\xE2\x82", b"x\xF0\x9F\x98", b"\xF0\x9F", b"a\xFFb", b"ok\x80", b"\xED\xA0\x80", b"\xC0\xAF"] {
        for code in [0u32, 9] {
            let mut body = code.to_be_bytes().to_vec();
            body.extend(r);
            cs.push(Case::new(405, vec![b2a(&mk(0x2843, body.len() as u64, &body))], "close-reason-cut-character"));
        }
    }
    for ty in [0u64, 1, 0x2842, 0x2844, 0x21, 0x40, MAXV] {
        cs.push(Case::new(405, vec![b2a(&mk(ty, 4, &[0, 0, 0, 1]))], "other-capsule-type"));
    }
    // capsules of other types whose VALUE looks like a close capsule: complete, with a declared length
    // beyond the frame (incomplete), and shorter than the value (a close-lookalike behind it)
    for ty in [0u64, 0x17, 0x21, 0x2842, 0x2844, 0x3c0e, MAXV] {
        let inner = mk(0x2843, 7, &[0, 0, 0, 42, b'b', b'y', b'e']);
        for decl in [inner.len() as u64, inner.len() as u64 + 1, 32, 16384, MAXV, 0, 2] {
            cs.push(Case::new(405, vec![b2a(&mk(ty, decl, &inner))], "unknown-capsule-holding-close-lookalike"));
        }
    }
    cs.push(Case::new(405, vec![b2a(&mk(0x2843, 100, &[0, 0, 0, 1]))], "length-beyond-frame"));
    cs.push(Case::new(405, vec![b2a(&mk(0x2843, MAXV, &[0, 0, 0, 1]))], "length-beyond-frame"));
    for _ in 0..150 * k {
        let n = rng.range(1, 10) as usize;
        let mut b = if rng.coin() { enc(0x2843) } else { vec![] };
        b.extend(rng.bytes(n));
        cs.push(Case::new(405, vec![b2a(&b)], "random"));
    }
    // exhaustive 2-byte UTF-8 and all single bytes
    for b0 in 0..256u64 {
        cs.push(Case::new(406, vec![vec![b0]], "utf8-exhaustive-1"));
    }
    let stride = if thorough { 1 } else { 13 };
    let mut i = 0u64;
    while i < 65536 {
        cs.push(Case::new(406, vec![vec![i >> 8, i & 255]], "utf8-exhaustive-2"));
        i += stride;
    }
    // ---- ids
    for x in 0..64u64 {
        cs.push(Case::new(407, vec![vec![x]], "ids-small"));
    }
    for b in boundaries() {
        cs.push(Case::new(407, vec![vec![b]], "ids-boundary"));
    }
    for m in [1u64 << 6, 1 << 14, 1 << 30, 1 << 60, (1 << 62) - 4] {
        for lo in 0..4u64 {
            for d in [0u64, 4, 8] {
                let x = (m & !3) + lo + d;
                if x <= MAXV { cs.push(Case::new(407, vec![vec![x]], "ids-magnitude-x-class")); }
                let y = (m & !3).wrapping_sub(4) + lo;
                if y <= MAXV { cs.push(Case::new(407, vec![vec![y]], "ids-magnitude-x-class")); }
            }
        }
    }
    for s in session_ids(rng).into_iter().chain(bad_session_ids(rng)) {
        cs.push(Case::new(407, vec![vec![s]], "ids-session"));
    }
    for _ in 0..300 * k {
        cs.push(Case::new(407, vec![vec![rng.varint()]], "ids-random"));
    }
    // ---- status codes: every integer 0..65535 plainly; decorations on a subset
    let sstride = if thorough { 1 } else { 1 };
    let mut v = 0u64;
    while v <= 65540 {
        cs.push(Case::new(408, vec![b2a(v.to_string().as_bytes())], "status-plain"));
        v += sstride;
    }
    for v in [0u64, 1, 99, 100, 101, 199, 200, 299, 300, 404, 599, 600, 999, 1000, 65535, 65536, 99999, 4294967296] {
        let s = v.to_string();
        for deco in [format!("+{}", s), format!("-{}", s), format!("0{}", s), format!("00{}", s), format!(" {}", s), format!("{} ", s), format!("{}a", s), format!("0x{}", s), format!("{}.0", s), format!("++{}", s)] {
            cs.push(Case::new(408, vec![b2a(deco.as_bytes())], "status-decorated"));
        }
        cs.push(Case::new(409, vec![vec![v]], "status-numeric"));
    }
    for s in ["", "+", "-", " ", "abc", "2 00", "٢٠٠", "200\n", "1e2", "\u{ff12}00"] {
        cs.push(Case::new(408, vec![b2a(s.as_bytes())], "status-nonnumeric"));
    }
    cs.push(Case::new(408, vec![vec![0x32, 0xff, 0x30]], "status-nonutf8"));
    for v in 0..700u64 {
        cs.push(Case::new(409, vec![vec![v]], "status-numeric"));
    }
    cs
}
