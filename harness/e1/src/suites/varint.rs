//! Suite "varint": VarInt, slice reader, BufferReader, BufferWriter, Vec writer.
use crate::rng::Rng;
use crate::{a2b, b2a, Args, Case};
use wtransport_proto::bytes::{BufferReader, BufferWriter, BytesReader, BytesWriter};
use wtransport_proto::varint::VarInt;

pub const MAXV: u64 = (1 << 62) - 1;
const CK_MOD: u64 = 2_305_843_009_213_693_951; // 2^61 - 1

pub fn exec(f: u32, a: &Args) -> Args {
    match f {
        // get_varint on a slice reader
        101 => {
            let bs = a2b(&a[0]);
            let mut r: &[u8] = &bs;
            match r.get_varint() {
                Some(v) => vec![vec![1, v.into_inner(), (bs.len() - r.len()) as u64]],
                None => vec![vec![0, (bs.len() - r.len()) as u64]],
            }
        }
        // get_varint on a BufferReader after skipping off bytes
        102 => {
            let bs = a2b(&a[0]);
            let off = a[1][0] as usize;
            let mut r = BufferReader::new(&bs);
            if r.skip(off).is_err() {
                return vec![vec![2, r.offset() as u64]];
            }
            match r.get_varint() {
                Some(v) => vec![vec![1, v.into_inner(), r.offset() as u64, r.capacity() as u64]],
                None => vec![vec![0, r.offset() as u64, r.capacity() as u64]],
            }
        }
        // round trip through Vec writer and slice reader, with a trailing byte
        103 => {
            let v = VarInt::try_from_u64(a[0][0]).expect("generator gives in-range values");
            let mut buf: Vec<u8> = vec![];
            buf.put_varint(v).unwrap();
            let size = v.size() as u64;
            let mut with_tail = buf.clone();
            with_tail.push(0xAB);
            let mut r: &[u8] = &with_tail;
            let dec = match r.get_varint() {
                Some(x) => vec![1, x.into_inner(), (with_tail.len() - r.len()) as u64],
                None => vec![0],
            };
            vec![vec![1], b2a(&buf), vec![size], dec]
        }
        104 => match VarInt::try_from_u64(a[0][0]) {
            Ok(v) => vec![vec![1, v.into_inner()]],
            Err(_) => vec![vec![0]],
        },
        105 => vec![vec![1, VarInt::parse_size(a[0][0] as u8) as u64]],
        // BufferWriter with capacity cap
        106 => {
            let cap = a[0][0] as usize;
            let v = VarInt::try_from_u64(a[0][1]).expect("in range");
            let mut buf = vec![0xAAu8; cap];
            let mut w = BufferWriter::new(&mut buf);
            let r = w.put_varint(v);
            let off = w.offset() as u64;
            let ok = r.is_ok() as u64;
            vec![vec![ok], b2a(&buf), vec![off]]
        }
        // exhaustive range [lo, hi): count of failed round trips and a checksum of all encodings
        107 => {
            let (lo, hi) = (a[0][0], a[0][1]);
            let mut fails = 0u64;
            let mut ck = 0u64;
            let mut buf: Vec<u8> = Vec::with_capacity(8);
            for x in lo..hi {
                let v = VarInt::try_from_u64(x).expect("in range");
                buf.clear();
                buf.put_varint(v).unwrap();
                let mut r: &[u8] = &buf;
                match r.get_varint() {
                    Some(y) if y.into_inner() == x && r.is_empty() && buf.len() == v.size() => {}
                    _ => fails += 1,
                }
                for (i, b) in buf.iter().enumerate() {
                    ck = (ck + (i as u64 + 1) * (*b as u64 + 1)) % CK_MOD;
                }
                ck = ((ck as u128 * 31) % CK_MOD as u128) as u64;
            }
            vec![vec![1, fails, ck]]
        }
        _ => panic!("varint: unknown f {}", f),
    }
}

pub fn oracle(f: u32, a: &Args, out: &Args) -> Option<(&'static str, String)> {
    match f {
        101 | 102 => {
            // C11: a returned value respects the type's invariant
            if out[0][0] == 1 && out[0][1] > MAXV {
                return Some(("C11", format!("get_varint returned {} >= 2^62", out[0][1])));
            }
            None
        }
        103 => {
            let v = a[0][0];
            let bytes = &out[1];
            let size = out[2][0];
            let dec = &out[3];
            if bytes.len() as u64 != size {
                return Some(("C14", format!("varint {}: wrote {} bytes but size() = {}", v, bytes.len(), size)));
            }
            if dec.len() != 3 || dec[0] != 1 || dec[1] != v || dec[2] != size {
                return Some(("C14", format!("varint {}: decode(encode) = {:?}", v, dec)));
            }
            // shortest form
            let min = if v < 64 { 1 } else if v < 16384 { 2 } else if v < (1 << 30) { 4 } else { 8 };
            if size != min {
                return Some(("C14", format!("varint {}: size {} is not the shortest form {}", v, size, min)));
            }
            None
        }
        106 => {
            let cap = a[0][0];
            let ok = out[0][0] == 1;
            let buf = &out[1];
            let off = out[2][0];
            if !ok && (off != 0 || buf.iter().any(|b| *b != 0xAA)) {
                return Some(("C14", format!("put_varint refused (cap {}) but destination was modified", cap)));
            }
            None
        }
        107 => {
            if out[0][1] != 0 {
                return Some(("C14", format!("{} varints in [{}, {}) do not round-trip", out[0][1], a[0][0], a[0][1])));
            }
            None
        }
        _ => None,
    }
}

pub fn boundaries() -> Vec<u64> {
    let mut v = vec![];
    for b in [0u64, 63, 64, 16383, 16384, (1 << 30) - 1, 1 << 30, MAXV] {
        for d in [-2i64, -1, 0, 1, 2] {
            let x = b as i64 + d;
            if x >= 0 && (x as u64) <= MAXV {
                v.push(x as u64);
            }
        }
    }
    v.push(1 << 32);
    v.push((1 << 61) + 12345);
    v.sort();
    v.dedup();
    v
}

pub fn enc(v: u64) -> Vec<u8> {
    let mut buf: Vec<u8> = vec![];
    buf.put_varint(VarInt::try_from_u64(v).unwrap()).unwrap();
    buf
}

pub fn generate(rng: &mut Rng, thorough: bool) -> Vec<Case> {
    let mut cs = vec![];
    let n_rand = if thorough { 6000 } else { 600 };
    // 105: all 256 first bytes
    for b in 0..256u64 {
        cs.push(Case::new(105, vec![vec![b]], "parse_size"));
    }
    // 101: empty, all first bytes x tails of length 0..8
    cs.push(Case::triv(101, vec![vec![]], "empty"));
    for b in 0..256u64 {
        for tl in [0usize, 1, 3, 7, 9] {
            let mut bs = vec![b];
            bs.extend(b2a(&rng.bytes(tl)));
            cs.push(Case::new(101, vec![bs], "first-byte-x-tail"));
        }
    }
    // valid encodings, every proper prefix, with and without tail
    for v in boundaries() {
        let e = enc(v);
        for cut in 0..=e.len() {
            cs.push(Case::new(101, vec![b2a(&e[..cut])], if cut < e.len() { "proper-prefix" } else { "exact" }));
        }
        let mut t = e.clone();
        t.extend(rng.bytes(3));
        cs.push(Case::new(101, vec![b2a(&t)], "with-tail"));
        for off in 0..3u64 {
            let mut pre = rng.bytes(off as usize);
            pre.extend(&t);
            cs.push(Case::new(102, vec![b2a(&pre), vec![off]], "bufreader-offset"));
            cs.push(Case::new(102, vec![b2a(&pre[..pre.len() - 3 - (e.len() > 1) as usize]), vec![off]], "bufreader-short"));
        }
        cs.push(Case::new(102, vec![b2a(&e), vec![e.len() as u64 + 1]], "bufreader-skip-beyond"));
        cs.push(Case::new(103, vec![vec![v]], "roundtrip-boundary"));
        for cap in [0usize, e.len().saturating_sub(1), e.len(), e.len() + 1, 8, 9] {
            cs.push(Case::new(106, vec![vec![cap as u64, v]], "cap"));
        }
        // non-minimal encodings of v in every larger size
        for n in [2usize, 4, 8] {
            if n > e.len() {
                let tag = match n { 2 => 0x40u8, 4 => 0x80, _ => 0xc0 };
                let mut b = v.to_be_bytes()[8 - n..].to_vec();
                b[0] |= tag;
                cs.push(Case::new(101, vec![b2a(&b)], "non-minimal"));
            }
        }
    }
    for _ in 0..n_rand {
        let v = rng.varint();
        cs.push(Case::new(103, vec![vec![v]], "roundtrip-random"));
        let n = rng.range(1, 10) as usize;
        let bs = rng.bytes(n);
        cs.push(Case::new(101, vec![b2a(&bs)], "random-bytes"));
    }
    // 104: try_from_u64 around the bound
    for u in [0u64, 1, MAXV - 1, MAXV, MAXV + 1, MAXV + 2, 1 << 63, u64::MAX - 1, u64::MAX] {
        cs.push(Case::new(104, vec![vec![u]], "try_from"));
    }
    for _ in 0..50 {
        cs.push(Case::new(104, vec![vec![rng.next()]], "try_from-random"));
    }
    // 107: exhaustive ranges
    let top: u64 = if thorough { 1 << 22 } else { 1 << 15 };
    let step: u64 = if thorough { 1 << 13 } else { 1 << 12 };
    let mut lo = 0;
    while lo < top {
        cs.push(Case::new(107, vec![vec![lo, lo + step]], "exhaustive-range"));
        lo += step;
    }
    for base in [(1u64 << 30) - 2048, (1 << 14) - 100, MAXV - if thorough { 8191 } else { 4095 }] {
        cs.push(Case::new(107, vec![vec![base, base + if thorough { 8192 } else { 4096 }]], "exhaustive-range-boundary"));
    }
    cs
}
