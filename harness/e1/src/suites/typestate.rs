//! Suite "typestate" (300s): the stream typestates' read_frame loops, three paths,
//! driven over a whole byte string (a sequence of calls on the same reader).
use crate::io::{block_on, Src};
use crate::rng::Rng;
use crate::suites::frame::{
    frame_hdr, frame_library, header_hdr, ioerr_idx, raw_frame, raw_wt, sched_of, schedules, term_of,
    unknown_ids, grease_ids,
};
use crate::suites::varint::enc;
use crate::{a2b, b2a, Args, Case};
use wtransport_proto::bytes::BufferReader;
use wtransport_proto::error::ErrorCode;
use wtransport_proto::frame::Frame;
use wtransport_proto::session::SessionRequest;
use wtransport_proto::stream::biremote::StreamBiRemoteQuic;
use wtransport_proto::stream::bilocal::StreamBiLocalQuic;
use wtransport_proto::stream::uniremote::{MaybeUpgradeH3, StreamUniRemoteQuic};
use wtransport_proto::stream::IoReadError;

pub fn ecode_idx(e: ErrorCode) -> u64 {
    match e {
        ErrorCode::Datagram => 0,
        ErrorCode::NoError => 1,
        ErrorCode::StreamCreation => 2,
        ErrorCode::ClosedCriticalStream => 3,
        ErrorCode::FrameUnexpected => 4,
        ErrorCode::Frame => 5,
        ErrorCode::ExcessiveLoad => 6,
        ErrorCode::Id => 7,
        ErrorCode::Settings => 8,
        ErrorCode::MissingSettings => 9,
        ErrorCode::RequestRejected => 10,
        ErrorCode::Message => 11,
        ErrorCode::Decompression => 12,
        ErrorCode::BufferedStreamRejected => 13,
        ErrorCode::SessionGone => 14,
    }
}

/// A typestate reader that can be called repeatedly.
enum Ts {
    BiRemote(wtransport_proto::stream::biremote::StreamBiRemoteH3),
    BiLocal(wtransport_proto::stream::bilocal::StreamBiLocalH3),
    UniRemote(wtransport_proto::stream::uniremote::StreamUniRemoteH3),
    Session(wtransport_proto::stream::session::StreamSession),
}

fn mk_ts(ts: u64) -> Ts {
    match ts {
        0 => Ts::BiRemote(StreamBiRemoteQuic::accept_bi().upgrade()),
        1 => Ts::BiLocal(StreamBiLocalQuic::open_bi().upgrade()),
        2 => {
            let hdr = [0u8];
            let mut r: &[u8] = &hdr;
            match StreamUniRemoteQuic::accept_uni().upgrade(&mut r) {
                Ok(MaybeUpgradeH3::H3(s)) => Ts::UniRemote(s),
                _ => panic!("control header must upgrade"),
            }
        }
        _ => Ts::Session(
            StreamBiLocalQuic::open_bi()
                .upgrade()
                .into_session(SessionRequest::new("https://example.com/").unwrap()),
        ),
    }
}

impl Ts {
    fn read_frame<'a>(&mut self, r: &mut &'a [u8]) -> Result<Option<Frame<'a>>, ErrorCode> {
        match self {
            Ts::BiRemote(s) => s.read_frame(r),
            Ts::BiLocal(s) => s.read_frame(r),
            Ts::UniRemote(s) => s.read_frame(r),
            Ts::Session(s) => s.read_frame(r),
        }
    }
    fn read_frame_from_buffer<'a>(&mut self, r: &mut BufferReader<'a>) -> Result<Option<Frame<'a>>, ErrorCode> {
        match self {
            Ts::BiRemote(s) => s.read_frame_from_buffer(r),
            Ts::BiLocal(s) => s.read_frame_from_buffer(r),
            Ts::UniRemote(s) => s.read_frame_from_buffer(r),
            Ts::Session(s) => s.read_frame_from_buffer(r),
        }
    }
    async fn read_frame_async(&mut self, r: &mut Src) -> Result<Frame<'static>, IoReadError> {
        match self {
            Ts::BiRemote(s) => s.read_frame_async(r).await,
            Ts::BiLocal(s) => s.read_frame_async(r).await,
            Ts::UniRemote(s) => s.read_frame_async(r).await,
            Ts::Session(s) => s.read_frame_async(r).await,
        }
    }
}

const MAX_CALLS: usize = 64;

pub fn exec(f: u32, a: &Args) -> Args {
    match f {
        // sync: sequence of read_frame calls on one slice reader
        301 => {
            let mut ts = mk_ts(a[0][0]);
            let bs = a2b(&a[1]);
            let mut r: &[u8] = &bs;
            let mut out = vec![];
            for _ in 0..MAX_CALLS {
                let res = ts.read_frame(&mut r);
                let c = (bs.len() - r.len()) as u64;
                match res {
                    Ok(Some(fr)) => {
                        let mut h = vec![1, c];
                        h.extend(frame_hdr(&fr));
                        out.push(h);
                        out.push(b2a(fr.payload()));
                    }
                    Ok(None) => {
                        out.push(vec![0, c]);
                        break;
                    }
                    Err(e) => {
                        out.push(vec![2, c, ecode_idx(e)]);
                        break;
                    }
                }
            }
            out
        }
        // buffered: sequence of read_frame_from_buffer calls
        302 => {
            let mut ts = mk_ts(a[0][0]);
            let bs = a2b(&a[1]);
            let mut r = BufferReader::new(&bs);
            let mut out = vec![];
            for _ in 0..MAX_CALLS {
                let res = ts.read_frame_from_buffer(&mut r);
                let c = r.offset() as u64;
                match res {
                    Ok(Some(fr)) => {
                        let mut h = vec![1, c];
                        h.extend(frame_hdr(&fr));
                        out.push(h);
                        out.push(b2a(fr.payload()));
                    }
                    Ok(None) => {
                        out.push(vec![0, c]);
                        break;
                    }
                    Err(e) => {
                        out.push(vec![2, c, ecode_idx(e)]);
                        break;
                    }
                }
            }
            out
        }
        // async: sequence of read_frame_async calls on one source
        303 => {
            let mut ts = mk_ts(a[0][0]);
            let bs = a2b(&a[1]);
            let mut src = Src::new(&bs, sched_of(&a[2]), term_of(a[3][0]));
            let mut out = vec![];
            for _ in 0..MAX_CALLS {
                let res = block_on(ts.read_frame_async(&mut src));
                let c = src.consumed() as u64;
                match res {
                    Ok(fr) => {
                        let mut h = vec![1, c];
                        h.extend(frame_hdr(&fr));
                        out.push(h);
                        out.push(b2a(fr.payload()));
                    }
                    Err(IoReadError::H3(e)) => {
                        out.push(vec![2, c, ecode_idx(e)]);
                        break;
                    }
                    Err(IoReadError::IO(e)) => {
                        out.push(vec![3, c, ioerr_idx(&e)]);
                        break;
                    }
                }
            }
            out
        }
        // UniRemoteQuic::upgrade (sync)
        304 => {
            let bs = a2b(&a[0]);
            let mut r: &[u8] = &bs;
            let res = StreamUniRemoteQuic::accept_uni().upgrade(&mut r);
            let c = (bs.len() - r.len()) as u64;
            match res {
                Ok(MaybeUpgradeH3::H3(s)) => {
                    let k = s.kind();
                    let sid = s.session_id();
                    let hh = wtransport_hdr(k, sid);
                    vec![vec![1, c], hh]
                }
                Ok(MaybeUpgradeH3::Quic(_)) => vec![vec![0, c]],
                Err(e) => vec![vec![2, c, ecode_idx(e)]],
            }
        }
        // upgrade_async
        305 => {
            let bs = a2b(&a[0]);
            let mut src = Src::new(&bs, sched_of(&a[1]), term_of(a[2][0]));
            let res = block_on(StreamUniRemoteQuic::accept_uni().upgrade_async(&mut src));
            let c = src.consumed() as u64;
            match res {
                Ok(s) => vec![vec![1, c], wtransport_hdr(s.kind(), s.session_id())],
                Err(IoReadError::H3(e)) => vec![vec![2, c, ecode_idx(e)]],
                Err(IoReadError::IO(e)) => vec![vec![3, c, ioerr_idx(&e)]],
            }
        }
        // error code registry
        306 => {
            let all = [
                ErrorCode::Datagram, ErrorCode::NoError, ErrorCode::StreamCreation, ErrorCode::ClosedCriticalStream,
                ErrorCode::FrameUnexpected, ErrorCode::Frame, ErrorCode::ExcessiveLoad, ErrorCode::Id,
                ErrorCode::Settings, ErrorCode::MissingSettings, ErrorCode::RequestRejected, ErrorCode::Message,
                ErrorCode::Decompression, ErrorCode::BufferedStreamRejected, ErrorCode::SessionGone,
            ];
            vec![all.iter().map(|e| e.to_code().into_inner()).collect()]
        }
        _ => panic!("typestate: unknown f {}", f),
    }
}

fn wtransport_hdr(k: wtransport_proto::stream_header::StreamKind, sid: Option<wtransport_proto::ids::SessionId>) -> Vec<u64> {
    use wtransport_proto::stream_header::StreamKind as K;
    let (ki, id) = match k {
        K::Control => (0, 0),
        K::QPackEncoder => (1, 2),
        K::QPackDecoder => (2, 3),
        K::WebTransport => (3, 0x54),
        K::Exercise(id) => (4, id.into_inner()),
    };
    match sid {
        Some(s) => vec![ki, id, 1, s.into_u64()],
        None => vec![ki, id, 0, 0],
    }
}

/// known frames of a 301/302/303 output, as (hdr, payload) pairs, plus the terminal entry
fn known_frames(out: &Args) -> (Vec<(Vec<u64>, Vec<u64>)>, Vec<u64>) {
    let mut v = vec![];
    let mut i = 0;
    let mut last = vec![];
    while i < out.len() {
        if out[i][0] == 1 {
            v.push((out[i][2..].to_vec(), out[i + 1].clone()));
            i += 2;
        } else {
            last = out[i].clone();
            i += 1;
        }
    }
    (v, last)
}

pub fn oracle(f: u32, a: &Args, out: &Args) -> Option<(&'static str, String)> {
    match f {
        // C13 metamorphic: args carry [ts], bytes, and optionally the same exchange without insertions
        301 | 302 => {
            // C12: a WebTransport signal is only acceptable as the FIRST frame of a peer-initiated
            // bidirectional stream; on every other typestate, or later, it must be refused
            {
                let (ks, _) = known_frames(out);
                for (i, (h, _)) in ks.iter().enumerate() {
                    if h[0] == 3 && (a[0][0] != 0 || i > 0) {
                        return Some(("C12", format!("WebTransport signal accepted as frame #{} on typestate {}", i, a[0][0])));
                    }
                    if h[0] == 2 && a[0][0] != 2 {
                        return Some(("C12", "SETTINGS accepted on a request stream".into()));
                    }
                    if (h[0] == 0 || h[0] == 1) && a[0][0] == 2 {
                        return Some(("C12", "DATA/HEADERS accepted on the control stream".into()));
                    }
                }
            }
            if f == 302 {
                // C15: the buffered reader leaves the read position where it was unless it returns a frame
                let mut prev = 0u64;
                let mut i = 0;
                while i < out.len() {
                    let e = &out[i];
                    if e[0] == 1 {
                        prev = e[1];
                        i += 2; // header, payload
                    } else {
                        if e.len() >= 2 && e[1] != prev {
                            return Some(("C15", format!("read_frame_from_buffer moved the offset from {} to {} without returning a frame", prev, e[1])));
                        }
                        i += 1;
                    }
                }
            }
            if a.len() >= 3 {
                let base = super::exec(f, &vec![a[0].clone(), a[2].clone()]);
                let (k1, l1) = known_frames(out);
                let (k0, l0) = known_frames(&base);
                let strip = |k: Vec<(Vec<u64>, Vec<u64>)>| -> Vec<(Vec<u64>, Vec<u64>)> { k.into_iter().filter(|(h, _)| h[0] != 4).collect() };
                let class = |l: &Vec<u64>| -> Vec<u64> { if l.is_empty() { vec![] } else if l[0] == 2 { vec![2, l[2]] } else { vec![l[0]] } };
                if strip(k1.clone()) != strip(k0.clone()) || class(&l1) != class(&l0) {
                    return Some(("C13", format!("inserting unknown/GREASE frames changed the known frames or the outcome: with={:?}/{:?} without={:?}/{:?}", k1.len(), l1, k0.len(), l0)));
                }
            }
            None
        }
        303 => {
            if a.len() >= 5 {
                let base = super::exec(f, &vec![a[0].clone(), a[4].clone(), a[2].clone(), a[3].clone()]);
                let (k1, l1) = known_frames(out);
                let (k0, l0) = known_frames(&base);
                let strip = |k: Vec<(Vec<u64>, Vec<u64>)>| -> Vec<(Vec<u64>, Vec<u64>)> { k.into_iter().filter(|(h, _)| h[0] != 4).collect() };
                let class = |l: &Vec<u64>| -> Vec<u64> { if l.is_empty() { vec![] } else { vec![l[0], l[2]] } };
                if strip(k1.clone()) != strip(k0.clone()) || class(&l1) != class(&l0) {
                    return Some(("C13", format!("inserting unknown/GREASE frames changed the async outcome: with={:?}/{:?} without={:?}/{:?}", k1.len(), l1, k0.len(), l0)));
                }
            }
            // C12: a frame truncated by FIN is H3_FRAME_ERROR on every typestate, never a bare I/O error
            if a[3][0] == 0 {
                let (_, la) = known_frames(out);
                if la.len() >= 3 && la[0] == 3 && la[2] == 1 {
                    return Some(("C12", "frame truncated by FIN reported as an I/O error instead of H3_FRAME_ERROR".into()));
                }
            }
            {
                let (ks, _) = known_frames(out);
                for (i, (h, _)) in ks.iter().enumerate() {
                    if h[0] == 3 && (a[0][0] != 0 || i > 0) {
                        return Some(("C12", format!("WebTransport signal accepted as frame #{} on typestate {} (async)", i, a[0][0])));
                    }
                }
            }
            // C15: the async path on (bytes, Fin) agrees with the sync path
            if a[3][0] == 0 {
                let sync = super::exec(301, &vec![a[0].clone(), a[1].clone()]);
                let (ks, ls) = known_frames(&sync);
                let (ka, la) = known_frames(out);
                if ks != ka {
                    return Some(("C15", format!("sync and async paths return different frames ({} vs {})", ks.len(), ka.len())));
                }
                let agree = match (ls.first(), la.first()) {
                    (Some(0), Some(3)) => la[2] == 0 || true,       // need-more <-> fin error (checked below)
                    (Some(0), Some(2)) => la[2] == 5,               // partial frame at FIN => H3_FRAME_ERROR
                    (Some(2), Some(2)) => ls[2] == la[2],
                    _ => false,
                };
                if !agree {
                    return Some(("C15", format!("sync terminal {:?} vs async terminal {:?}", ls, la)));
                }
            }
            None
        }
        306 => {
            let reg: [u64; 15] = [0x33, 0x100, 0x103, 0x104, 0x105, 0x106, 0x107, 0x108, 0x109, 0x10a, 0x10b, 0x10e, 0x200, 0x3994bd84, 0x170d7b68];
            if out[0] != reg.to_vec() {
                return Some(("C16", "an error code differs from its registered value".into()));
            }
            None
        }
        _ => None,
    }
}

/// random valid exchange for typestate ts: list of frames (bytes)
fn valid_exchange(rng: &mut Rng, ts: u64) -> Vec<Vec<u8>> {
    let n = rng.range(1, 5);
    let mut v = vec![];
    for i in 0..n {
        let l = *rng.pick(&[0usize, 1, 2, 9, 70]);
        let p = rng.bytes(l);
        let fr = match ts {
            2 => raw_frame(4, &p),
            0 if i == 0 && rng.coin() => raw_wt(0x41, 4 * rng.below(1000)),
            _ => raw_frame(*rng.pick(&[0u64, 1]), &p),
        };
        v.push(fr);
    }
    v
}

pub fn generate(rng: &mut Rng, thorough: bool) -> Vec<Case> {
    let mut cs = vec![];
    cs.push(Case::new(306, vec![], "error-code-registry"));
    let lib = frame_library(rng, false);
    // every library frame alone and in pairs, on every typestate, three paths
    for ts in 0..4u64 {
        for (b, label) in &lib {
            cs.push(Case::new(301, vec![vec![ts], b2a(b)], label));
            cs.push(Case::new(302, vec![vec![ts], b2a(b)], label));
            let term = rng.below(3);
            cs.push(Case::new(303, vec![vec![ts], b2a(b), vec![1, 0, 2], vec![term]], label));
        }
    }
    // all sequences to depth 3 (quick) / 4 (thorough) over a compact alphabet
    let alpha: Vec<Vec<u8>> = vec![
        raw_frame(0, &[1, 2, 3]),
        raw_frame(1, &[9]),
        raw_frame(4, &[]),
        raw_wt(0x41, 8),
        raw_wt(0x41, 9),
        raw_frame(0x21, &[7, 7]),
        raw_frame(0x42, &[4, 0]),
        { let mut b = enc(0); b.extend(enc(5000)); b },
        vec![0x00, 0x05, 1, 2],
    ];
    let depth = if thorough { 4 } else { 3 };
    let mut seqs: Vec<Vec<usize>> = vec![vec![]];
    for _ in 0..depth {
        let mut next = vec![];
        for s in &seqs {
            for i in 0..alpha.len() {
                let mut t = s.clone();
                t.push(i);
                next.push(t);
            }
        }
        for s in &next {
            let mut bytes = vec![];
            for i in s {
                bytes.extend(&alpha[*i]);
            }
            for ts in 0..4u64 {
                cs.push(Case::new(301, vec![vec![ts], b2a(&bytes)], "sequence"));
                if s.len() <= 2 || rng.below(4) == 0 {
                    cs.push(Case::new(302, vec![vec![ts], b2a(&bytes)], "sequence"));
                    let term = rng.below(3);
                    cs.push(Case::new(303, vec![vec![ts], b2a(&bytes), vec![3, 0, 1], vec![term]], "sequence"));
                }
            }
        }
        seqs = next;
    }
    // metamorphic insertion (C13): valid exchange with unknown/GREASE frames inserted at every boundary
    let n_meta = if thorough { 1500 } else { 250 };
    let unk = unknown_ids(rng);
    let gr = grease_ids(rng);
    for _ in 0..n_meta {
        let ts = rng.below(4);
        let ex = valid_exchange(rng, ts);
        let base: Vec<u8> = ex.iter().flatten().cloned().collect();
        let mut with = vec![];
        let wt_first = ts == 0 && ex[0][0] == 0x40; // 0x41 takes a 2-byte varint: 0x40 0x41
        for (i, fr) in ex.iter().enumerate() {
            let k = rng.below(3);
            for _ in 0..k {
                if wt_first && i == 0 {
                    break; // nothing may precede a WT signal... GREASE before it is handled by the accept task, not here
                }
                let id = if rng.coin() { *rng.pick(&unk) } else { *rng.pick(&gr) };
                let pl = match rng.below(if thorough { 40 } else { 60 }) {
                    39 => rng.bytes(4097),
                    38 => rng.bytes(257),
                    x if x % 4 == 0 => vec![],
                    x if x % 4 == 1 => rng.bytes(3),
                    x if x % 4 == 2 => { let mut p = raw_frame(4, &[]); p.extend(raw_frame(0, &[1])); p }
                    _ => raw_wt(0x41, 0),
                };
                // GREASE frames are parsed like known frames: the 4096-byte parse limit applies to
                // them (an oversize one is C12's OVERSIZE case), so only unknown types get more
                let is_grease = id >= 0x21 && (id - 0x21) % 0x1f == 0;
                let pl = if is_grease && pl.len() > 4096 { pl[..4096].to_vec() } else { pl };
                with.extend(raw_frame(id, &pl));
            }
            with.extend(fr);
        }
        if rng.coin() {
            let id = *rng.pick(&unk);
            with.extend(raw_frame(id, &rng.bytes(2)));
        }
        cs.push(Case::new(301, vec![vec![ts], b2a(&with), b2a(&base)], "metamorphic"));
        cs.push(Case::new(302, vec![vec![ts], b2a(&with), b2a(&base)], "metamorphic"));
        let term = rng.below(3);
        let sch = schedules(rng, 8, false);
        let s = rng.pick(&sch).clone();
        cs.push(Case::new(303, vec![vec![ts], b2a(&with), s, vec![term], b2a(&base)], "metamorphic"));
    }
    // truncation of exchanges at every offset (FIN inside a frame)
    for ts in 0..4u64 {
        let ex = valid_exchange(rng, ts);
        let base: Vec<u8> = ex.iter().flatten().cloned().collect();
        for cut in 0..base.len().min(40) {
            cs.push(Case::new(301, vec![vec![ts], b2a(&base[..cut])], "truncated"));
            cs.push(Case::new(302, vec![vec![ts], b2a(&base[..cut])], "truncated"));
            for term in 0..3u64 {
                cs.push(Case::new(303, vec![vec![ts], b2a(&base[..cut]), vec![2, 0], vec![term]], "truncated"));
            }
        }
    }
    // uni upgrade
    let mut hdrs: Vec<Vec<u8>> = vec![enc(0), enc(2), enc(3), raw_wt(0x54, 0), raw_wt(0x54, 4000), raw_wt(0x54, 5), enc(0x42), enc(0x21), enc(1 << 31)];
    for id in unknown_ids(rng) {
        if id != 2 && id != 3 {
            hdrs.push(enc(id));
        }
    }
    for h in &hdrs {
        let mut t = h.clone();
        t.extend(rng.bytes(3));
        cs.push(Case::new(304, vec![b2a(&t)], "uni-upgrade"));
        for cut in 0..=h.len() {
            cs.push(Case::new(304, vec![b2a(&h[..cut])], "uni-upgrade-prefix"));
            for term in 0..3u64 {
                cs.push(Case::new(305, vec![b2a(&h[..cut]), vec![1, 0, 1], vec![term]], "uni-upgrade-async"));
            }
        }
        cs.push(Case::new(305, vec![b2a(&t), vec![0, 1, 1, 0, 4], vec![0]], "uni-upgrade-async"));
    }
    cs
}
