//! Test source / sink with the semantics of Model/Async.v and a busy-poll executor.
use std::future::Future;
use std::pin::Pin;
use std::task::{Context, Poll, RawWaker, RawWakerVTable, Waker};
use wtransport_proto::bytes::{AsyncRead, AsyncWrite};

#[derive(Clone, Copy, Debug, PartialEq, Eq)]
pub enum Ev {
    /// ready: delivers min(n, |buf|, available) bytes (n >= 1)
    Chunk(usize),
    /// Poll::Pending once; nothing consumed
    Pend,
}

#[derive(Clone, Copy, Debug, PartialEq, Eq)]
pub enum Term {
    Fin,
    Reset,
    Lost,
}

/// Source: bytes + schedule + terminal. When the schedule is exhausted every
/// further read is `Chunk(usize::MAX)` (deliver what fits).
pub struct Src {
    pub data: Vec<u8>,
    pub pos: usize,
    pub sched: Vec<Ev>,
    pub sp: usize,
    pub term: Term,
    pub polls: usize,
}

impl Src {
    pub fn new(data: &[u8], sched: Vec<Ev>, term: Term) -> Self {
        Src { data: data.to_vec(), pos: 0, sched, sp: 0, term, polls: 0 }
    }
    pub fn consumed(&self) -> usize {
        self.pos
    }
}

impl AsyncRead for Src {
    fn poll_read(
        mut self: Pin<&mut Self>,
        _cx: &mut Context<'_>,
        buf: &mut [u8],
    ) -> Poll<std::io::Result<usize>> {
        self.polls += 1;
        if buf.is_empty() {
            return Poll::Ready(Ok(0));
        }
        let ev = if self.sp < self.sched.len() {
            let e = self.sched[self.sp];
            self.sp += 1;
            e
        } else {
            Ev::Chunk(usize::MAX)
        };
        match ev {
            Ev::Pend => Poll::Pending,
            Ev::Chunk(n) => {
                let avail = self.data.len() - self.pos;
                if avail == 0 {
                    return match self.term {
                        Term::Fin => Poll::Ready(Ok(0)),
                        Term::Reset => Poll::Ready(Err(std::io::Error::from(
                            std::io::ErrorKind::ConnectionReset,
                        ))),
                        Term::Lost => Poll::Ready(Err(std::io::Error::from(
                            std::io::ErrorKind::NotConnected,
                        ))),
                    };
                }
                let k = n.max(1).min(buf.len()).min(avail);
                let p = self.pos;
                buf[..k].copy_from_slice(&self.data[p..p + k]);
                self.pos += k;
                Poll::Ready(Ok(k))
            }
        }
    }
}

/// Sink: accepts at most `sched[i]` bytes per write (0 = Pending), then everything.
pub struct Sink {
    pub out: Vec<u8>,
    pub sched: Vec<usize>,
    pub sp: usize,
}

impl Sink {
    pub fn new(sched: Vec<usize>) -> Self {
        Sink { out: Vec::new(), sched, sp: 0 }
    }
}

impl AsyncWrite for Sink {
    fn poll_write(
        mut self: Pin<&mut Self>,
        _cx: &mut Context<'_>,
        buf: &[u8],
    ) -> Poll<std::io::Result<usize>> {
        let n = if self.sp < self.sched.len() {
            let n = self.sched[self.sp];
            self.sp += 1;
            n
        } else {
            usize::MAX
        };
        if n == 0 {
            return Poll::Pending;
        }
        let k = n.min(buf.len());
        self.out.extend_from_slice(&buf[..k]);
        Poll::Ready(Ok(k))
    }
}

fn noop_raw() -> RawWaker {
    fn no(_: *const ()) {}
    fn cl(_: *const ()) -> RawWaker {
        noop_raw()
    }
    static VT: RawWakerVTable = RawWakerVTable::new(cl, no, no, no);
    RawWaker::new(std::ptr::null(), &VT)
}

/// Busy-poll executor; the sources never need a real wake-up.
pub fn block_on<F: Future>(fut: F) -> F::Output {
    let waker = unsafe { Waker::from_raw(noop_raw()) };
    let mut cx = Context::from_waker(&waker);
    let mut fut = Box::pin(fut);
    let mut spins = 0u64;
    loop {
        match fut.as_mut().poll(&mut cx) {
            Poll::Ready(v) => return v,
            Poll::Pending => {
                spins += 1;
                if spins > 10_000_000 {
                    panic!("block_on: future never completes");
                }
            }
        }
    }
}
