//! 741 bind presets, 751 idle timeout / keep-alive, 761 ALPN, 771 reload_config (C20).
use crate::net::*;
use crate::rng::Rng;
use crate::{Args, Case};
use std::net::{IpAddr, Ipv4Addr, Ipv6Addr, SocketAddr};
use std::time::Duration;
use wtransport::config::{IpBindConfig, Ipv6DualStackConfig};
use wtransport::quinn;
use wtransport::{ClientConfig, Endpoint, ServerConfig};

fn ip_code(ip: IpAddr) -> Vec<u64> {
    match ip {
        IpAddr::V4(a) => { let mut v = vec![4u64]; v.extend(a.octets().iter().map(|x| *x as u64)); v }
        IpAddr::V6(a) => { let mut v = vec![6u64]; v.extend(a.octets().iter().map(|x| *x as u64)); v }
    }
}

/// can a raw QUIC client reach the endpoint through this address within 600ms?
async fn reachable(addr: SocketAddr) -> u64 {
    let ep = if addr.is_ipv4() { raw_client(None) } else {
        // a v6 client socket
        let tls = wtransport::tls::client::build_default_tls_config(
            std::sync::Arc::new(wtransport::tls::rustls::RootCertStore::empty()),
            Some(std::sync::Arc::new(wtransport::tls::client::NoServerVerification::new())),
        );
        let qc = quinn::crypto::rustls::QuicClientConfig::try_from(tls).unwrap();
        let cc = quinn::ClientConfig::new(std::sync::Arc::new(qc));
        let mut ep = match quinn::Endpoint::client("[::1]:0".parse().unwrap()) { Ok(e) => e, Err(_) => return 9 };
        ep.set_default_client_config(cc);
        ep
    };
    let c = match ep.connect(addr, "localhost") { Ok(c) => c, Err(_) => return 0 };
    match tokio::time::timeout(Duration::from_millis(600), c).await {
        Ok(Ok(conn)) => { conn.close(qvi(0), b""); 1 }
        _ => 0,
    }
}

pub async fn exec(f: u32, a: &Args) -> Args {
    match f {
        // [role (0 server, 1 client), preset 0..5 | 6 = explicit v4 | 7 = explicit v6 with dual (a[0][2]: 0 os,1 deny,2 allow)]
        741 => {
            let (role, preset, dual) = (a[0][0], a[0][1], a[0][2]);
            let pc = [IpBindConfig::LocalV4, IpBindConfig::LocalV6, IpBindConfig::LocalDual, IpBindConfig::InAddrAnyV4, IpBindConfig::InAddrAnyV6, IpBindConfig::InAddrAnyDual];
            let dc = [Ipv6DualStackConfig::OsDefault, Ipv6DualStackConfig::Deny, Ipv6DualStackConfig::Allow];
            let local = if role == 0 {
                let b = ServerConfig::builder();
                let cfg = match preset {
                    0..=5 => b.with_bind_config(pc[preset as usize], 0).with_identity(identity()).build(),
                    6 => b.with_bind_address("127.0.0.1:0".parse().unwrap()).with_identity(identity()).build(),
                    _ => b.with_bind_address_v6("[::]:0".parse().unwrap(), dc[dual as usize]).with_identity(identity()).build(),
                };
                match Endpoint::server(cfg) {
                    Ok(ep) => {
                        let ep = std::sync::Arc::new(ep);
                        let ep2 = ep.clone();
                        // something must drive the incoming handshakes for the probes below
                        let acceptor = tokio::spawn(async move {
                            loop {
                                let inc = ep2.accept().await;
                                tokio::spawn(async move { let _ = inc.await; });
                            }
                        });
                        let l = ep.local_addr().unwrap();
                        // functional probe of the dual-stack mode: reach it over IPv4 and over IPv6 loopback
                        let v4 = reachable(SocketAddr::new(Ipv4Addr::LOCALHOST.into(), l.port())).await;
                        let v6 = reachable(SocketAddr::new(Ipv6Addr::LOCALHOST.into(), l.port())).await;
                        let mut v = vec![vec![1], ip_code(l.ip()), vec![(l.port() != 0) as u64, v4, v6]];
                        acceptor.abort();
                        ep.close(vi(0), b"");
                        v.push(vec![]);
                        return v;
                    }
                    Err(_) => return vec![vec![0]],
                }
            } else {
                let b = ClientConfig::builder();
                let cfg = match preset {
                    0..=5 => b.with_bind_config(pc[preset as usize]).with_no_cert_validation().build(),
                    6 => b.with_bind_address("127.0.0.1:0".parse().unwrap()).with_no_cert_validation().build(),
                    _ => b.with_bind_address_v6("[::]:0".parse().unwrap(), dc[dual as usize]).with_no_cert_validation().build(),
                };
                match Endpoint::client(cfg) {
                    Ok(ep) => {
                        // functional probe of the client socket: can it reach a server that listens on
                        // the IPv4 loopback only, and one that listens on the IPv6 loopback only?
                        let l = ep.local_addr().unwrap();
                        let mut reach = vec![];
                        for bind in ["127.0.0.1:0", "[::1]:0"] {
                            let scfg = ServerConfig::builder().with_bind_address(bind.parse().unwrap()).with_identity(identity()).build();
                            let server = match Endpoint::server(scfg) { Ok(s) => s, Err(_) => { reach.push(9); continue; } };
                            let sa = server.local_addr().unwrap();
                            let url = if sa.is_ipv4() { format!("https://127.0.0.1:{}/b", sa.port()) } else { format!("https://[::1]:{}/b", sa.port()) };
                            let acc = tokio::spawn(async move { let c = wt_accept(&server).await; tokio::time::sleep(Duration::from_secs(3)).await; drop(c); server });
                            let r = tokio::time::timeout(Duration::from_millis(900), ep.connect(&url)).await;
                            if std::env::var("E4_DEBUG").is_ok() { eprintln!("probe {} -> {:?}", url, r.as_ref().map(|x| x.as_ref().map(|_| ()))); }
                            reach.push(matches!(r, Ok(Ok(_))) as u64);
                            acc.abort();
                        }
                        return vec![vec![1], ip_code(l.ip()), vec![(l.port() != 0) as u64, reach[0], reach[1]], vec![]];
                    }
                    Err(_) => return vec![vec![0]],
                }
            };
            #[allow(unreachable_code)]
            { let _: SocketAddr = local; vec![vec![0]] }
        }
        // a bind request names a port that another endpoint already holds for one address family:
        // a[0] = [holder preset, requester preset, requester role (0 server, 1 client)].  The request must be
        // refused when the two sockets overlap -- an endpoint never ends up on another address or family than
        // the one it was configured with
        742 => {
            let (holder, req, role) = (a[0][0] as usize, a[0][1] as usize, a[0][2]);
            let pc = [IpBindConfig::LocalV4, IpBindConfig::LocalV6, IpBindConfig::LocalDual, IpBindConfig::InAddrAnyV4, IpBindConfig::InAddrAnyV6, IpBindConfig::InAddrAnyDual];
            let h = match Endpoint::server(ServerConfig::builder().with_bind_config(pc[holder], 0).with_identity(identity()).build()) { Ok(e) => e, Err(_) => return vec![vec![2]] };
            let port = h.local_addr().unwrap().port();
            let bound: Option<SocketAddr> = if role == 0 {
                Endpoint::server(ServerConfig::builder().with_bind_config(pc[req], port).with_identity(identity()).build()).ok().and_then(|e| e.local_addr().ok())
            } else {
                // the client builder takes presets without a port: use the explicit address forms
                let b = ClientConfig::builder();
                let cfg = match req {
                    0 => b.with_bind_address(SocketAddr::new(Ipv4Addr::LOCALHOST.into(), port)),
                    1 => b.with_bind_address_v6(std::net::SocketAddrV6::new(Ipv6Addr::LOCALHOST, port, 0, 0), Ipv6DualStackConfig::Deny),
                    2 => b.with_bind_address_v6(std::net::SocketAddrV6::new(Ipv6Addr::LOCALHOST, port, 0, 0), Ipv6DualStackConfig::Allow),
                    3 => b.with_bind_address(SocketAddr::new(Ipv4Addr::UNSPECIFIED.into(), port)),
                    4 => b.with_bind_address_v6(std::net::SocketAddrV6::new(Ipv6Addr::UNSPECIFIED, port, 0, 0), Ipv6DualStackConfig::Deny),
                    _ => b.with_bind_address_v6(std::net::SocketAddrV6::new(Ipv6Addr::UNSPECIFIED, port, 0, 0), Ipv6DualStackConfig::Allow),
                };
                Endpoint::client(cfg.with_no_cert_validation().build()).ok().and_then(|e| e.local_addr().ok())
            };
            h.close(vi(0), b"");
            match bound {
                None => vec![vec![1, 0]],
                Some(l) => vec![vec![1, 1, (l.port() == port) as u64], ip_code(l.ip())],
            }
        }
        // idle timeout representability: [millis_hi, millis_lo_as_secs?]: a[0] = [secs, nanos]
        751 => {
            let d = Duration::new(a[0][0], a[0][1] as u32);
            let s = ServerConfig::builder().with_bind_default(0).with_identity(identity()).max_idle_timeout(Some(d)).is_ok() as u64;
            let c = ClientConfig::builder().with_bind_default().with_no_cert_validation().max_idle_timeout(Some(d)).is_ok() as u64;
            let none_ok = ServerConfig::builder().with_bind_default(0).with_identity(identity()).max_idle_timeout(None).is_ok() as u64;
            vec![vec![1, s, c, none_ok]]
        }
        // chains of setter calls on both builders, read back from the built quinn configuration.
        // a[0] = [role (0 server, 1 client)]; a[1..] = one op each: [1, 0] idle(None) | [1, 1, secs, nanos]
        // idle(Some) | [2, 0] keep-alive(None) | [2, 1, ms] keep-alive(Some) | [3, b] allow_migration (server)
        754 => {
            let role = a[0][0];
            let fmt_field = |dbg: &str, name: &str| -> String {
                let key = format!("{}: ", name);
                match dbg.find(&key) {
                    Some(i) => {
                        let rest = &dbg[i + key.len()..];
                        let mut depth = 0i32;
                        let mut end = rest.len();
                        for (j, ch) in rest.char_indices() {
                            match ch {
                                '(' | '{' | '[' => depth += 1,
                                ')' | '}' | ']' => { if depth == 0 { end = j; break; } depth -= 1; }
                                ',' if depth == 0 => { end = j; break; }
                                _ => {}
                            }
                        }
                        rest[..end].trim().to_string()
                    }
                    None => "?".to_string(),
                }
            };
            let dur_opt = |ms: Option<u64>| -> String { match ms { Some(m) => format!("Some({:?})", Duration::from_millis(m)), None => "None".to_string() } };
            let dbg: Option<String> = if role == 0 {
                let mut b = Some(ServerConfig::builder().with_bind_default(0).with_identity(identity()));
                for op in &a[1..] {
                    let Some(cur) = b.take() else { break };
                    b = match (op[0], op[1]) {
                        (1, 0) => cur.max_idle_timeout(None).ok(),
                        (1, _) => cur.max_idle_timeout(Some(Duration::new(op[2], op[3] as u32))).ok(),
                        (2, 0) => Some(cur.keep_alive_interval(None)),
                        (2, _) => Some(cur.keep_alive_interval(Some(Duration::from_millis(op[2])))),
                        (_, v) => Some(cur.allow_migration(v == 1)),
                    };
                }
                b.map(|b| format!("{:?}", b.build().quic_config()))
            } else {
                let mut b = Some(ClientConfig::builder().with_bind_default().with_no_cert_validation());
                for op in &a[1..] {
                    let Some(cur) = b.take() else { break };
                    b = match (op[0], op[1]) {
                        (1, 0) => cur.max_idle_timeout(None).ok(),
                        (1, _) => cur.max_idle_timeout(Some(Duration::new(op[2], op[3] as u32))).ok(),
                        (2, 0) => Some(cur.keep_alive_interval(None)),
                        (2, _) => Some(cur.keep_alive_interval(Some(Duration::from_millis(op[2])))),
                        _ => Some(cur),
                    };
                }
                b.map(|b| format!("{:?}", b.build().quic_config()))
            };
            let Some(dbg) = dbg else { return vec![vec![1, 0]] };
            // idle: "None" or "Some(<ms>)"
            let idle_txt = fmt_field(&dbg, "max_idle_timeout");
            let idle: Vec<u64> = if idle_txt == "None" { vec![0] } else {
                match idle_txt.trim_start_matches("Some(").trim_end_matches(')').trim_start_matches("VarInt(").trim_end_matches(')').parse::<u64>() {
                    Ok(ms) => vec![1, ms],
                    Err(_) => vec![9],
                }
            };
            // keep-alive: which of the requested values (or the default, none) is it?
            let keep_txt = fmt_field(&dbg, "keep_alive_interval");
            let mut keep: Vec<u64> = vec![9];
            if keep_txt == dur_opt(None) { keep = vec![0]; }
            for op in &a[1..] {
                if op[0] == 2 && op[1] == 1 && keep_txt == dur_opt(Some(op[2])) { keep = vec![1, op[2]]; }
            }
            let migr: Vec<u64> = if role == 0 { vec![(fmt_field(&dbg, "migration") == "true") as u64] } else { vec![1] };
            vec![vec![1, 1], idle, keep, migr]
        }
        // applied idle timeout and keep-alive: [idle_ms, keepalive_ms (0 = off), observe_ms]
        752 => {
            let (idle, ka, observe) = (a[0][0], a[0][1], a[0][2]);
            let cfg = ServerConfig::builder()
                .with_bind_address("127.0.0.1:0".parse().unwrap())
                .with_identity(identity())
                .max_idle_timeout(Some(Duration::from_millis(idle)))
                .unwrap()
                .keep_alive_interval(if ka > 0 { Some(Duration::from_millis(ka)) } else { None })
                .build();
            let server = Endpoint::server(cfg).unwrap();
            let addr = server.local_addr().unwrap();
            let ep = raw_client(None);
            let (app, raw) = tokio::join!(wt_accept(&server), raw_establish(&ep, addr, "/idle"));
            let (conn, raw) = match (app, raw) { (Ok(c), Ok(r)) => (c, r), _ => return vec![vec![2]] };
            let t0 = tokio::time::Instant::now();
            let r = tokio::time::timeout(Duration::from_millis(observe), conn.closed()).await;
            let alive = r.is_err() as u64;
            let cause = match r { Ok(e) => enc_conn_err(&e).0, Err(_) => vec![TAG_PENDING] };
            let elapsed = t0.elapsed().as_millis() as u64;
            drop(raw);
            server.close(vi(0), b"");
            vec![vec![1, alive, (elapsed >= idle.saturating_sub(50)) as u64], cause]
        }
        // client keep-alive, in either order with an unlimited local idle timeout, against a server whose
        // idle timeout is 1.2 s: [order (0 keep-alive then idle(None), 1 idle(None) then keep-alive, 2 keep-alive only), keepalive_ms]
        753 => {
            let (order, ka) = (a[0][0], a[0][1]);
            let scfg = ServerConfig::builder().with_bind_address("127.0.0.1:0".parse().unwrap()).with_identity(identity())
                .max_idle_timeout(Some(Duration::from_millis(1200))).unwrap().build();
            let server = Endpoint::server(scfg).unwrap();
            let port = server.local_addr().unwrap().port();
            let b = ClientConfig::builder().with_bind_default().with_no_cert_validation();
            let kai = if ka > 0 { Some(Duration::from_millis(ka)) } else { None };
            let ccfg = match order {
                0 => b.keep_alive_interval(kai).max_idle_timeout(None).unwrap().build(),
                1 => b.max_idle_timeout(None).unwrap().keep_alive_interval(kai).build(),
                _ => b.keep_alive_interval(kai).build(),
            };
            let client = Endpoint::client(ccfg).unwrap();
            let url = format!("https://127.0.0.1:{}/ka", port);
            let (s, c) = tokio::join!(wt_accept(&server), client.connect(&url));
            let (sc, cc) = match (s, c) { (Ok(s), Ok(c)) => (s, c), _ => return vec![vec![2]] };
            let r = tokio::time::timeout(Duration::from_millis(3000), cc.closed()).await;
            let alive = r.is_err() as u64;
            drop(sc);
            server.close(vi(0), b"");
            vec![vec![1, alive]]
        }
        // reload_config(rebind = false) with a configuration that names the address already in use
        772 => {
            let id1 = wtransport::Identity::self_signed(["localhost"]).unwrap();
            let id2 = wtransport::Identity::self_signed(["localhost"]).unwrap();
            let h2 = id2.certificate_chain().as_slice()[0].hash();
            let server = Endpoint::server(ServerConfig::builder().with_bind_address("127.0.0.1:0".parse().unwrap()).with_identity(id1).build()).unwrap();
            let addr = server.local_addr().unwrap();
            let same = ServerConfig::builder().with_bind_address(addr).with_identity(id2).build();
            let rl = server.reload_config(same, false).is_ok() as u64;
            let client = Endpoint::client(ClientConfig::builder().with_bind_default().with_server_certificate_hashes([h2]).build()).unwrap();
            let url = format!("https://127.0.0.1:{}/r", addr.port());
            let (s, c) = tokio::join!(wt_accept(&server), tokio::time::timeout(Duration::from_millis(2000), client.connect(&url)));
            let newid = (s.is_ok() && matches!(c, Ok(Ok(_)))) as u64;
            vec![vec![1, rl, newid, (server.local_addr().unwrap().port() == addr.port()) as u64]]
        }
        // ALPN / TLS: a raw client offering another ALPN is refused; the established connection reports h3
        761 => {
            let (server, addr) = wt_server(None);
            let tls = {
                let mut t = wtransport::tls::client::build_default_tls_config(
                    std::sync::Arc::new(wtransport::tls::rustls::RootCertStore::empty()),
                    Some(std::sync::Arc::new(wtransport::tls::client::NoServerVerification::new())),
                );
                if a[0][0] == 1 { t.alpn_protocols = vec![b"hq-29".to_vec()]; }
                if a[0][0] == 2 { t.alpn_protocols = vec![]; }
                t
            };
            let qc = quinn::crypto::rustls::QuicClientConfig::try_from(tls).unwrap();
            let cc = quinn::ClientConfig::new(std::sync::Arc::new(qc));
            let mut ep = quinn::Endpoint::client("127.0.0.1:0".parse().unwrap()).unwrap();
            ep.set_default_client_config(cc);
            let app = tokio::spawn(async move {
                let r = wt_accept(&server).await;
                let alpn = r.as_ref().ok().and_then(|c| c.handshake_data().alpn().map(|x| x.to_vec())).unwrap_or_default();
                // the connection is kept until the peer has read the response (dropping it here would
                // race with the peer's read)
                (r.is_ok(), alpn, server, r.ok())
            });
            let connected = match tokio::time::timeout(Duration::from_millis(900), ep.connect(addr, "localhost").unwrap()).await {
                Ok(Ok(c)) => { let r = raw_establish_on(c, "/alpn").await; r.is_ok() as u64 }
                _ => 0,
            };
            let (ok, alpn, _server, _conn) = app.await.unwrap();
            vec![vec![1, connected, ok as u64], b2a(&alpn)]
        }
        // reload_config: a new identity for new connections, established ones keep working
        771 => {
            let id1 = wtransport::Identity::self_signed(["localhost"]).unwrap();
            let id2 = wtransport::Identity::self_signed(["localhost"]).unwrap();
            let h1 = id1.certificate_chain().as_slice()[0].hash();
            let h2 = id2.certificate_chain().as_slice()[0].hash();
            let cfg = |id: wtransport::Identity| ServerConfig::builder().with_bind_address("127.0.0.1:0".parse().unwrap()).with_identity(id).build();
            let server = Endpoint::server(cfg(id1)).unwrap();
            let addr = server.local_addr().unwrap();
            let client = |h: wtransport::tls::Sha256Digest| {
                let c = ClientConfig::builder().with_bind_default().with_server_certificate_hashes([h]).build();
                Endpoint::client(c).unwrap()
            };
            let url = format!("https://127.0.0.1:{}/r", addr.port());
            let c1 = client(h1.clone());
            let (s1, k1) = tokio::join!(wt_accept(&server), c1.connect(&url));
            let first = (s1.is_ok() && k1.is_ok()) as u64;
            let rebind = a[0][0] == 1;
            let rl = server.reload_config(cfg(id2), rebind).is_ok() as u64;
            let addr2 = server.local_addr().unwrap();
            let url2 = format!("https://127.0.0.1:{}/r", addr2.port());
            // new connection with the old pin must fail, with the new pin must succeed
            let c_old = client(h1);
            let c_new = client(h2);
            let old_fails = tokio::time::timeout(Duration::from_millis(1500), c_old.connect(&url2)).await.map(|r| r.is_err()).unwrap_or(true) as u64;
            // the refused attempt above also shows up at the server as a failed incoming session: skip it
            let accept_ok = async {
                for _ in 0..4 {
                    if let Ok(c) = wt_accept(&server).await {
                        return Ok(c);
                    }
                }
                Err(())
            };
            let (s2, k2) = tokio::join!(accept_ok, c_new.connect(&url2));
            let second = (s2.is_ok() && k2.is_ok()) as u64;
            // the established connection still works
            let still = match (&s1, &k1) {
                (Ok(sc), Ok(kc)) => {
                    let _ = kc.send_datagram(b"ping");
                    matches!(tokio::time::timeout(Duration::from_millis(800), sc.receive_datagram()).await, Ok(Ok(_))) as u64
                }
                _ => 0,
            };
            vec![vec![1, first, rl, old_fails, second, still, (addr2.port() == addr.port()) as u64]]
        }
        _ => panic!("cfg: unknown f {}", f),
    }
}

pub fn oracle(f: u32, a: &Args, out: &Args) -> Option<(&'static str, String)> {
    match f {
        741 => {
            // C20 on the implementation alone: the documented meaning of each bind choice as
            // (address, reaches/reachable over IPv4 loopback, over IPv6 loopback); None = OS decides
            if out[0][0] != 1 {
                return Some(("C20", format!("endpoint with bind choice {:?} could not be created", a[0])));
            }
            let v4l = vec![4u64, 127, 0, 0, 1];
            let v4a = vec![4u64, 0, 0, 0, 0];
            let mut v6l = vec![6u64]; v6l.extend([0u64; 15]); v6l.push(1);
            let mut v6a = vec![6u64]; v6a.extend([0u64; 16]);
            let (ip, r4, r6): (Vec<u64>, Option<u64>, u64) = match (a[0][1], a[0][2]) {
                (0, _) | (6, _) => (v4l, Some(1), 0),
                (1, _) | (2, _) => (v6l, Some(0), 1),
                (3, _) => (v4a, Some(1), 0),
                (4, _) => (v6a, Some(0), 1),
                (5, _) => (v6a, Some(1), 1),
                (7, 0) => (v6a, None, 1),
                (7, 1) => (v6a, Some(0), 1),
                _ => (v6a, Some(1), 1),
            };
            let role = if a[0][0] == 0 { "server" } else { "client" };
            if out[1] != ip {
                return Some(("C20", format!("{} bind choice {:?}: bound to {:?}, documented {:?}", role, a[0], out[1], ip)));
            }
            if out[2][0] != 1 || r4.map(|x| x != out[2][1]).unwrap_or(false) || out[2][2] != r6 {
                return Some(("C20", format!("{} bind choice {:?}: IPv4 loopback {} / IPv6 loopback {} (documented {:?} / {})", role, a[0], out[2][1], out[2][2], r4, r6)));
            }
            None
        }
        742 => {
            if out[0][0] != 1 {
                return None;
            }
            // when an endpoint comes into being it is on the configured address and port -- never on another one
            let v4l = vec![4u64, 127, 0, 0, 1];
            let v4a = vec![4u64, 0, 0, 0, 0];
            let mut v6l = vec![6u64]; v6l.extend([0u64; 15]); v6l.push(1);
            let mut v6a = vec![6u64]; v6a.extend([0u64; 16]);
            let want = [v4l, v6l.clone(), v6l, v4a, v6a.clone(), v6a];
            if out[0][1] == 1 {
                if out[0][2] != 1 || out[1] != want[a[0][1] as usize] {
                    return Some(("C20", format!("bind choice {} on a port held by an endpoint with bind choice {}: the new endpoint is on {:?} (port as requested: {}), configured {:?}", a[0][1], a[0][0], out[1], out[0][2], want[a[0][1] as usize])));
                }
            }
            // same family and overlapping addresses: refused
            let fam = |p: u64| if p == 0 || p == 3 { 4 } else { 6 };
            let dual = |p: u64| p == 2 || p == 5;
            let overlap = (fam(a[0][0]) == fam(a[0][1])) || (dual(a[0][0]) && fam(a[0][1]) == 4 && (a[0][0] == 5 || a[0][1] == 0)) || (dual(a[0][1]) && fam(a[0][0]) == 4 && (a[0][1] == 5 || a[0][0] == 0));
            let same_scope = (a[0][0] % 3 == a[0][1] % 3) || a[0][0] >= 3 || a[0][1] >= 3;
            if fam(a[0][0]) == fam(a[0][1]) && a[0][0] == a[0][1] && out[0][1] == 1 {
                return Some(("C20", format!("two endpoints with the same bind choice {} were created on one port", a[0][0])));
            }
            let _ = (overlap, same_scope);
            None
        }
        754 => {
            // C20 on the implementation alone: the built configuration holds what the last call of each
            // setter asked for; an unrepresentable idle timeout yields no configuration
            let mut idle: Option<Vec<u64>> = None;
            let mut keep: Vec<u64> = vec![0];
            let mut migr = 1u64;
            let mut valid = true;
            for op in &a[1..] {
                match (op[0], op[1]) {
                    (1, 0) => idle = Some(vec![0]),
                    (1, _) => {
                        let ms: u128 = op[2] as u128 * 1000 + (op[3] as u128) / 1_000_000;
                        if ms >= (1u128 << 62) { valid = false; break; }
                        idle = Some(vec![1, ms as u64]);
                    }
                    (2, 0) => keep = vec![0],
                    (2, _) => keep = vec![1, op[2]],
                    (3, v) => { if a[0][0] == 0 { migr = v } }
                    _ => {}
                }
            }
            if !valid {
                if out[0] != vec![1, 0] {
                    return Some(("C20", format!("a chain with an unrepresentable idle timeout still produced a configuration: {:?}", out)));
                }
                return None;
            }
            if out[0] != vec![1, 1] {
                return Some(("C20", "a valid chain of setter calls produced no configuration".into()));
            }
            if let Some(i) = idle {
                if out[1] != i {
                    return Some(("C20", format!("idle timeout: the last call asked for {:?}, the built configuration holds {:?}", i, out[1])));
                }
            }
            if out[2] != keep {
                return Some(("C20", format!("keep-alive: the last call asked for {:?}, the built configuration holds {:?}", keep, out[2])));
            }
            if out[3] != vec![migr] {
                return Some(("C20", format!("migration: the last call asked for {}, the built configuration holds {:?}", migr, out[3])));
            }
            None
        }
        751 => {
            // refused iff the duration in milliseconds does not fit a QUIC varint (never altered silently)
            let ms: u128 = a[0][0] as u128 * 1000 + (a[0][1] as u128) / 1_000_000;
            let fits = ms < (1u128 << 62);
            if (out[0][1] == 1) != fits || (out[0][2] == 1) != fits {
                return Some(("C20", format!("idle timeout of {} ms accepted(server={}, client={}) but representable={}", ms, out[0][1], out[0][2], fits)));
            }
            None
        }
        753 => {
            if out[0][0] == 1 && a[0][1] > 0 && out[0][1] != 1 {
                return Some(("C20", format!("client keep-alive of {} ms requested (builder call order {}), server idle timeout 1200 ms: the idle connection died", a[0][1], a[0][0])));
            }
            if out[0][0] == 1 && a[0][1] == 0 && out[0][1] != 0 {
                return Some(("C20", "no keep-alive requested and the server's idle timeout is 1200 ms, yet the silent connection survived 3 s".into()));
            }
            None
        }
        772 => {
            if out[0][0] == 1 && out[0][1..] != [1, 1, 1] {
                return Some(("C20", format!("reload_config(rebind = false) with the address already in use: accepted={} new identity served={} same port={}", out[0][1], out[0][2], out[0][3])));
            }
            None
        }
        761 => {
            if a[0][0] == 0 && (out[0][1] != 1 || out[1] != vec![104, 51]) {
                return Some(("C20", format!("h3 client: connected={} alpn={:?}", out[0][1], out[1])));
            }
            if a[0][0] != 0 && out[0][1] == 1 {
                return Some(("C20", "a client not offering ALPN h3 was served".into()));
            }
            None
        }
        771 => {
            // new connections see the new configuration; established ones are not disturbed (with
            // rebind = true the caller asked to move the socket: QUIC cannot migrate a server, so only
            // the first five facts are required then)
            let need = if a[0][0] == 1 { 5 } else { 6 };
            if out[0][..need].iter().any(|x| *x != 1) {
                return Some(("C20", format!("reload_config: {:?}", out[0])));
            }
            None
        }
        752 => {
            let (idle, ka) = (a[0][0], a[0][1]);
            let expect_alive = ka > 0 || a[0][2] < idle;
            if (out[0][1] == 1) != expect_alive {
                return Some(("C20", format!("idle {} ms keep-alive {} ms observed {} ms: alive={}", idle, ka, a[0][2], out[0][1])));
            }
            if !expect_alive && (out[1] != vec![4] || out[0][2] != 1) {
                return Some(("C20", format!("connection ended with {:?} (expected an idle timeout not before {} ms)", out[1], idle)));
            }
            None
        }
        _ => None,
    }
}

pub fn generate(rng: &mut Rng, thorough: bool, which: &str) -> Vec<Case> {
    let mut cs = vec![];
    let _ = (rng.next(), thorough);
    match which {
        "bind" => {
            for role in 0..2u64 {
                for preset in 0..6u64 {
                    cs.push(Case::new(741, vec![vec![role, preset, 0]], "preset"));
                }
                cs.push(Case::new(741, vec![vec![role, 6, 0]], "explicit-v4"));
                for dual in 0..3u64 {
                    cs.push(Case::new(741, vec![vec![role, 7, dual]], "explicit-v6"));
                }
            }
            // a port already held for one address family by another endpoint
            for holder in [1u64, 4, 0, 3, 2, 5] {
                for req in 0..6u64 {
                    for role in 0..2u64 {
                        if !thorough && role == 1 && !(holder == 4 || holder == 1) { continue; }
                        cs.push(Case::new(742, vec![vec![holder, req, role]], "port-partly-held"));
                    }
                }
            }
        }
        "idle" => {
            let max_ms: u128 = (1u128 << 62) - 1;
            for (s, n) in [(0u64, 0u64), (0, 1_000_000), (30, 0), (86400 * 365, 0),
                           ((max_ms / 1000) as u64, ((max_ms % 1000) as u64) * 1_000_000), ((max_ms / 1000) as u64, ((max_ms % 1000) as u64) * 1_000_000 + 999_999),
                           ((max_ms / 1000) as u64, ((max_ms % 1000) as u64 + 1) * 1_000_000), (((1u128 << 62) / 1000) as u64 + 1, 0), (u64::MAX, 999_999_999)] {
                cs.push(Case::new(751, vec![vec![s, n]], "representability"));
            }
            // beyond 2^64 ms: values whose low 64 bits would look small
            for s in [1u64 << 61, (1 << 61) + 2, u64::MAX / 1000 + 31, u64::MAX / 1000, u64::MAX / 1000 + 1, 1 << 53, 1 << 54, (1 << 62) / 1000, 3 << 60] {
                cs.push(Case::new(751, vec![vec![s, 0]], "representability-wrap"));
                cs.push(Case::new(751, vec![vec![s, 999_000_000]], "representability-wrap"));
            }
            // chains of setter calls (both builders): every order, repeated setters, an invalid idle anywhere
            let n = if thorough { 600 } else { 150 };
            for i in 0..n {
                let role = (i % 2) as u64;
                let len = 1 + rng.below(6);
                let mut args = vec![vec![role]];
                for _ in 0..len {
                    let op = match rng.below(if role == 0 { 3 } else { 2 }) {
                        0 => match rng.below(8) {
                            0 | 1 => vec![1, 0],
                            2 => vec![1, 1, ((1u128 << 62) / 1000) as u64 + rng.below(3), rng.below(1_000_000_000)],
                            _ => vec![1, 1, rng.below(100_000), rng.below(1_000_000_000)],
                        },
                        1 => if rng.below(4) == 0 { vec![2, 0] } else { vec![2, 1, 1 + rng.below(90_000)] },
                        _ => vec![3, rng.below(2)],
                    };
                    args.push(op);
                }
                cs.push(Case::new(754, args, "setter-chain"));
            }
            cs.push(Case::new(754, vec![vec![0]], "setter-chain-empty"));
            cs.push(Case::new(754, vec![vec![1]], "setter-chain-empty"));
            for order in 0..3u64 {
                cs.push(Case::new(753, vec![vec![order, 300]], "client-keep-alive"));
            }
            cs.push(Case::new(753, vec![vec![0, 0]], "client-no-keep-alive"));
            cs.push(Case::new(752, vec![vec![400, 0, 1500]], "idle-expires"));
            cs.push(Case::new(752, vec![vec![500, 120, 1300]], "keep-alive-holds"));
            cs.push(Case::new(752, vec![vec![5000, 0, 700]], "long-idle-alive"));
        }
        "alpn" => {
            for m in 0..3u64 {
                cs.push(Case::new(761, vec![vec![m]], "alpn"));
            }
        }
        "reload" => {
            cs.push(Case::new(771, vec![vec![0]], "reload-no-rebind"));
            cs.push(Case::new(771, vec![vec![1]], "reload-rebind"));
            cs.push(Case::new(772, vec![vec![0]], "reload-same-address-no-rebind"));
        }
        _ => {}
    }
    cs
}
