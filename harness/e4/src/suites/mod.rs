//! E4 suite registry: TLS pinning, digests, PEM, identities, configuration.
use crate::rng::Rng;
use crate::{Args, Case};

pub mod cfg;
pub mod tls;

pub fn generate(suite: &str, rng: &mut Rng, thorough: bool) -> (&'static str, Vec<Case>) {
    match suite {
        "pin" | "digest" | "pem" | "identity" => ("E4C", tls::generate(rng, thorough, suite)),
        "bind" | "idle" | "alpn" | "reload" => ("E4C", cfg::generate(rng, thorough, suite)),
        _ => panic!("unknown suite {}", suite),
    }
}

pub async fn exec(f: u32, args: &Args) -> Args {
    match f {
        701..=739 => tls::exec(f, args).await,
        741..=779 => cfg::exec(f, args).await,
        _ => panic!("unknown function id {}", f),
    }
}

pub fn oracle(f: u32, args: &Args, out: &Args) -> Option<(&'static str, String)> {
    if out.len() == 1 && out[0] == vec![crate::PANIC] {
        return Some((if f < 720 && f >= 710 { "C19" } else if f < 710 { "C10" } else if f < 740 { "C19" } else { "C20" }, format!("panic in {}", f)));
    }
    match f {
        701..=739 => tls::oracle(f, args, out),
        741..=779 => cfg::oracle(f, args, out),
        _ => None,
    }
}

pub fn outcome_class(_f: u32, out: &Args) -> String {
    if out.len() == 1 && out[0] == vec![crate::PANIC] {
        return "panic".into();
    }
    match out.first().and_then(|v| v.first()) {
        Some(t) => format!("tag{}", t),
        None => "empty".into(),
    }
}
