//! 701 pinning (C10), 711/712 digests, 721/722 PEM, 731 identities (C19).
use crate::net::{a2b, b2a};
use crate::rng::Rng;
use crate::{Args, Case};
use rustls_pki_types::{CertificateDer, ServerName, UnixTime};
use sha2::Digest;
use std::sync::OnceLock;
use std::time::Duration;
use wtransport::tls::client::ServerHashVerification;
use wtransport::tls::rustls::client::danger::ServerCertVerifier;
use wtransport::tls::{Certificate, CertificateChain, Identity, PrivateKey, Sha256Digest, Sha256DigestFmt};

const BASE: i64 = 1_800_000_000; // a fixed epoch for the generated validity windows

static KEYS: OnceLock<Vec<rcgen::KeyPair>> = OnceLock::new();
fn keys() -> &'static Vec<rcgen::KeyPair> {
    KEYS.get_or_init(|| {
        vec![
            rcgen::KeyPair::generate_for(&rcgen::PKCS_ECDSA_P256_SHA256).unwrap(),
            rcgen::KeyPair::generate_for(&rcgen::PKCS_ECDSA_P384_SHA384).unwrap(),
            rcgen::KeyPair::generate_for(&rcgen::PKCS_ED25519).unwrap(),
        ]
    })
}

fn make_cert(alg: usize, nb: i64, na: i64) -> Vec<u8> {
    let mut p = rcgen::CertificateParams::new(vec!["localhost".to_string()]).unwrap();
    p.not_before = time::OffsetDateTime::from_unix_timestamp(BASE + nb).unwrap();
    p.not_after = time::OffsetDateTime::from_unix_timestamp(BASE + na).unwrap();
    p.self_signed(&keys()[alg]).unwrap().der().to_vec()
}

fn sha(der: &[u8]) -> [u8; 32] {
    sha2::Sha256::digest(der).into()
}

fn tmp(name: &str) -> std::path::PathBuf {
    let d = std::path::PathBuf::from(concat!(env!("CARGO_MANIFEST_DIR"), "/../../.cache/tmp"));
    let _ = std::fs::create_dir_all(&d);
    d.join(format!("{}-{}-{}", std::process::id(), name, rand_suffix()))
}
fn rand_suffix() -> u64 {
    use std::sync::atomic::{AtomicU64, Ordering};
    static C: AtomicU64 = AtomicU64::new(0);
    C.fetch_add(1, Ordering::Relaxed)
}

pub async fn exec(f: u32, a: &Args) -> Args {
    match f {
        // [alg, nb, na(+2^40 bias), now(+bias), hashmode, corrupt]
        701 => {
            let bias = 1i64 << 40;
            let (alg, nb, na, now, mode, corrupt) = (a[0][0] as usize, a[0][1] as i64 - bias, a[0][2] as i64 - bias, a[0][3] as i64 - bias, a[0][4], a[0][5]);
            let mut der = make_cert(alg, nb, na);
            // abstract inputs of the model, extracted independently with x509-parser
            let (p_nb, p_na, p_ec, p_p256) = {
                use x509_parser::prelude::*;
                let (_, x) = X509Certificate::from_der(&der).unwrap();
                let ec = x.public_key().algorithm.algorithm == x509_parser::oid_registry::OID_KEY_TYPE_EC_PUBLIC_KEY;
                let p256 = matches!(x.public_key().algorithm.parameters.as_ref().map(|any| any.as_oid()), Some(Ok(oid)) if oid == x509_parser::oid_registry::OID_EC_P256);
                (x.validity().not_before.timestamp(), x.validity().not_after.timestamp(), ec, p256)
            };
            let h = sha(&der);
            let other = |i: u8| { let mut x = h; x[0] ^= i; Sha256Digest::new(x) };
            let hashes: Vec<Sha256Digest> = match mode {
                0 => vec![],
                1 => vec![Sha256Digest::new(h)],
                2 => vec![other(1)],
                3 => vec![other(1), other(2), Sha256Digest::new(h), other(3)],
                4 => vec![other(1), other(2), other(3)],
                // near misses: digests related to the right one byte-wise (reversed, rotated,
                // complemented, the same mask on two bytes, one bit in the last byte)
                5 => { let mut x = h; x.reverse(); vec![Sha256Digest::new(x)] }
                6 => { let mut x = h; x.rotate_left(1); vec![Sha256Digest::new(x), other(4)] }
                7 => { let mut x = h; for b in x.iter_mut() { *b = !*b; } vec![Sha256Digest::new(x)] }
                8 => { let mut x = h; x[3] ^= 0x5a; x[17] ^= 0x5a; vec![other(1), Sha256Digest::new(x)] }
                _ => { let mut x = h; x[31] ^= 0x80; vec![Sha256Digest::new(x)] }
            };
            // a[0][6]: how the verifier gets its set: 0 = new(set); 1 = new(eight other pins) then add(each);
            // 2 = new(empty) then add(each) in descending order
            let how = a[0].get(6).copied().unwrap_or(0);
            let mut hashes = hashes;
            let mut base: Vec<Sha256Digest> = vec![];
            if how == 1 {
                for i in 0..8u8 {
                    let mut x = [i; 32];
                    x[0] = 0xf0 + i;
                    base.push(Sha256Digest::new(x));
                }
            }
            if how == 2 {
                hashes.sort_by(|x, y| y.as_ref().cmp(x.as_ref()));
            }
            let mut all = base.clone();
            all.extend(hashes.iter().cloned());
            let set_out: Vec<Vec<u64>> = all.iter().map(|d| b2a(d.as_ref())).collect();
            if corrupt == 1 {
                der.truncate(der.len() / 2);
            } else if corrupt == 2 {
                let n = der.len();
                der[n - 5] ^= 0x55; // signature bits: still parses, hash differs
            }
            let presented_hash = sha(&der);
            let v = if how == 0 {
                ServerHashVerification::new(hashes)
            } else {
                let mut v = ServerHashVerification::new(base);
                for h in hashes {
                    v.add(h);
                }
                v
            };
            // the same verifier is asked three times (a client endpoint verifies at every connect): the
            // decision is a function of (certificate, time, set) and may not depend on earlier calls; the
            // LAST answer is reported
            let mut r = v.verify_server_cert(
                &CertificateDer::from(der.clone()),
                &[],
                &ServerName::try_from("localhost").unwrap(),
                &[],
                UnixTime::since_unix_epoch(Duration::from_secs((BASE + now) as u64)),
            );
            for _ in 0..2 {
                r = v.verify_server_cert(
                    &CertificateDer::from(der.clone()),
                    &[],
                    &ServerName::try_from("localhost").unwrap(),
                    &[],
                    UnixTime::since_unix_epoch(Duration::from_secs((BASE + now) as u64)),
                );
            }
            use wtransport::tls::rustls::{CertificateError as CE, Error as E};
            let code = match r {
                Ok(_) => 0,
                Err(E::InvalidCertificate(CE::NotValidYet)) => 1,
                Err(E::InvalidCertificate(CE::Expired)) => 2,
                Err(E::InvalidCertificate(CE::UnknownIssuer)) => 3,
                Err(E::InvalidCertificate(CE::BadEncoding)) => 4,
                Err(_) => 9,
            };
            let mut out = vec![vec![1, code], vec![(p_nb - BASE + bias) as u64, (p_na - BASE + bias) as u64, p_ec as u64, p_p256 as u64], b2a(&presented_hash)];
            out.extend(set_out);
            out
        }
        // default trust policy against a self-signed server, under four settings of the environment
        // variables that can name extra roots; each runs in a child process (702 parent, 703 child)
        702 => {
            let variant = a[0][0];
            let dir = tmp("trust");
            let _ = std::fs::create_dir_all(&dir);
            let id = Identity::self_signed(["localhost", "127.0.0.1"]).unwrap();
            let cert_path = dir.join("leaf.pem");
            let key_path = tmp("trust-key.pem");
            if id.certificate_chain().store_pemfile(&cert_path).await.is_err() || id.private_key().store_secret_pemfile(&key_path).await.is_err() {
                return vec![vec![2]];
            }
            let mut cmd = std::process::Command::new(std::env::current_exe().unwrap());
            let mut argv = vec![vec![0u64], b2a(cert_path.to_string_lossy().as_bytes()), b2a(key_path.to_string_lossy().as_bytes())];
            argv[0][0] = variant;
            cmd.args(["replay", "703", &crate::args_str(&argv)]);
            cmd.env_remove("SSL_CERT_FILE").env_remove("SSL_CERT_DIR");
            if variant == 1 || variant == 3 { cmd.env("SSL_CERT_FILE", &cert_path); }
            if variant == 2 || variant == 3 { cmd.env("SSL_CERT_DIR", &dir); }
            let outp = tokio::task::spawn_blocking(move || cmd.output()).await;
            let _ = std::fs::remove_dir_all(&dir);
            let _ = std::fs::remove_file(&key_path);
            let text = match outp { Ok(Ok(o)) => String::from_utf8_lossy(&o.stdout).into_owned(), _ => return vec![vec![2]] };
            let line = text.lines().find(|l| l.starts_with("f=703")).unwrap_or("");
            let res = line.rsplit("out=").next().unwrap_or("");
            let nums: Vec<u64> = res.split(|c| c == ',' || c == ';').filter_map(|x| x.trim().parse().ok()).collect();
            if nums.len() < 3 { return vec![vec![2]]; }
            vec![vec![1, nums[1], nums[2]]]
        }
        703 => {
            let cert = String::from_utf8(a2b(&a[1])).unwrap();
            let key = String::from_utf8(a2b(&a[2])).unwrap();
            let id = match Identity::load_pemfiles(&cert, &key).await { Ok(i) => i, Err(_) => return vec![vec![2, 9, 9]] };
            let hash = id.certificate_chain().as_slice()[0].hash();
            let server = wtransport::Endpoint::server(wtransport::ServerConfig::builder().with_bind_address("127.0.0.1:0".parse().unwrap()).with_identity(id).build()).unwrap();
            let port = server.local_addr().unwrap().port();
            let url = format!("https://localhost:{}/t", port);
            let acc = tokio::spawn(async move {
                loop {
                    let inc = server.accept().await;
                    tokio::spawn(async move { if let Ok(r) = inc.await { if let Ok(c) = r.accept().await { tokio::time::sleep(Duration::from_secs(2)).await; drop(c); } } });
                }
            });
            // control: the pinned client connects
            let pinned = wtransport::Endpoint::client(wtransport::ClientConfig::builder().with_bind_default().with_server_certificate_hashes([hash]).build()).unwrap();
            let ctl = matches!(tokio::time::timeout(Duration::from_millis(2500), pinned.connect(&url)).await, Ok(Ok(_))) as u64;
            // default trust policy
            let dflt = wtransport::Endpoint::client(wtransport::ClientConfig::builder().with_bind_default().with_native_certs().build()).unwrap();
            let got = matches!(tokio::time::timeout(Duration::from_millis(2500), dflt.connect(&url)).await, Ok(Ok(_))) as u64;
            acc.abort();
            vec![vec![1, ctl, got]]
        }
        // digest: format then parse (both formats, and FromStr)
        711 => {
            let mut d = [0u8; 32];
            for (i, x) in a[0].iter().enumerate().take(32) { d[i] = *x as u8; }
            let dg = Sha256Digest::new(d);
            let mut out = vec![vec![1]];
            for fmt in [Sha256DigestFmt::BytesArray, Sha256DigestFmt::DottedHex] {
                let s = dg.fmt(fmt);
                out.push(b2a(s.as_bytes()));
                out.push(match Sha256Digest::from_str_fmt(&s, fmt) { Ok(x) => { let mut v = vec![1]; v.extend(b2a(x.as_ref())); v } Err(_) => vec![0] });
                out.push(match s.parse::<Sha256Digest>() { Ok(x) => { let mut v = vec![1]; v.extend(b2a(x.as_ref())); v } Err(_) => vec![0] });
            }
            out.push(b2a(dg.to_string().as_bytes()));
            out
        }
        // digest: parse arbitrary text: [fmt (0 array, 1 hex, 2 FromStr)], text
        712 => {
            let s = match String::from_utf8(a2b(&a[1])) { Ok(s) => s, Err(_) => return vec![vec![9]] };
            let r = match a[0][0] {
                0 => Sha256Digest::from_str_fmt(&s, Sha256DigestFmt::BytesArray),
                1 => Sha256Digest::from_str_fmt(&s, Sha256DigestFmt::DottedHex),
                _ => s.parse::<Sha256Digest>(),
            };
            match r { Ok(x) => { let mut v = vec![1]; v.extend(b2a(x.as_ref())); vec![v] } Err(_) => vec![vec![0]] }
        }
        // PEM: private key bytes (arbitrary) -> to_secret_pem, store, load
        721 => {
            let bytes = a2b(&a[0]);
            let k = PrivateKey::from_der_pkcs8(bytes.clone());
            let pem = k.to_secret_pem();
            let path = tmp("key.pem");
            let st = k.store_secret_pemfile(&path).await.is_ok() as u64;
            let back = PrivateKey::load_pemfile(&path).await;
            let _ = std::fs::remove_file(&path);
            let same = match &back { Ok(b) => (b.secret_der() == bytes.as_slice()) as u64, Err(_) => 2 };
            vec![vec![1, st, same], b2a(pem.as_bytes())]
        }
        // PEM: chain of n generated certificates through a file; single certificate through a file
        722 => {
            let n = a[0][0] as usize;
            let certs: Vec<Certificate> = (0..n).map(|i| Certificate::from_der(make_cert(i % 3, 0, 1000 + i as i64)).unwrap()).collect();
            let chain = CertificateChain::new(certs.clone());
            let path = tmp("chain.pem");
            let st = chain.store_pemfile(&path).await.is_ok() as u64;
            let back = CertificateChain::load_pemfile(&path).await;
            let text = std::fs::read(&path).unwrap_or_default();
            let _ = std::fs::remove_file(&path);
            let same = match &back {
                Ok(b) => (b.as_slice().len() == n && b.as_slice().iter().zip(certs.iter()).all(|(x, y)| x.der() == y.der())) as u64,
                Err(_) => 2,
            };
            // single certificate
            let single = if n > 0 {
                let p2 = tmp("cert.pem");
                let _ = certs[0].store_pemfile(&p2).await;
                let b = Certificate::load_pemfile(&p2).await;
                let _ = std::fs::remove_file(&p2);
                match b { Ok(c) => (c.der() == certs[0].der()) as u64, Err(_) => 2 }
            } else { 1 };
            let mut ders: Args = certs.iter().map(|c| b2a(c.der())).collect();
            let mut out = vec![vec![1, st, same, single], b2a(&text)];
            out.append(&mut ders);
            out
        }
        // PEM: a chain of n certificates, then a chain of m, stored into the SAME file; also a key after a longer key
        724 => {
            let (n, m) = (a[0][0] as usize, a[0][1] as usize);
            let mk = |k: usize| -> Vec<Certificate> { (0..k).map(|i| Certificate::from_der(make_cert(i % 3, 0, 2000 + i as i64)).unwrap()).collect() };
            let first = CertificateChain::new(mk(n));
            let second_certs = mk(m);
            let second = CertificateChain::new(second_certs.clone());
            let path = tmp("rechain.pem");
            let s1 = first.store_pemfile(&path).await.is_ok() as u64;
            let s2 = second.store_pemfile(&path).await.is_ok() as u64;
            let back = CertificateChain::load_pemfile(&path).await;
            let text = std::fs::read(&path).unwrap_or_default();
            let _ = std::fs::remove_file(&path);
            let same = match &back {
                Ok(b) => (b.as_slice().len() == m && b.as_slice().iter().zip(second_certs.iter()).all(|(x, y)| x.der() == y.der())) as u64,
                Err(_) => 2,
            };
            let want: String = second_certs.iter().map(|c| c.to_pem()).collect();
            // a short key over a long key
            let kp = tmp("rekey.pem");
            let long = PrivateKey::from_der_pkcs8(vec![7u8; 300]);
            let short = PrivateKey::from_der_pkcs8(vec![9u8; 20]);
            let _ = long.store_secret_pemfile(&kp).await;
            let _ = short.store_secret_pemfile(&kp).await;
            let ktext = std::fs::read(&kp).unwrap_or_default();
            let _ = std::fs::remove_file(&kp);
            vec![vec![1, s1, s2, same, (text == want.as_bytes()) as u64, (ktext == short.to_secret_pem().as_bytes()) as u64]]
        }
        // corrupt PEM / DER text must be an error, never a panic: [kind], bytes
        723 => {
            let bytes = a2b(&a[1]);
            let path = tmp("bad.pem");
            std::fs::write(&path, &bytes).unwrap();
            let r = match a[0][0] {
                0 => Certificate::load_pemfile(&path).await.is_ok() as u64,
                1 => CertificateChain::load_pemfile(&path).await.map(|c| c.as_slice().len() as u64 + 10).unwrap_or(0),
                2 => PrivateKey::load_pemfile(&path).await.is_ok() as u64,
                _ => Certificate::from_der(bytes.clone()).is_ok() as u64,
            };
            let _ = std::fs::remove_file(&path);
            vec![vec![1, r]]
        }
        // generated identities: SAN lists, validity setters; abstract record via x509-parser + pinning with own hash
        // generated identities whose validity is given as date-times with a UTC offset other than zero:
        // a[0] = [offset of not_before in minutes + 1440, offset of not_after in minutes + 1440, days, start shift in seconds + 2^20]
        732 => {
            let (o1, o2, days, shift) = (a[0][0] as i32 - 1440, a[0][1] as i32 - 1440, a[0][2] as i64, a[0][3] as i64 - (1 << 20));
            let now = ::time::OffsetDateTime::now_utc();
            let nb = now + ::time::Duration::seconds(shift);
            let na = nb + ::time::Duration::days(days);
            let off = |m: i32| ::time::UtcOffset::from_whole_seconds(m * 60).unwrap();
            let id = Identity::self_signed_builder()
                .subject_alt_names(["localhost"])
                .not_before(nb.to_offset(off(o1)))
                .not_after(na.to_offset(off(o2)))
                .build();
            let id = match id { Ok(i) => i, Err(_) => return vec![vec![0]] };
            let cert = &id.certificate_chain().as_slice()[0];
            let der = cert.der().to_vec();
            use x509_parser::prelude::*;
            let (_, x) = X509Certificate::from_der(&der).unwrap();
            let got_nb = x.validity().not_before.timestamp();
            let got_na = x.validity().not_after.timestamp();
            let v = ServerHashVerification::new([cert.hash()]);
            let ok = v.verify_server_cert(&CertificateDer::from(der.clone()), &[], &ServerName::try_from("localhost").unwrap(), &[], UnixTime::now()).is_ok();
            vec![vec![1, (got_nb == nb.unix_timestamp()) as u64, (got_na == na.unix_timestamp()) as u64, ok as u64],
                 vec![(got_nb - nb.unix_timestamp()).unsigned_abs(), (got_na - na.unix_timestamp()).unsigned_abs()]]
        }
        731 => {
            let sans: Vec<String> = a[1..].iter().map(|s| String::from_utf8(a2b(s)).unwrap()).collect();
            let mode = a[0][0]; // 0 = self_signed (default 14 days), n>0 = validity_days(n)
            let before = ::time::OffsetDateTime::now_utc().unix_timestamp();
            let id = if mode == 0 {
                Identity::self_signed(sans.iter())
            } else {
                Identity::self_signed_builder().subject_alt_names(sans.iter()).from_now_utc().validity_days(mode as u32).build()
            };
            let id = match id { Ok(i) => i, Err(_) => return vec![vec![0]] };
            let cert = &id.certificate_chain().as_slice()[0];
            let der = cert.der().to_vec();
            use x509_parser::prelude::*;
            let (_, x) = X509Certificate::from_der(&der).unwrap();
            let ec = x.public_key().algorithm.algorithm == x509_parser::oid_registry::OID_KEY_TYPE_EC_PUBLIC_KEY;
            let p256 = matches!(x.public_key().algorithm.parameters.as_ref().map(|any| any.as_oid()), Some(Ok(oid)) if oid == x509_parser::oid_registry::OID_EC_P256);
            let v3 = x.version() == X509Version::V3;
            let nb = x.validity().not_before.timestamp();
            let na = x.validity().not_after.timestamp();
            let mut san_out: Args = vec![];
            if let Ok(Some(ext)) = x.subject_alternative_name() {
                for g in &ext.value.general_names {
                    match g {
                        GeneralName::DNSName(d) => { let mut v = vec![0u64]; v.extend(b2a(d.as_bytes())); san_out.push(v); }
                        GeneralName::IPAddress(ip) => { let mut v = vec![1u64]; v.extend(b2a(ip)); san_out.push(v); }
                        _ => san_out.push(vec![9]),
                    }
                }
            }
            // accepted by pinning configured with its own hash, now
            let v = ServerHashVerification::new([cert.hash()]);
            let ok = v.verify_server_cert(&CertificateDer::from(der.clone()), &[], &ServerName::try_from("localhost").unwrap(), &[], UnixTime::now()).is_ok();
            // ... and when its hash is added to a verifier that already holds other pins
            let ok = ok && {
                let mut others = vec![];
                for i in 0..8u8 {
                    let mut x = [i; 32];
                    x[0] = 0xf0 + i;
                    others.push(Sha256Digest::new(x));
                }
                let mut v2 = ServerHashVerification::new(others);
                v2.add(cert.hash());
                v2.verify_server_cert(&CertificateDer::from(der.clone()), &[], &ServerName::try_from("localhost").unwrap(), &[], UnixTime::now()).is_ok()
            };
            let valid_now = nb <= before + 2 && before <= na;
            let mut out = vec![vec![1, ec as u64, p256 as u64, v3 as u64, (na - nb) as u64, valid_now as u64, ok as u64, (cert.hash().as_ref() == &sha(&der)) as u64]];
            out.append(&mut san_out);
            out
        }
        _ => panic!("tls: unknown f {}", f),
    }
}

pub fn oracle(f: u32, a: &Args, out: &Args) -> Option<(&'static str, String)> {
    match f {
        701 => {
            // C10 on the implementation: accepted iff hash in set AND in window AND <= 14 days AND P-256
            let bias = 1i64 << 40;
            let now = a[0][3] as i64 - bias;
            let (nb, na) = (out[1][0] as i64 - bias, out[1][1] as i64 - bias);
            // membership is exact equality of all 32 bytes with the SHA-256 of the presented certificate
            let hash_in = out[3..].iter().any(|d| *d == out[2]);
            let want = a[0][5] != 1 && hash_in && nb <= now && now <= na && (na - nb) <= 14 * 86400 && out[1][2] == 1 && out[1][3] == 1;
            if (out[0][1] == 0) != want {
                return Some(("C10", format!("pinning accepted={} but conditions hold={} (alg {}, window {}..{}, now {}, hash mode {})", out[0][1] == 0, want, a[0][0], nb, na, now, a[0][4])));
            }
            None
        }
        711 => {
            let want: Vec<u64> = { let mut v = vec![1]; v.extend(a[0].iter().take(32)); v };
            for i in [2usize, 3, 5, 6] {
                if out[i] != want {
                    return Some(("C19", format!("digest does not survive format-then-parse (entry {})", i)));
                }
            }
            None
        }
        721 => {
            if out[0][1] != 1 || out[0][2] != 1 { return Some(("C19", format!("private key does not survive store-then-load: {:?}", out[0]))); }
            None
        }
        722 => {
            if out[0][1] != 1 || out[0][2] != 1 || out[0][3] != 1 { return Some(("C19", format!("certificate chain does not survive store-then-load: {:?}", out[0]))); }
            None
        }
        702 => {
            if out[0][0] == 1 {
                if out[0][1] != 1 {
                    return None; // the control connection did not come up: no verdict
                }
                if out[0][2] != 0 {
                    return Some(("C10", format!("default trust policy (environment variant {}: SSL_CERT_FILE {}, SSL_CERT_DIR {}) established a session with a self-signed server", a[0][0], if a[0][0] == 1 || a[0][0] == 3 { "set" } else { "unset" }, if a[0][0] >= 2 { "set" } else { "unset" })));
                }
            }
            None
        }
        724 => {
            if out[0][1..] != [1, 1, 1, 1, 1] {
                return Some(("C19", format!("storing {} then {} certificates into the same file (and a short key over a long one): stored={},{} chain loads back equal={} file equals to_pem={} key file equals to_secret_pem={}", a[0][0], a[0][1], out[0][1], out[0][2], out[0][3], out[0][4], out[0][5])));
            }
            None
        }
        732 => {
            if out[0][0] != 1 {
                return Some(("C19", "an identity with a validity given in a non-UTC offset could not be generated".into()));
            }
            if out[0][1] != 1 || out[0][2] != 1 {
                return Some(("C19", format!("validity instants given with UTC offsets {} / {} min ended up {} s / {} s away in the certificate", a[0][0] as i64 - 1440, a[0][1] as i64 - 1440, out[1][0], out[1][1])));
            }
            let shift = a[0][3] as i64 - (1 << 20);
            if a[0][2] <= 14 && shift <= 0 && out[0][3] != 1 {
                return Some(("C19", "a generated identity of <= 14 days, valid now, is refused by pinning with its own hash".into()));
            }
            None
        }
        731 => {
            if out[0][0] == 1 {
                let o = &out[0];
                let days = if a[0][0] == 0 { 14 } else { a[0][0] };
                if o[1] != 1 || o[2] != 1 { return Some(("C19", "generated identity is not ECDSA P-256".into())); }
                if o[3] != 1 { return Some(("C19", "generated certificate is not X.509v3".into())); }
                if o[4] != days * 86400 { return Some(("C19", format!("validity period {} s, expected {} days", o[4], days))); }
                if o[5] != 1 { return Some(("C19", "generated certificate is not valid now".into())); }
                if days <= 14 && o[6] != 1 { return Some(("C19", "generated identity refused by pinning with its own hash".into())); }
                if o[7] != 1 { return Some(("C19", "Certificate::hash is not the SHA-256 of the DER".into())); }
                // SANs: exactly the requested ones, typed
                let mut want: Args = vec![];
                for s in &a[1..] {
                    let text = String::from_utf8(a2b(s)).unwrap();
                    match text.parse::<std::net::IpAddr>() {
                        Ok(std::net::IpAddr::V4(ip)) => { let mut v = vec![1u64]; v.extend(b2a(&ip.octets())); want.push(v); }
                        Ok(std::net::IpAddr::V6(ip)) => { let mut v = vec![1u64]; v.extend(b2a(&ip.octets())); want.push(v); }
                        Err(_) => { let mut v = vec![0u64]; v.extend(s.iter()); want.push(v); }
                    }
                }
                if out[1..] != want[..] { return Some(("C19", format!("subject alternative names differ: got {:?}, requested {:?}", &out[1..], want))); }
            }
            None
        }
        _ => None,
    }
}

pub fn generate(rng: &mut Rng, thorough: bool, which: &str) -> Vec<Case> {
    let mut cs = vec![];
    let bias = 1u64 << 40;
    let b = |x: i64| -> u64 { (x + (1i64 << 40)) as u64 };
    let _ = bias;
    match which {
        "pin" => {
            let day = 86400i64;
            let windows: Vec<(i64, i64)> = vec![
                (0, 14 * day), (0, 14 * day - 1), (0, 14 * day + 1), (0, 1), (0, 0), (0, day), (100, 50), (0, 15 * day), (0, 365 * day),
            ];
            for alg in 0..3u64 {
                for (nb, na) in &windows {
                    let nows: Vec<i64> = vec![nb - 1, *nb, nb + 1, na - 1, *na, na + 1, (nb + na) / 2];
                    for now in nows {
                        for mode in 0..10u64 {
                            if !thorough && !(mode == 1 || (now + mode as i64) % 3 == 0) { continue; }
                            cs.push(Case::new(701, vec![vec![alg, b(*nb), b(*na), b(now), mode, 0]], "pin-matrix"));
                        }
                    }
                }
            }
            // the set built incrementally with add(), in orders a sorted container would not produce
            for how in [1u64, 2] {
                for mode in [1u64, 3, 2, 4, 8] {
                    for alg in 0..2u64 {
                        cs.push(Case::new(701, vec![vec![alg, b(0), b(day), b(10), mode, 0, how]], "pin-set-built-with-add"));
                    }
                }
            }
            for v in 0..4u64 {
                cs.push(Case::new(702, vec![vec![v]], "default-trust-policy"));
            }
            cs.push(Case::new(701, vec![vec![0, b(0), b(day), b(10), 1, 1]], "truncated-der"));
            cs.push(Case::new(701, vec![vec![0, b(0), b(day), b(10), 1, 2]], "altered-certificate"));
            let _ = rng.next();
        }
        "digest" => {
            let n = if thorough { 600 } else { 120 };
            cs.push(Case::new(711, vec![vec![0; 32]], "zeros"));
            cs.push(Case::new(711, vec![vec![255; 32]], "ones"));
            cs.push(Case::new(711, vec![(0..32).map(|i| i * 8).collect()], "ramp"));
            cs.push(Case::new(711, vec![(0..32).map(|i| [0u64, 9, 10, 15, 16, 99, 100, 127][i % 8]).collect()], "digit-boundaries"));
            for _ in 0..n {
                cs.push(Case::new(711, vec![b2a(&rng.bytes(32))], "random"));
            }
            // arbitrary / corrupt text
            let good_arr = format!("{:?}", [7u8; 32]);
            let good_hex = vec!["0a"; 32].join(":");
            let texts: Vec<String> = vec![
                "".into(), "[]".into(), "[".into(), "]".into(), ",".into(), ":".into(), good_arr.clone(), good_hex.clone(),
                format!("[[{}]]", &good_arr[1..good_arr.len() - 1]), good_arr.replace(", ", ","), good_arr.replace("7", " +7 "), good_arr.replace("7", "007"),
                good_arr.replace("7", "256"), good_arr.replace("7", "-1"), good_arr.replace("[", "").replace("]", ""),
                good_hex.to_uppercase(), good_hex.replace("0a", "a"), good_hex.replace("0a", "00a"), good_hex.replace("0a", "100"), good_hex.replace("0a", " 0a "),
                good_hex.replace("0a", "+a"), good_hex.replace(":", ","), format!("{}:0a", good_hex), good_hex[..good_hex.len() - 3].to_string(),
                vec!["7"; 32].join(":"), vec!["10"; 32].join(","), vec!["10"; 32].join(":"), "zz".into(), vec!["g0"; 32].join(":"),
            ];
            for t in texts {
                for fmt in 0..3u64 {
                    cs.push(Case::new(712, vec![vec![fmt], b2a(t.as_bytes())], "text"));
                }
            }
            for _ in 0..n {
                let l = rng.range(0, 40) as usize;
                let t: Vec<u8> = (0..l).map(|_| *rng.pick(b"0123456789abcdefABCDEF[],: +-x")).collect();
                cs.push(Case::new(712, vec![vec![rng.below(3)], b2a(&t)], "random-text"));
            }
        }
        "pem" => {
            for l in [0usize, 1, 2, 3, 4, 47, 48, 49, 95, 96, 97, 138, 1000] {
                cs.push(Case::new(721, vec![b2a(&rng.bytes(l))], "key-bytes"));
            }
            for n in [0u64, 1, 2, 3, 8] {
                cs.push(Case::new(722, vec![vec![n]], "chain"));
            }
            for (n, m) in [(3u64, 1u64), (1, 0), (2, 2), (1, 3), (8, 2)] {
                cs.push(Case::new(724, vec![vec![n, m]], "store-over-existing-file"));
            }
            let good = Certificate::from_der(make_cert(0, 0, 100)).unwrap().to_pem();
            let bads: Vec<Vec<u8>> = vec![
                vec![], b"hello".to_vec(), b"-----BEGIN CERTIFICATE-----\n".to_vec(), b"-----BEGIN CERTIFICATE-----\nAAAA\n-----END CERTIFICATE-----\n".to_vec(),
                b"-----BEGIN CERTIFICATE-----\n!!!!\n-----END CERTIFICATE-----\n".to_vec(), good.replace("CERTIFICATE", "PRIVATE KEY").into_bytes(),
                good.as_bytes()[..good.len() / 2].to_vec(), good.replace("A", "B").into_bytes(), rng.bytes(200), good.clone().into_bytes(),
                format!("{}{}", good, good).into_bytes(), format!("junk\n{}trailing", good).into_bytes(),
            ];
            for bad in bads {
                for kind in 0..4u64 {
                    cs.push(Case::new(723, vec![vec![kind], b2a(&bad)], "corrupt-or-foreign"));
                }
            }
        }
        "identity" => {
            let lists: Vec<Vec<&str>> = vec![
                vec!["localhost"], vec!["localhost", "127.0.0.1", "::1"], vec!["example.com", "www.example.com"], vec!["10.0.0.1"],
                vec!["2001:db8::1", "a.b"], vec![], vec!["*.example.com"],
                vec!["::ffff:192.0.2.7"], vec!["::ffff:192.0.2.7", "192.0.2.7"], vec!["::ffff:c000:207", "0:0:0:0:0:0:0:1", "::"], vec!["2001:DB8:0:0:0:0:0:1", "fe80::1"],
                vec!["0.0.0.0", "255.255.255.255", "localhost.", "LOCALHOST"], vec!["bad name with spaces"], vec!["\u{e9}.example"], vec![""],
            ];
            for l in &lists {
                let mut args = vec![vec![0u64]];
                args.extend(l.iter().map(|s| b2a(s.as_bytes())));
                cs.push(Case::new(731, args, "self-signed"));
            }
            for days in [1u64, 7, 13, 14, 15, 30] {
                cs.push(Case::new(731, vec![vec![days], b2a(b"localhost")], "validity-days"));
            }
            // validity instants handed over as date-times in other UTC offsets (the instant is what counts)
            for (o1, o2) in [(0i64, 0i64), (330, 330), (-480, 0), (0, 840), (-720, 765), (60, -60)] {
                for (days, shift) in [(14u64, -60i64), (7, -3600), (1, -5), (13, -86400)] {
                    if !thorough && (o1 + o2 + days as i64) % 2 == 1 { continue; }
                    cs.push(Case::new(732, vec![vec![(o1 + 1440) as u64, (o2 + 1440) as u64, days, (shift + (1 << 20)) as u64]], "validity-in-utc-offsets"));
                }
            }
        }
        _ => {}
    }
    cs
}
