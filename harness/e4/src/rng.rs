//! splitmix64: the one PRNG every random choice derives from.
#[derive(Clone)]
pub struct Rng(pub u64);

impl Rng {
    pub fn new(seed: u64) -> Self {
        Rng(seed ^ 0x9E37_79B9_7F4A_7C15)
    }
    pub fn next(&mut self) -> u64 {
        self.0 = self.0.wrapping_add(0x9E37_79B9_7F4A_7C15);
        let mut z = self.0;
        z = (z ^ (z >> 30)).wrapping_mul(0xBF58_476D_1CE4_E5B9);
        z = (z ^ (z >> 27)).wrapping_mul(0x94D0_49BB_1331_11EB);
        z ^ (z >> 31)
    }
    pub fn below(&mut self, n: u64) -> u64 {
        if n == 0 {
            0
        } else {
            self.next() % n
        }
    }
    pub fn range(&mut self, lo: u64, hi: u64) -> u64 {
        lo + self.below(hi - lo + 1)
    }
    pub fn byte(&mut self) -> u8 {
        self.next() as u8
    }
    pub fn bytes(&mut self, n: usize) -> Vec<u8> {
        (0..n).map(|_| self.byte()).collect()
    }
    pub fn coin(&mut self) -> bool {
        self.next() & 1 == 1
    }
    pub fn pick<'a, T>(&mut self, xs: &'a [T]) -> &'a T {
        &xs[self.below(xs.len() as u64) as usize]
    }
    /// a 62-bit value with a random magnitude (uniform over bit lengths)
    pub fn varint(&mut self) -> u64 {
        let bits = self.range(0, 62);
        if bits == 0 {
            0
        } else {
            self.next() & ((1u64 << bits) - 1) & ((1u64 << 62) - 1)
        }
    }
}
