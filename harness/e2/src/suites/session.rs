//! Family 601: how the session (CONNECT) stream ends, and what every waiting API then reports (C04, C09, C13).
use crate::net::*;
use crate::rng::Rng;
use crate::{Args, Case};
use std::time::Duration;

const T_PEND: Duration = Duration::from_millis(1800);
const T_SUB: Duration = Duration::from_millis(600);

fn push(out: &mut Args, r: (Vec<u64>, Vec<u64>)) {
    out.push(r.0);
    out.push(r.1);
}

async fn call_uni(c: &wtransport::Connection, t: Duration) -> (Vec<u64>, Vec<u64>) {
    match tokio::time::timeout(t, c.accept_uni()).await {
        Ok(Ok(_)) => (vec![TAG_OK], vec![]),
        Ok(Err(e)) => enc_conn_err(&e),
        Err(_) => (vec![TAG_PENDING], vec![]),
    }
}
async fn call_bi(c: &wtransport::Connection, t: Duration) -> (Vec<u64>, Vec<u64>) {
    match tokio::time::timeout(t, c.accept_bi()).await {
        Ok(Ok(_)) => (vec![TAG_OK], vec![]),
        Ok(Err(e)) => enc_conn_err(&e),
        Err(_) => (vec![TAG_PENDING], vec![]),
    }
}
async fn call_dg(c: &wtransport::Connection, t: Duration) -> (Vec<u64>, Vec<u64>) {
    match tokio::time::timeout(t, c.receive_datagram()).await {
        Ok(Ok(_)) => (vec![TAG_OK], vec![]),
        Ok(Err(e)) => enc_conn_err(&e),
        Err(_) => (vec![TAG_PENDING], vec![]),
    }
}
async fn call_open_uni(c: &wtransport::Connection, t: Duration) -> (Vec<u64>, Vec<u64>) {
    match tokio::time::timeout(t, c.open_uni()).await {
        Ok(Ok(opening)) => match tokio::time::timeout(t, opening).await {
            Ok(Ok(_)) => (vec![TAG_OK], vec![]),
            Ok(Err(wtransport::error::StreamOpeningError::NotConnected)) => (vec![10], vec![]),
            Ok(Err(wtransport::error::StreamOpeningError::Refused)) => (vec![11], vec![]),
            Err(_) => (vec![TAG_PENDING], vec![]),
        },
        Ok(Err(e)) => enc_conn_err(&e),
        Err(_) => (vec![TAG_PENDING], vec![]),
    }
}

/// args: [mode, code, phase_mask], B, reason
pub async fn exec(a: &Args) -> Args {
    let (mode, code, mask) = (a[0][0], a[0][1], a[0][2]);
    let bytes = a2b(&a[1]);
    let reason = a2b(&a[2]);
    // mode 5: the endpoint's idle timeout is 400 ms and the peer stays silent
    let transport = if mode == 5 {
        let mut t = wtransport::quinn::TransportConfig::default();
        t.max_idle_timeout(Some(Duration::from_millis(400).try_into().unwrap()));
        Some(t)
    } else {
        None
    };
    // a[0][3] = 1: the library is the client, the raw peer the server (same script on the same stream)
    let client_role = a[0].get(3).copied().unwrap_or(0) == 1;
    let mut guards: (Option<wtransport::Endpoint<wtransport::endpoint::endpoint_side::Server>>, Option<wtransport::quinn::Endpoint>, Option<wtransport::Endpoint<wtransport::endpoint::endpoint_side::Client>>) = (None, None, None);
    let (conn, mut raw) = if client_role {
        match client_establish("/s", transport).await {
            Ok((c, r, rep, cl)) => {
                guards.1 = Some(rep);
                guards.2 = Some(cl);
                (c, r)
            }
            Err(e) => return vec![vec![2], crate::b2s(&format!("setup failed: {}", e))],
        }
    } else {
        let (server, addr) = wt_server(transport);
        let ep = raw_client(None);
        let (app, raw) = tokio::join!(wt_accept(&server), raw_establish(&ep, addr, "/s"));
        guards.0 = Some(server);
        guards.1 = Some(ep);
        match (app, raw) {
            (Ok(c), Ok(r)) => (c, r),
            (a, r) => return vec![vec![2], crate::b2s(&format!("setup failed: {:?} / {:?}", a.err(), r.err().map(|e| e)))],
        }
    };
    let close_all = |g: &(Option<wtransport::Endpoint<wtransport::endpoint::endpoint_side::Server>>, Option<wtransport::quinn::Endpoint>, Option<wtransport::Endpoint<wtransport::endpoint::endpoint_side::Client>>)| {
        if let Some(s) = &g.0 { s.close(vi(0), b""); }
        if let Some(e) = &g.1 { e.close(qvi(0), b""); }
        if let Some(c) = &g.2 { c.close(vi(0), b""); }
    };
    if mode == 6 {
        // every handle of the application goes away: the peer must see the connection end
        drop(conn);
        let seen = raw_wait_closed(&raw.conn, Duration::from_millis(1500)).await;
        close_all(&guards);
        return vec![vec![1], seen.0, seen.1];
    }
    // a stream the application has written to but not finished when the connection ends
    let mut held = match tokio::time::timeout(T_CALL, conn.open_uni()).await {
        Ok(Ok(o)) => match tokio::time::timeout(T_CALL, o).await { Ok(Ok(s)) => Some(s), _ => None },
        _ => None,
    };
    if let Some(s) = held.as_mut() {
        let _ = s.write_all(b"held").await;
    }
    // pending calls
    let c1 = conn.clone();
    let c2 = conn.clone();
    let c3 = conn.clone();
    let p_uni = tokio::spawn(async move { if mask & 1 != 0 { call_uni(&c1, T_PEND).await } else { (vec![9], vec![]) } });
    let p_bi = tokio::spawn(async move { if mask & 2 != 0 { call_bi(&c2, T_PEND).await } else { (vec![9], vec![]) } });
    let p_dg = tokio::spawn(async move { if mask & 4 != 0 { call_dg(&c3, T_PEND).await } else { (vec![9], vec![]) } });
    tokio::time::sleep(Duration::from_millis(80)).await;
    // the peer acts
    if !bytes.is_empty() {
        let _ = raw.connect_send.write_all(&bytes).await;
    }
    match mode {
        0 => {
            let _ = raw.connect_send.finish();
        }
        1 => {
            tokio::time::sleep(T_SHORT).await;
            let _ = raw.connect_send.reset(qvi(code));
        }
        2 => {
            tokio::time::sleep(T_SHORT).await;
            raw.conn.close(qvi(code), &reason);
        }
        // the application itself closes the connection
        4 => {
            tokio::time::sleep(T_SHORT).await;
            conn.close(vi(code), &reason);
        }
        _ => {}
    }
    let mut out: Args = vec![vec![1]];
    push(&mut out, p_uni.await.unwrap());
    push(&mut out, p_bi.await.unwrap());
    push(&mut out, p_dg.await.unwrap());
    // subsequent calls
    push(&mut out, call_uni(&conn, T_SUB).await);
    push(&mut out, call_bi(&conn, T_SUB).await);
    push(&mut out, call_dg(&conn, T_SUB).await);
    push(&mut out, call_open_uni(&conn, T_SUB).await);
    let closed = match tokio::time::timeout(T_SUB, conn.closed()).await {
        Ok(e) => enc_conn_err(&e),
        Err(_) => (vec![TAG_PENDING], vec![]),
    };
    push(&mut out, closed);
    push(&mut out, raw_wait_closed(&raw.conn, T_SUB).await);
    // finish() on the held stream, twice: after the end neither call may report success
    let mut fins = vec![];
    for _ in 0..2 {
        let r = match held.as_mut() {
            Some(s) => match tokio::time::timeout(T_SUB, s.finish()).await {
                Ok(Ok(())) => vec![TAG_OK],
                Ok(Err(wtransport::error::StreamWriteError::NotConnected)) => vec![3],
                Ok(Err(wtransport::error::StreamWriteError::Closed)) => vec![4],
                Ok(Err(wtransport::error::StreamWriteError::Stopped(c))) => vec![1, c.into_inner()],
                Ok(Err(wtransport::error::StreamWriteError::QuicProto)) => vec![6],
                Err(_) => vec![TAG_PENDING],
            },
            None => vec![9],
        };
        fins.push(r);
    }
    out.push(fins[0].clone());
    out.push(fins[1].clone());
    close_all(&guards);
    out
}

/// Family 602: streams of one kind pile up unaccepted (more than the hand-off channel holds), then the
/// peer ends the session; calls of the OTHER kind and receive_datagram, pending and later ones, must
/// report the peer's code and reason (C09, C04).
/// args: [kind of the backlog (0 uni, 1 bi), count, code, client_role], reason
pub async fn exec_602(a: &Args) -> Args {
    let (kind, count, code) = (a[0][0], a[0][1], a[0][2]);
    let client_role = a[0].get(3).copied().unwrap_or(0) == 1;
    let reason = a2b(&a[1]);
    let mut guards: (Option<wtransport::Endpoint<wtransport::endpoint::endpoint_side::Server>>, Option<wtransport::quinn::Endpoint>, Option<wtransport::Endpoint<wtransport::endpoint::endpoint_side::Client>>) = (None, None, None);
    let (conn, mut raw) = if client_role {
        match client_establish("/b", None).await {
            Ok((c, r, rep, cl)) => { guards.1 = Some(rep); guards.2 = Some(cl); (c, r) }
            Err(_) => return vec![vec![2]],
        }
    } else {
        let (server, addr) = wt_server(None);
        let ep = raw_client(None);
        let (app, raw) = tokio::join!(wt_accept(&server), raw_establish(&ep, addr, "/b"));
        guards.0 = Some(server);
        guards.1 = Some(ep);
        match (app, raw) {
            (Ok(c), Ok(r)) => (c, r),
            _ => return vec![vec![2]],
        }
    };
    // the backlog: complete, finished WebTransport streams of the live session that nobody accepts
    // a[0][4] = 1: the streams stall inside their preamble instead (one byte, left open): nothing of them
    // may keep the session from ending (C07)
    let stalled = a[0].get(4).copied().unwrap_or(0) == 1;
    let mut keep = vec![];
    for i in 0..count {
        if kind == 0 {
            if let Ok(mut s) = raw.conn.open_uni().await {
                let mut b = vec![0x40u8, 0x54, 0x00];
                b.extend(format!("backlog-{}", i).as_bytes());
                if stalled { let _ = s.write_all(&b[..1]).await; } else { let _ = s.write_all(&b).await; let _ = s.finish(); }
                keep.push(s);
            }
        } else if let Ok((mut s, r)) = raw.conn.open_bi().await {
            let mut b = vec![0x40u8, 0x41, 0x00];
            b.extend(format!("backlog-{}", i).as_bytes());
            if stalled { let _ = s.write_all(&b[..1]).await; } else { let _ = s.write_all(&b).await; let _ = s.finish(); }
            keep.push(s);
            std::mem::forget(r);
        }
    }
    // the worker has to take them all from the QUIC accept queue before the session ends
    tokio::time::sleep(Duration::from_millis(400)).await;
    let c1 = conn.clone();
    let c3 = conn.clone();
    let p_other = tokio::spawn(async move { if kind == 0 { call_bi(&c1, T_PEND).await } else { call_uni(&c1, T_PEND).await } });
    let p_dg = tokio::spawn(async move { call_dg(&c3, T_PEND).await });
    tokio::time::sleep(Duration::from_millis(80)).await;
    let cap = raw_frame(0, &close_capsule(code as u32, &reason));
    let _ = raw.connect_send.write_all(&cap).await;
    let _ = raw.connect_send.finish();
    let mut out: Args = vec![vec![1]];
    push(&mut out, p_other.await.unwrap());
    push(&mut out, p_dg.await.unwrap());
    push(&mut out, if kind == 0 { call_bi(&conn, T_SUB).await } else { call_uni(&conn, T_SUB).await });
    push(&mut out, call_dg(&conn, T_SUB).await);
    // now the application drains the backlog kind: it is handed every waiting stream (those in the
    // channel, then those whose tasks were parked), and then the end
    let mut handed = 0u64;
    let last = loop {
        let r = if kind == 0 { call_uni(&conn, T_SUB).await } else { call_bi(&conn, T_SUB).await };
        if r.0 == vec![TAG_OK] && handed < 1000 {
            handed += 1;
            continue;
        }
        break r;
    };
    out.push(vec![handed]);
    push(&mut out, last);
    if let Some(s) = &guards.0 { s.close(vi(0), b""); }
    if let Some(e) = &guards.1 { e.close(qvi(0), b""); }
    if let Some(c) = &guards.2 { c.close(vi(0), b""); }
    drop(keep);
    out
}

pub fn oracle_602(a: &Args, out: &Args) -> Option<(&'static str, String)> {
    if out[0][0] != 1 || out.len() < 9 {
        return None;
    }
    if out.len() >= 12 {
        let (h, r) = (&out[10], &out[11]);
        let want = if a[0].get(4).copied().unwrap_or(0) == 1 { 0 } else { a[0][1] };
        if out[9] != vec![want] || *h != vec![1, a[0][2]] || *r != a[1] {
            return Some((if a[0].get(4).copied().unwrap_or(0) == 1 { "C07+C09" } else { "C09+C08" }, format!("{} streams were waiting when the peer closed the session with code {}: an application draining them afterwards was handed {} and then got {:?} / reason {:?} (expected all of them, then the peer's code and reason)", a[0][1], a[0][2], out[9][0], h, r)));
        }
    }
    let names = ["pending accept of the other kind", "pending receive_datagram", "later accept of the other kind", "later receive_datagram"];
    for (i, name) in names.iter().enumerate() {
        let (h, r) = (&out[1 + 2 * i], &out[2 + 2 * i]);
        if *h != vec![1, a[0][2]] || *r != a[1] {
            let what = if h.first() == Some(&TAG_PENDING) { "still hanging".to_string() } else { format!("{:?} / reason {:?}", h, r) };
            return Some((if a[0].get(4).copied().unwrap_or(0) == 1 { "C07+C09+C04" } else { "C09+C04" }, format!("the peer closed the session with code {} while {} {} streams were waiting unaccepted; the {} reported: {}", a[0][2], a[0][1], if a[0][0] == 0 { "unidirectional" } else { "bidirectional" }, name, what)));
        }
    }
    None
}

pub fn generate_backlog(rng: &mut Rng, thorough: bool) -> Vec<Case> {
    let mut cs = vec![];
    let counts: Vec<(u64, u64)> = if thorough { vec![(0, 3), (0, 5), (0, 6), (0, 9), (0, 20), (1, 1), (1, 2), (1, 3), (1, 6)] } else { vec![(0, 6), (0, 9), (1, 3), (1, 6)] };
    for (kind, n) in counts {
        for role in [0u64, 1] {
            if !thorough && role == 1 && n != 6 { continue; }
            let code = rng.below(1 << 32);
            cs.push(Case::new(602, vec![vec![kind, n, code, role], crate::b2s("bye-backlog")], "backlog-then-close"));
        }
    }
    // the same with streams stalled inside their preamble
    for (kind, n) in [(0u64, 1u64), (1, 1), (0, 6), (1, 3)] {
        for role in [0u64, 1] {
            if !thorough && role == 1 && n != 1 { continue; }
            cs.push(Case::new(602, vec![vec![kind, n, rng.below(1 << 32), role, 1], crate::b2s("bye-stalled")], "stalled-then-close"));
        }
    }
    cs
}

fn dec_vi(b: &[u8], pos: &mut usize) -> Option<u64> {
    let first = *b.get(*pos)?;
    let n = 1usize << (first >> 6);
    if *pos + n > b.len() {
        return None;
    }
    let mut v = (first & 0x3f) as u64;
    for i in 1..n {
        v = v << 8 | b[*pos + i] as u64;
    }
    *pos += n;
    Some(v)
}

/// What the peer's bytes on the session stream mean, computed here from the specifications
/// (independently of the library): Some(Ok((code, reason))) = session closed by the application,
/// Some(Err(())) = protocol failure, None = no verdict (shape outside this reader, or still open).
pub fn session_meaning(mode: u64, bytes: &[u8]) -> Option<Result<(u64, Vec<u8>), ()>> {
    let mut pos = 0usize;
    while pos < bytes.len() {
        let start = pos;
        let (t, l) = match (dec_vi(bytes, &mut pos), dec_vi(bytes, &mut pos)) {
            (Some(t), Some(l)) => (t, l as usize),
            _ => { pos = start; break; }
        };
        if pos + l > bytes.len() {
            pos = start;
            break;
        }
        let payload = &bytes[pos..pos + l];
        pos += l;
        let grease = t >= 0x21 && (t - 0x21) % 0x1f == 0;
        if t == 0 {
            // DATA: one capsule
            let mut q = 0usize;
            let (ct, cl) = match (dec_vi(payload, &mut q), dec_vi(payload, &mut q)) {
                (Some(ct), Some(cl)) => (ct, cl as usize),
                _ => return None,
            };
            if ct != 0x2843 {
                if q + cl == payload.len() { continue; } else { return None; }
            }
            if q + cl != payload.len() {
                return None;
            }
            let body = &payload[q..];
            if body.len() < 4 || body.len() > 4 + 1024 {
                return Some(Err(()));
            }
            let code = u32::from_be_bytes([body[0], body[1], body[2], body[3]]) as u64;
            return match std::str::from_utf8(&body[4..]) {
                Ok(_) => Some(Ok((code, body[4..].to_vec()))),
                Err(_) => Some(Err(())),
            };
        } else if grease || t > 0x41 {
            continue;
        } else {
            return None;
        }
    }
    let leftover = pos < bytes.len();
    match mode {
        0 => if leftover { Some(Err(())) } else { Some(Ok((0, vec![]))) },
        1 => Some(Err(())),
        _ => None,
    }
}

pub fn oracle(a: &Args, out: &Args) -> Option<(&'static str, String)> {
    if out[0][0] != 1 {
        return None;
    }
    let mode = a[0][0];
    if mode == 6 {
        if out.len() < 2 || out[1].first() == Some(&TAG_PENDING) {
            return Some(("C09", "the application dropped every handle but the peer never saw the connection end".into()));
        }
        return None;
    }
    const CALLS: [(usize, &str); 8] = [(1, "pending accept_uni"), (3, "pending accept_bi"), (5, "pending receive_datagram"),
        (7, "accept_uni"), (9, "accept_bi"), (11, "receive_datagram"), (13, "open_uni"), (15, "closed()")];
    // what the peer did, read independently of the library
    let meaning = if mode == 2 { Some(Ok((a[0][1], a2b(&a[2])))) } else { session_meaning(mode, &a2b(&a[1])) };
    // C09: once the session has ended no call may hang or succeed
    let ended = meaning.is_some() || out[15][0] != TAG_PENDING;
    if ended {
        for (i, name) in CALLS {
            if out[i][0] == TAG_PENDING {
                return Some(("C09+C04", format!("{} still pending after the session ended", name)));
            }
            if i >= 7 && i <= 13 && out[i][0] == TAG_OK {
                return Some(("C09", format!("{} succeeded after the session ended", name)));
            }
        }
    }
    // C09: a local close is reported as such and the peer gets the code and reason; an idle timeout is
    // reported as a timeout
    if mode == 4 || mode == 5 {
        let want = if mode == 4 { vec![3u64] } else { vec![4u64] };
        for (i, name) in CALLS {
            if out[i][0] != 9 && out[i] != want {
                return Some(("C09", format!("{}: {} reported {:?}", if mode == 4 { "the application closed the connection" } else { "idle timeout" }, name, out[i])));
            }
        }
        if mode == 4 && (out[17] != vec![1, a[0][1]] || out[18] != a[2]) {
            return Some(("C09", format!("the application closed with ({}, {:?}) but the peer saw {:?} {:?}", a[0][1], a[2], out[17], out[18])));
        }
        if mode == 5 && out[17] != vec![4] && out[17] != vec![1, 0] {
            return Some(("C09", format!("idle timeout: the peer saw {:?}", out[17])));
        }
    }
    // C09: finish() on a stream that was not finished when the connection ended never succeeds
    if ended && out.len() >= 21 {
        for (i, name) in [(19usize, "the first"), (20, "the second")] {
            if out[i] == vec![TAG_OK] {
                return Some(("C09+C06", format!("{} finish() on an unfinished stream reported success after the connection ended", name)));
            }
            if out[i] == vec![TAG_PENDING] {
                return Some(("C09", format!("{} finish() on an unfinished stream hangs after the connection ended", name)));
            }
        }
    }
    // C04 / C09: every call reports the cause: the peer's exact code and reason for an application
    // close (capsule, clean FIN, QUIC close), never an application close for a protocol failure
    match meaning {
        Some(Ok((code, reason))) => {
            for (i, name) in CALLS {
                // open_uni and closed() do not wait on the peer: they may also name the local
                // close the library performed in response (C09)
                if out[i][0] == 9 || i == 13 || (i == 15 && out[i] == vec![3]) {
                    continue;
                }
                if out[i] != vec![1, code] || a2b(&out[i + 1]) != reason {
                    return Some(("C04+C09", format!("peer closed the session with ({}, {:?}) but {} reported {:?} {:?}", code, String::from_utf8_lossy(&reason), name, out[i], out[i + 1])));
                }
            }
        }
        Some(Err(())) => {
            for (i, name) in CALLS {
                if out[i][0] == 1 {
                    return Some(("C04", format!("protocol failure on the session stream reported by {} as an application close {:?} {:?}", name, out[i], out[i + 1])));
                }
            }
        }
        None => {}
    }
    None
}

pub fn close_capsule(code: u32, reason: &[u8]) -> Vec<u8> {
    let mut body = code.to_be_bytes().to_vec();
    body.extend(reason);
    let mut c = enc_varint(0x2843);
    c.extend(enc_varint(body.len() as u64));
    c.extend(body);
    c
}

pub fn generate(rng: &mut Rng, thorough: bool) -> Vec<Case> {
    let mut cs = vec![];
    let masks: Vec<u64> = if thorough { vec![0, 1, 2, 4, 7] } else { vec![7, 0] };
    let reasons: Vec<Vec<u8>> = vec![vec![], b"bye".to_vec(), "gr\u{fc}\u{df}e".as_bytes().to_vec(), vec![b'r'; 1024]];
    let codes: Vec<u32> = vec![0, 7, 0x7fff_ffff, u32::MAX];
    // close capsule (C04)
    for (i, code) in codes.iter().enumerate() {
        for (j, r) in reasons.iter().enumerate() {
            if !thorough && (i + j) % 2 == 1 {
                continue;
            }
            let b = raw_frame(0, &close_capsule(*code, r));
            for m in &masks {
                cs.push(Case::new(601, vec![vec![3, 0, *m], b2a(&b), vec![]], "close-capsule"));
            }
        }
    }
    // skippable elements before the capsule (C13): GREASE frame, unknown frame, HEADERS, other capsule
    let mut pre = raw_frame(0x21 + 0x1f * 3, &[1, 2, 3]);
    pre.extend(raw_frame(0x4242, &[4, 0, 0x40, 0x41, 0]));
    pre.extend(raw_frame(0, &{ let mut c = enc_varint(0x1234); c.extend(enc_varint(2)); c.extend([9, 9]); c }));
    pre.extend(raw_frame(0, &close_capsule(77, b"after-noise")));
    cs.push(Case::new(601, vec![vec![3, 0, 7], b2a(&pre), vec![]], "skippable-then-capsule"));
    // an unknown capsule whose declared length runs past its DATA frame and whose value looks like a close
    // capsule (C13): skipped whole; the real close capsule behind it decides
    for decl in [0x20u8, 0x07, 0x08] {
        let mut b = raw_frame(0, &[0x17, decl, 0x68, 0x43, 0x04, 0x00, 0x00, 0x00, 0x2a]);
        b.extend(raw_frame(0, &close_capsule(9, b"the real one")));
        cs.push(Case::new(601, vec![vec![3, 0, 7], b2a(&b), vec![]], "unknown-capsule-holding-close-lookalike"));
    }
    // clean FIN, reset, FIN inside a frame
    for m in &masks {
        cs.push(Case::new(601, vec![vec![0, 0, *m], vec![], vec![]], "clean-fin"));
        cs.push(Case::new(601, vec![vec![1, 99, *m], vec![], vec![]], "reset"));
        // a reset is a reset whatever its code says: H3_NO_ERROR, 0, the code the library itself uses
        for code in [0x100u64, 0, 0x10c] {
            if *m == 7 || code == 0x100 {
                cs.push(Case::new(601, vec![vec![1, code, *m], vec![], vec![]], "reset-with-benign-code"));
            }
        }
        cs.push(Case::new(601, vec![vec![0, 0, *m], vec![0, 5, 1, 2], vec![]], "fin-inside-frame"));
    }
    cs.push(Case::new(601, vec![vec![0, 0, 7], b2a(&raw_frame(0x21, &[7])), vec![]], "grease-then-fin"));
    // an unknown frame cut off by FIN after 0, 256, 512 (the skip loop's chunk size) and 100 bytes of
    // its 600-byte payload: a truncated frame is a protocol failure wherever the cut falls
    for sent in [0usize, 100, 256, 512] {
        let mut b = enc_varint(0x2f);
        b.extend(enc_varint(600));
        b.extend(vec![0x11u8; sent]);
        cs.push(Case::new(601, vec![vec![0, 0, 7], b2a(&b), vec![]], "fin-inside-unknown-frame"));
    }
    // malformed capsules
    let mk = |body: &[u8]| -> Vec<u8> { let mut c = enc_varint(0x2843); c.extend(enc_varint(body.len() as u64)); c.extend(body); raw_frame(0, &c) };
    cs.push(Case::new(601, vec![vec![3, 0, 7], b2a(&mk(&[0, 0, 1])), vec![]], "capsule-too-short"));
    cs.push(Case::new(601, vec![vec![3, 0, 7], b2a(&mk(&{ let mut b = vec![0u8, 0, 0, 1]; b.extend(vec![b'x'; 1025]); b })), vec![]], "capsule-reason-too-long"));
    cs.push(Case::new(601, vec![vec![3, 0, 7], b2a(&mk(&[0, 0, 0, 1, 0xff, 0xfe])), vec![]], "capsule-reason-not-utf8"));
    cs.push(Case::new(601, vec![vec![3, 0, 7], b2a(&mk(&[0, 0, 0, 1, b'c', b'a', b'f', 0xc3])), vec![]], "capsule-reason-cut-character"));
    cs.push(Case::new(601, vec![vec![3, 0, 7], b2a(&mk(&[0, 0, 0, 0, 0xe2, 0x82])), vec![]], "capsule-reason-cut-character"));
    // protocol violations on the session stream
    cs.push(Case::new(601, vec![vec![3, 0, 7], b2a(&raw_frame(4, &[])), vec![]], "settings-on-session-stream"));
    cs.push(Case::new(601, vec![vec![3, 0, 7], vec![0x40, 0x41, 0], vec![]], "wt-frame-on-session-stream"));
    // QUIC application close by the peer (C04): code boundaries, arbitrary reason bytes
    let qcodes: Vec<u64> = vec![0, 1, 63, 64, 16383, 16384, (1 << 32) - 1, (1 << 30) - 1, 1 << 32, 1 << 30, (1 << 32) + 7, 77, (1 << 62) - 1];
    for (i, c) in qcodes.iter().enumerate() {
        if !thorough && i % 2 == 1 {
            continue;
        }
        let reason: Vec<u8> = match i % 3 { 0 => vec![], 1 => b"quic-bye".to_vec(), _ => vec![0xff, 0x00, 0xfe, 0x80] };
        cs.push(Case::new(601, vec![vec![2, *c, 7], vec![], b2a(&reason)], "peer-quic-close"));
    }
    // other causes (C09): local close with code and reason, idle timeout, all handles dropped
    for (i, c) in [0u64, 9, (1 << 32) + 1, (1 << 62) - 1].iter().enumerate() {
        let reason: Vec<u8> = if i % 2 == 0 { b"local-bye".to_vec() } else { vec![] };
        for m in [7u64, 0] {
            cs.push(Case::new(601, vec![vec![4, *c, m], vec![], b2a(&reason)], "local-close"));
        }
    }
    cs.push(Case::new(601, vec![vec![5, 0, 7], vec![], vec![]], "idle-timeout"));
    cs.push(Case::new(601, vec![vec![5, 0, 0], vec![], vec![]], "idle-timeout"));
    cs.push(Case::new(601, vec![vec![6, 0, 0], vec![], vec![]], "handles-dropped"));
    // the same on the client role: the raw peer is the server and acts on the response stream
    {
        let cap = raw_frame(0, &close_capsule(7, b"bye"));
        let capmax = raw_frame(0, &close_capsule(u32::MAX, "gr\u{fc}\u{df}e".as_bytes()));
        for m in [7u64, 0] {
            cs.push(Case::new(601, vec![vec![3, 0, m, 1], b2a(&cap), vec![]], "client-close-capsule"));
            cs.push(Case::new(601, vec![vec![0, 0, m, 1], vec![], vec![]], "client-clean-fin"));
            cs.push(Case::new(601, vec![vec![1, 99, m, 1], vec![], vec![]], "client-reset"));
            cs.push(Case::new(601, vec![vec![1, 0x100, m, 1], vec![], vec![]], "client-reset-with-benign-code"));
            cs.push(Case::new(601, vec![vec![2, (1 << 40) + 3, m, 1], vec![], b2a(b"srv-bye")], "client-peer-quic-close"));
            cs.push(Case::new(601, vec![vec![4, 12, m, 1], vec![], b2a(b"cli-bye")], "client-local-close"));
        }
        cs.push(Case::new(601, vec![vec![3, 0, 7, 1], b2a(&capmax), vec![]], "client-close-capsule"));
        cs.push(Case::new(601, vec![vec![0, 0, 7, 1], vec![0, 5, 1, 2], vec![]], "client-fin-inside-frame"));
        cs.push(Case::new(601, vec![vec![5, 0, 7, 1], vec![], vec![]], "client-idle-timeout"));
        cs.push(Case::new(601, vec![vec![6, 0, 0, 1], vec![], vec![]], "client-handles-dropped"));
        cs.push(Case::new(601, vec![vec![3, 0, 7, 1], b2a(&raw_frame(0x21, &[])), vec![]], "client-stays-open"));
    }
    // nothing happens: calls stay pending (the model must say so too)
    cs.push(Case::new(601, vec![vec![3, 0, 7], b2a(&raw_frame(0x21, &[])), vec![]], "stays-open"));
    let _ = rng.next();
    cs
}
