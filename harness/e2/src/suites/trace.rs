//! E3 (trace validation, DESIGN.md 3): families that use the hooks of `--cfg wtransport_verif`.
//!
//! 681: a scripted-streams scenario of family 621 is executed; afterwards the driver's hand-off event
//!      log of that connection is taken (wtransport::verif::log) and becomes the outcome.  The Coq side
//!      (Corr/E3C.v) folds the events through the transition system of Model/Handoff.v (Model/Trace.v).
//! 691: operation sequences on the driver's real set-once result cell (driver/utils.rs SharedResult,
//!      re-exported by the hook module) against Model/Term.v `cstep`.
use crate::rng::Rng;
use crate::{Args, Case};
use std::future::Future;
use std::pin::Pin;
use std::task::{Context, Poll};
use std::time::Duration;
use wtransport::verif::log::{Class, Dir, Ev};

pub const MARK: u64 = 8888;

fn enc(ev: &Ev) -> Vec<u64> {
    let d = |d: &Dir| if *d == Dir::Uni { 0 } else { 1 };
    match ev {
        Ev::WorkerAccept(dir, id) => vec![1, d(dir), *id, 0],
        Ev::Preamble(dir, id, Class::Wt(s)) => vec![2, d(dir), *id, *s],
        Ev::Preamble(dir, id, Class::H3) => vec![3, d(dir), *id, 0],
        Ev::Preamble(dir, id, Class::Gone) => vec![3, d(dir), *id, 1],
        Ev::SendBegin(dir, id) => vec![4, d(dir), *id, 0],
        Ev::SendEnd(dir, id) => vec![5, d(dir), *id, 0],
        Ev::Recv(dir, id, mine) => vec![6, d(dir), *id, *mine as u64],
        Ev::WorkerExit(code) => vec![7, 2, 0, *code as u64],
    }
}

pub async fn exec_681(a: &Args) -> Args {
    let (out, stable) = super::streams::exec_traced(a).await;
    let Some(stable) = stable else { return vec![vec![2]] };
    if out.len() == 1 {
        return out;
    }
    // the endpoints were closed at the end of the scenario: give the worker a moment to finish
    tokio::time::sleep(Duration::from_millis(60)).await;
    let evs = wtransport::verif::log::take(stable);
    // what the application saw through the public API, per kind
    let cnt = out[0][1] as usize;
    let (mut gu, mut gb) = (0u64, 0u64);
    for i in 0..cnt {
        if out[1 + 2 * i][0] == 0 { gu += 1 } else { gb += 1 }
    }
    let mut o: Args = vec![vec![1, gu, gb]];
    o.push(vec![MARK]);
    for e in &evs {
        o.push(enc(e));
    }
    o
}

pub fn oracle_681(_a: &Args, out: &Args) -> Option<(&'static str, String)> {
    if out.first().map(|v| v[0]) != Some(1) || out.len() < 2 {
        return None;
    }
    // C08 on the implementation's own log: no stream is handed to the application twice, and only
    // after the worker accepted it and its task saw a WebTransport preamble
    let evs = &out[2..];
    for dir in 0..2u64 {
        let mut accepted = std::collections::HashSet::new();
        let mut wt = std::collections::HashSet::new();
        let mut recvd = std::collections::HashSet::new();
        for e in evs.iter().filter(|e| e[1] == dir) {
            match e[0] {
                1 => {
                    if !accepted.insert(e[2]) {
                        return Some(("C08", format!("stream {} was taken from the accept queue twice", e[2])));
                    }
                }
                2 => {
                    if !accepted.contains(&e[2]) {
                        return Some(("C08", format!("stream {} has a task but was never accepted", e[2])));
                    }
                    wt.insert(e[2]);
                }
                6 => {
                    if !wt.contains(&e[2]) {
                        return Some(("C08+C01", format!("stream {} reached the application without a WebTransport preamble", e[2])));
                    }
                    if !recvd.insert(e[2]) {
                        return Some(("C08", format!("stream {} was handed to the application twice", e[2])));
                    }
                }
                _ => {}
            }
        }
    }
    None
}

// ---------------------------------------------------------------------------------------------
// 691: the result cell

fn noop_waker() -> std::task::Waker {
    use std::task::{RawWaker, RawWakerVTable, Waker};
    fn clone(_: *const ()) -> RawWaker { RawWaker::new(std::ptr::null(), &VT) }
    fn noop(_: *const ()) {}
    static VT: RawWakerVTable = RawWakerVTable::new(clone, noop, noop, noop);
    // SAFETY: the vtable functions do nothing
    unsafe { Waker::from_raw(RawWaker::new(std::ptr::null(), &VT)) }
}

type Get = std::sync::Arc<wtransport::verif::SharedResultGet<u64>>;
type GetFut = Pin<Box<dyn Future<Output = Option<u64>> + Send>>;

fn get_future(g: Get) -> GetFut {
    Box::pin(async move { g.result().await })
}

fn enc_got(r: Poll<Option<u64>>) -> Vec<u64> {
    match r {
        Poll::Ready(Some(v)) => vec![2, v],
        Poll::Ready(None) => vec![3],
        Poll::Pending => vec![4],
    }
}

/// args[0] = flattened operations: 1 v = set(v); 2 = drop a setter; 3 = clone a setter;
/// 4 g = a fresh `result()` call on getter g, polled once; 5 = poll every pending call until none
/// makes progress.  args[1] = [number of getters]
pub async fn exec_691(a: &Args) -> Args {
    let ops = &a[0];
    let ngetters = a[1][0].max(1) as usize;
    let (set, get0) = wtransport::verif::shared_result::<u64>();
    let mut setters = vec![set];
    let mut getters: Vec<Get> = vec![std::sync::Arc::new(get0)];
    for _ in 1..ngetters {
        let g = setters[0].subscribe();
        getters.push(std::sync::Arc::new(g));
    }
    let waker = noop_waker();
    let mut cx = Context::from_waker(&waker);
    let mut pending: Vec<Option<GetFut>> = vec![];
    let mut out: Args = vec![vec![1]];
    let mut i = 0;
    while i < ops.len() {
        match ops[i] {
            1 => {
                let v = ops[i + 1];
                i += 2;
                match setters.first() {
                    Some(s) => out.push(vec![1, s.set(v) as u64]),
                    None => out.push(vec![9]),
                }
            }
            2 => {
                i += 1;
                if setters.pop().is_some() { out.push(vec![0]) } else { out.push(vec![9]) }
            }
            3 => {
                i += 1;
                match setters.first().cloned() {
                    Some(s) => { setters.push(s); out.push(vec![0]) }
                    None => out.push(vec![9]),
                }
            }
            4 => {
                let g = (ops[i + 1] as usize) % getters.len();
                i += 2;
                let mut f = get_future(getters[g].clone());
                let r = f.as_mut().poll(&mut cx);
                if r.is_pending() {
                    pending.push(Some(f));
                }
                out.push(enc_got(r));
            }
            _ => {
                i += 1;
                // a small executor: poll the pending calls in creation order until a whole round
                // makes no progress (a call may wait for the getter's mutex held by an earlier call)
                let mut results: Vec<Option<Vec<u64>>> = vec![None; pending.len()];
                loop {
                    let mut progress = false;
                    for (k, slot) in pending.iter_mut().enumerate() {
                        if let Some(f) = slot.as_mut() {
                            if let Poll::Ready(v) = f.as_mut().poll(&mut cx) {
                                results[k] = Some(enc_got(Poll::Ready(v)));
                                *slot = None;
                                progress = true;
                            }
                        }
                    }
                    if !progress {
                        break;
                    }
                }
                let mut o = vec![5];
                for (k, slot) in pending.iter().enumerate() {
                    match (&results[k], slot) {
                        (Some(r), _) => o.extend(r.iter().map(|x| x + 10)),
                        (None, Some(_)) => o.push(14),
                        (None, None) => {}
                    }
                }
                pending.retain(|s| s.is_some());
                out.push(o);
            }
        }
    }
    out
}

pub fn oracle_691(a: &Args, out: &Args) -> Option<(&'static str, String)> {
    // C09 on the implementation alone: at most one set is accepted, and every completed get
    // after it returns exactly that value
    let mut accepted: Option<u64> = None;
    let mut npending = 0usize;
    let ops = &a[0];
    let mut i = 0;
    let mut k = 1;
    while i < ops.len() && k < out.len() {
        let o = &out[k];
        match ops[i] {
            1 => {
                if o.len() == 2 && o[1] == 1 {
                    if accepted.is_some() {
                        return Some(("C09", format!("a second set was accepted (operation {})", k)));
                    }
                    accepted = Some(ops[i + 1]);
                }
                i += 2;
            }
            4 => {
                if let (Some(v), true) = (accepted, o.first() == Some(&2)) {
                    if o[1] != v {
                        return Some(("C09", format!("get returned {} after {} had been set", o[1], v)));
                    }
                }
                // (a call on a getter whose earlier call is still pending waits for that one: no verdict)
                if accepted.is_some() && o.first() != Some(&2) && npending == 0 {
                    return Some(("C09", format!("get did not return the result that was already set (operation {}: {:?})", k, o)));
                }
                if o.first() == Some(&4) {
                    npending += 1;
                }
                i += 2;
            }
            5 => {
                // tokens: 12 v+10 = completed with v; 13 = completed with none; 14 = still pending
                let mut j = 1;
                let mut still = 0usize;
                while j < o.len() {
                    match o[j] {
                        12 => {
                            if let Some(v) = accepted {
                                if o.get(j + 1) != Some(&(v + 10)) {
                                    return Some(("C09", format!("a pending get completed with {:?} after {} had been set", o.get(j + 1).map(|x| x - 10), v)));
                                }
                            }
                            j += 2;
                        }
                        t => {
                            if accepted.is_some() {
                                return Some(("C09", format!("a pending get was not completed by the result that was set (operation {}: {:?})", k, o)));
                            }
                            if t == 14 {
                                still += 1;
                            }
                            j += 1;
                        }
                    }
                }
                npending = still;
                i += 1;
            }
            _ => i += 1,
        }
        k += 1;
    }
    None
}

// ---------------------------------------------------------------------------------------------

pub fn generate(rng: &mut Rng, thorough: bool, which: &str) -> Vec<Case> {
    let mut cs = vec![];
    if which == "trace" {
        for sub in ["pace", "streams", "foreign", "unknown_uni", "stall"] {
            let mut r2 = Rng::new(rng.next());
            for c in super::streams::generate(&mut r2, thorough, sub) {
                // the slow single-stream cut matrix adds nothing to the hand-off trace: keep a third
                if c.label.contains("single-stream-cut") && r2.below(3) != 0 {
                    continue;
                }
                // the seconds-long stalls are the business of the suites "stall" and "streams"
                if c.label.contains("long-stall") || c.label.contains("very-slow") || c.label.contains("unread-then-healthy") {
                    continue;
                }
                cs.push(Case::new(681, c.args, &format!("{}:{}", sub, c.label)));
            }
        }
        return cs;
    }
    // "cell"
    let n = if thorough { 4000 } else { 600 };
    for k in 0..n {
        let len = 1 + rng.below(if k % 7 == 0 { 40 } else { 12 }) as usize;
        let ngetters = 1 + rng.below(3);
        let mut setters = 1u64;
        let mut ops = vec![];
        for _ in 0..len {
            let r = rng.below(100);
            if r < 18 && setters > 0 {
                ops.extend([1, rng.below(1000)]);
            } else if r < 30 && setters > 0 {
                ops.push(2);
                setters -= 1;
            } else if r < 40 && setters > 0 && setters < 4 {
                ops.push(3);
                setters += 1;
            } else if r < 80 {
                ops.extend([4, rng.below(ngetters)]);
            } else {
                ops.push(5);
            }
        }
        ops.push(5);
        cs.push(Case::new(691, vec![ops, vec![ngetters]], "cell-ops"));
    }
    cs
}
