//! Family 621: the raw peer opens WebTransport (and other) streams following a script; the
//! application accepts and reads them (C01, C07, C08, C12, C13, C17).
use crate::net::*;
use crate::rng::Rng;
use crate::{Args, Case};
use std::future::Future;
use std::time::Duration;
use wtransport::quinn;

/// args[0] = [accept_delay_ms, accept_tasks, cancel_accepts(0/1), expect_uni, expect_bi]
/// per stream i: args[1+2i] = [kind(0 uni,1 bi), cut, pause_ms, end(0 FIN,1 RESET,2 leave open), end_code]
///               args[2+2i] = bytes
pub async fn exec(a: &Args) -> Args {
    exec_traced(a).await.0
}

/// the scenario, plus quinn's stable id of the library-side connection (None: no connection)
pub async fn exec_traced(a: &Args) -> (Args, Option<usize>) {
    let (delay, tasks, cancel, exp_uni, exp_bi) = (a[0][0], a[0][1].max(1), a[0][2], a[0][3] as usize, a[0][4] as usize);
    let n = (a.len() - 1) / 2;
    // a[0][5] = 1: the library is the client and the raw peer (the server) opens the streams
    let client_role = a[0].get(5).copied().unwrap_or(0) == 1;
    let mut g_server = None;
    let mut g_raw = None;
    let mut g_client = None;
    let (conn, raw) = if client_role {
        match client_establish("/st", None).await {
            Ok((c, r, rep, cl)) => { g_raw = Some(rep); g_client = Some(cl); (c, r) }
            Err(_) => return (vec![vec![2]], None),
        }
    } else {
        let (server, addr) = wt_server(None);
        let ep = raw_client(None);
        let (app, raw) = tokio::join!(wt_accept(&server), raw_establish(&ep, addr, "/st"));
        g_server = Some(server);
        g_raw = Some(ep);
        match (app, raw) {
            (Ok(c), Ok(r)) => (c, r),
            _ => return (vec![vec![2]], None),
        }
    };
    let stable = conn.stable_id();
    // the application: `tasks` accepting tasks per kind, optional delay before each accept,
    // optional cancellation of pending accepts (timeout 3ms, reissued)
    let (tx, mut rx) = tokio::sync::mpsc::unbounded_channel::<(u64, Vec<u8>, Vec<u64>)>();
    let mut handles = vec![];
    for t in 0..tasks {
        for kind in 0..2u64 {
            let c = conn.clone();
            let tx = tx.clone();
            handles.push(tokio::spawn(async move {
                loop {
                    if delay > 0 {
                        tokio::time::sleep(Duration::from_millis(delay + 7 * t)).await;
                    }
                    let mut recv = if kind == 0 {
                        let r = if cancel == 3 {
                            // the accept future is polled exactly once, then dropped, again and again
                            loop {
                                let mut fut = Box::pin(c.accept_uni());
                                let polled = std::future::poll_fn(|cx| std::task::Poll::Ready(fut.as_mut().poll(cx))).await;
                                drop(fut);
                                match polled {
                                    std::task::Poll::Ready(r) => break r,
                                    std::task::Poll::Pending => tokio::time::sleep(Duration::from_millis(2)).await,
                                }
                            }
                        } else if cancel == 1 {
                            loop {
                                match tokio::time::timeout(Duration::from_millis(3), c.accept_uni()).await {
                                    Ok(r) => break r,
                                    Err(_) => continue,
                                }
                            }
                        } else {
                            c.accept_uni().await
                        };
                        match r { Ok(s) => s, Err(_) => return }
                    } else {
                        let r = if cancel == 3 {
                            loop {
                                let mut fut = Box::pin(c.accept_bi());
                                let polled = std::future::poll_fn(|cx| std::task::Poll::Ready(fut.as_mut().poll(cx))).await;
                                drop(fut);
                                match polled {
                                    std::task::Poll::Ready(r) => break r,
                                    std::task::Poll::Pending => tokio::time::sleep(Duration::from_millis(2)).await,
                                }
                            }
                        } else if cancel == 1 {
                            loop {
                                match tokio::time::timeout(Duration::from_millis(3), c.accept_bi()).await {
                                    Ok(r) => break r,
                                    Err(_) => continue,
                                }
                            }
                        } else {
                            c.accept_bi().await
                        };
                        match r {
                            Ok((mut s, r)) => {
                                tokio::spawn(async move {
                                    let _ = s.write_all(b"ACK").await;
                                    let _ = s.finish().await;
                                });
                                r
                            }
                            Err(_) => return,
                        }
                    };
                    // every accepted stream is read by its own task: an accepted-but-idle stream
                    // must not keep this acceptor from accepting the next one
                    let tx2 = tx.clone();
                    let reader = tokio::spawn(async move {
                        let mut buf = vec![0u8; 65536];
                        let mut data = vec![];
                        // a payload starting with NOREAD is accepted but left unread (C07): the first
                        // six bytes are read, then the stream is held without reading
                        let mut early = None;
                        while data.len() < 6 && early.is_none() {
                            match tokio::time::timeout(Duration::from_millis(1200), recv.read(&mut buf[..6 - data.len()])).await {
                                Ok(Ok(Some(k))) => data.extend(&buf[..k]),
                                Ok(Ok(None)) => early = Some(vec![0]),
                                Ok(Err(wtransport::error::StreamReadError::Reset(code))) => early = Some(vec![1, code.into_inner()]),
                                Ok(Err(_)) => early = Some(vec![3]),
                                Err(_) => early = Some(vec![2]),
                            }
                        }
                        if data == b"NOREAD" {
                            let _ = tx2.send((kind, data, vec![2]));
                            tokio::time::sleep(Duration::from_secs(600)).await;
                            drop(recv);
                            return;
                        }
                        if let Some(e) = early {
                            let _ = tx2.send((kind, data, e));
                            return;
                        }
                        let end = loop {
                            match tokio::time::timeout(Duration::from_millis(1200), recv.read(&mut buf)).await {
                                Ok(Ok(Some(k))) => data.extend(&buf[..k]),
                                Ok(Ok(None)) => break vec![0],
                                Ok(Err(wtransport::error::StreamReadError::Reset(code))) => break vec![1, code.into_inner()],
                                Ok(Err(_)) => break vec![3],
                                Err(_) => break vec![2],
                            }
                        };
                        let _ = tx2.send((kind, data, end));
                    });
                    // cancel == 2: one-shot acceptors (each task accepts exactly one stream)
                    if cancel == 2 {
                        let _ = reader;
                        return;
                    }
                }
            }));
        }
    }
    drop(tx);
    if cancel == 2 {
        // let every acceptor park in its accept call before the first stream exists
        tokio::time::sleep(Duration::from_millis(200)).await;
    }
    // the raw peer follows the script
    let mut sends: Vec<Option<quinn::SendStream>> = vec![];
    let mut recvs: Vec<Option<quinn::RecvStream>> = vec![];
    for i in 0..n {
        let spec = &a[1 + 2 * i];
        let bytes = a2b(&a[2 + 2 * i]);
        let (kind, cut, pause, end, end_code) = (spec[0], spec[1] as usize, spec[2], spec[3], spec[4]);
        let (mut s, r) = if kind == 0 {
            match raw.conn.open_uni().await { Ok(s) => (s, None), Err(_) => { sends.push(None); recvs.push(None); continue; } }
        } else {
            match raw.conn.open_bi().await { Ok((s, r)) => (s, Some(r)), Err(_) => { sends.push(None); recvs.push(None); continue; } }
        };
        let cut = cut.min(bytes.len());
        // a write that cannot make progress (no flow-control credit) is given up after a while:
        // the script goes on and the stream simply never carries its bytes
        const T_WRITE: Duration = Duration::from_millis(2000);
        if cut > 0 {
            let _ = tokio::time::timeout(T_WRITE, s.write_all(&bytes[..cut])).await;
        }
        if pause > 0 {
            tokio::time::sleep(Duration::from_millis(pause)).await;
        }
        if end != 2 || pause == 0 {
            if cut < bytes.len() {
                let _ = tokio::time::timeout(T_WRITE, s.write_all(&bytes[cut..])).await;
            }
        }
        // spec[5]: that many further bytes follow (data the application leaves unread)
        let fill = spec.get(5).copied().unwrap_or(0) as usize;
        if fill > 0 {
            let chunk = vec![0xABu8; 60_000];
            let _ = tokio::time::timeout(Duration::from_millis(1500), async {
                let mut left = fill;
                while left > 0 {
                    let k = left.min(chunk.len());
                    if s.write_all(&chunk[..k]).await.is_err() {
                        break;
                    }
                    left -= k;
                }
            })
            .await;
        }
        match end {
            0 => { let _ = s.finish(); }
            1 => { tokio::time::sleep(Duration::from_millis(30)).await; let _ = s.reset(qvi(end_code)); }
            _ => {}
        }
        sends.push(Some(s));
        recvs.push(r);
    }
    // collect what the application got
    let mut got: Vec<(u64, Vec<u8>, Vec<u64>)> = vec![];
    let deadline = tokio::time::Instant::now() + Duration::from_millis(2500 + delay * (n as u64 + 2));
    while got.len() < exp_uni + exp_bi {
        match tokio::time::timeout_at(deadline, rx.recv()).await {
            Ok(Some(x)) => got.push(x),
            _ => break,
        }
    }
    // a little more time for anything unexpected
    if let Ok(Some(x)) = tokio::time::timeout(Duration::from_millis(250), rx.recv()).await {
        got.push(x);
    }
    got.sort();
    let mut out: Args = vec![vec![1, got.len() as u64]];
    for (k, d, e) in &got {
        let mut h = vec![*k];
        h.extend(e);
        out.push(h);
        out.push(b2a(d));
    }
    // what the raw peer saw per stream: stop code, bytes received on the bidi return path
    let mut per = vec![];
    for i in 0..n {
        let mut v = vec![];
        if let Some(s) = sends[i].as_mut() {
            match tokio::time::timeout(Duration::from_millis(150), s.stopped()).await {
                Ok(Ok(Some(code))) => v.extend([1, code.into_inner()]),
                Ok(Ok(None)) => v.push(0),
                Ok(Err(_)) => v.push(3),
                Err(_) => v.push(2),
            }
        } else {
            v.push(9);
        }
        if let Some(r) = recvs[i].as_mut() {
            let mut back: Vec<u8> = vec![];
            let mut b = [0u8; 64];
            loop {
                match tokio::time::timeout(Duration::from_millis(150), r.read(&mut b)).await {
                    Ok(Ok(Some(k))) => back.extend(&b[..k]),
                    _ => break,
                }
            }
            v.push(back.len() as u64);
        }
        per.push(v);
    }
    out.push(vec![7777]);
    out.extend(per);
    let (ch, cr) = raw_wait_closed(&raw.conn, Duration::from_millis(200)).await;
    out.push(ch);
    out.push(cr);
    for h in handles {
        h.abort();
    }
    if let Some(s) = &g_server { s.close(vi(0), b""); }
    if let Some(e) = &g_raw { e.close(qvi(0), b""); }
    if let Some(c) = &g_client { c.close(vi(0), b""); }
    (out, Some(stable))
}

pub fn oracle(a: &Args, out: &Args) -> Option<(&'static str, String)> {
    if out[0][0] != 1 {
        return None;
    }
    // C01/C08 on the implementation alone: every delivered payload is one the peer wrote for the
    // live session after a valid preamble, each at most once
    let n = (a.len() - 1) / 2;
    // (kind, payload the peer put after the preamble, peer finished the stream after writing it all)
    let mut written: Vec<(u64, Vec<u64>, bool)> = vec![];
    fn varint(b: &[u64]) -> Option<(u64, usize)> {
        let first = *b.first()?;
        let len = 1usize << (first >> 6);
        if b.len() < len {
            return None;
        }
        let mut v = first & 0x3f;
        for x in &b[1..len] {
            v = (v << 8) | *x;
        }
        Some((v, len))
    }
    let mut strict = 0usize;
    for i in 0..n {
        let spec = &a[1 + 2 * i];
        let kind = spec[0];
        // a stream left open after a pause carries only the bytes before the cut
        let held_back = spec[3] == 2 && spec[2] > 0;
        let sent_len = if held_back { (spec[1] as usize).min(a[2 + 2 * i].len()) } else { a[2 + 2 * i].len() };
        let b = &a[2 + 2 * i][..sent_len];
        let finished = spec[3] == 0;
        let mut off = 0usize;
        let payload: Option<Vec<u64>> = (|| {
            if kind == 0 {
                let (t, l) = varint(&b[off..])?;
                off += l;
                if t != 0x54 { return None; }
                let (sid, l) = varint(&b[off..])?;
                off += l;
                if sid != 0 { return None; }
                Some(b[off..].to_vec())
            } else {
                loop {
                    let (t, l) = varint(&b[off..])?;
                    off += l;
                    if t == 0x41 {
                        let (sid, l) = varint(&b[off..])?;
                        off += l;
                        if sid != 0 { return None; }
                        return Some(b[off..].to_vec());
                    }
                    if t == 0 || t == 1 || t == 4 { return None; }
                    let (len, l) = varint(&b[off..])?;
                    off += l + len as usize;
                    if off > b.len() { return None; }
                }
            }
        })();
        // a stream that stalls inside its preamble and stays open is no reason to end anything (C07)
        if held_back && payload.is_none() {
            let valid: [u64; 3] = if kind == 0 { [0x40, 0x54, 0x00] } else { [0x40, 0x41, 0x00] };
            if b.len() < 3 && b[..] == valid[..b.len()] {
                strict += 1;
            }
        }
        // a bidirectional stream carrying exactly one HEADERS frame (a session request, good or bad):
        // at most that stream is refused, the connection and the live session are not affected
        if kind == 1 && payload.is_none() {
            if let Some((1, l1)) = varint(b) {
                if let Some((len, l2)) = varint(&b[l1..]) {
                    if l1 + l2 + len as usize == b.len() {
                        strict += 1;
                    }
                }
            }
        }
        // C12 / C17: a WebTransport stream naming an id that is not a client-initiated bidirectional
        // stream is a connection error of type H3_ID_ERROR
        {
            let first = varint(b);
            if let Some((t, l)) = first {
                if t == if kind == 0 { 0x54 } else { 0x41 } {
                    if let Some((sid, _)) = varint(&b[l..]) {
                        if sid % 4 != 0 {
                            let ch = &out[out.len() - 2];
                            if *ch != vec![1, 0x108] {
                                return Some(("C12+C17", format!("a WebTransport {} stream named the invalid session id {}; the peer saw {:?} instead of a close with H3_ID_ERROR", if kind == 0 { "uni" } else { "bidi" }, sid, ch)));
                            }
                        }
                    }
                }
            }
        }
        if let Some(p) = payload {
            // strictly well-formed: the type / signal value is the very first thing on the stream
            let first = varint(b).map(|x| x.0);
            if first == Some(if kind == 0 { 0x54 } else { 0x41 }) {
                strict += 1;
            }
            written.push((kind, p, finished));
        }
    }
    // C17: a well-formed stream naming another (valid) session is refused with
    // WEBTRANSPORT_BUFFERED_STREAM_REJECTED and nothing else happens to the connection
    if let Some(mark) = out.iter().position(|v| *v == vec![7777]) {
        for i in 0..n {
            let spec = &a[1 + 2 * i];
            let b = &a[2 + 2 * i];
            let foreign = (|| {
                let (t, l) = varint(b)?;
                if t != if spec[0] == 0 { 0x54 } else { 0x41 } { return None; }
                let (sid, _) = varint(&b[l..])?;
                if sid != 0 && sid % 4 == 0 { Some(sid) } else { None }
            })();
            if let (Some(sid), Some(seen)) = (foreign, out.get(mark + 1 + i)) {
                if seen.len() < 2 || seen[0] != 1 || seen[1] != 0x3994bd84 {
                    return Some(("C17", format!("stream for the foreign session {} was not stopped with 0x3994bd84: the peer saw {:?}", sid, seen)));
                }
            }
        }
    }
    // nothing but well-formed live-session streams: the connection has no reason to end
    let closed_early = out.len() >= 2 && out[out.len() - 2].first() != Some(&TAG_PENDING) && !out[out.len() - 2].is_empty();
    if strict == n && n > 0 && closed_early {
        return Some(("C01+C07+C08+C09+C12+C18", format!("the connection was closed ({:?}) although every stream the peer opened was a well-formed stream of the live session or a session request (which can at most be refused on its own stream)", out[out.len() - 2])));
    }
    let cnt = out[0][1] as usize;
    let mut i = 1;
    for _ in 0..cnt {
        let kind = out[i][0];
        let data = &out[i + 1];
        let full = out[i].len() >= 2 && out[i][1] == 0;
        let pos = written.iter().position(|(k, d, _)| *k == kind && if full { d == data } else { d.len() >= data.len() && d[..data.len()] == data[..] });
        match pos {
            Some(p) => {
                let (_, d, fin) = written.remove(p);
                // C06: a stream the peer reset with code c ends with exactly that for the reader
                if out[i].len() >= 2 && out[i][1] == 1 {
                    let sent_code = (0..n).find_map(|j| {
                        let sp = &a[1 + 2 * j];
                        if sp[0] == kind && sp[3] == 1 { Some(sp[4]) } else { None }
                    });
                    if let Some(c) = sent_code {
                        if out[i].len() < 3 || out[i][2] != c {
                            return Some(("C06", format!("the peer reset the stream with {} but the reader got {:?}", c, &out[i][1..])));
                        }
                    }
                } else if !fin && !full && out[i].len() >= 2 && out[i][1] == 3 {
                    let was_reset = (0..n).any(|j| a[1 + 2 * j][0] == kind && a[1 + 2 * j][3] == 1);
                    if was_reset {
                        return Some(("C06", "the peer reset the stream but the reader got an unrelated error instead of reset(code)".into()));
                    }
                }
                if fin && !full {
                    return Some(("C01", format!("the peer wrote {} bytes and finished the stream; the application read {} bytes and then {:?} instead of end-of-stream", d.len(), data.len(), &out[i][1..])));
                }
            }
            None => return Some(("C01", format!("the application read {} bytes on a {} stream that no live-session stream carried (or a stream was delivered twice)", data.len(), if kind == 0 { "uni" } else { "bidi" }))),
        }
        i += 2;
    }
    // C07/C08/C01: while the connection stays up, every stream of the live session whose preamble
    // arrived completely reaches the application (exactly once: see above), whatever other
    // streams do and however the application paces its accepts
    let closed = out.len() >= 2 && out[out.len() - 2].first() != Some(&TAG_PENDING) && !out[out.len() - 2].is_empty();
    if !closed {
        if let Some((k, d, _)) = written.first() {
            return Some(("C08+C07+C01+C09", format!("{} live-session stream(s) with a complete preamble never reached the application (first: {} stream, {} payload bytes)", written.len(), if *k == 0 { "uni" } else { "bidi" }, d.len())));
        }
    }
    None
}

fn uni_wt(sid: u64, payload: &[u8]) -> Vec<u8> {
    let mut b = enc_varint(0x54);
    b.extend(enc_varint(sid));
    b.extend(payload);
    b
}
fn bi_wt(sid: u64, payload: &[u8]) -> Vec<u8> {
    let mut b = enc_varint(0x41);
    b.extend(enc_varint(sid));
    b.extend(payload);
    b
}
fn spec(kind: u64, cut: usize, pause: u64, end: u64, code: u64) -> Vec<u64> {
    vec![kind, cut as u64, pause, end, code]
}

pub fn generate(rng: &mut Rng, thorough: bool, which: &str) -> Vec<Case> {
    let mut cs = generate_server_role(rng, thorough, which);
    // the same scripts with the library in the client role (every third one in the quick tier);
    // a session request sent to a client is not a scenario
    if which != "requests" {
        let n = cs.len();
        for i in 0..n {
            if thorough || i % 3 == 1 {
                let c = &cs[i];
                let mut args = c.args.clone();
                while args[0].len() < 5 { args[0].push(0); }
                args[0].push(1);
                cs.push(Case::new(621, args, &format!("client-role:{}", c.label)));
            }
        }
    }
    cs
}

fn generate_server_role(rng: &mut Rng, thorough: bool, which: &str) -> Vec<Case> {
    let mut cs = vec![];
    let payload = |rng: &mut Rng, n: usize| -> Vec<u8> { rng.bytes(n) };
    if which == "streams" {
        // C01: one stream, every cut position inside the preamble, payload sizes
        for kind in 0..2u64 {
            let sizes: Vec<usize> = if thorough { vec![0, 1, 2, 100, 5000, 70000] } else { vec![0, 1, 300, 6000] };
            for sz in sizes {
                let p = payload(rng, sz);
                let b = if kind == 0 { uni_wt(0, &p) } else { bi_wt(0, &p) };
                for cut in 0..=3usize {
                    let pause = if cut == 0 { 0 } else { 40 };
                    let exp = if kind == 0 { (1, 0) } else { (0, 1) };
                    cs.push(Case::new(621, vec![vec![0, 1, 0, exp.0, exp.1], spec(kind, cut, pause, 0, 0), b2a(&b)], "single-stream-cut"));
                }
            }
        }
        // the preamble in two pieces with more than a second in between (C01: no watchdog or
        // retry may lose the part already read)
        for kind in 0..2u64 {
            for cut in [1usize, 2] {
                let p = payload(rng, 50);
                let b = if kind == 0 { uni_wt(0, &p) } else { bi_wt(0, &p) };
                let exp = if kind == 0 { (1, 0) } else { (0, 1) };
                cs.push(Case::new(621, vec![vec![0, 1, 0, exp.0, exp.1], spec(kind, cut, 1500, 0, 0), b2a(&b)], "slow-preamble"));
            }
        }
        // the same with pauses beyond any plausible watchdog period (2.6 s; thorough: 5.5 s as well): the
        // bytes read before the pause still count, the stream is delivered whole (C01, C08)
        for kind in 0..2u64 {
            for cut in [1usize, 2] {
                for pause in if thorough { vec![2600u64, 5500] } else { vec![2600u64] } {
                    if !thorough && kind == 0 && cut == 2 { continue; }
                    let p = payload(rng, 40);
                    let b = if kind == 0 { uni_wt(0, &p) } else { bi_wt(0, &p) };
                    let exp = if kind == 0 { (1, 0) } else { (0, 1) };
                    cs.push(Case::new(621, vec![vec![0, 1, 0, exp.0, exp.1], spec(kind, cut, pause, 0, 0), b2a(&b)], "very-slow-preamble"));
                }
            }
        }
        // several concurrent streams of both kinds, non-minimal session id encodings
        for nstreams in [4usize, 12] {
            let mut args = vec![vec![0, 2, 0, 0, 0]];
            let (mut eu, mut eb) = (0, 0);
            for i in 0..nstreams {
                let kind = (i % 2) as u64;
                let p = payload(rng, 10 + i * 37);
                let b = if i % 5 == 4 {
                    // session id 0 written as a 2-byte varint
                    let mut b = enc_varint(if kind == 0 { 0x54 } else { 0x41 });
                    b.extend([0x40, 0x00]);
                    b.extend(&p);
                    b
                } else if kind == 0 { uni_wt(0, &p) } else { bi_wt(0, &p) };
                if kind == 0 { eu += 1 } else { eb += 1 }
                args.push(spec(kind, rng.below(4) as usize, 0, 0, 0));
                args.push(b2a(&b));
            }
            args[0][3] = eu;
            args[0][4] = eb;
            cs.push(Case::new(621, args, "concurrent-streams"));
        }
        // reset by the peer mid-stream: the code arrives (C06 at the driver boundary)
        for code in [0u64, 77, (1 << 62) - 1] {
            cs.push(Case::new(621, vec![vec![0, 1, 0, 1, 0], spec(0, 0, 0, 1, code), b2a(&uni_wt(0, b"partial"))], "peer-reset"));
        }
        // reset by the peer before the application accepts the stream: the first read reports it
        for kind in 0..2u64 {
            for code in [9u64, (1 << 40) + 1] {
                let b = if kind == 0 { uni_wt(0, b"early") } else { bi_wt(0, b"early") };
                let exp = if kind == 0 { (1, 0) } else { (0, 1) };
                cs.push(Case::new(621, vec![vec![250, 1, 0, exp.0, exp.1], spec(kind, 0, 0, 1, code), b2a(&b)], "peer-reset-before-accept"));
            }
        }
        // GREASE frames before the WT signal on a bidi stream: the signal is then not the first frame, the endpoint answers H3_FRAME_ERROR (the model says so too)
        let mut b = raw_frame(0x21, &[1, 2]);
        b.extend(raw_frame(0x21 + 0x1f * 9, &[]));
        b.extend(bi_wt(0, b"after-grease"));
        cs.push(Case::new(621, vec![vec![0, 1, 0, 0, 1], spec(1, 0, 0, 0, 0), b2a(&b)], "grease-before-wt-signal"));
        // unknown frame before the WT signal: skipped whole by the frame reader, but then the signal is "not first"?
        // (the first-frame flag is only set by frames that reach validation: unknown ones do not)
        let mut b = raw_frame(0x4242, &[0x40, 0x41, 0x00]);
        b.extend(bi_wt(0, b"after-unknown"));
        cs.push(Case::new(621, vec![vec![0, 1, 0, 0, 1], spec(1, 0, 0, 0, 0), b2a(&b)], "unknown-frame-before-wt-signal"));
        return cs;
    }
    if which == "foreign" {
        // C17: foreign-session streams are stopped with BUFFERED_STREAM_REJECTED, live ones delivered
        for fsid in [4u64, 8, 400, 16384, (1 << 62) - 4] {
            let mut args = vec![vec![0, 1, 0, 1, 1]];
            args.push(spec(0, 0, 0, 2, 0));
            args.push(b2a(&uni_wt(fsid, b"foreign-uni")));
            args.push(spec(1, 0, 0, 2, 0));
            args.push(b2a(&bi_wt(fsid, b"foreign-bi")));
            args.push(spec(0, 0, 0, 0, 0));
            args.push(b2a(&uni_wt(0, b"live-uni")));
            args.push(spec(1, 0, 0, 0, 0));
            args.push(b2a(&bi_wt(0, b"live-bi")));
            cs.push(Case::new(621, args, "foreign-and-live"));
        }
        // other stream kinds as "session ids": invalid ids close the connection with H3_ID_ERROR
        for bad in [1u64, 2, 3, 5] {
            cs.push(Case::new(621, vec![vec![0, 1, 0, 0, 0], spec(0, 0, 0, 0, 0), b2a(&uni_wt(bad, b"x"))], "invalid-session-id-uni"));
            cs.push(Case::new(621, vec![vec![0, 1, 0, 0, 0], spec(1, 0, 0, 0, 0), b2a(&bi_wt(bad, b"x"))], "invalid-session-id-bi"));
        }
        return cs;
    }
    if which == "unknown_uni" {
        // C13: unknown / GREASE unidirectional stream types with any content never close the connection
        let ids: Vec<u64> = vec![1, 4, 5, 0x20, 0x22, 0x42, 0x53, 0x55, 0x4242, 1 << 30, (1 << 62) - 1, 0x21, 0x21 + 0x1f * 5,
                                 // 8-byte types whose low 32 bits look like a known type
                                 0x1_0000_0000, 0x1_0000_0002, 0x1_0000_0003, 0x1_0000_0054, 0x3fff_ffff_0000_0054];
        for id in ids {
            let mut b = enc_varint(id);
            b.extend(raw_frame(4, &[]));
            b.extend(rng.bytes(20));
            let mut args = vec![vec![0, 1, 0, 1, 0]];
            args.push(spec(0, 0, 0, 2, 0));
            args.push(b2a(&b));
            args.push(spec(0, 0, 0, 0, 0));
            args.push(b2a(&uni_wt(0, b"still-alive")));
            cs.push(Case::new(621, args, "unknown-uni-type"));
        }
        // duplicated critical streams close the connection with H3_STREAM_CREATION_ERROR (C12)
        for ty in [0u64, 2, 3] {
            let mut args = vec![vec![0, 1, 0, 0, 0]];
            let first_needed = ty != 0; // the raw session already opened its control stream
            if first_needed {
                args.push(spec(0, 0, 0, 2, 0));
                args.push(b2a(&enc_varint(ty)));
            }
            args.push(spec(0, 0, 0, 2, 0));
            args.push(b2a(&enc_varint(ty)));
            cs.push(Case::new(621, args, "duplicate-critical-stream"));
        }
        // closing a critical stream (C12)
        for ty in [2u64, 3] {
            cs.push(Case::new(621, vec![vec![0, 1, 0, 0, 0], spec(0, 0, 0, 0, 0), b2a(&enc_varint(ty))], "critical-stream-finished"));
            cs.push(Case::new(621, vec![vec![0, 1, 0, 0, 0], spec(0, 0, 0, 1, 5), b2a(&enc_varint(ty))], "critical-stream-reset"));
        }
        return cs;
    }
    if which == "requests" {
        // further session requests on an established connection (C09, C18, C12): at most that stream
        // is refused; the live session, its streams and the connection go on
        let full: Vec<(&str, &str)> = vec![(":method", "CONNECT"), (":scheme", "https"), (":protocol", "webtransport"), (":authority", "localhost"), (":path", "/second")];
        let mut sets: Vec<(Vec<(&str, &str)>, &str)> = vec![(full.clone(), "second-connect-request")];
        for drop in 0..5usize {
            let mut v = full.clone();
            v.remove(drop);
            sets.push((v, "request-missing-field"));
        }
        for (i, val) in [(0usize, "GET"), (0, "connect"), (1, "http"), (2, "websocket"), (2, "WebTransport")] {
            let mut v = full.clone();
            v[i].1 = val;
            sets.push((v, "request-wrong-value"));
        }
        // several further requests: the first waits in the (capacity-1) queue nobody reads, the others
        // are refused -- none of this is the live session's business (C09: nothing may park the worker)
        for k in [2usize, 3, 5] {
            let mut args = vec![vec![0, 1, 0, 1, 1]];
            for _ in 0..k {
                args.push(spec(1, 0, 0, 2, 0));
                args.push(b2a(&headers_bytes(&full)));
            }
            args.push(spec(0, 0, 250, 0, 0));
            args.push(b2a(&uni_wt(0, b"uni-after-many-requests")));
            args.push(spec(1, 0, 0, 0, 0));
            args.push(b2a(&bi_wt(0, b"bi-after-many-requests")));
            cs.push(Case::new(621, args, "many-connect-requests"));
        }
        for (fields, label) in sets {
            let mut args = vec![vec![0, 1, 0, 1, 1]];
            args.push(spec(1, 0, 0, 2, 0));
            args.push(b2a(&headers_bytes(&fields)));
            // the healthy streams come a moment later: whatever the request did has happened by then
            args.push(spec(0, 0, 200, 0, 0));
            args.push(b2a(&uni_wt(0, b"uni-after-request")));
            args.push(spec(1, 0, 0, 0, 0));
            args.push(b2a(&bi_wt(0, b"bi-after-request")));
            cs.push(Case::new(621, args, label));
        }
        return cs;
    }
    if which == "stall" {
        // C07: k stalled streams (no byte beyond a partial preamble / complete preamble then silence),
        // then healthy streams that must still be delivered
        for kind in 0..2u64 {
            for k in [1usize, 2, 5] {
                for stall_at in [1usize, 2, 3] {
                    if !thorough && k == 2 && stall_at == 2 {
                        continue;
                    }
                    let mut args = vec![vec![0, 1, 0, 0, 0]];
                    for _ in 0..k {
                        let b = if kind == 0 { uni_wt(0, b"") } else { bi_wt(0, b"") };
                        // write only `stall_at` bytes of the 3-byte preamble and leave the stream open
                        args.push(spec(kind, stall_at, 50, 2, 0));
                        args.push(b2a(&b));
                    }
                    let (mut eu, mut eb) = (0, 0);
                    for j in 0..2 {
                        let hk = (kind + j) % 2;
                        let b = if hk == 0 { uni_wt(0, b"healthy-uni") } else { bi_wt(0, b"healthy-bi") };
                        args.push(spec(hk, 0, 0, 0, 0));
                        args.push(b2a(&b));
                        if hk == 0 { eu += 1 } else { eb += 1 }
                    }
                    // a stall with the complete preamble is itself delivered (it just never ends)
                    if stall_at == 3 {
                        if kind == 0 { eu += k as u64 } else { eb += k as u64 }
                    }
                    args[0][3] = eu;
                    args[0][4] = eb;
                    cs.push(Case::new(621, args, "stalled-then-healthy"));
                }
            }
        }
        // streams that are NOT WebTransport streams and never end: reserved (GREASE) and unknown
        // unidirectional types, QPACK streams, a bidirectional stream holding a GREASE frame -- each with
        // some bytes behind the type and left open -- then healthy streams of both kinds (C07: whatever
        // the driver does with such a stream, it must not do it in the way of the others)
        {
            let mut others: Vec<(u64, Vec<u8>)> = vec![];
            for ty in [0x21u64, 0x21 + 0x1f * 3, 0x42, 0x02, 0x03] {
                let mut b = enc_varint(ty);
                b.extend(b"some bytes behind the stream type");
                others.push((0, b));
            }
            let mut g = raw_frame(0x21, b"grease frame");
            g.extend(raw_frame(0x21 + 0x1f, b""));
            others.push((1, g));
            for (i, (kind, b)) in others.iter().enumerate() {
                if !thorough && i % 2 == 1 && i != 5 { continue; }
                let mut args = vec![vec![0, 1, 0, 1, 1]];
                // all its bytes, then 300 ms of nothing before the healthy streams are opened: whatever
                // the driver decides to do with the stream, it is doing it by then
                args.push(spec(*kind, b.len(), 300, 2, 0));
                args.push(b2a(b));
                args.push(spec(0, 0, 0, 0, 0));
                args.push(b2a(&uni_wt(0, b"uni-after-open-other-stream")));
                args.push(spec(1, 0, 0, 0, 0));
                args.push(b2a(&bi_wt(0, b"bi-after-open-other-stream")));
                cs.push(Case::new(621, args, "open-other-stream-then-healthy"));
            }
        }
        // a stall that lasts: six seconds with one byte of the preamble, then healthy streams
        for kind in 0..2u64 {
            let b = if kind == 0 { uni_wt(0, b"") } else { bi_wt(0, b"") };
            let mut args = vec![vec![0, 1, 0, 1, 1]];
            args.push(spec(kind, 1, 6000, 2, 0));
            args.push(b2a(&b));
            args.push(spec(0, 0, 0, 0, 0));
            args.push(b2a(&uni_wt(0, b"uni-after-long-stall")));
            args.push(spec(1, 0, 0, 0, 0));
            args.push(b2a(&bi_wt(0, b"bi-after-long-stall")));
            cs.push(Case::new(621, args, "long-stall-then-healthy"));
        }
        // accepted but unread: k streams each carrying 1.2 MB (just below the stream window) that the
        // application never reads, then healthy streams of both kinds
        for (kind, k) in [(0u64, 5usize), (1, 5), (0, 2)] {
            let mut args = vec![vec![0, 1, 0, 0, 0]];
            for _ in 0..k {
                let b = if kind == 0 { uni_wt(0, b"NOREAD") } else { bi_wt(0, b"NOREAD") };
                let mut sp = spec(kind, 0, 0, 2, 0);
                sp.push(1_200_000);
                args.push(sp);
                args.push(b2a(&b));
            }
            let (mut eu, mut eb) = (0u64, 0u64);
            if kind == 0 { eu += k as u64 } else { eb += k as u64 }
            for hk in [0u64, 1] {
                let b = if hk == 0 { uni_wt(0, b"healthy-uni-after-unread") } else { bi_wt(0, b"healthy-bi-after-unread") };
                args.push(spec(hk, 0, 0, 0, 0));
                args.push(b2a(&b));
                if hk == 0 { eu += 1 } else { eb += 1 }
            }
            args[0][3] = eu;
            args[0][4] = eb;
            cs.push(Case::new(621, args, "unread-then-healthy"));
        }
        return cs;
    }
    if which == "pace" {
        // C08: many streams, slow / multi-task / cancelling acceptors
        let counts: Vec<usize> = if thorough { vec![10, 40, 120] } else { vec![10, 40] };
        for nstreams in counts {
            for (delay, tasks, cancel) in [(0u64, 1u64, 0u64), (15, 1, 0), (5, 3, 0), (2, 2, 1), (1, 1, 3), (0, 2, 3)] {
                let mut args = vec![vec![delay, tasks, cancel, 0, 0]];
                let (mut eu, mut eb) = (0, 0);
                for i in 0..nstreams {
                    let kind = if rng.below(3) == 0 { 1 } else { 0 };
                    let mut p = format!("stream-{:04}-", i).into_bytes();
                    p.extend(rng.bytes(i % 50));
                    let b = if kind == 0 { uni_wt(0, &p) } else { bi_wt(0, &p) };
                    if kind == 0 { eu += 1 } else { eb += 1 }
                    args.push(spec(kind, 0, 0, 0, 0));
                    args.push(b2a(&b));
                }
                args[0][3] = eu;
                args[0][4] = eb;
                cs.push(Case::new(621, args, "many-streams"));
            }
        }
        // one-shot acceptors: as many concurrently pending accept calls as streams, all parked
        // before the first stream exists; every call must get its stream
        for k in [2usize, 4] {
            let mut args = vec![vec![0, k as u64, 2, k as u64, k as u64]];
            for i in 0..2 * k {
                let kind = (i % 2) as u64;
                let p = format!("one-shot-{:02}", i).into_bytes();
                let b = if kind == 0 { uni_wt(0, &p) } else { bi_wt(0, &p) };
                args.push(spec(kind, 0, 40, 0, 0));
                args.push(b2a(&b));
            }
            cs.push(Case::new(621, args, "one-shot-acceptors"));
        }
        return cs;
    }
    cs
}
