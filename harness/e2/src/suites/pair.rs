//! Family 671: the library on both ends (a wtransport client against a wtransport server):
//! streams in all four roles (client/server x uni/bidi) with payloads up to several flow-control
//! windows, random write and read chunkings, datagrams in both directions, then a close with a
//! code and a reason (C01, C03, C04, C06, C09 on the paths ordinary users take).
use crate::net::*;
use crate::rng::Rng;
use crate::{Args, Case};
use std::time::Duration;

fn payload(seed: u64, i: u64, n: usize) -> Vec<u8> {
    let mut r = Rng::new(seed ^ (i.wrapping_mul(0x9E37_79B9_7F4A_7C15)) ^ 0xABCD);
    let mut v = Vec::with_capacity(n);
    while v.len() < n {
        let x = r.next().to_le_bytes();
        let k = (n - v.len()).min(8);
        v.extend(&x[..k]);
    }
    v
}

async fn write_chunked(s: &mut wtransport::SendStream, data: &[u8], seed: u64) -> bool {
    let mut r = Rng::new(seed);
    let mut off = 0;
    while off < data.len() {
        let k = match r.below(4) {
            0 => 1 + r.below(16) as usize,
            1 => 1 + r.below(1500) as usize,
            2 => 1 + r.below(70_000) as usize,
            _ => data.len(),
        }
        .min(data.len() - off);
        if s.write_all(&data[off..off + k]).await.is_err() {
            return false;
        }
        off += k;
    }
    true
}

async fn read_chunked(r: &mut wtransport::RecvStream, seed: u64, wait: Duration) -> (Vec<u8>, u64) {
    let mut rng = Rng::new(seed);
    let mut data = vec![];
    let mut buf = vec![0u8; 70_000];
    loop {
        let k = match rng.below(4) {
            0 => 1 + rng.below(8) as usize,
            1 => 1 + rng.below(2000) as usize,
            // an empty destination: reads nothing, says so, and is not the end of the stream
            2 if data.len() % 3 == 1 => 0,
            _ => buf.len(),
        };
        if k == 0 {
            match tokio::time::timeout(wait, r.read(&mut buf[..0])).await {
                Ok(Ok(Some(0))) => continue,
                Ok(Ok(None)) => return (data, 4),   // end-of-stream reported for an empty read
                Ok(Ok(Some(_))) => return (data, 5),
                Ok(Err(_)) => return (data, 3),
                Err(_) => return (data, 2),
            }
        }
        match tokio::time::timeout(wait, r.read(&mut buf[..k])).await {
            Ok(Ok(Some(n))) => data.extend(&buf[..n]),
            Ok(Ok(None)) => return (data, 0),
            Ok(Err(wtransport::error::StreamReadError::Reset(c))) => { let _ = c; return (data, 1); }
            Ok(Err(_)) => return (data, 3),
            Err(_) => return (data, 2),
        }
    }
}

/// args[0] = [opener (0 client, 1 server), kind (0 uni, 1 bidi), seed, close_code, current_thread(0/1)]
/// args[1] = strictly increasing payload sizes, one stream each; args[2] = close reason;
/// args[3] = datagram sizes (u32::MAX = the advertised maximum)
pub async fn exec(a: &Args) -> Args {
    if a[0].get(4).copied().unwrap_or(0) == 1 {
        let a2 = a.clone();
        return tokio::task::spawn_blocking(move || {
            tokio::runtime::Builder::new_current_thread().enable_all().build().unwrap().block_on(exec_inner(&a2))
        })
        .await
        .unwrap_or_else(|_| vec![vec![crate::PANIC]]);
    }
    exec_inner(a).await
}

/// Writes until the stream accepts nothing more for `idle`; returns the bytes accepted.
async fn fill_until_blocked(stream: &mut wtransport::SendStream, idle: Duration) -> Option<usize> {
    let chunk = [0xAAu8; 1024];
    let mut total = 0;
    loop {
        match tokio::time::timeout(idle, stream.write(&chunk)).await {
            Ok(Ok(n)) => total += n,
            Ok(Err(_)) => return None,
            Err(_) => return Some(total),
        }
    }
}

/// a[0][5] = 1: a stream is opened while only a[0][3] (1 or 2) bytes of connection-level credit are
/// left, fewer than its three-byte preamble.  The acceptor advertises a 64 KiB connection window and
/// leaves a filler stream unread; credit is handed back 32 KiB at a time (one read = one update).
/// Result [[3]] = the credit could not be calibrated on this machine (no verdict).
async fn exec_tight(a: &Args) -> Args {
    let (kind, seed, left) = (a[0][1], a[0][2], a[0][3] as usize);
    const REFILL: usize = 32 * 1024;
    let mut t = wtransport::quinn::TransportConfig::default();
    t.receive_window(wtransport::quinn::VarInt::from_u32(64 * 1024));
    let (server, addr) = wt_server(Some(t));
    let client = wt_client();
    let url = format!("https://127.0.0.1:{}/tight", addr.port());
    let (sc, cc) = tokio::join!(wt_accept(&server), tokio::time::timeout(T_CALL, client.connect(&url)));
    let (sconn, cconn) = match (sc, cc) {
        (Ok(s), Ok(Ok(c))) => (s, c),
        _ => return vec![vec![2]],
    };
    let idle = Duration::from_millis(400);
    let mut filler = match cconn.open_uni().await { Ok(o) => match o.await { Ok(s) => s, Err(_) => return vec![vec![3]] }, Err(_) => return vec![vec![3]] };
    let mut filler_r = match tokio::time::timeout(T_CALL, async { let _ = filler.write_all(b"x").await; sconn.accept_uni().await }).await { Ok(Ok(r)) => r, _ => return vec![vec![3]] };
    // exhaust the window, then three rounds: flush unannounced credit, calibrate, for real
    if fill_until_blocked(&mut filler, idle).await.is_none() { return vec![vec![3]]; }
    let mut scratch = vec![0u8; REFILL];
    for round in 0..3 {
        if filler_r.read_exact(&mut scratch).await.is_err() { return vec![vec![3]]; }
        let spend = if round == 0 { REFILL } else { REFILL - left };
        if tokio::time::timeout(T_CALL, filler.write_all(&vec![0xBBu8; spend])).await.is_err() { return vec![vec![3]]; }
        if round < 2 {
            match fill_until_blocked(&mut filler, idle).await {
                Some(n) if round == 0 || n == left => {}
                _ => return vec![vec![3]],
            }
        }
    }
    // exactly `left` bytes of connection credit remain: open the probe stream
    let data = payload(seed, 1, 1000);
    let c2 = cconn.clone();
    let d2 = data.clone();
    let opener = tokio::spawn(async move {
        if kind == 0 {
            let mut s = match c2.open_uni().await { Ok(o) => match o.await { Ok(s) => s, Err(_) => return 9u64 }, Err(_) => return 9 };
            let w = s.write_all(&d2).await.is_ok();
            let _ = tokio::time::timeout(Duration::from_secs(5), s.finish()).await;
            w as u64
        } else {
            let (mut s, _r) = match c2.open_bi().await { Ok(o) => match o.await { Ok(x) => x, Err(_) => return 9 }, Err(_) => return 9 };
            let w = s.write_all(&d2).await.is_ok();
            let _ = tokio::time::timeout(Duration::from_secs(5), s.finish()).await;
            w as u64
        }
    });
    tokio::time::sleep(Duration::from_millis(600)).await;
    // only now the filler is drained and credit comes back
    tokio::spawn(async move {
        let mut sink = vec![0u8; 16 * 1024];
        while let Ok(Some(_)) = filler_r.read(&mut sink).await {}
    });
    let got = if kind == 0 {
        match tokio::time::timeout(Duration::from_secs(6), sconn.accept_uni()).await {
            Ok(Ok(mut r)) => Some(read_chunked(&mut r, seed + 5, Duration::from_secs(4)).await),
            _ => None,
        }
    } else {
        match tokio::time::timeout(Duration::from_secs(6), sconn.accept_bi()).await {
            Ok(Ok((_s, mut r))) => Some(read_chunked(&mut r, seed + 5, Duration::from_secs(4)).await),
            _ => None,
        }
    };
    let w = opener.await.unwrap_or(9);
    let _ = tokio::time::timeout(Duration::from_secs(2), filler.finish()).await;
    match got {
        Some((d, end)) => vec![vec![1, w], vec![(d == data) as u64, d.len() as u64, end]],
        None => vec![vec![1, w], vec![0, 0, 8]],
    }
}

/// The streams used through tokio's I/O traits (what `tokio::io::copy`, `AsyncReadExt::read_exact`,
/// `BufReader` ... do): a[0] = [opener (0 client, 1 server), kind, seed, gap_ms, 0, 2].  The writer sends
/// two halves `gap_ms` apart with `AsyncWriteExt::write_all`; the reader takes the whole payload with ONE
/// `AsyncReadExt::read_exact` (it spans several deliveries), then reads to the end.
async fn exec_tokio_io(a: &Args) -> Args {
    use tokio::io::{AsyncReadExt, AsyncWriteExt};
    let (opener, kind, seed, gap) = (a[0][0], a[0][1], a[0][2], a[0][3]);
    let (server, addr) = wt_server(None);
    let client = wt_client();
    let url = format!("https://127.0.0.1:{}/tokio-io", addr.port());
    let (sc, cc) = tokio::join!(wt_accept(&server), tokio::time::timeout(T_CALL, client.connect(&url)));
    let (sconn, cconn) = match (sc, cc) {
        (Ok(s), Ok(Ok(c))) => (s, c),
        _ => return vec![vec![2]],
    };
    let (oc, ac) = if opener == 0 { (cconn.clone(), sconn.clone()) } else { (sconn.clone(), cconn.clone()) };
    let data = payload(seed, 7, 6000);
    let d2 = data.clone();
    let writer = tokio::spawn(async move {
        let mut s = if kind == 0 {
            match oc.open_uni().await { Ok(o) => match o.await { Ok(s) => s, Err(_) => return false }, Err(_) => return false }
        } else {
            match oc.open_bi().await { Ok(o) => match o.await { Ok((s, _r)) => { std::mem::forget(_r); s } Err(_) => return false }, Err(_) => return false }
        };
        if AsyncWriteExt::write_all(&mut s, &d2[..3000]).await.is_err() { return false; }
        tokio::time::sleep(Duration::from_millis(gap)).await;
        if AsyncWriteExt::write_all(&mut s, &d2[3000..]).await.is_err() { return false; }
        tokio::time::timeout(Duration::from_secs(5), s.finish()).await.map(|r| r.is_ok()).unwrap_or(false)
    });
    let big = Duration::from_millis(6000);
    let mut r = if kind == 0 {
        match tokio::time::timeout(big, ac.accept_uni()).await { Ok(Ok(r)) => r, _ => return vec![vec![1, 9]] }
    } else {
        match tokio::time::timeout(big, ac.accept_bi()).await { Ok(Ok((_s, r))) => { std::mem::forget(_s); r } _ => return vec![vec![1, 9]] }
    };
    let mut buf = vec![0u8; 6000];
    let exact = matches!(tokio::time::timeout(big, AsyncReadExt::read_exact(&mut r, &mut buf)).await, Ok(Ok(_)));
    let mut rest = vec![];
    let tail_ok = matches!(tokio::time::timeout(big, AsyncReadExt::read_to_end(&mut r, &mut rest)).await, Ok(Ok(_)));
    let w = writer.await.unwrap_or(false);
    server.close(vi(0), b"");
    vec![vec![1, exact as u64, (buf == data) as u64, rest.len() as u64, tail_ok as u64, w as u64]]
}

async fn exec_inner(a: &Args) -> Args {
    if a[0].get(5).copied().unwrap_or(0) == 2 {
        return exec_tokio_io(a).await;
    }
    if a[0].get(5).copied().unwrap_or(0) == 1 {
        return exec_tight(a).await;
    }
    let (opener, kind, seed, close_code) = (a[0][0], a[0][1], a[0][2], a[0][3]);
    let sizes: Vec<usize> = a[1].iter().map(|x| *x as usize).collect();
    let reason = a2b(&a[2]);
    let (server, addr) = wt_server(None);
    let client = wt_client();
    let url = format!("https://127.0.0.1:{}/pair", addr.port());
    let (sc, cc) = tokio::join!(wt_accept(&server), tokio::time::timeout(T_CALL, client.connect(&url)));
    let (sconn, cconn) = match (sc, cc) {
        (Ok(s), Ok(Ok(c))) => (s, c),
        _ => return vec![vec![2]],
    };
    let (oc, ac) = if opener == 0 { (cconn.clone(), sconn.clone()) } else { (sconn.clone(), cconn.clone()) };
    let n = sizes.len();
    let big = Duration::from_millis(6000);
    // acceptor side
    let ac2 = ac.clone();
    let acceptor = tokio::spawn(async move {
        let mut tasks = vec![];
        for j in 0..n {
            let got = if kind == 0 {
                match tokio::time::timeout(big, ac2.accept_uni()).await { Ok(Ok(r)) => Some((None, r)), _ => None }
            } else {
                match tokio::time::timeout(big, ac2.accept_bi()).await { Ok(Ok((s, r))) => Some((Some(s), r)), _ => None }
            };
            let (s, mut r) = match got { Some(x) => x, None => break };
            tasks.push(tokio::spawn(async move {
                let (data, end) = read_chunked(&mut r, seed + 1000 + j as u64, big).await;
                if let Some(mut s) = s {
                    // answer with the same bytes reversed
                    let mut back = data.clone();
                    back.reverse();
                    let _ = write_chunked(&mut s, &back, seed + 2000 + j as u64).await;
                    let _ = tokio::time::timeout(big, s.finish()).await;
                }
                (data, end)
            }));
        }
        let mut res = vec![];
        for t in tasks {
            if let Ok(x) = t.await {
                res.push(x);
            }
        }
        res
    });
    // opener side
    let mut openers = vec![];
    for (i, sz) in sizes.iter().enumerate() {
        let oc2 = oc.clone();
        let data = payload(seed, i as u64, *sz);
        openers.push(tokio::spawn(async move {
            if kind == 0 {
                let mut s = match oc2.open_uni().await { Ok(o) => match o.await { Ok(s) => s, Err(_) => return vec![0, 0, 9] }, Err(_) => return vec![0, 0, 9] };
                let w = write_chunked(&mut s, &data, seed + 3000 + i as u64).await;
                let f = matches!(tokio::time::timeout(big, s.finish()).await, Ok(Ok(())));
                vec![w as u64, f as u64, 0]
            } else {
                let (mut s, mut r) = match oc2.open_bi().await { Ok(o) => match o.await { Ok(x) => x, Err(_) => return vec![0, 0, 9] }, Err(_) => return vec![0, 0, 9] };
                let w = write_chunked(&mut s, &data, seed + 3000 + i as u64).await;
                let f = matches!(tokio::time::timeout(big, s.finish()).await, Ok(Ok(())));
                let (back, end) = read_chunked(&mut r, seed + 4000 + i as u64, big).await;
                let mut want = data.clone();
                want.reverse();
                vec![w as u64, f as u64, end, (back == want) as u64]
            }
        }));
    }
    let mut open_res: Vec<Vec<u64>> = vec![];
    for t in openers {
        open_res.push(t.await.unwrap_or(vec![crate::PANIC]));
    }
    let mut recv = acceptor.await.unwrap_or_default();
    recv.sort_by_key(|(d, _)| d.len());
    let mut out: Args = vec![vec![1, recv.len() as u64]];
    // each received stream against the payload of that length
    for (d, end) in &recv {
        let idx = sizes.iter().position(|s| *s == d.len());
        let ok = idx.map(|i| payload(seed, i as u64, d.len()) == *d).unwrap_or(false);
        out.push(vec![ok as u64, d.len() as u64, *end]);
    }
    out.push(vec![7777]);
    out.extend(open_res);
    out.push(vec![8888]);
    // datagrams, both directions
    for (from, to) in [(&cconn, &sconn), (&sconn, &cconn)] {
        let mut v = vec![];
        for sz in &a[3] {
            let l = if *sz == u32::MAX as u64 { from.max_datagram_size().unwrap_or(0) } else { *sz as usize };
            let p = payload(seed + 77, l as u64, l);
            let sent = from.send_datagram(&p).is_ok();
            let got = match tokio::time::timeout(Duration::from_millis(800), to.receive_datagram()).await {
                Ok(Ok(d)) => (d.payload().to_vec() == p) as u64,
                _ => 2,
            };
            v.push(sent as u64);
            v.push(got);
        }
        out.push(v);
    }
    out.push(vec![9999]);
    // the opener closes with a code and a reason; the other side learns exactly those
    oc.close(vi(close_code), &reason);
    let remote = match tokio::time::timeout(T_CALL, ac.closed()).await { Ok(e) => enc_conn_err(&e), Err(_) => (vec![TAG_PENDING], vec![]) };
    let later = match tokio::time::timeout(T_CALL, ac.accept_uni()).await {
        Ok(Ok(_)) => (vec![TAG_OK], vec![]),
        Ok(Err(e)) => enc_conn_err(&e),
        Err(_) => (vec![TAG_PENDING], vec![]),
    };
    let local = match tokio::time::timeout(T_CALL, oc.closed()).await { Ok(e) => enc_conn_err(&e).0, Err(_) => vec![TAG_PENDING] };
    out.push(remote.0);
    out.push(remote.1);
    out.push(later.0);
    out.push(later.1);
    out.push(local);
    out
}

pub fn oracle(a: &Args, out: &Args) -> Option<(&'static str, String)> {
    if out[0][0] != 1 {
        return None;
    }
    if a[0].get(5).copied().unwrap_or(0) == 2 {
        if out[0] != vec![1, 1, 1, 0, 1, 1] {
            return Some(("C01", format!("6000 bytes written in two halves {} ms apart and read through tokio's AsyncRead with one read_exact: completed={} equal={} trailing bytes={} end-of-stream seen={} writer ok={}", a[0][3], out[0].get(1).copied().unwrap_or(9), out[0].get(2).copied().unwrap_or(9), out[0].get(3).copied().unwrap_or(9), out[0].get(4).copied().unwrap_or(9), out[0].get(5).copied().unwrap_or(9))));
        }
        return None;
    }
    if a[0].get(5).copied().unwrap_or(0) == 1 {
        if out[1] != vec![1, 1000, 0] {
            return Some(("C01+C08", format!("a {} stream opened with {} bytes of connection credit left: the peer application read equal={} length={} end={} of the 1000 bytes written", if a[0][1] == 0 { "unidirectional" } else { "bidirectional" }, a[0][3], out[1][0], out[1][1], out[1][2])));
        }
        return None;
    }
    let role = format!("{} opens {} streams", if a[0][0] == 0 { "client" } else { "server" }, if a[0][1] == 0 { "unidirectional" } else { "bidirectional" });
    let n = a[1].len();
    if out[0][1] as usize != n {
        return Some(("C01+C08+C06", format!("{}: {} of {} streams reached the other application", role, out[0][1], n)));
    }
    for i in 0..n {
        let r = &out[1 + i];
        if r[0] != 1 || r[1] != a[1][i] || r[2] != 0 {
            return Some(("C01+C06", format!("{}: a stream of {} bytes arrived as equal={} length={} end={}", role, a[1][i], r[0], r[1], r[2])));
        }
    }
    let m = out.iter().position(|v| *v == vec![7777]).unwrap();
    for i in 0..n {
        let r = &out[m + 1 + i];
        if r[0] != 1 {
            return Some(("C01", format!("{}: writing {} bytes failed", role, a[1][i])));
        }
        if r[1] != 1 {
            return Some(("C06", format!("{}: finish() of a fully written stream of {} bytes did not succeed", role, a[1][i])));
        }
        if a[0][1] == 1 && (r[2] != 0 || r[3] != 1) {
            return Some(("C01", format!("{}: the answer on the return direction arrived as end={} equal={}", role, r[2], r[3])));
        }
    }
    let d = out.iter().position(|v| *v == vec![8888]).unwrap();
    for (k, dir) in ["client to server", "server to client"].iter().enumerate() {
        for (j, pr) in out[d + 1 + k].chunks(2).enumerate() {
            if pr != [1, 1] {
                return Some(("C03", format!("datagram {} ({}): sent={} received-equal={}", a[3][j], dir, pr[0], pr[1])));
            }
        }
    }
    let c = out.iter().position(|v| *v == vec![9999]).unwrap();
    for (i, name) in [(c + 1, "closed()"), (c + 3, "a later accept_uni()")] {
        if out[i] != vec![1, a[0][3]] || out[i + 1] != a[2] {
            return Some(("C04+C09", format!("the peer closed with ({}, {:?}); {} reported {:?} {:?}", a[0][3], a[2], name, out[i], out[i + 1])));
        }
    }
    if out[c + 5] != vec![3] {
        return Some(("C09", format!("closed() on the closing side reported {:?}", out[c + 5])));
    }
    None
}

pub fn generate(rng: &mut Rng, thorough: bool) -> Vec<Case> {
    let mut cs = vec![];
    let small: Vec<u64> = vec![0, 1, 2, 1000, 65_537];
    let large: Vec<u64> = if thorough { vec![0, 3, 70_000, 1_250_001, 4_000_000] } else { vec![5, 300_000, 2_600_000] };
    let dg: Vec<u64> = vec![0, 1, 100, 1100, u32::MAX as u64];
    let codes = [0u64, 7, (1 << 32) - 1, (1 << 32) + 5, (1 << 62) - 1];
    let mut k = 0usize;
    for opener in 0..2u64 {
        for kind in 0..2u64 {
            for (j, sizes) in [small.clone(), large.clone()].into_iter().enumerate() {
                let code = codes[k % codes.len()];
                let reason: Vec<u8> = match k % 3 { 0 => vec![], 1 => b"pair-bye".to_vec(), _ => vec![0xff, 0, 0x80] };
                let ct = if thorough { (k % 2) as u64 } else { ((k % 4) == 3) as u64 };
                cs.push(Case::new(671, vec![vec![opener, kind, rng.next() % 1_000_000, code, ct], sizes, b2a(&reason), if j == 0 { dg.clone() } else { vec![] }], "pair"));
                k += 1;
            }
        }
    }
    // the streams through tokio's I/O traits, all four roles
    for opener in 0..2u64 {
        for kind in 0..2u64 {
            cs.push(Case::new(671, vec![vec![opener, kind, rng.next() % 1_000_000, 300, 0, 2], vec![], vec![], vec![]], "tokio-io-read-exact"));
        }
    }
    // streams opened with less connection credit left than their preamble needs
    for kind in 0..2u64 {
        for left in [1u64, 2] {
            cs.push(Case::new(671, vec![vec![0, kind, rng.next() % 1_000_000, left, 0, 1], vec![], vec![], vec![]], "tight-credit"));
        }
    }
    cs
}
