//! E2 suite registry.
use crate::rng::Rng;
use crate::{Args, Case};

pub mod control;
pub mod decide;
pub mod misc;
pub mod pair;
pub mod session;
pub mod streams;
pub mod trace;

pub fn generate(suite: &str, rng: &mut Rng, thorough: bool) -> (&'static str, Vec<Case>) {
    match suite {
        "session" => ("E2C", session::generate(rng, thorough)),
        "control" => ("E2C", control::generate(rng, thorough, false)),
        "control_cut" => ("E2C", control::generate(rng, thorough, true)),
        "pair" => ("E2C", pair::generate(rng, thorough)),
        "backlog" => ("E3C", session::generate_backlog(rng, thorough)),
        "decide" => ("E3C", decide::generate(rng, thorough)),
        "early" => ("E3C", decide::generate_early(rng, thorough)),
        "emit" | "signals" | "wdgram" | "client" | "credit" => ("E2C", misc::generate(rng, thorough, suite)),
        "streams" | "foreign" | "unknown_uni" | "stall" | "pace" | "requests" => ("E2C", streams::generate(rng, thorough, suite)),
        "trace" | "cell" => ("E3C", trace::generate(rng, thorough, suite)),
        _ => panic!("unknown suite {}", suite),
    }
}

pub async fn exec(f: u32, args: &Args) -> Args {
    match f {
        601 => session::exec(args).await,
        602 => session::exec_602(args).await,
        611 => control::exec(args).await,
        621 => streams::exec(args).await,
        622 => decide::exec_early(args).await,
        631 => misc::exec_emit(args).await,
        632 => misc::exec_open_credit(args).await,
        641 => misc::exec_signals(args).await,
        651 => misc::exec_dgram(args).await,
        661 => misc::exec_client(args).await,
        671 => pair::exec(args).await,
        673 => decide::exec(args).await,
        681 => trace::exec_681(args).await,
        691 => trace::exec_691(args).await,
        _ => panic!("unknown function id {}", f),
    }
}

pub fn oracle(f: u32, args: &Args, out: &Args) -> Option<(&'static str, String)> {
    if out.len() == 1 && out[0] == vec![crate::PANIC] {
        return Some(("C09", format!("panic in scenario {}", f)));
    }
    match f {
        601 => session::oracle(args, out),
        602 => session::oracle_602(args, out),
        611 => control::oracle(args, out),
        621 => streams::oracle(args, out),
        622 => decide::oracle_early(args, out),
        631 | 632 | 641 | 651 | 661 => misc::oracle(f, args, out),
        671 => pair::oracle(args, out),
        673 => decide::oracle(args, out),
        681 => trace::oracle_681(args, out),
        691 => trace::oracle_691(args, out),
        _ => None,
    }
}

pub fn outcome_class(_f: u32, out: &Args) -> String {
    if out.len() == 1 && out[0] == vec![crate::PANIC] {
        return "panic".into();
    }
    match out.get(1).and_then(|v| v.first()) {
        Some(t) => format!("tag{}", t),
        None => "empty".into(),
    }
}
