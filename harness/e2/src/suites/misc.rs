//! Families 631 (what the endpoint emits: C16, C01, C02), 641 (stream termination signals: C06),
//! 651 (datagrams: C03, C17), 661 (client against a raw server: C02, C18).
use crate::net::*;
use crate::rng::Rng;
use crate::{Args, Case};
use std::time::Duration;
use wtransport::quinn;

async fn read_all(r: &mut quinn::RecvStream, wait: Duration) -> (Vec<u8>, Vec<u64>) {
    let mut data = vec![];
    let mut b = [0u8; 4096];
    loop {
        match tokio::time::timeout(wait, r.read(&mut b)).await {
            Ok(Ok(Some(k))) => data.extend(&b[..k]),
            Ok(Ok(None)) => return (data, vec![0]),
            Ok(Err(quinn::ReadError::Reset(c))) => return (data, vec![1, c.into_inner()]),
            Ok(Err(_)) => return (data, vec![3]),
            Err(_) => return (data, vec![2]),
        }
    }
}

// ------------------------------------------------------------------ 631 emit (server role)
/// args[0] = [burn]; args[1] = uni payload; args[2] = bidi payload; args[3] = datagram payload
pub async fn exec_emit(a: &Args) -> Args {
    let burn = a[0][0];
    let (server, addr) = wt_server(None);
    let ep = raw_client(None);
    let connect = async {
        let conn = ep.connect(addr, "localhost").map_err(|e| e.to_string())?.await.map_err(|e| e.to_string())?;
        for _ in 0..burn {
            if let Ok((mut s, _r)) = conn.open_bi().await {
                let _ = s.reset(qvi(0));
            }
        }
        raw_establish_on(conn, "/emit").await
    };
    let (app, raw) = tokio::join!(wt_accept(&server), connect);
    let (conn, raw) = match (app, raw) {
        (Ok(c), Ok(r)) => (c, r),
        (a, r) => return vec![vec![2], crate::b2s(&format!("{:?} {:?}", a.err(), r.err()))],
    };
    let sid = raw.session_id;
    // the server's own control stream is the first uni stream the raw peer sees
    let mut control = vec![];
    if let Ok(Ok(mut r)) = tokio::time::timeout(T_CALL, raw.conn.accept_uni()).await {
        let mut b = [0u8; 256];
        if let Ok(Ok(Some(k))) = tokio::time::timeout(Duration::from_millis(500), r.read(&mut b)).await {
            control.extend(&b[..k]);
        }
        // keep it open: closing a critical stream would end the connection
        std::mem::forget(r);
    }
    let pu = a2b(&a[1]);
    let pb = a2b(&a[2]);
    let pd = a2b(&a[3]);
    let c2 = conn.clone();
    let app_task = tokio::spawn(async move {
        let mut ok = vec![];
        match c2.open_uni().await {
            Ok(o) => match o.await {
                Ok(mut s) => {
                    let _ = s.write_all(&pu).await;
                    ok.push(s.finish().await.is_ok() as u64);
                }
                Err(_) => ok.push(9),
            },
            Err(_) => ok.push(9),
        }
        match c2.open_bi().await {
            Ok(o) => match o.await {
                Ok((mut s, _r)) => {
                    let _ = s.write_all(&pb).await;
                    let _ = s.finish().await;
                    ok.push(1);
                }
                Err(_) => ok.push(9),
            },
            Err(_) => ok.push(9),
        }
        ok.push(c2.send_datagram(&pd).is_ok() as u64);
        ok
    });
    let mut uni_bytes = vec![];
    let mut bi_bytes = vec![];
    if let Ok(Ok(mut r)) = tokio::time::timeout(T_CALL, raw.conn.accept_uni()).await {
        uni_bytes = read_all(&mut r, Duration::from_millis(800)).await.0;
    }
    if let Ok(Ok((_s, mut r))) = tokio::time::timeout(T_CALL, raw.conn.accept_bi()).await {
        bi_bytes = read_all(&mut r, Duration::from_millis(800)).await.0;
    }
    let dg = match tokio::time::timeout(Duration::from_millis(800), raw.conn.read_datagram()).await {
        Ok(Ok(d)) => d.to_vec(),
        _ => vec![0xEE, 0xEE],
    };
    let ok = app_task.await.unwrap_or_default();
    // the other direction for the same session id: the peer opens one stream of each kind
    // (payloads swapped) and the application reads them to the end
    let c3 = conn.clone();
    let reader = tokio::spawn(async move {
        let mut res: Vec<Vec<u64>> = vec![];
        let r1 = tokio::time::timeout(T_CALL, c3.accept_uni()).await;
        match r1 {
            Ok(Ok(mut r)) => {
                let mut d = vec![];
                let mut b = [0u8; 4096];
                let end = loop {
                    match tokio::time::timeout(Duration::from_millis(800), r.read(&mut b)).await {
                        Ok(Ok(Some(k))) => d.extend(&b[..k]),
                        Ok(Ok(None)) => break 0u64,
                        Ok(Err(_)) => break 3,
                        Err(_) => break 2,
                    }
                };
                let mut v = vec![1, end];
                v.extend(b2a(&d));
                res.push(v);
            }
            Ok(Err(e)) => { let mut v = vec![2]; v.extend(enc_conn_err(&e).0); res.push(v); }
            Err(_) => res.push(vec![TAG_PENDING]),
        }
        let r2 = tokio::time::timeout(T_CALL, c3.accept_bi()).await;
        match r2 {
            Ok(Ok((_s, mut r))) => {
                let mut d = vec![];
                let mut b = [0u8; 4096];
                let end = loop {
                    match tokio::time::timeout(Duration::from_millis(800), r.read(&mut b)).await {
                        Ok(Ok(Some(k))) => d.extend(&b[..k]),
                        Ok(Ok(None)) => break 0u64,
                        Ok(Err(_)) => break 3,
                        Err(_) => break 2,
                    }
                };
                let mut v = vec![1, end];
                v.extend(b2a(&d));
                res.push(v);
            }
            Ok(Err(e)) => { let mut v = vec![2]; v.extend(enc_conn_err(&e).0); res.push(v); }
            Err(_) => res.push(vec![TAG_PENDING]),
        }
        res
    });
    if let Ok(mut s) = raw.conn.open_uni().await {
        let mut b = enc_varint(0x54);
        b.extend(enc_varint(sid));
        b.extend(&a2b(&a[2]));
        let _ = s.write_all(&b).await;
        let _ = s.finish();
        std::mem::forget(s);
    }
    if let Ok((mut s, r)) = raw.conn.open_bi().await {
        let mut b = enc_varint(0x41);
        b.extend(enc_varint(sid));
        b.extend(&a2b(&a[1]));
        let _ = s.write_all(&b).await;
        let _ = s.finish();
        std::mem::forget(s);
        std::mem::forget(r);
    }
    let got = reader.await.unwrap_or_default();
    server.close(vi(0), b"");
    ep.close(qvi(0), b"");
    let mut out = vec![vec![1, sid], ok, b2a(&control), b2a(&uni_bytes), b2a(&bi_bytes), b2a(&dg)];
    out.extend(got);
    out
}

// ------------------------------------------------------------------ 632 opening under exhausted stream credit
/// args[0] = [kind]: kind 0 = the application holds as many unidirectional streams as the peer allows
/// and has one more open_uni() waiting; a bidirectional stream must still open and carry data.
/// kind 1 = the same with the kinds swapped (C07: a stream waiting for credit blocks only itself).
pub async fn exec_open_credit(a: &Args) -> Args {
    let kind = a[0][0];
    let mut t = quinn::TransportConfig::default();
    if kind == 0 {
        t.max_concurrent_uni_streams(4u32.into()); // the control stream + three of the application
    } else {
        t.max_concurrent_bidi_streams(3u32.into());
    }
    let (server, addr) = wt_server(None);
    let ep = raw_client(Some(t));
    let (app, raw) = tokio::join!(wt_accept(&server), raw_establish(&ep, addr, "/credit"));
    let (conn, raw) = match (app, raw) {
        (Ok(c), Ok(r)) => (c, r),
        _ => return vec![vec![2]],
    };
    let mut held_u = vec![];
    let mut held_b = vec![];
    for _ in 0..3 {
        if kind == 0 {
            match tokio::time::timeout(T_CALL, async { conn.open_uni().await?.await.map_err(|_| wtransport::error::ConnectionError::LocallyClosed) }).await {
                Ok(Ok(mut s)) => { let _ = s.write_all(b"held").await; held_u.push(s); }
                _ => return vec![vec![2]],
            }
        } else {
            match tokio::time::timeout(T_CALL, async { conn.open_bi().await?.await.map_err(|_| wtransport::error::ConnectionError::LocallyClosed) }).await {
                Ok(Ok((mut s, r))) => { let _ = s.write_all(b"held").await; held_b.push((s, r)); }
                _ => return vec![vec![2]],
            }
        }
    }
    // one more of the same kind: has to wait for credit
    let c2 = conn.clone();
    let waiting = tokio::spawn(async move {
        if kind == 0 {
            match tokio::time::timeout(Duration::from_millis(2500), c2.open_uni()).await { Ok(Ok(_)) => 0u64, Ok(Err(_)) => 3, Err(_) => TAG_PENDING }
        } else {
            match tokio::time::timeout(Duration::from_millis(2500), c2.open_bi()).await { Ok(Ok(_)) => 0u64, Ok(Err(_)) => 3, Err(_) => TAG_PENDING }
        }
    });
    tokio::time::sleep(Duration::from_millis(250)).await;
    // the other kind
    let c3 = conn.clone();
    let other = tokio::spawn(async move {
        let r = tokio::time::timeout(Duration::from_millis(1500), async {
            if kind == 0 {
                let (mut s, _r) = c3.open_bi().await.map_err(|_| ())?.await.map_err(|_| ())?;
                s.write_all(b"other-kind").await.map_err(|_| ())?;
                let _ = s.finish().await;
            } else {
                let mut s = c3.open_uni().await.map_err(|_| ())?.await.map_err(|_| ())?;
                s.write_all(b"other-kind").await.map_err(|_| ())?;
                let _ = s.finish().await;
            }
            Ok::<(), ()>(())
        }).await;
        match r { Ok(Ok(())) => 1u64, Ok(Err(())) => 3, Err(_) => TAG_PENDING }
    });
    let mut seen: Vec<u8> = vec![];
    if kind == 0 {
        if let Ok(Ok((_s, mut r))) = tokio::time::timeout(Duration::from_millis(2000), raw.conn.accept_bi()).await {
            seen = read_all(&mut r, Duration::from_millis(800)).await.0;
        }
    } else {
        for _ in 0..2 {
            if let Ok(Ok(mut r)) = tokio::time::timeout(Duration::from_millis(2000), raw.conn.accept_uni()).await {
                let d = read_all(&mut r, Duration::from_millis(600)).await.0;
                if d.first() == Some(&0x40) {
                    seen = d;
                    break;
                }
                std::mem::forget(r);
            }
        }
    }
    let o = other.await.unwrap_or(9);
    let w = waiting.await.unwrap_or(9);
    drop(held_u);
    drop(held_b);
    server.close(vi(0), b"");
    ep.close(qvi(0), b"");
    vec![vec![1], vec![o], b2a(&seen), vec![w]]
}

// ------------------------------------------------------------------ 641 signals
/// args[0] = [op, code, nbytes]
/// op 6: finish() retried after an abandoned finish() while nothing can be acknowledged
async fn exec_finish_retry() -> Args {
    use std::sync::atomic::Ordering;
    let (server, addr) = wt_server(None);
    let rl = relay(addr).await;
    let ep = raw_client(None);
    let (app, raw) = tokio::join!(wt_accept(&server), raw_establish(&ep, rl.addr, "/sig"));
    let (conn, raw) = match (app, raw) {
        (Ok(c), Ok(r)) => (c, r),
        _ => return vec![vec![2]],
    };
    let ctl = tokio::time::timeout(T_CALL, raw.conn.accept_uni()).await;
    let enc_w = |e: &wtransport::error::StreamWriteError| -> Vec<u64> {
        use wtransport::error::StreamWriteError as W;
        match e { W::NotConnected => vec![3], W::Closed => vec![4], W::Stopped(c) => vec![1, c.into_inner()], W::QuicProto => vec![6] }
    };
    let mut s = match conn.open_uni().await { Ok(o) => match o.await { Ok(s) => s, Err(_) => return vec![vec![2]] }, Err(_) => return vec![vec![2]] };
    let _ = s.write_all(b"hello").await;
    let mut r = match tokio::time::timeout(T_CALL, raw.conn.accept_uni()).await { Ok(Ok(r)) => r, _ => return vec![vec![2]] };
    // the peer has read preamble + "hello": that much is delivered and acknowledged
    let mut first = vec![0u8; 8];
    if tokio::time::timeout(T_CALL, r.read_exact(&mut first)).await.is_err() {
        return vec![vec![2]];
    }
    tokio::time::sleep(Duration::from_millis(80)).await;
    rl.dropping.store(true, Ordering::SeqCst);
    let _ = tokio::time::timeout(Duration::from_millis(300), s.write_all(b"world")).await;
    let mut fins: Vec<Vec<u64>> = vec![];
    for (t, heal) in [(300u64, false), (400, true), (8000, false)] {
        let r = match tokio::time::timeout(Duration::from_millis(t), s.finish()).await { Ok(Ok(())) => vec![0u64], Ok(Err(e)) => enc_w(&e), Err(_) => vec![8] };
        fins.push(r);
        if heal {
            rl.dropping.store(false, Ordering::SeqCst);
        }
    }
    let (f1, f2, f3) = (fins[0].clone(), fins[1].clone(), fins[2].clone());
    let (d, end) = read_all(&mut r, Duration::from_millis(3000)).await;
    drop(ctl);
    server.close(vi(0), b"");
    ep.close(qvi(0), b"");
    vec![vec![1, (first[3..] == b"hello"[..] && d == b"world") as u64], f1, f2, f3, end]
}

pub async fn exec_signals(a: &Args) -> Args {
    let (op, code, nbytes) = (a[0][0], a[0][1], a[0][2] as usize);
    if op == 6 {
        return exec_finish_retry().await;
    }
    let (server, addr) = wt_server(None);
    let ep = raw_client(None);
    let (app, raw) = tokio::join!(wt_accept(&server), raw_establish(&ep, addr, "/sig"));
    let (conn, raw) = match (app, raw) {
        (Ok(c), Ok(r)) => (c, r),
        _ => return vec![vec![2]],
    };
    // skip the server's control stream on the raw side
    let ctl = tokio::time::timeout(T_CALL, raw.conn.accept_uni()).await;
    let payload: Vec<u8> = (0..nbytes).map(|i| (i % 251) as u8).collect();
    let enc_w = |e: &wtransport::error::StreamWriteError| -> Vec<u64> {
        use wtransport::error::StreamWriteError as W;
        match e { W::NotConnected => vec![3], W::Closed => vec![4], W::Stopped(c) => vec![1, c.into_inner()], W::QuicProto => vec![6] }
    };
    let out = match op {
        // app opens a uni stream and writes; the raw peer stops it with `code`
        1 => {
            let mut s = match conn.open_uni().await { Ok(o) => match o.await { Ok(s) => s, Err(_) => return vec![vec![2]] }, Err(_) => return vec![vec![2]] };
            let _ = s.write_all(&payload).await;
            let mut r = match tokio::time::timeout(T_CALL, raw.conn.accept_uni()).await { Ok(Ok(r)) => r, _ => return vec![vec![2]] };
            let _ = r.stop(qvi(code));
            let stopped = tokio::time::timeout(T_CALL, s.stopped()).await.map(|e| enc_w(&e)).unwrap_or(vec![8]);
            let write = match tokio::time::timeout(T_CALL, s.write_all(b"more")).await { Ok(Ok(())) => vec![0], Ok(Err(e)) => enc_w(&e), Err(_) => vec![8] };
            let fin = match tokio::time::timeout(T_CALL, s.finish()).await { Ok(Ok(())) => vec![0], Ok(Err(e)) => enc_w(&e), Err(_) => vec![8] };
            // and again, a round trip later: the answers do not change
            tokio::time::sleep(Duration::from_millis(120)).await;
            let write2 = match tokio::time::timeout(T_CALL, s.write(b"again")).await { Ok(Ok(_)) => vec![0], Ok(Err(e)) => enc_w(&e), Err(_) => vec![8] };
            let stopped2 = tokio::time::timeout(T_CALL, s.stopped()).await.map(|e| enc_w(&e)).unwrap_or(vec![8]);
            let fin2 = match tokio::time::timeout(T_CALL, s.finish()).await { Ok(Ok(())) => vec![0], Ok(Err(e)) => enc_w(&e), Err(_) => vec![8] };
            vec![vec![1], stopped, write, fin, write2, stopped2, fin2]
        }
        // app opens a bidi stream; the raw peer resets its sending direction with `code`
        2 => {
            let (mut s, mut r) = match conn.open_bi().await { Ok(o) => match o.await { Ok(x) => x, Err(_) => return vec![vec![2]] }, Err(_) => return vec![vec![2]] };
            let _ = s.write_all(b"x").await;
            let (mut rs, _rr) = match tokio::time::timeout(T_CALL, raw.conn.accept_bi()).await { Ok(Ok(x)) => x, _ => return vec![vec![2]] };
            let _ = rs.write_all(&payload).await;
            tokio::time::sleep(Duration::from_millis(60)).await;
            let _ = rs.reset(qvi(code));
            let mut buf = vec![0u8; 70000];
            let mut got = 0usize;
            let res = loop {
                match tokio::time::timeout(T_CALL, r.read(&mut buf)).await {
                    Ok(Ok(Some(k))) => got += k,
                    Ok(Ok(None)) => break vec![0],
                    Ok(Err(wtransport::error::StreamReadError::Reset(c))) => break vec![1, c.into_inner()],
                    Ok(Err(_)) => break vec![3],
                    Err(_) => break vec![8],
                }
            };
            let _ = got;
            vec![vec![1], res]
        }
        // the raw peer opens a uni WT stream; the app accepts and stops it with `code`: wire code seen by the peer
        3 => {
            let mut rs = match raw.conn.open_uni().await { Ok(s) => s, Err(_) => return vec![vec![2]] };
            let mut b = enc_varint(0x54);
            b.extend(enc_varint(raw.session_id));
            b.extend(&payload);
            let _ = rs.write_all(&b).await;
            let r = match tokio::time::timeout(T_CALL, conn.accept_uni()).await { Ok(Ok(r)) => r, _ => return vec![vec![2]] };
            r.stop(vi(code));
            let seen = match tokio::time::timeout(T_CALL, rs.stopped()).await { Ok(Ok(Some(c))) => vec![1, c.into_inner()], Ok(Ok(None)) => vec![0], Ok(Err(_)) => vec![3], Err(_) => vec![8] };
            vec![vec![1], seen]
        }
        // the app resets its own uni stream with `code`: the raw peer's read fails with that code
        4 => {
            let mut s = match conn.open_uni().await { Ok(o) => match o.await { Ok(s) => s, Err(_) => return vec![vec![2]] }, Err(_) => return vec![vec![2]] };
            let _ = s.write_all(&payload).await;
            let mut r = match tokio::time::timeout(T_CALL, raw.conn.accept_uni()).await { Ok(Ok(r)) => r, _ => return vec![vec![2]] };
            tokio::time::sleep(Duration::from_millis(40)).await;
            let rr = s.reset(vi(code)).is_ok() as u64;
            let (_d, end) = read_all(&mut r, T_CALL).await;
            vec![vec![1, rr], end]
        }
        // a finish() that was started and abandoned (its future polled once, then dropped) does not
        // swallow a later reset: the peer still reads reset(code)
        7 => {
            let mut s = match conn.open_uni().await { Ok(o) => match o.await { Ok(s) => s, Err(_) => return vec![vec![2]] }, Err(_) => return vec![vec![2]] };
            let _ = s.write_all(&payload).await;
            let mut r = match tokio::time::timeout(T_CALL, raw.conn.accept_uni()).await { Ok(Ok(r)) => r, _ => return vec![vec![2]] };
            {
                let mut f = Box::pin(s.finish());
                let _ = std::future::poll_fn(|cx| std::task::Poll::Ready(std::future::Future::poll(f.as_mut(), cx))).await;
            }
            let rr = s.reset(vi(code)).is_ok() as u64;
            let (_d, end) = read_all(&mut r, T_CALL).await;
            vec![vec![1, rr], end]
        }
        // the app finishes: the peer reads everything then end-of-stream; finish() succeeds
        5 => {
            let mut s = match conn.open_uni().await { Ok(o) => match o.await { Ok(s) => s, Err(_) => return vec![vec![2]] }, Err(_) => return vec![vec![2]] };
            let _ = s.write_all(&payload).await;
            let mut r = match tokio::time::timeout(T_CALL, raw.conn.accept_uni()).await { Ok(Ok(r)) => r, _ => return vec![vec![2]] };
            let reader = tokio::spawn(async move { read_all(&mut r, T_CALL).await });
            let fin = match tokio::time::timeout(T_CALL, s.finish()).await { Ok(Ok(())) => vec![0], Ok(Err(e)) => enc_w(&e), Err(_) => vec![8] };
            let (d, end) = reader.await.unwrap();
            // strip the preamble (3 bytes for session id 0) and compare lengths + checksum
            let body = if d.len() >= 3 { d[3..].to_vec() } else { vec![] };
            vec![vec![1, (body == payload) as u64, body.len() as u64], fin, end]
        }
        _ => vec![vec![2]],
    };
    drop(ctl);
    server.close(vi(0), b"");
    ep.close(qvi(0), b"");
    out
}

// ------------------------------------------------------------------ 651 datagrams
/// args[0] = [burn, peer_recv_buffer (0 = default), expect_alive]; args[1] = probe deltas (+16);
/// args[2..] = raw datagrams the peer sends
pub async fn exec_dgram(a: &Args) -> Args {
    let (burn, peer_buf) = (a[0][0], a[0][1]);
    let mut st = quinn::TransportConfig::default();
    st.mtu_discovery_config(None);
    let (server, addr) = wt_server(Some(st));
    let mut ct = quinn::TransportConfig::default();
    ct.mtu_discovery_config(None);
    if peer_buf > 0 {
        ct.datagram_receive_buffer_size(Some(peer_buf as usize));
    }
    let ep = raw_client(Some(ct));
    let connect = async {
        let conn = ep.connect(addr, "localhost").map_err(|e| e.to_string())?.await.map_err(|e| e.to_string())?;
        for _ in 0..burn {
            if let Ok((mut s, _r)) = conn.open_bi().await {
                let _ = s.reset(qvi(0));
            }
        }
        raw_establish_on(conn, "/dg").await
    };
    let (app, raw) = tokio::join!(wt_accept(&server), connect);
    let (conn, raw) = match (app, raw) {
        (Ok(c), Ok(r)) => (c, r),
        (a, r) => return vec![vec![2], crate::b2s(&format!("{:?} {:?}", a.err(), r.err()))],
    };
    let sid = raw.session_id;
    let opt = |o: Option<usize>| -> Vec<u64> { match o { Some(v) => vec![1, v as u64], None => vec![0] } };
    let wt_max = std::panic::catch_unwind(std::panic::AssertUnwindSafe(|| conn.max_datagram_size()));
    let wt_max_v = match &wt_max { Ok(o) => opt(*o), Err(_) => vec![crate::PANIC] };
    let quic_max = conn.quic_connection().max_datagram_size();
    // probes around the advertised maximum
    let mut probes = vec![];
    if let Ok(Some(m)) = wt_max {
        for d in &a[1] {
            let l = (m as i64 + *d as i64 - 16).max(0) as usize;
            let p = vec![0x5au8; l];
            let r = match conn.send_datagram(&p) {
                Ok(()) => 0,
                Err(wtransport::error::SendDatagramError::TooLarge) => 1,
                Err(_) => 2,
            };
            probes.push(l as u64);
            probes.push(r);
        }
    }
    // datagrams from the peer; a[0][3] = 1: the application starts receiving only after all of them
    // have arrived (they wait in the driver's queue while nobody is in receive_datagram)
    let late = a[0].get(3).copied().unwrap_or(0) == 1;
    let c2 = conn.clone();
    let recv_task = tokio::spawn(async move {
        let mut got: Vec<Vec<u8>> = vec![];
        if late {
            tokio::time::sleep(Duration::from_millis(450)).await;
        }
        loop {
            match tokio::time::timeout(Duration::from_millis(700), c2.receive_datagram()).await {
                Ok(Ok(d)) => got.push(d.payload().to_vec()),
                _ => break,
            }
        }
        got
    });
    for d in &a[2..] {
        let _ = raw.conn.send_datagram(a2b(d).into());
        tokio::time::sleep(Duration::from_millis(15)).await;
    }
    let mut got = recv_task.await.unwrap_or_default();
    got.sort();
    // what the peer received from the probes that were accepted
    let mut peer_got = 0u64;
    let mut peer_bad = 0u64;
    let hdr = enc_varint(sid / 4);
    loop {
        match tokio::time::timeout(Duration::from_millis(120), raw.conn.read_datagram()).await {
            Ok(Ok(d)) => {
                peer_got += 1;
                if d.len() < hdr.len() || d[..hdr.len()] != hdr[..] || d[hdr.len()..].iter().any(|b| *b != 0x5a) {
                    peer_bad += 1;
                }
            }
            _ => break,
        }
    }
    let (ch, cr) = raw_wait_closed(&raw.conn, Duration::from_millis(200)).await;
    let mut out = vec![vec![1, sid], wt_max_v, opt(quic_max), probes, vec![peer_got, peer_bad], vec![got.len() as u64]];
    for g in got {
        out.push(b2a(&g));
    }
    out.push(ch);
    out.push(cr);
    server.close(vi(0), b"");
    ep.close(qvi(0), b"");
    out
}

// ------------------------------------------------------------------ 661 client against a raw server
/// args[0] = [server_control_mode (0 valid), cut]; args[1] = response stream bytes; args[2] = [end (0 FIN,1 RESET,2 open)];
/// args[3..] = extra request headers k,v,...
pub async fn exec_client(a: &Args) -> Args {
    let cut = a[0][1] as usize;
    let resp = a2b(&a[1]);
    let end = a[2][0];
    let (rep, addr) = raw_server(None);
    let client = wt_client();
    let mut extra: Vec<(String, String)> = vec![];
    for c in a[3..].chunks(2) {
        if c.len() == 2 {
            extra.push((String::from_utf8(a2b(&c[0])).unwrap(), String::from_utf8(a2b(&c[1])).unwrap()));
        }
    }
    let url = format!("https://127.0.0.1:{}/client/path?q=1", addr.port());
    let mut opts = wtransport::endpoint::ConnectOptions::builder(&url);
    for (k, v) in &extra {
        opts = opts.add_header(k, v);
    }
    let client_task = tokio::spawn(async move {
        let r = tokio::time::timeout(Duration::from_millis(3500), client.connect(opts.build())).await;
        match r {
            Ok(Ok(c)) => (vec![0u64, c.session_id().into_u64()], Some(c)),
            Ok(Err(wtransport::error::ConnectingError::SessionRejected)) => (vec![1], None),
            Ok(Err(wtransport::error::ConnectingError::ConnectionError(e))) => {
                let (h, _) = enc_conn_err(&e);
                let mut v = vec![2];
                v.extend(h);
                (v, None)
            }
            Ok(Err(wtransport::error::ConnectingError::ReservedHeader(_))) => (vec![4], None),
            Ok(Err(_)) => (vec![5], None),
            Err(_) => (vec![TAG_PENDING], None),
        }
    });
    // the raw server side
    let incoming = match tokio::time::timeout(T_CALL, rep.accept()).await { Ok(Some(i)) => i, _ => { return vec![vec![2]]; } };
    let conn = match tokio::time::timeout(T_CALL, incoming).await { Ok(Ok(c)) => c, _ => { let r = client_task.await.unwrap(); return vec![vec![1], r.0, vec![], vec![]]; } };
    let mut control = match conn.open_uni().await { Ok(s) => s, Err(_) => return vec![vec![2]] };
    let _ = control.write_all(&peer_control_bytes()).await;
    // the client's request
    let mut request_frame: Vec<u8> = vec![];
    let mut sid = 0u64;
    let mut keep = None;
    if let Ok(Ok((mut s, mut r))) = tokio::time::timeout(T_CALL, conn.accept_bi()).await {
        sid = quinn::VarInt::from(s.id()).into_inner();
        if let Ok((1, payload)) = read_one_frame(&mut r).await {
            request_frame = payload;
        }
        let cut = cut.min(resp.len());
        if cut > 0 {
            let _ = s.write_all(&resp[..cut]).await;
            tokio::time::sleep(Duration::from_millis(60)).await;
        }
        let _ = s.write_all(&resp[cut..]).await;
        match end {
            0 => { let _ = s.finish(); }
            1 => { tokio::time::sleep(Duration::from_millis(40)).await; let _ = s.reset(qvi(9)); }
            _ => {}
        }
        keep = Some((s, r));
    }
    let (outcome, c) = client_task.await.unwrap();
    // an established session: what a call that waits on the peer reports next (the peer may have
    // sent more than the response, e.g. a close capsule right behind it)
    let post = match &c {
        Some(c) => match tokio::time::timeout(Duration::from_millis(1000), c.accept_uni()).await {
            Ok(Ok(_)) => (vec![TAG_OK], vec![]),
            Ok(Err(e)) => enc_conn_err(&e),
            Err(_) => (vec![TAG_PENDING], vec![]),
        },
        None => (vec![9], vec![]),
    };
    let (ch, cr) = raw_wait_closed(&conn, Duration::from_millis(400)).await;
    drop(c);
    drop(keep);
    rep.close(qvi(0), b"");
    vec![vec![1, sid], outcome, b2a(&request_frame), ch, cr, vec![addr.port() as u64], post.0, post.1]
}

pub fn oracle(f: u32, a: &Args, out: &Args) -> Option<(&'static str, String)> {
    if out[0][0] != 1 {
        return None;
    }
    match f {
        632 => {
            if out[1] != vec![1] {
                return Some(("C07", format!("with every {} stream the peer allows in use and one more open waiting for credit, opening a {} stream did not complete ({:?})", if a[0][0] == 0 { "unidirectional" } else { "bidirectional" }, if a[0][0] == 0 { "bidirectional" } else { "unidirectional" }, out[1])));
            }
            None
        }
        631 => {
            // C16 on the implementation alone: what the endpoint emitted, against bytes composed here
            // from the specifications' constants
            let sid = out[0][1];
            if out.len() >= 6 {
                let cat = |parts: &[Vec<u8>]| -> Vec<u64> { parts.iter().flat_map(|p| p.iter().map(|b| *b as u64)).collect() };
                if out[3] != cat(&[enc_varint(0x54), enc_varint(sid), a2b(&a[1])]) {
                    return Some(("C16+C01", format!("session {}: unidirectional stream does not start with 0x54, the session id, then the payload: {:?}", sid, &out[3][..out[3].len().min(12)])));
                }
                if out[4] != cat(&[enc_varint(0x41), enc_varint(sid), a2b(&a[2])]) {
                    return Some(("C16+C01", format!("session {}: bidirectional stream does not start with 0x41, the session id, then the payload: {:?}", sid, &out[4][..out[4].len().min(12)])));
                }
                if out[5] != cat(&[enc_varint(sid / 4), a2b(&a[3])]) {
                    return Some(("C16+C03", format!("session {}: datagram is not the quarter stream id followed by the {} payload bytes: {:?}", sid, a[3].len(), &out[5][..out[5].len().min(12)])));
                }
                // the control stream: type 0x00, then one SETTINGS frame and nothing else
                let c = a2b(&out[2]);
                let mut pos = 0usize;
                let vi = |pos: &mut usize| -> Option<u64> {
                    let first = *c.get(*pos)?;
                    let n = 1usize << (first >> 6);
                    if *pos + n > c.len() { return None; }
                    let mut v = (first & 0x3f) as u64;
                    for i in 1..n { v = v << 8 | c[*pos + i] as u64; }
                    *pos += n;
                    Some(v)
                };
                let head = (vi(&mut pos), vi(&mut pos), vi(&mut pos));
                let bad = |m: &str| Some(("C16", format!("control stream {:?}: {}", c, m)));
                match head {
                    (Some(0), Some(4), Some(l)) if pos + l as usize == c.len() => {
                        let mut seen: Vec<(u64, u64)> = vec![];
                        while pos < c.len() {
                            match (vi(&mut pos), vi(&mut pos)) {
                                (Some(id), Some(v)) => {
                                    if seen.iter().any(|(i, _)| *i == id) { return bad("duplicate setting"); }
                                    if (2..=5).contains(&id) { return bad("reserved HTTP/2 setting id"); }
                                    seen.push((id, v));
                                }
                                _ => return bad("truncated setting"),
                            }
                        }
                        let get = |id: u64| seen.iter().find(|(i, _)| *i == id).map(|(_, v)| *v);
                        if get(0x08) != Some(1) { return bad("SETTINGS_ENABLE_CONNECT_PROTOCOL (0x08) is not 1"); }
                        if get(0x33) != Some(1) { return bad("SETTINGS_H3_DATAGRAM (0x33) is not 1"); }
                        if get(0x2b603742) != Some(1) && get(0xc671706a).unwrap_or(0) == 0 { return bad("WebTransport is not advertised"); }
                        if get(0x01).unwrap_or(0) != 0 { return bad("QPACK dynamic table capacity is not zero"); }
                        if get(0x07).unwrap_or(0) != 0 { return bad("QPACK blocked streams is not zero"); }
                    }
                    _ => return bad("not stream type 0x00 followed by exactly one SETTINGS frame"),
                }
            }
            // C01 on the implementation alone: what the application read on the streams the peer opened
            // for this session is exactly what the peer wrote after the preamble, then end-of-stream
            if out.len() >= 8 {
                for (i, src, name) in [(6usize, 2usize, "uni"), (7, 1, "bidi")] {
                    let mut want = vec![1u64, 0];
                    want.extend(a[src].iter());
                    if out[i] != want {
                        return Some(("C01+C17", format!("session {}: the peer wrote {} bytes on a {} stream and finished it; the application got {:?}", out[0][1], a[src].len(), name, &out[i][..out[i].len().min(12)])));
                    }
                }
            }
            None
        }
        641 => {
            let (op, code) = (a[0][0], a[0][1]);
            match op {
                1 => {
                    for (i, name) in [(1usize, "stopped()"), (2, "write"), (3, "finish"), (4, "a later write"), (5, "a later stopped()"), (6, "a later finish")] {
                        if out[i] != vec![1, code] {
                            return Some(("C06", format!("peer stopped the stream with {} but {} reported {:?}", code, name, out[i])));
                        }
                    }
                }
                2 | 3 | 4 => {
                    let i = 1;
                    if out[i] != vec![1, code] {
                        return Some(("C06", format!("signal code {} arrived as {:?} (op {})", code, out[i], op)));
                    }
                }
                6 => {
                    // no packet passes the relay from before "world" is written until after the second
                    // finish(): neither call may report success
                    for (i, name) in [(1usize, "first"), (2, "second")] {
                        if out[i] == vec![0] {
                            return Some(("C06", format!("the {} finish() returned Ok while every packet was being dropped: nothing written since could have been acknowledged", name)));
                        }
                    }
                    if out[3] == vec![0] && (out[0][1] != 1 || out[4] != vec![0]) {
                        return Some(("C06", format!("finish() succeeded but the peer read equal={} then {:?}", out[0][1], out[4])));
                    }
                }
                5 => {
                    if out[0][1] != 1 || out[1] != vec![0] || out[2] != vec![0] {
                        return Some(("C06", format!("finished stream: bytes equal={} finish={:?} peer end={:?}", out[0][1], out[1], out[2])));
                    }
                }
                _ => {}
            }
            None
        }
        651 => {
            // C03 on the implementation alone: size contract around the advertised maximum
            if out[1] == vec![crate::PANIC] {
                return Some(("C03", "max_datagram_size panicked".into()));
            }
            if out[1].len() == 2 {
                let m = out[1][1];
                if out[2].len() == 2 && m > out[2][1] {
                    return Some(("C03", format!("advertised maximum {} exceeds the transport's {}", m, out[2][1])));
                }
                for pr in out[3].chunks(2) {
                    let (l, r) = (pr[0], pr[1]);
                    if (l <= m) != (r == 0) {
                        return Some(("C03", format!("payload of {} bytes with advertised maximum {}: {}", l, m, if r == 0 { "accepted" } else { "refused" })));
                    }
                }
            }
            if out[4][1] != 0 {
                return Some(("C03", "the peer received a datagram that is not quarter-stream-id + payload".into()));
            }
            // C17: only datagrams naming the live session reach the application, each at most once
            if out.len() >= 8 {
                let sid = out[0][1];
                let mut live: Vec<Vec<u64>> = vec![];
                for d in &a[2..] {
                    if let Some(first) = d.first() {
                        let n = 1usize << (first >> 6);
                        if d.len() >= n {
                            let mut q = first & 0x3f;
                            for x in &d[1..n] { q = q << 8 | *x; }
                            if q <= (1 << 60) - 1 && q * 4 == sid {
                                live.push(d[n..].to_vec());
                            }
                        }
                    }
                }
                let cnt = out[5][0] as usize;
                // C17: datagrams that are well-formed (a complete quarter stream id in range) but name
                // another session are dropped silently -- they are no reason to end the connection
                let all_well_formed = a[2..].iter().all(|d| match d.first() {
                    Some(first) => {
                        let n = 1usize << (first >> 6);
                        d.len() >= n && {
                            let mut q = first & 0x3f;
                            for x in &d[1..n] { q = q << 8 | *x; }
                            q <= (1 << 60) - 1
                        }
                    }
                    None => false,
                });
                if all_well_formed && a.len() > 2 {
                    if let Some(ch) = out.get(6 + cnt) {
                        if ch.first() != Some(&TAG_PENDING) && !ch.is_empty() {
                            return Some(("C17+C03", format!("every datagram the peer sent was well-formed (some for other sessions), yet the connection was closed: {:?}", ch)));
                        }
                    }
                }
                for g in &out[6..6 + cnt] {
                    match live.iter().position(|p| p == g) {
                        Some(p) => { live.remove(p); }
                        None => return Some(("C17+C03", format!("the application received a datagram {:?} that is not the payload of any datagram the peer sent for session {} (foreign session, duplicate, or altered payload)", &g[..g.len().min(10)], sid))),
                    }
                }
            }
            None
        }
        661 => {
            // C02 / C18 on the implementation alone (the request seen by an independent peer; the
            // outcome as a function of the response status)
            if out.len() < 6 || a[0][0] != 0 {
                return None;
            }
            use wtransport::proto::frame::Frame;
            use wtransport::proto::headers::Headers;
            let mut extra: Vec<(String, String)> = vec![];
            for c in a[3..].chunks(2) {
                if c.len() == 2 {
                    extra.push((String::from_utf8_lossy(&a2b(&c[0])).into_owned(), String::from_utf8_lossy(&a2b(&c[1])).into_owned()));
                }
            }
            const RESERVED: [&str; 5] = [":method", ":scheme", ":protocol", ":authority", ":path"];
            if extra.iter().any(|(k, _)| RESERVED.contains(&k.to_ascii_lowercase().as_str())) {
                return None;
            }
            if out[0].len() == 2 && out[2].is_empty() {
                return Some(("C02", "the peer received no well-formed HEADERS frame as the session request".into()));
            }
            let req = match Headers::with_frame(&Frame::new_headers(a2b(&out[2]).into())) {
                Ok(h) => h,
                Err(_) => return Some(("C02", "the session request's field section does not decode".into())),
            };
            let authority = format!("127.0.0.1:{}", out[5][0]);
            let mut want: Vec<(&str, &str)> = vec![(":method", "CONNECT"), (":scheme", "https"), (":protocol", "webtransport"), (":authority", &authority), (":path", "/client/path?q=1")];
            for (k, v) in &extra {
                want.push((k, v));
            }
            for (k, v) in want {
                if req.get(k) != Some(v) {
                    return Some(("C02", format!("request field {} is {:?}, expected {:?}", k, req.get(k), v)));
                }
            }
            // C12: the first frame on the response stream that is not of a reserved type must be HEADERS;
            // DATA or SETTINGS there is H3_FRAME_UNEXPECTED, never skipped
            {
                let rb = a2b(&a[1]);
                let mut r: &[u8] = &rb;
                loop {
                    match Frame::read(&mut r) {
                        Ok(Some(fr)) => match fr.kind() {
                            wtransport::proto::frame::FrameKind::Exercise(_) => continue,
                            wtransport::proto::frame::FrameKind::Headers => break,
                            wtransport::proto::frame::FrameKind::Data | wtransport::proto::frame::FrameKind::Settings => {
                                if out[1].first() == Some(&0) || out[1] == vec![1] || out[1] == vec![TAG_PENDING] {
                                    return Some(("C12", format!("the response stream started with a {:?} frame; connect() returned {:?} instead of failing with H3_FRAME_UNEXPECTED", fr.kind(), out[1])));
                                }
                                if out[3] != vec![1, 0x105] {
                                    return Some(("C12", format!("the response stream started with a {:?} frame; the peer saw {:?} instead of a close with H3_FRAME_UNEXPECTED", fr.kind(), out[3])));
                                }
                                break;
                            }
                            _ => break,
                        },
                        _ => break,
                    }
                }
            }
            // C05 / C04: bytes behind the response HEADERS belong to the established session: a close
            // capsule or a clean FIN there must be reported exactly, however the bytes were cut
            if out.len() >= 8 && out[1].first() == Some(&0) {
                let rb = a2b(&a[1]);
                let mut r: &[u8] = &rb;
                if let Ok(Some(fr)) = Frame::read(&mut r) {
                    if matches!(fr.kind(), wtransport::proto::frame::FrameKind::Headers) {
                        let rest = r.to_vec();
                        let mode = match a[2][0] { 0 => 0, 1 => 1, _ => 3 };
                        match crate::suites::session::session_meaning(mode, &rest) {
                            Some(Ok((code, reason))) => {
                                if out[6] != vec![1, code] || a2b(&out[7]) != reason {
                                    return Some(("C05+C04", format!("after the response the peer closed the session with ({}, {:?}) (response cut at {}); the client reported {:?} {:?}", code, String::from_utf8_lossy(&reason), a[0][1], out[6], out[7])));
                                }
                            }
                            Some(Err(())) => {
                                if out[6].first() == Some(&1) {
                                    return Some(("C04", format!("protocol failure behind the response reported as an application close {:?}", out[6])));
                                }
                            }
                            None => {}
                        }
                    }
                }
            }
            // outcome: only for a response that is exactly one decodable HEADERS frame left open
            if a[2] == vec![2] {
                let rb = a2b(&a[1]);
                let mut r: &[u8] = &rb;
                if let Ok(Some(fr)) = Frame::read(&mut r) {
                    if r.is_empty() && matches!(fr.kind(), wtransport::proto::frame::FrameKind::Headers) {
                        if let Ok(h) = Headers::with_frame(&fr) {
                            if let Some(st) = h.get(":status") {
                                if st.len() == 3 && st.bytes().all(|c| c.is_ascii_digit()) && st.as_bytes()[0] != b'0' {
                                    let code: u16 = st.parse().unwrap();
                                    let ok = (200..300).contains(&code);
                                    if (100..600).contains(&code) {
                                        if ok && out[1].first() != Some(&0) {
                                            return Some(("C02+C18", format!("response status {} but connect() returned {:?}", code, out[1])));
                                        }
                                        if !ok && out[1] != vec![1] {
                                            return Some(("C02+C18", format!("response status {} but connect() returned {:?} instead of SessionRejected", code, out[1])));
                                        }
                                    }
                                }
                            }
                        }
                    }
                }
            }
            None
        }
        _ => None,
    }
}

pub fn generate(rng: &mut Rng, thorough: bool, which: &str) -> Vec<Case> {
    let mut cs = vec![];
    match which {
        "emit" => {
            // 1025 burnt streams put the session on stream 4100: its id no longer fits 4096, the
            // largest frame payload the parser accepts (the two must not be confused)
            for burn in [0u64, 1, 16, 20, 64, 255, 1025] {
                let n = rng.range(0, 40) as usize;
                cs.push(Case::new(631, vec![vec![burn], b2a(&rng.bytes(n)), b2a(b"bidi-payload"), b2a(b"dgram-payload")], "emit"));
            }
            cs.push(Case::new(631, vec![vec![0], vec![], vec![], vec![]], "emit-empty"));
        }
        "credit" => {
            cs.push(Case::new(632, vec![vec![0]], "uni-credit-exhausted"));
            cs.push(Case::new(632, vec![vec![1]], "bidi-credit-exhausted"));
        }
        "signals" => {
            let codes: Vec<u64> = if thorough { vec![0, 1, 63, 64, 16383, 16384, (1 << 30) - 1, 1 << 30, (1 << 62) - 1] } else { vec![0, 63, 64, 16384, 1 << 30, (1 << 62) - 1] };
            for op in [1u64, 2, 3, 4] {
                for c in &codes {
                    for nb in [0usize, 1000] {
                        if !thorough && nb == 0 && c % 2 == 1 { continue; }
                        cs.push(Case::new(641, vec![vec![op, *c, nb as u64]], "signal"));
                    }
                }
            }
            // codes that mean something to HTTP/3, QPACK or WebTransport (an application may use them too:
            // they must travel like any other code), and a few random ones
            let mut special: Vec<u64> = vec![0x100, 0x101, 0x102, 0x104, 0x10b, 0x10c, 0x110, 0x200, 0x3994bd84, 0x170d7b68, 0x52e4a40fa8db];
            for _ in 0..3 {
                special.push(rng.varint());
            }
            for op in [1u64, 2, 3, 4] {
                for (i, c) in special.iter().enumerate() {
                    if !thorough && (i as u64 + op) % 2 == 1 && *c != 0x100 { continue; }
                    cs.push(Case::new(641, vec![vec![op, *c, 1000]], "signal-protocol-code"));
                }
            }
            for nb in [0usize, 1, 5000, 60000] {
                cs.push(Case::new(641, vec![vec![5, 0, nb as u64]], "finish"));
            }
            cs.push(Case::new(641, vec![vec![6, 0, 0]], "finish-retried-under-loss"));
            for c in [0u64, 0x123456789abc, (1 << 62) - 1] {
                cs.push(Case::new(641, vec![vec![7, c, 1_048_576]], "reset-after-abandoned-finish"));
            }
        }
        "wdgram" => {
            // size contract for session ids whose quarter id sits in another varint class, peer limits
            let deltas: Vec<u64> = vec![14, 15, 16, 17, 18, 20];
            for burn in [0u64, 16, 17, 63, 64, 90, 255, 256] {
                cs.push(Case::new(651, vec![vec![burn, 0, 1], deltas.clone()], "size-contract"));
            }
            for buf in [1u64, 5, 9, 10, 11, 12, 100, 1200, 65535] {
                cs.push(Case::new(651, vec![vec![0, buf, 1], deltas.clone()], "peer-limit"));
                cs.push(Case::new(651, vec![vec![16, buf, 1], deltas.clone()], "peer-limit"));
            }
            // datagrams from the peer: live, foreign, non-minimal quarter ids, empty payload
            let mut args = vec![vec![0, 0, 1], vec![]];
            args.push(vec![0, 1, 2, 3]);                 // live (qid 0)
            args.push(vec![1, 9, 9]);                    // foreign session 4
            args.push(vec![0x40, 0x00, 7, 7]);           // live, 2-byte qid
            args.push(vec![0x80, 0, 0, 0, 8]);           // live, 4-byte qid
            args.push(vec![0]);                          // live, empty payload
            args.push(vec![0x3f, 1]);                    // foreign session 252
            cs.push(Case::new(651, args.clone(), "peer-datagrams"));
            // the same while the application is not receiving yet; foreign first, then live
            let mut late = vec![vec![0, 0, 1, 1], vec![]];
            late.push(vec![1, 70, 71]);                  // foreign session 4
            late.push(vec![7, 72]);                      // foreign session 28
            late.push(vec![0xcf, 0xff, 0xff, 0xff, 0xff, 0xff, 0xff, 0xff, 73]); // foreign: quarter id 2^60-1
            late.push(vec![0, 1, 2, 3]);                 // live
            late.push(vec![0, 9]);                       // live
            cs.push(Case::new(651, late, "peer-datagrams-queued"));
            for bad in [vec![], vec![0x40u64], vec![0xd0, 0, 0, 0, 0, 0, 0, 0, 1]] {
                cs.push(Case::new(651, vec![vec![0, 0, 0], vec![], bad], "invalid-datagram"));
            }
            let _ = rng.next();
        }
        "client" => {
            let statuses = ["200", "204", "299", "300", "404", "403", "429", "199", "100", "99", "600", "999", "0", "abc", "", "+200", "0200"];
            for st in statuses {
                cs.push(Case::new(661, vec![vec![0, 0], b2a(&response_bytes(st, &[])), vec![2]], "status"));
            }
            let extra = vec![("server".to_string(), "x".to_string()), ("sec-webtransport-http3-draft".to_string(), "draft02".to_string())];
            for st in ["200", "404"] {
                cs.push(Case::new(661, vec![vec![0, 0], b2a(&response_bytes(st, &extra)), vec![2]], "status-extra-fields"));
            }
            // GREASE / unknown frames before the response, response cut at every offset (C05, C13)
            let mut pre = raw_frame(0x21, &[1]);
            pre.extend(raw_frame(0x4242, &[4, 0]));
            pre.extend(response_bytes("200", &[]));
            cs.push(Case::new(661, vec![vec![0, 0], b2a(&pre), vec![2]], "grease-before-response"));
            let r200 = response_bytes("200", &[]);
            for cut in 1..r200.len() {
                cs.push(Case::new(661, vec![vec![0, cut as u64], b2a(&r200), vec![2]], "response-cut"));
            }
            // the response and a close capsule behind it, in one piece and cut everywhere (C05, C04)
            let mut rc = response_bytes("200", &[]);
            let hl = rc.len();
            rc.extend(raw_frame(0, &crate::suites::session::close_capsule(7, b"bye")));
            let cuts: Vec<usize> = if thorough { (0..rc.len()).collect() } else { vec![0, 1, hl / 2, hl - 1, hl, hl + 1, hl + 3, rc.len() - 1] };
            for cut in cuts {
                for end in [0u64, 2] {
                    cs.push(Case::new(661, vec![vec![0, cut as u64], b2a(&rc), vec![end]], "response-then-close-capsule"));
                }
            }
            let mut rg = response_bytes("200", &[]);
            rg.extend(raw_frame(0x21, &[1, 2, 3]));
            cs.push(Case::new(661, vec![vec![0, 0], b2a(&rg), vec![0]], "response-grease-then-fin"));
            // wrong first frame, undecodable section, missing status, stream ends
            cs.push(Case::new(661, vec![vec![0, 0], b2a(&raw_frame(0, &[1, 2])), vec![2]], "data-first"));
            for pre in [raw_frame(0, &[1, 2]), { let mut p = raw_frame(0x21, &[]); p.extend(raw_frame(0, &[])); p }, raw_frame(4, &[])] {
                let mut b = pre.clone();
                b.extend(response_bytes("200", &[]));
                cs.push(Case::new(661, vec![vec![0, 0], b2a(&b), vec![2]], "data-or-settings-before-response"));
            }
            cs.push(Case::new(661, vec![vec![0, 0], b2a(&raw_frame(4, &[])), vec![2]], "settings-first"));
            cs.push(Case::new(661, vec![vec![0, 0], b2a(&raw_frame(1, &[0, 0, 0x3f])), vec![2]], "undecodable"));
            cs.push(Case::new(661, vec![vec![0, 0], b2a(&raw_frame(1, &[0, 0, 0xd1])), vec![2]], "no-status"));
            cs.push(Case::new(661, vec![vec![0, 0], vec![], vec![0]], "fin-without-response"));
            cs.push(Case::new(661, vec![vec![0, 0], vec![], vec![1]], "reset-without-response"));
            cs.push(Case::new(661, vec![vec![0, 0], vec![1, 5, 0], vec![0]], "fin-inside-response"));
            // request headers (C02): static-table names, Huffman and not, lengths across prefix boundaries
            let mut hdrs: Args = vec![];
            for (k, v) in [("origin", "https://example.com"), ("user-agent", "e2"), ("x-custom", "\\^`{}<>"), ("x-long", &"a".repeat(130))] {
                hdrs.push(b2a(k.as_bytes()));
                hdrs.push(b2a(v.as_bytes()));
            }
            let mut args = vec![vec![0, 0], b2a(&response_bytes("200", &[])), vec![2]];
            args.extend(hdrs);
            cs.push(Case::new(661, args, "request-headers"));
            // names that sort below ':' and values whose Huffman form is longer than the raw one
            let mut args = vec![vec![0, 0], b2a(&response_bytes("200", &[])), vec![2]];
            for (k, v) in [("1st-party", "yes"), ("-x-legacy", "v"), ("x-filter", "{\"a\":[1,2]}"), ("x-uni", "caf\u{e9} \u{2603}"), ("x-empty", "")] {
                args.push(b2a(k.as_bytes()));
                args.push(b2a(v.as_bytes()));
            }
            cs.push(Case::new(661, args, "request-headers-hostile"));
            cs.push(Case::new(661, vec![vec![0, 0], b2a(&response_bytes("200", &[])), vec![2], b2a(b":path"), b2a(b"/evil")], "reserved-header"));
        }
        _ => {}
    }
    cs
}
