//! Family 611: byte strings on the peer's control stream, written in pieces with optional events
//! injected between the pieces (C12, C13, C05).
use crate::net::*;
use wtransport::quinn;
use crate::rng::Rng;
use crate::{Args, Case};
use std::time::Duration;

const PAUSE: Duration = Duration::from_millis(70);

/// args: [mode (0 FIN, 1 RESET, 3 open), code, inject], B (whole control stream incl. type byte), cuts
/// a[0][3] = 1: the library is the client; the raw server writes its control stream (in pieces), the
/// client's connect() waits for those SETTINGS before it sends the request
async fn exec_client_role(a: &Args) -> Args {
    let (mode, code) = (a[0][0], a[0][1]);
    let bytes = a2b(&a[1]);
    let cuts: Vec<usize> = a[2].iter().map(|c| *c as usize).collect();
    let (rep, addr) = raw_server(None);
    let client = wt_client();
    let url = format!("https://127.0.0.1:{}/cc", addr.port());
    let app = tokio::spawn(async move {
        let r = tokio::time::timeout(Duration::from_millis(2600), client.connect(&url)).await;
        (matches!(r, Ok(Ok(_))), client, r.ok().and_then(|x| x.ok()))
    });
    let conn = match tokio::time::timeout(T_CALL, async { rep.accept().await.unwrap().await }).await {
        Ok(Ok(c)) => c,
        _ => return vec![vec![2], crate::b2s("raw accept failed")],
    };
    let mut control = match conn.open_uni().await { Ok(s) => s, Err(_) => return vec![vec![2]] };
    let mut last = 0usize;
    for c in &cuts {
        if *c > last && *c < bytes.len() {
            let _ = control.write_all(&bytes[last..*c]).await;
            last = *c;
            tokio::time::sleep(PAUSE).await;
        }
    }
    let _ = control.write_all(&bytes[last..]).await;
    match mode {
        0 => { let _ = control.finish(); }
        1 => { tokio::time::sleep(PAUSE).await; let _ = control.reset(qvi(code)); }
        _ => {}
    }
    // the request arrives only if the client accepted the SETTINGS
    let mut keep = None;
    let established: u64 = match tokio::time::timeout(Duration::from_millis(900), conn.accept_bi()).await {
        Ok(Ok((mut s, mut r))) => match tokio::time::timeout(Duration::from_millis(900), read_one_frame(&mut r)).await {
            Ok(Ok((1, _))) => {
                let _ = s.write_all(&response_bytes("200", &[])).await;
                keep = Some((s, r));
                1
            }
            _ => 3,
        },
        _ => 2,
    };
    let (ch, cr) = raw_wait_closed(&conn, Duration::from_millis(500)).await;
    let (app_ok, client, c) = match tokio::time::timeout(Duration::from_millis(3000), app).await {
        Ok(Ok(x)) => x,
        _ => return vec![vec![1, established], ch, cr, vec![2]],
    };
    drop(c);
    drop(keep);
    client.close(vi(0), b"");
    rep.close(qvi(0), b"");
    vec![vec![1, established], ch, cr, vec![app_ok as u64]]
}

pub async fn exec(a: &Args) -> Args {
    if a[0].get(3).copied().unwrap_or(0) == 1 {
        return exec_client_role(a).await;
    }
    let (mode, code, inject) = (a[0][0], a[0][1], a[0][2]);
    let bytes = a2b(&a[1]);
    let cuts: Vec<usize> = a[2].iter().map(|c| *c as usize).collect();
    let (server, addr) = wt_server(None);
    let ep = raw_client(None);
    let app = tokio::spawn(async move {
        let r = wt_accept(&server).await;
        (r.is_ok(), server, r.ok())
    });
    let conn = match tokio::time::timeout(T_CALL, async { ep.connect(addr, "localhost").unwrap().await }).await {
        Ok(Ok(c)) => c,
        _ => return vec![vec![2], crate::b2s("raw connect failed")],
    };
    // a[0][3] = 2: the request goes out first, the control stream only afterwards (the order of
    // independent streams is not the peer's to rely on)
    let request_first = a[0].get(3).copied().unwrap_or(0) == 2;
    let mut early_request = None;
    if request_first {
        if let Ok((mut s, r)) = conn.open_bi().await {
            let _ = s.write_all(&request_bytes("/c", &[])).await;
            early_request = Some((s, r));
        }
        tokio::time::sleep(PAUSE * 3).await;
    }
    let mut control = match conn.open_uni().await {
        Ok(s) => s,
        Err(_) => return vec![vec![2], crate::b2s("open_uni failed")],
    };
    // pieces
    let mut pieces: Vec<&[u8]> = vec![];
    let mut last = 0usize;
    for c in &cuts {
        if *c > last && *c < bytes.len() {
            pieces.push(&bytes[last..*c]);
            last = *c;
        }
    }
    pieces.push(&bytes[last..]);
    let mut qenc: Option<quinn::SendStream> = None;
    let mut keep: Vec<quinn::SendStream> = vec![];
    let n = pieces.len();
    for (i, p) in pieces.iter().enumerate() {
        if !p.is_empty() {
            let _ = control.write_all(p).await;
        }
        if i + 1 < n {
            tokio::time::sleep(PAUSE).await;
            match inject {
                1 => {
                    let mut d = enc_varint(0);
                    d.extend(b"dgram");
                    let _ = conn.send_datagram(d.into());
                }
                2 => {
                    if let Ok(mut s) = conn.open_uni().await {
                        let mut b = enc_varint(0x54);
                        b.extend(enc_varint(0));
                        b.extend(b"uni");
                        let _ = s.write_all(&b).await;
                        keep.push(s);
                    }
                }
                3 => {
                    if let Ok((mut s, _r)) = conn.open_bi().await {
                        // a request-like stream carrying only a GREASE frame so far
                        let _ = s.write_all(&raw_frame(0x21, &[1])).await;
                        keep.push(s);
                    }
                }
                4 => {
                    if qenc.is_none() {
                        if let Ok(mut s) = conn.open_uni().await {
                            let _ = s.write_all(&[0x02, 0x00]).await;
                            qenc = Some(s);
                        }
                    } else if let Some(s) = qenc.as_mut() {
                        let _ = s.write_all(&[0x00]).await;
                    }
                }
                _ => {}
            }
            tokio::time::sleep(PAUSE).await;
        }
    }
    match mode {
        0 => {
            let _ = control.finish();
        }
        1 => {
            tokio::time::sleep(PAUSE).await;
            let _ = control.reset(qvi(code));
        }
        _ => {}
    }
    tokio::time::sleep(Duration::from_millis(120)).await;
    // now the request
    let opened = match early_request.take() { Some(x) => Ok(x), None => conn.open_bi().await };
    let established: u64 = match opened {
        Ok((mut s, mut r)) => {
            if request_first {
                match tokio::time::timeout(Duration::from_millis(900), read_one_frame(&mut r)).await {
                    Ok(Ok((1, _))) => { keep.push(s); 1 }
                    Ok(Ok(_)) => 3,
                    _ => 2,
                }
            } else {
            // a[3]: the request HEADERS in pieces too
            let req = request_bytes("/c", &[]);
            let mut last = 0usize;
            for c in a.get(3).map(|v| v.as_slice()).unwrap_or(&[]) {
                let c = *c as usize;
                if c > last && c < req.len() {
                    let _ = s.write_all(&req[last..c]).await;
                    last = c;
                    tokio::time::sleep(PAUSE).await;
                    if inject == 1 {
                        let mut d = enc_varint(0);
                        d.extend(b"dgram");
                        let _ = conn.send_datagram(d.into());
                        tokio::time::sleep(PAUSE).await;
                    }
                }
            }
            let _ = s.write_all(&req[last..]).await;
            match tokio::time::timeout(Duration::from_millis(900), read_one_frame(&mut r)).await {
                Ok(Ok((1, _))) => {
                    keep.push(s);
                    1
                }
                Ok(Ok(_)) => 3,
                _ => 2,
            }
            }
        }
        Err(_) => 2,
    };
    let (ch, cr) = raw_wait_closed(&conn, Duration::from_millis(500)).await;
    let (app_ok, server, _c) = match tokio::time::timeout(Duration::from_millis(200), app).await {
        Ok(Ok(x)) => x,
        _ => {
            ep.close(qvi(0), b"");
            return vec![vec![1, established], ch, cr, vec![2]];
        }
    };
    server.close(vi(0), b"");
    ep.close(qvi(0), b"");
    drop(keep);
    vec![vec![1, established], ch, cr, vec![app_ok as u64]]
}

/// a control stream that the specifications accept and that only carries ignorable frames after
/// SETTINGS, read here independently of the library
fn benign_control_stream(b: &[u8]) -> bool {
    fn vi(b: &[u8], pos: &mut usize) -> Option<u64> {
        let first = *b.get(*pos)?;
        let n = 1usize << (first >> 6);
        if *pos + n > b.len() { return None; }
        let mut v = (first & 0x3f) as u64;
        for i in 1..n { v = v << 8 | b[*pos + i] as u64; }
        *pos += n;
        Some(v)
    }
    let mut pos = 0;
    if vi(b, &mut pos) != Some(0) { return false; }
    let mut first = true;
    while pos < b.len() {
        let (t, l) = match (vi(b, &mut pos), vi(b, &mut pos)) { (Some(t), Some(l)) => (t, l as usize), _ => return false };
        if pos + l > b.len() || l > 4096 { return false; }
        let payload = &b[pos..pos + l];
        pos += l;
        if first {
            if t != 4 { return false; }
            let mut q = 0;
            let mut seen = vec![];
            while q < payload.len() {
                match (vi(payload, &mut q), vi(payload, &mut q)) {
                    (Some(id), Some(_)) => {
                        if (2..=5).contains(&id) || id == 0 || seen.contains(&id) { return false; }
                        seen.push(id);
                    }
                    _ => return false,
                }
            }
            first = false;
        } else {
            let grease = t >= 0x21 && (t - 0x21) % 0x1f == 0;
            let known = [0u64, 1, 4, 0x41].contains(&t);
            if known && !grease { return false; }
        }
    }
    !first
}

pub fn oracle(a: &Args, out: &Args) -> Option<(&'static str, String)> {
    if out[0][0] != 1 {
        return None;
    }
    // C05 / C12 / C13: a well-formed control stream with only ignorable frames after SETTINGS, left
    // open, leads to an established session however its bytes (and those of the request) are cut and
    // whatever happens in between
    if a[0][0] == 3 && benign_control_stream(&a2b(&a[1])) {
        let closed = out[1].first() != Some(&TAG_PENDING);
        if out[0][1] != 1 || closed {
            return Some(("C05+C12+C13", format!("valid control stream cut at {:?} (request cut at {:?}, event {} in between): session established={} connection ended={:?}", a[2], a.get(3), a[0][2], out[0][1] == 1, out[1])));
        }
    }
    // C12: the first frame of a control stream must be SETTINGS; a reserved (GREASE) frame type in that
    // place is a frame like any other: H3_MISSING_SETTINGS (RFC 9114 6.2.1), whatever follows it
    if a[0][0] == 3 && !(a[0][2] != 0 && !a[2].is_empty()) {
        let b = a2b(&a[1]);
        let vi = |b: &[u8]| -> Option<(u64, usize)> {
            let f = *b.first()?;
            let n = 1usize << (f >> 6);
            if b.len() < n { return None; }
            let mut v = (f & 0x3f) as u64;
            for x in &b[1..n] { v = (v << 8) | *x as u64; }
            Some((v, n))
        };
        if b.first() == Some(&0) {
            if let Some((ty, l1)) = vi(&b[1..]) {
                if let Some((len, l2)) = vi(&b[1 + l1..]) {
                    let complete = b.len() >= 1 + l1 + l2 + len as usize;
                    let reserved = ty >= 0x21 && (ty - 0x21) % 0x1f == 0;
                    if complete && reserved && len <= 4096 && out[1] != vec![1, 0x10a] {
                        return Some(("C12", format!("the peer's control stream began with a reserved frame (type {:#x}) instead of SETTINGS: expected a close with H3_MISSING_SETTINGS (0x10a), the peer saw {:?} (session established: {})", ty, out[1], out[0][1] == 1)));
                    }
                }
            }
        }
    }
    None
}

pub fn settings_frame() -> Vec<u8> {
    peer_control_bytes()[1..].to_vec()
}

pub fn generate(rng: &mut Rng, thorough: bool, cut_matrix: bool) -> Vec<Case> {
    let mut cs = generate_server_role(rng, thorough, cut_matrix);
    // the same control streams sent by a raw server to the library as client (no injected events:
    // the client has nothing else going on before the session exists)
    let n = cs.len();
    for i in 0..n {
        let c = &cs[i];
        if c.args[0][2] == 0 && c.args[0].len() == 3 && c.args.len() <= 3 && (thorough || !cut_matrix || i % 2 == 0) {
            let mut args = c.args.clone();
            args[0].push(1);
            cs.push(Case::new(611, args, &format!("client-role:{}", c.label)));
        }
    }
    cs
}

fn generate_server_role(rng: &mut Rng, thorough: bool, cut_matrix: bool) -> Vec<Case> {
    let mut cs = vec![];
    let ok = peer_control_bytes();
    let sf = settings_frame();
    if !cut_matrix {
        let c = |mode: u64, b: Vec<u8>, label: &str| Case::new(611, vec![vec![mode, 0, 0], b2a(&b), vec![]], label);
        cs.push(c(3, ok.clone(), "valid"));
        cs.push(Case::new(611, vec![vec![3, 0, 0, 2], b2a(&ok), vec![]], "request-before-control-stream"));
        cs.push(Case::new(611, vec![vec![3, 0, 0, 2], b2a(&ok), vec![5]], "request-before-control-stream"));
        // GREASE / unknown frames after SETTINGS (C13)
        let mut b = ok.clone();
        b.extend(raw_frame(0x21, &[1, 2]));
        b.extend(raw_frame(0x4242, &[4, 0]));
        b.extend(raw_frame(7, &raw_frame(4, &[])));
        cs.push(c(3, b, "grease-and-unknown-after-settings"));
        // SETTINGS, then -- in a later packet, with another event of the connection in between -- a GREASE
        // frame: a cut on a frame boundary leaves nothing in progress, the stream stays valid (C13, C05)
        {
            let mut b = ok.clone();
            b.extend(raw_frame(0x21 + 0x1f, &[9, 8, 7, 6]));
            for inj in 1..5u64 {
                cs.push(Case::new(611, vec![vec![3, 0, inj], b2a(&b), vec![ok.len() as u64]], "grease-after-settings-and-an-event"));
            }
        }
        // unknown frame before SETTINGS (skipped by the frame reader) then SETTINGS
        let mut b = vec![0u8];
        b.extend(raw_frame(0x4242, &[1, 0, 4, 0]));
        b.extend(&sf);
        cs.push(c(3, b, "unknown-frame-before-settings"));
        // the C13a witness: unknown type 0x07 with payload 00
        let mut b = vec![0u8, 7, 1, 0];
        b.extend(&sf);
        cs.push(c(3, b, "witness-unknown-07"));
        // GREASE first => H3_MISSING_SETTINGS
        let mut b = vec![0u8];
        b.extend(raw_frame(0x21, &[]));
        b.extend(&sf);
        cs.push(c(3, b, "grease-before-settings"));
        // DATA / HEADERS first or later => H3_FRAME_UNEXPECTED
        for k in [0u64, 1] {
            let mut b = vec![0u8];
            b.extend(raw_frame(k, &[1]));
            cs.push(c(3, b, "data-or-headers-first"));
            let mut b = ok.clone();
            b.extend(raw_frame(k, &[1]));
            cs.push(c(3, b, "data-or-headers-later"));
        }
        // second SETTINGS
        let mut b = ok.clone();
        b.extend(&sf);
        cs.push(c(3, b, "second-settings"));
        // WT frame on the control stream
        let mut b = ok.clone();
        b.extend([0x40, 0x41, 0x00]);
        cs.push(c(3, b, "wt-frame-on-control"));
        // bad settings: reserved id, duplicate id, truncated
        for (p, l) in [(vec![2u8, 0], "settings-reserved-id"), (vec![1, 0, 1, 0], "settings-duplicate-id"), (vec![1], "settings-truncated-pair")] {
            let mut b = vec![0u8];
            b.extend(raw_frame(4, &p));
            cs.push(c(3, b, l));
        }
        // unknown and GREASE settings (C13)
        let mut p = vec![];
        for (k, v) in [(0x21u64 + 0x1f * 7, 5u64), (0x4242, 1), (8, 1), (0x2b603742, 1), (0x33, 1), (0xc671706a, 1), (9, 0)] {
            p.extend(enc_varint(k));
            p.extend(enc_varint(v));
        }
        let mut b = vec![0u8];
        b.extend(raw_frame(4, &p));
        cs.push(c(3, b, "unknown-and-grease-settings"));
        // oversize
        let mut b = vec![0u8];
        b.extend(enc_varint(4));
        b.extend(enc_varint(5000));
        cs.push(c(3, b, "oversize-settings"));
        // closed critical stream: FIN / RESET at a frame boundary, FIN inside a frame
        cs.push(c(0, ok.clone(), "fin-after-settings"));
        cs.push(c(1, ok.clone(), "reset-after-settings"));
        cs.push(c(0, vec![0u8], "fin-before-settings"));
        let mut b = ok.clone();
        b.extend([0x21, 0x05, 1]);
        cs.push(c(0, b, "fin-inside-frame"));
        return cs;
    }
    // cut x inject matrix over a control stream with SETTINGS + a GREASE frame (C05)
    let mut b = ok.clone();
    b.extend(raw_frame(0x21 + 0x1f, &[9, 8, 7, 6]));
    let injects: Vec<u64> = vec![0, 1, 2, 3, 4];
    let step = if thorough { 1 } else { 3 };
    let mut cut = 1;
    while cut < b.len() {
        for inj in &injects {
            if !thorough && *inj != 0 && (cut + *inj as usize) % 2 == 1 {
                continue;
            }
            cs.push(Case::new(611, vec![vec![3, 0, *inj], b2a(&b), vec![cut as u64]], if *inj == 0 { "cut-only" } else { "cut-and-inject" }));
        }
        cut += step;
    }
    // cuts exactly on the frame boundaries (behind the stream type, behind SETTINGS) with every event in
    // between: nothing is in progress when the reader is interrupted there, so nothing may be lost -- in
    // particular not the fact that SETTINGS has been seen (C13, C05: not part of the recorded finding)
    for boundary in [1usize, ok.len()] {
        for inj in 1..5u64 {
            cs.push(Case::new(611, vec![vec![3, 0, inj], b2a(&b), vec![boundary as u64]], "boundary-cut-and-inject"));
        }
    }
    // the request HEADERS cut as well (read by the per-stream task of the accept path)
    let rl = request_bytes("/c", &[]).len();
    let mut rc = 1;
    while rc < rl {
        cs.push(Case::new(611, vec![vec![3, 0, (rc % 2) as u64], b2a(&b), vec![], vec![rc as u64]], "request-cut"));
        rc += if thorough { 1 } else { 5 };
    }
    cs.push(Case::new(611, vec![vec![3, 0, 0], b2a(&b), vec![2], vec![1, 3, (rl - 1) as u64]], "request-cut"));
    // two cuts
    let k = if thorough { 20 } else { 4 };
    for _ in 0..k {
        let c1 = rng.range(1, (b.len() - 2) as u64);
        let c2 = rng.range(c1 + 1, (b.len() - 1) as u64);
        let inj = rng.below(5);
        cs.push(Case::new(611, vec![vec![3, 0, inj], b2a(&b), vec![c1, c2]], "two-cuts"));
    }
    cs
}
