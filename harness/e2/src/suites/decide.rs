//! Family 673: the library on both ends; the server application inspects the incoming request and
//! decides (accept, accept_with_headers, forbidden, not_found, too_many_requests).  What the server
//! application saw, what connect() returned, and the session ids on both sides (C02, C18).
//!
//! a[0] = [decision (0 accept, 1 accept_with_headers, 2 forbidden, 3 not_found, 4 too_many_requests),
//!         number of extra request fields, number of extra response fields]
//! a[1] = path-with-query (bytes, starts with '/')
//! then (name, value) per extra request field, then per extra response field
use crate::net::*;
use crate::rng::Rng;
use crate::{Args, Case};
use std::time::Duration;

const T: Duration = Duration::from_millis(4000);

pub async fn exec(a: &Args) -> Args {
    let (decision, nreq, nresp) = (a[0][0], a[0][1] as usize, a[0][2] as usize);
    let path = String::from_utf8_lossy(&a2b(&a[1])).to_string();
    let s = |v: &Vec<u64>| String::from_utf8_lossy(&a2b(v)).to_string();
    let req_extra: Vec<(String, String)> = (0..nreq).map(|i| (s(&a[2 + 2 * i]), s(&a[3 + 2 * i]))).collect();
    let resp_extra: Vec<(String, String)> = (0..nresp).map(|i| (s(&a[2 + 2 * nreq + 2 * i]), s(&a[3 + 2 * nreq + 2 * i]))).collect();
    let (server, addr) = wt_server(None);
    let client = wt_client();
    let url = format!("https://127.0.0.1:{}{}", addr.port(), path);
    let srv = tokio::spawn(async move {
        let incoming = match tokio::time::timeout(T, server.accept()).await { Ok(i) => i, Err(_) => return (None, vec![9u64], server) };
        let req = match tokio::time::timeout(T, incoming).await { Ok(Ok(r)) => r, _ => return (None, vec![8], server) };
        let mut fields: Vec<(String, String)> = req.headers().iter().map(|(k, v)| (k.clone(), v.clone())).collect();
        fields.sort();
        let seen = (req.authority().to_string(), req.path().to_string(), fields);
        let res = match decision {
            0 => match tokio::time::timeout(T, req.accept()).await { Ok(Ok(c)) => { let sid = c.session_id().into_u64(); keep(c); vec![1, sid] } _ => vec![0, 9] },
            1 => match tokio::time::timeout(T, req.accept_with_headers(resp_extra.clone())).await { Ok(Ok(c)) => { let sid = c.session_id().into_u64(); keep(c); vec![1, sid] } _ => vec![0, 9] },
            2 => { let _ = tokio::time::timeout(T, req.forbidden()).await; vec![0, 9] }
            3 => { let _ = tokio::time::timeout(T, req.not_found()).await; vec![0, 9] }
            _ => { let _ = tokio::time::timeout(T, req.too_many_requests()).await; vec![0, 9] }
        };
        (Some(seen), res, server)
    });
    let mut opts = wtransport::endpoint::ConnectOptions::builder(&url);
    for (k, v) in &req_extra {
        opts = opts.add_header(k, v);
    }
    let c = tokio::time::timeout(T, client.connect(opts.build())).await;
    let (outcome, csid, conn) = match c {
        Ok(Ok(c)) => (0u64, c.session_id().into_u64(), Some(c)),
        Ok(Err(wtransport::error::ConnectingError::SessionRejected)) => (1, 9, None),
        Ok(Err(_)) => (2, 9, None),
        Err(_) => (8, 9, None),
    };
    let (seen, sres, server) = match srv.await { Ok(x) => x, Err(_) => return vec![vec![crate::PANIC]] };
    let mut out: Args = vec![vec![1, outcome, csid, sres[0], *sres.get(1).unwrap_or(&9), addr.port() as u64]];
    match seen {
        Some((authority, p, fields)) => {
            out.push(crate::b2s(&authority));
            out.push(crate::b2s(&p));
            for (k, v) in fields {
                out.push(crate::b2s(&k));
                out.push(crate::b2s(&v));
            }
        }
        None => out.push(vec![]),
    }
    drop(conn);
    server.close(vi(0), b"");
    out
}

/// keeps an accepted connection alive until the scenario is over (the endpoint is closed at the end)
fn keep(c: wtransport::Connection) {
    tokio::spawn(async move {
        let _ = tokio::time::timeout(Duration::from_millis(1500), c.closed()).await;
    });
}

pub fn oracle(a: &Args, out: &Args) -> Option<(&'static str, String)> {
    if out[0][0] != 1 || out.len() < 3 {
        return None;
    }
    let (decision, nreq) = (a[0][0], a[0][1] as usize);
    let port = out[0][5];
    let s = |v: &Vec<u64>| String::from_utf8_lossy(&a2b(v)).to_string();
    // the request as the server application saw it
    let mut want: Vec<(String, String)> = vec![
        (":method".into(), "CONNECT".into()),
        (":scheme".into(), "https".into()),
        (":protocol".into(), "webtransport".into()),
        (":authority".into(), format!("127.0.0.1:{}", port)),
        (":path".into(), s(&a[1])),
    ];
    for i in 0..nreq {
        want.push((s(&a[2 + 2 * i]), s(&a[3 + 2 * i])));
    }
    want.sort();
    let got: Vec<(String, String)> = (0..(out.len() - 3) / 2).map(|i| (s(&out[3 + 2 * i]), s(&out[4 + 2 * i]))).collect();
    if s(&out[1]) != format!("127.0.0.1:{}", port) || s(&out[2]) != s(&a[1]) {
        return Some(("C02", format!("the server application saw authority {:?} path {:?} for the URL https://127.0.0.1:{}{}", s(&out[1]), s(&out[2]), port, s(&a[1]))));
    }
    if got != want {
        return Some(("C02+C18", format!("the server application saw the fields {:?}, the client sent {:?}", got, want)));
    }
    // the decision is mirrored
    let accept = decision <= 1;
    if accept && (out[0][1] != 0 || out[0][3] != 1) {
        return Some(("C02", format!("the server accepted but connect() returned outcome {} (server side ok = {})", out[0][1], out[0][3])));
    }
    if !accept && out[0][1] != 1 {
        return Some(("C02", format!("the server answered non-2xx (decision {}) but connect() returned outcome {} instead of 'session rejected'", decision, out[0][1])));
    }
    if accept && out[0][2] != out[0][4] {
        return Some(("C02", format!("session ids differ: client {} server {}", out[0][2], out[0][4])));
    }
    None
}

pub fn generate(rng: &mut Rng, thorough: bool) -> Vec<Case> {
    // (paths are already in the normal form of the URL standard: dot segments are removed by URL parsing,
    // which is an oracle here)
    let mut cs = vec![];
    let paths: Vec<&str> = vec!["/", "/a", "/webtransport/echo", "/p?q=1", "/p?", "/%20x/y?k=v&k2=%3F", "/a/b/c.d/", "/~user;x=1?a=b=c", "/very/long/"];
    let names = ["origin", "user-agent", "authorization", "accept", "content-type", "x-custom", "a", "cookie", "accept-language", "x-very-long-header-name-that-goes-on-and-on",
                 // every character a field name may contain besides letters, digits and '-' (RFC 9110 token)
                 "x_trace_id", "x.build!tag~", "x#$%&'*+^`|", "9", "-"];
    let n = if thorough { 120 } else { 36 };
    for i in 0..n {
        let decision = (i % 5) as u64;
        let mut path = paths[(rng.below(paths.len() as u64)) as usize].to_string();
        if path == "/very/long/" {
            for _ in 0..rng.range(10, 300) { path.push((b'a' + rng.below(26) as u8) as char); }
        }
        let nreq = rng.below(4) as usize;
        let nresp = if decision == 1 { rng.below(3) as usize } else { 0 };
        let mut args: Args = vec![vec![decision, nreq as u64, nresp as u64], crate::b2s(&path)];
        let mut used = std::collections::HashSet::new();
        for _ in 0..nreq {
            let mut k = names[rng.below(names.len() as u64) as usize].to_string();
            while !used.insert(k.clone()) { k.push('x'); }
            let vl = match rng.below(5) { 0 => 0, 1 => 1, 2 => 126 + rng.below(4), 3 => 300, _ => 5 + rng.below(40) } as usize;
            let v: String = (0..vl).map(|_| (0x20 + rng.below(0x5f) as u8) as char).collect();
            // values are sent as they are: no leading/trailing blanks (not valid field values)
            let v = v.trim().to_string();
            args.push(crate::b2s(&k));
            args.push(crate::b2s(&v));
        }
        for j in 0..nresp {
            args.push(crate::b2s(&if j == 0 { "x-resp-0".to_string() } else { "x_served.by!~".to_string() }));
            args.push(crate::b2s(if j == 0 { "value" } else { ":status" }));
        }
        cs.push(Case::new(673, args, ["accept", "accept-with-headers", "forbidden", "not-found", "too-many-requests"][decision as usize]));
    }
    cs
}

/// Family 622: the peer does not wait for the response to its CONNECT request: it opens its first
/// WebTransport streams right behind the request, while the server application is still deciding
/// (`accept()` is called `delay` ms after the request arrived).  Every one of them must be delivered once
/// the session exists (C08, C01).  a[0] = [delay_ms, n_uni, n_bi]
pub async fn exec_early(a: &Args) -> Args {
    use wtransport::quinn;
    let (delay, nu, nb) = (a[0][0], a[0][1] as usize, a[0][2] as usize);
    let (server, addr) = wt_server(None);
    let ep = raw_client(None);
    let srv = tokio::spawn(async move {
        let incoming = match tokio::time::timeout(T, server.accept()).await { Ok(i) => i, Err(_) => return (None, server) };
        let req = match tokio::time::timeout(T, incoming).await { Ok(Ok(r)) => r, _ => return (None, server) };
        tokio::time::sleep(Duration::from_millis(delay)).await;
        match tokio::time::timeout(T, req.accept()).await { Ok(Ok(c)) => (Some(c), server), _ => (None, server) }
    });
    let conn: quinn::Connection = match ep.connect(addr, "localhost") {
        Ok(c) => match tokio::time::timeout(T, c).await { Ok(Ok(c)) => c, _ => return vec![vec![2]] },
        Err(_) => return vec![vec![2]],
    };
    let mut control = match conn.open_uni().await { Ok(s) => s, Err(_) => return vec![vec![2]] };
    let _ = control.write_all(&peer_control_bytes()).await;
    let (mut rs, _rr) = match conn.open_bi().await { Ok(x) => x, Err(_) => return vec![vec![2]] };
    let _ = rs.write_all(&request_bytes("/early", &[])).await;
    // no waiting for the response: the streams follow at once
    let mut keep = vec![];
    for i in 0..nu {
        if let Ok(mut s) = conn.open_uni().await {
            let mut b = vec![0x40u8, 0x54, 0x00];
            b.extend(format!("early-uni-{}", i).as_bytes());
            let _ = s.write_all(&b).await;
            let _ = s.finish();
            keep.push(s);
        }
    }
    for i in 0..nb {
        if let Ok((mut s, r)) = conn.open_bi().await {
            let mut b = vec![0x40u8, 0x41, 0x00];
            b.extend(format!("early-bi-{}", i).as_bytes());
            let _ = s.write_all(&b).await;
            let _ = s.finish();
            keep.push(s);
            std::mem::forget(r);
        }
    }
    let (c, server) = match srv.await { Ok(x) => x, Err(_) => return vec![vec![crate::PANIC]] };
    let Some(c) = c else { return vec![vec![2]] };
    let (mut gu, mut gb) = (0u64, 0u64);
    let mut payloads: Vec<Vec<u8>> = vec![];
    for _ in 0..nu {
        match tokio::time::timeout(Duration::from_millis(2500), c.accept_uni()).await {
            Ok(Ok(mut r)) => { gu += 1; let mut d = vec![0u8; 64]; if let Ok(Ok(Some(n))) = tokio::time::timeout(Duration::from_millis(1500), r.read(&mut d)).await { payloads.push(d[..n].to_vec()); } }
            _ => break,
        }
    }
    for _ in 0..nb {
        match tokio::time::timeout(Duration::from_millis(2500), c.accept_bi()).await {
            Ok(Ok((_s, mut r))) => { gb += 1; let mut d = vec![0u8; 64]; if let Ok(Ok(Some(n))) = tokio::time::timeout(Duration::from_millis(1500), r.read(&mut d)).await { payloads.push(d[..n].to_vec()); } }
            _ => break,
        }
    }
    payloads.sort();
    payloads.dedup();
    let intact = payloads.iter().filter(|p| p.starts_with(b"early-")).count() as u64;
    drop(keep);
    server.close(vi(0), b"");
    vec![vec![1, gu, gb, intact]]
}

pub fn oracle_early(a: &Args, out: &Args) -> Option<(&'static str, String)> {
    if out[0][0] != 1 {
        return None;
    }
    if out[0][1] != a[0][1] || out[0][2] != a[0][2] || out[0][3] != a[0][1] + a[0][2] {
        return Some(("C08+C01", format!("the peer opened {} unidirectional and {} bidirectional streams right behind its request ({} ms before the application accepted the session): the application was handed {} and {}, {} distinct intact payloads", a[0][1], a[0][2], a[0][0], out[0][1], out[0][2], out[0][3])));
    }
    None
}

pub fn generate_early(_rng: &mut Rng, thorough: bool) -> Vec<Case> {
    let mut cs = vec![];
    for (delay, nu, nb) in if thorough { vec![(0u64, 3u64, 2u64), (50, 3, 2), (400, 3, 2), (400, 4, 1), (1200, 2, 1), (400, 1, 0), (400, 0, 1)] } else { vec![(0, 3, 2), (400, 3, 1), (400, 1, 1)] } {
        cs.push(Case::new(622, vec![vec![delay, nu, nb]], "streams-before-accept"));
    }
    cs
}
