//! Family 673: the library on both ends; the server application inspects the incoming request and
//! decides (accept, accept_with_headers, forbidden, not_found, too_many_requests).  What the server
//! application saw, what connect() returned, and the session ids on both sides (C02, C18).
//!
//! a[0] = [decision (0 accept, 1 accept_with_headers, 2 forbidden, 3 not_found, 4 too_many_requests),
//!         number of extra request fields, number of extra response fields]
//! a[1] = path-with-query (bytes, starts with '/')
//! then (name, value) per extra request field, then per extra response field
use crate::net::*;
use crate::rng::Rng;
use crate::{Args, Case};
use std::time::Duration;

const T: Duration = Duration::from_millis(4000);

pub async fn exec(a: &Args) -> Args {
    let (decision, nreq, nresp) = (a[0][0], a[0][1] as usize, a[0][2] as usize);
    let path = String::from_utf8_lossy(&a2b(&a[1])).to_string();
    let s = |v: &Vec<u64>| String::from_utf8_lossy(&a2b(v)).to_string();
    let req_extra: Vec<(String, String)> = (0..nreq).map(|i| (s(&a[2 + 2 * i]), s(&a[3 + 2 * i]))).collect();
    let resp_extra: Vec<(String, String)> = (0..nresp).map(|i| (s(&a[2 + 2 * nreq + 2 * i]), s(&a[3 + 2 * nreq + 2 * i]))).collect();
    let (server, addr) = wt_server(None);
    let client = wt_client();
    let url = format!("https://127.0.0.1:{}{}", addr.port(), path);
    let srv = tokio::spawn(async move {
        let incoming = match tokio::time::timeout(T, server.accept()).await { Ok(i) => i, Err(_) => return (None, vec![9u64], server) };
        let req = match tokio::time::timeout(T, incoming).await { Ok(Ok(r)) => r, _ => return (None, vec![8], server) };
        let mut fields: Vec<(String, String)> = req.headers().iter().map(|(k, v)| (k.clone(), v.clone())).collect();
        fields.sort();
        let seen = (req.authority().to_string(), req.path().to_string(), fields);
        let res = match decision {
            0 => match tokio::time::timeout(T, req.accept()).await { Ok(Ok(c)) => { let sid = c.session_id().into_u64(); keep(c); vec![1, sid] } _ => vec![0, 9] },
            1 => match tokio::time::timeout(T, req.accept_with_headers(resp_extra.clone())).await { Ok(Ok(c)) => { let sid = c.session_id().into_u64(); keep(c); vec![1, sid] } _ => vec![0, 9] },
            2 => { let _ = tokio::time::timeout(T, req.forbidden()).await; vec![0, 9] }
            3 => { let _ = tokio::time::timeout(T, req.not_found()).await; vec![0, 9] }
            _ => { let _ = tokio::time::timeout(T, req.too_many_requests()).await; vec![0, 9] }
        };
        (Some(seen), res, server)
    });
    let mut opts = wtransport::endpoint::ConnectOptions::builder(&url);
    for (k, v) in &req_extra {
        opts = opts.add_header(k, v);
    }
    let c = tokio::time::timeout(T, client.connect(opts.build())).await;
    let (outcome, csid, conn) = match c {
        Ok(Ok(c)) => (0u64, c.session_id().into_u64(), Some(c)),
        Ok(Err(wtransport::error::ConnectingError::SessionRejected)) => (1, 9, None),
        Ok(Err(_)) => (2, 9, None),
        Err(_) => (8, 9, None),
    };
    let (seen, sres, server) = match srv.await { Ok(x) => x, Err(_) => return vec![vec![crate::PANIC]] };
    let mut out: Args = vec![vec![1, outcome, csid, sres[0], *sres.get(1).unwrap_or(&9), addr.port() as u64]];
    match seen {
        Some((authority, p, fields)) => {
            out.push(crate::b2s(&authority));
            out.push(crate::b2s(&p));
            for (k, v) in fields {
                out.push(crate::b2s(&k));
                out.push(crate::b2s(&v));
            }
        }
        None => out.push(vec![]),
    }
    drop(conn);
    server.close(vi(0), b"");
    out
}

/// keeps an accepted connection alive until the scenario is over (the endpoint is closed at the end)
fn keep(c: wtransport::Connection) {
    tokio::spawn(async move {
        let _ = tokio::time::timeout(Duration::from_millis(1500), c.closed()).await;
    });
}

pub fn oracle(a: &Args, out: &Args) -> Option<(&'static str, String)> {
    if out[0][0] != 1 || out.len() < 3 {
        return None;
    }
    let (decision, nreq) = (a[0][0], a[0][1] as usize);
    let port = out[0][5];
    let s = |v: &Vec<u64>| String::from_utf8_lossy(&a2b(v)).to_string();
    // the request as the server application saw it
    let mut want: Vec<(String, String)> = vec![
        (":method".into(), "CONNECT".into()),
        (":scheme".into(), "https".into()),
        (":protocol".into(), "webtransport".into()),
        (":authority".into(), format!("127.0.0.1:{}", port)),
        (":path".into(), s(&a[1])),
    ];
    for i in 0..nreq {
        want.push((s(&a[2 + 2 * i]), s(&a[3 + 2 * i])));
    }
    want.sort();
    let got: Vec<(String, String)> = (0..(out.len() - 3) / 2).map(|i| (s(&out[3 + 2 * i]), s(&out[4 + 2 * i]))).collect();
    if s(&out[1]) != format!("127.0.0.1:{}", port) || s(&out[2]) != s(&a[1]) {
        return Some(("C02", format!("the server application saw authority {:?} path {:?} for the URL https://127.0.0.1:{}{}", s(&out[1]), s(&out[2]), port, s(&a[1]))));
    }
    if got != want {
        return Some(("C02+C18", format!("the server application saw the fields {:?}, the client sent {:?}", got, want)));
    }
    // the decision is mirrored
    let accept = decision <= 1;
    if accept && (out[0][1] != 0 || out[0][3] != 1) {
        return Some(("C02", format!("the server accepted but connect() returned outcome {} (server side ok = {})", out[0][1], out[0][3])));
    }
    if !accept && out[0][1] != 1 {
        return Some(("C02", format!("the server answered non-2xx (decision {}) but connect() returned outcome {} instead of 'session rejected'", decision, out[0][1])));
    }
    if accept && out[0][2] != out[0][4] {
        return Some(("C02", format!("session ids differ: client {} server {}", out[0][2], out[0][4])));
    }
    None
}

pub fn generate(rng: &mut Rng, thorough: bool) -> Vec<Case> {
    // (paths are already in the normal form of the URL standard: dot segments are removed by URL parsing,
    // which is an oracle here)
    let mut cs = vec![];
    let paths: Vec<&str> = vec!["/", "/a", "/webtransport/echo", "/p?q=1", "/p?", "/%20x/y?k=v&k2=%3F", "/a/b/c.d/", "/~user;x=1?a=b=c", "/very/long/"];
    let names = ["origin", "user-agent", "authorization", "accept", "content-type", "x-custom", "a", "cookie", "accept-language", "x-very-long-header-name-that-goes-on-and-on",
                 // every character a field name may contain besides letters, digits and '-' (RFC 9110 token)
                 "x_trace_id", "x.build!tag~", "x#$%&'*+^`|", "9", "-"];
    let n = if thorough { 120 } else { 36 };
    for i in 0..n {
        let decision = (i % 5) as u64;
        let mut path = paths[(rng.below(paths.len() as u64)) as usize].to_string();
        if path == "/very/long/" {
            for _ in 0..rng.range(10, 300) { path.push((b'a' + rng.below(26) as u8) as char); }
        }
        let nreq = rng.below(4) as usize;
        let nresp = if decision == 1 { rng.below(3) as usize } else { 0 };
        let mut args: Args = vec![vec![decision, nreq as u64, nresp as u64], crate::b2s(&path)];
        let mut used = std::collections::HashSet::new();
        for _ in 0..nreq {
            let mut k = names[rng.below(names.len() as u64) as usize].to_string();
            while !used.insert(k.clone()) { k.push('x'); }
            let vl = match rng.below(5) { 0 => 0, 1 => 1, 2 => 126 + rng.below(4), 3 => 300, _ => 5 + rng.below(40) } as usize;
            let v: String = (0..vl).map(|_| (0x20 + rng.below(0x5f) as u8) as char).collect();
            // values are sent as they are: no leading/trailing blanks (not valid field values)
            let v = v.trim().to_string();
            args.push(crate::b2s(&k));
            args.push(crate::b2s(&v));
        }
        for j in 0..nresp {
            args.push(crate::b2s(&if j == 0 { "x-resp-0".to_string() } else { "x_served.by!~".to_string() }));
            args.push(crate::b2s(if j == 0 { "value" } else { ":status" }));
        }
        cs.push(Case::new(673, args, ["accept", "accept-with-headers", "forbidden", "not-found", "too-many-requests"][decision as usize]));
    }
    cs
}
