//! Raw quinn peer + wtransport endpoint under test, on loopback.
use std::net::SocketAddr;
use std::sync::Arc;
use std::sync::OnceLock;
use std::time::Duration;
use wtransport::endpoint::endpoint_side::{Client, Server};
use wtransport::proto::bytes::BytesWriter;
use wtransport::proto::frame::Frame;
use wtransport::proto::headers::Headers;
use wtransport::proto::session::SessionRequest;
use wtransport::proto::settings::Settings;
use wtransport::proto::varint::VarInt;
use wtransport::quinn;
use wtransport::tls::rustls;
use wtransport::{ClientConfig, Endpoint, Identity, ServerConfig};

pub const T_SHORT: Duration = Duration::from_millis(150);
pub const T_CALL: Duration = Duration::from_millis(2500);

static IDENTITY: OnceLock<Identity> = OnceLock::new();
pub fn identity() -> Identity {
    IDENTITY
        .get_or_init(|| Identity::self_signed(["localhost", "127.0.0.1"]).expect("identity"))
        .clone_identity()
}

/// wtransport server under test on an ephemeral loopback port
pub fn wt_server(transport: Option<quinn::TransportConfig>) -> (Endpoint<Server>, SocketAddr) {
    let b = ServerConfig::builder().with_bind_address("127.0.0.1:0".parse().unwrap());
    let cfg = match transport {
        Some(t) => b.with_custom_transport(identity(), t).build(),
        None => b.with_identity(identity()).max_idle_timeout(Some(Duration::from_secs(20))).unwrap().build(),
    };
    let ep = Endpoint::server(cfg).expect("server endpoint");
    let addr = ep.local_addr().unwrap();
    (ep, addr)
}

pub fn wt_client() -> Endpoint<Client> {
    let cfg = ClientConfig::builder()
        .with_bind_address("127.0.0.1:0".parse().unwrap())
        .with_no_cert_validation()
        .max_idle_timeout(Some(Duration::from_secs(20)))
        .unwrap()
        .build();
    Endpoint::client(cfg).expect("client endpoint")
}

/// raw quinn client endpoint (TLS 1.3, ALPN h3, no certificate validation)
pub fn raw_client(transport: Option<quinn::TransportConfig>) -> quinn::Endpoint {
    let tls = wtransport::tls::client::build_default_tls_config(
        Arc::new(rustls::RootCertStore::empty()),
        Some(Arc::new(wtransport::tls::client::NoServerVerification::new())),
    );
    let qc = quinn::crypto::rustls::QuicClientConfig::try_from(tls).expect("quic client tls");
    let mut cc = quinn::ClientConfig::new(Arc::new(qc));
    let mut t = transport.unwrap_or_default();
    t.max_idle_timeout(Some(Duration::from_secs(20).try_into().unwrap()));
    cc.transport_config(Arc::new(t));
    let mut ep = quinn::Endpoint::client("127.0.0.1:0".parse().unwrap()).expect("raw client endpoint");
    ep.set_default_client_config(cc);
    ep
}

/// raw quinn server endpoint with the shared self-signed identity
pub fn raw_server(transport: Option<quinn::TransportConfig>) -> (quinn::Endpoint, SocketAddr) {
    let tls = wtransport::tls::server::build_default_tls_config(identity());
    let qs = quinn::crypto::rustls::QuicServerConfig::try_from(tls).expect("quic server tls");
    let mut sc = quinn::ServerConfig::with_crypto(Arc::new(qs));
    let mut t = transport.unwrap_or_default();
    t.max_idle_timeout(Some(Duration::from_secs(20).try_into().unwrap()));
    sc.transport_config(Arc::new(t));
    let ep = quinn::Endpoint::server(sc, "127.0.0.1:0".parse().unwrap()).expect("raw server endpoint");
    let addr = ep.local_addr().unwrap();
    (ep, addr)
}

pub fn vi(v: u64) -> VarInt {
    VarInt::try_from_u64(v).expect("varint")
}
pub fn qvi(v: u64) -> quinn::VarInt {
    quinn::VarInt::from_u64(v).expect("quinn varint")
}

pub fn enc_varint(v: u64) -> Vec<u8> {
    let mut b: Vec<u8> = vec![];
    b.put_varint(vi(v)).unwrap();
    b
}
pub fn frame_bytes(fr: &Frame) -> Vec<u8> {
    let mut b: Vec<u8> = vec![];
    fr.write(&mut b).unwrap();
    b
}
pub fn raw_frame(id: u64, payload: &[u8]) -> Vec<u8> {
    let mut b = enc_varint(id);
    b.extend(enc_varint(payload.len() as u64));
    b.extend(payload);
    b
}

/// what a conforming WebTransport peer writes on its control stream
pub fn peer_control_bytes() -> Vec<u8> {
    let s = Settings::builder()
        .qpack_max_table_capacity(vi(0))
        .qpack_blocked_streams(vi(0))
        .enable_connect_protocol()
        .enable_webtransport()
        .enable_h3_datagrams()
        .webtransport_max_sessions(vi(1))
        .build();
    let mut b = vec![0x00u8];
    b.extend(frame_bytes(&s.generate_frame()));
    b
}
pub fn request_bytes(path: &str, extra: &[(String, String)]) -> Vec<u8> {
    let mut req = SessionRequest::new(format!("https://localhost{}", path)).expect("request");
    for (k, v) in extra {
        req.insert(k.clone(), v.clone()).expect("non reserved");
    }
    frame_bytes(&req.headers().generate_frame())
}
/// a HEADERS frame carrying exactly these fields
pub fn headers_bytes(fields: &[(&str, &str)]) -> Vec<u8> {
    let headers: Headers = fields.iter().map(|(k, v)| (k.to_string(), v.to_string())).collect();
    frame_bytes(&headers.generate_frame())
}
pub fn response_bytes(status: &str, extra: &[(String, String)]) -> Vec<u8> {
    let mut h: Vec<(String, String)> = vec![(":status".to_string(), status.to_string())];
    h.extend(extra.iter().cloned());
    let headers: Headers = h.into_iter().collect();
    frame_bytes(&headers.generate_frame())
}

/// read from a quinn recv stream until one complete frame is parsed (Exercise frames skipped)
pub async fn read_one_frame(recv: &mut quinn::RecvStream) -> Result<(u64, Vec<u8>), String> {
    let mut buf: Vec<u8> = vec![];
    let mut chunk = [0u8; 2048];
    loop {
        {
            let mut r: &[u8] = &buf;
            match Frame::read(&mut r) {
                Ok(Some(fr)) => {
                    let consumed = buf.len() - r.len();
                    let kind = match fr.kind() {
                        wtransport::proto::frame::FrameKind::Data => 0,
                        wtransport::proto::frame::FrameKind::Headers => 1,
                        wtransport::proto::frame::FrameKind::Settings => 4,
                        wtransport::proto::frame::FrameKind::WebTransport => 0x41,
                        wtransport::proto::frame::FrameKind::Exercise(_) => {
                            buf.drain(..consumed);
                            continue;
                        }
                    };
                    return Ok((kind, fr.payload().to_vec()));
                }
                Ok(None) => {}
                Err(e) => return Err(format!("frame parse error: {:?}", e)),
            }
        }
        match tokio::time::timeout(T_CALL, recv.read(&mut chunk)).await {
            Ok(Ok(Some(n))) => buf.extend(&chunk[..n]),
            Ok(Ok(None)) => return Err("fin".into()),
            Ok(Err(e)) => return Err(format!("read error: {}", e)),
            Err(_) => return Err("timeout".into()),
        }
    }
}

pub struct RawSession {
    pub conn: quinn::Connection,
    pub control: quinn::SendStream,
    pub connect_send: quinn::SendStream,
    pub connect_recv: quinn::RecvStream,
    pub session_id: u64,
    pub status: String,
}

/// The library in the client role against a raw server: the raw side opens its control stream,
/// reads the CONNECT request and answers 200.  Returns the client's connection, the raw side of the
/// session (connect_send = the response direction of the request stream) and both endpoints.
pub async fn client_establish(path: &str, transport: Option<quinn::TransportConfig>) -> Result<(wtransport::Connection, RawSession, quinn::Endpoint, Endpoint<Client>), String> {
    let (rep, addr) = raw_server(None);
    let client = match transport {
        None => wt_client(),
        Some(t) => {
            let tls = wtransport::tls::client::build_default_tls_config(
                Arc::new(rustls::RootCertStore::empty()),
                Some(Arc::new(wtransport::tls::client::NoServerVerification::new())),
            );
            let cfg = ClientConfig::builder().with_bind_address("127.0.0.1:0".parse().unwrap()).with_custom_tls_and_transport(tls, t).build();
            Endpoint::client(cfg).map_err(|e| e.to_string())?
        }
    };
    let url = format!("https://127.0.0.1:{}{}", addr.port(), path);
    let raw_side = async {
        let incoming = tokio::time::timeout(T_CALL, rep.accept()).await.map_err(|_| "no incoming".to_string())?.ok_or("endpoint closed")?;
        let conn = tokio::time::timeout(T_CALL, incoming).await.map_err(|_| "handshake timeout".to_string())?.map_err(|e| e.to_string())?;
        let mut control = conn.open_uni().await.map_err(|e| e.to_string())?;
        control.write_all(&peer_control_bytes()).await.map_err(|e| e.to_string())?;
        let (mut s, mut r) = tokio::time::timeout(T_CALL, conn.accept_bi()).await.map_err(|_| "no request stream".to_string())?.map_err(|e| e.to_string())?;
        let session_id: u64 = quinn::VarInt::from(s.id()).into_inner();
        let (kind, _payload) = read_one_frame(&mut r).await?;
        if kind != 1 {
            return Err(format!("request is frame kind {}", kind));
        }
        s.write_all(&response_bytes("200", &[])).await.map_err(|e| e.to_string())?;
        Ok(RawSession { conn, control, connect_send: s, connect_recv: r, session_id, status: "200".into() })
    };
    let (raw, c) = tokio::join!(raw_side, tokio::time::timeout(T_CALL, client.connect(&url)));
    let raw = raw?;
    let c = c.map_err(|_| "connect timeout".to_string())?.map_err(|e| e.to_string())?;
    Ok((c, raw, rep, client))
}

/// raw client: connect, open control stream, send the request, read the response
pub async fn raw_establish(ep: &quinn::Endpoint, addr: SocketAddr, path: &str) -> Result<RawSession, String> {
    let conn = tokio::time::timeout(T_CALL, ep.connect(addr, "localhost").map_err(|e| e.to_string())?)
        .await
        .map_err(|_| "connect timeout".to_string())?
        .map_err(|e| e.to_string())?;
    raw_establish_on(conn, path).await
}

pub async fn raw_establish_on(conn: quinn::Connection, path: &str) -> Result<RawSession, String> {
    let mut control = conn.open_uni().await.map_err(|e| e.to_string())?;
    control.write_all(&peer_control_bytes()).await.map_err(|e| e.to_string())?;
    let (mut s, mut r) = conn.open_bi().await.map_err(|e| e.to_string())?;
    s.write_all(&request_bytes(path, &[])).await.map_err(|e| e.to_string())?;
    let session_id: u64 = quinn::VarInt::from(s.id()).into_inner();
    let (kind, payload) = read_one_frame(&mut r).await?;
    if kind != 1 {
        return Err(format!("response is frame kind {}", kind));
    }
    let headers = Headers::with_frame(&Frame::new_headers(payload.into())).map_err(|e| format!("{:?}", e))?;
    let status = headers.get(":status").unwrap_or("").to_string();
    Ok(RawSession { conn, control, connect_send: s, connect_recv: r, session_id, status })
}

/// server application: accept one session
pub async fn wt_accept(server: &Endpoint<Server>) -> Result<wtransport::Connection, String> {
    let incoming = tokio::time::timeout(T_CALL, server.accept()).await.map_err(|_| "accept timeout".to_string())?;
    let req = tokio::time::timeout(T_CALL, incoming)
        .await
        .map_err(|_| "session request timeout".to_string())?
        .map_err(|e| format!("incoming: {}", e))?;
    let conn = tokio::time::timeout(T_CALL, req.accept())
        .await
        .map_err(|_| "accept timeout".to_string())?
        .map_err(|e| format!("accept: {}", e))?;
    Ok(conn)
}

// ---------- canonical encodings of what is observed ----------

pub fn h3_name_idx(name: &str) -> u64 {
    const NAMES: [&str; 15] = [
        "DatagramError", "NoError", "StreamCreationError", "ClosedCriticalStreamError", "FrameUnexpectedError",
        "FrameError", "ExcessiveLoad", "IdError", "SettingsError", "MissingSettingsError", "RequestRejectedError",
        "MessageError", "DecompressionError", "BufferedStreamRejected", "SessionGone",
    ];
    NAMES.iter().position(|n| *n == name).map(|p| p as u64).unwrap_or(99)
}

/// ConnectionError -> (head list, reason bytes)
pub fn enc_conn_err(e: &wtransport::error::ConnectionError) -> (Vec<u64>, Vec<u64>) {
    use wtransport::error::ConnectionError as E;
    match e {
        E::ApplicationClosed(c) => (vec![1, c.code().into_inner()], c.reason().iter().map(|b| *b as u64).collect()),
        E::LocalH3Error(h) => (vec![2, h3_name_idx(&h.to_string())], vec![]),
        E::LocallyClosed => (vec![3], vec![]),
        E::TimedOut => (vec![4], vec![]),
        E::ConnectionClosed(_) => (vec![5], vec![]),
        E::QuicProto(_) => (vec![6], vec![]),
        E::CidsExhausted => (vec![7], vec![]),
    }
}
pub const TAG_OK: u64 = 0;
pub const TAG_PENDING: u64 = 8; // the call did not complete within the observation window

/// how the raw peer saw the connection end
pub fn enc_quinn_close(e: &quinn::ConnectionError) -> (Vec<u64>, Vec<u64>) {
    match e {
        quinn::ConnectionError::ApplicationClosed(c) => (
            vec![1, c.error_code.into_inner()],
            c.reason.iter().map(|b| *b as u64).collect(),
        ),
        quinn::ConnectionError::LocallyClosed => (vec![3], vec![]),
        quinn::ConnectionError::TimedOut => (vec![4], vec![]),
        quinn::ConnectionError::ConnectionClosed(_) => (vec![5], vec![]),
        quinn::ConnectionError::Reset => (vec![6], vec![]),
        quinn::ConnectionError::TransportError(_) => (vec![6], vec![]),
        quinn::ConnectionError::VersionMismatch => (vec![6], vec![]),
        quinn::ConnectionError::CidsExhausted => (vec![7], vec![]),
    }
}

pub async fn raw_wait_closed(conn: &quinn::Connection, wait: Duration) -> (Vec<u64>, Vec<u64>) {
    match tokio::time::timeout(wait, conn.closed()).await {
        Ok(e) => enc_quinn_close(&e),
        Err(_) => (vec![TAG_PENDING], vec![]),
    }
}

pub fn b2a(bs: &[u8]) -> Vec<u64> {
    bs.iter().map(|b| *b as u64).collect()
}
pub fn a2b(a: &[u64]) -> Vec<u8> {
    a.iter().map(|b| *b as u8).collect()
}

/// A UDP relay between a client and `server` that can be told to drop every packet (both
/// directions): the only way to keep stream data unacknowledged on loopback.
pub struct Relay {
    pub addr: SocketAddr,
    pub dropping: Arc<std::sync::atomic::AtomicBool>,
    task: tokio::task::JoinHandle<()>,
}
impl Drop for Relay {
    fn drop(&mut self) {
        self.task.abort();
    }
}
pub async fn relay(server: SocketAddr) -> Relay {
    use std::sync::atomic::Ordering;
    let sock = tokio::net::UdpSocket::bind("127.0.0.1:0").await.expect("relay socket");
    let addr = sock.local_addr().unwrap();
    let dropping = Arc::new(std::sync::atomic::AtomicBool::new(false));
    let d2 = dropping.clone();
    let task = tokio::spawn(async move {
        let mut client: Option<SocketAddr> = None;
        let mut buf = vec![0u8; 65536];
        loop {
            let (n, from) = match sock.recv_from(&mut buf).await { Ok(x) => x, Err(_) => return };
            if d2.load(Ordering::SeqCst) {
                continue;
            }
            if from == server {
                if let Some(c) = client {
                    let _ = sock.send_to(&buf[..n], c).await;
                }
            } else {
                client = Some(from);
                let _ = sock.send_to(&buf[..n], server).await;
            }
        }
    });
    Relay { addr, dropping, task }
}
