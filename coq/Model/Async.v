(* Async.v -- mirrors the async half of wtransport-proto/src/bytes.rs
   (GetVarint / GetBuffer as explicit poll machines over a scheduled source)
   and the async readers of frame.rs / stream_header.rs, which are written over
   the completed-read semantics [a_get_varint] / [a_get_buffer]
   (Proofs/AsyncP.v shows the machines refine them for every schedule). *)
From WT.Model Require Import Base Varint Ids Frame.

(* ---------- the source (what AsyncRead::poll_read can do) ---------- *)
Inductive ev := Chunk (n : nat) (* ready: delivers min(max(n,1), |buf|, available) bytes *)
              | Pend.           (* Poll::Pending once, nothing consumed *)
Inductive term := Fin | Reset | Lost.   (* Ok(0) | ConnectionReset | NotConnected *)
Record src := mksrc { sdata : bytes; ssched : list ev; sterm : term }.

Inductive ioerr := ImmediateFin | UnexpectedFin | IoReset | IoLost.

Inductive pr := PrPending | PrData (got : bytes) | PrEof | PrErr (e : ioerr).

Definition deliver (n want : nat) (s : src) (sch : list ev) : pr * src :=
  match sdata s with
  | [] => (match sterm s with Fin => PrEof | Reset => PrErr IoReset | Lost => PrErr IoLost end,
           mksrc [] sch (sterm s))
  | _ => let k := Nat.min (Nat.max n 1) (Nat.min want (length (sdata s))) in
         (PrData (firstn k (sdata s)), mksrc (skipn k (sdata s)) sch (sterm s))
  end.

(* one poll_read with a destination of [want] >= 1 bytes; an exhausted
   schedule delivers whatever fits *)
Definition poll_read (want : nat) (s : src) : pr * src :=
  match ssched s with
  | [] => deliver want want s []
  | Pend :: sch => (PrPending, mksrc (sdata s) sch (sterm s))
  | Chunk n :: sch => deliver n want s sch
  end.

Inductive poll (A : Type) := Pending | Ready (a : A).
Arguments Pending {A}. Arguments Ready {A} a.

(* ---------- GetBuffer (bytes.rs:563-612): fields buffer(len), offset ---------- *)
(* state = bytes read so far; offset = its length *)
Fixpoint gb_poll (fuel : nat) (want : nat) (got : bytes) (s : src)
  : poll (ioerr + bytes) * bytes * src :=
  match fuel with
  | O => (Pending, got, s)
  | S f =>
      if (length got <? want)%nat then
        match poll_read (want - length got) s with
        | (PrPending, s') => (Pending, got, s')
        | (PrData d, s') => gb_poll f want (got ++ d) s'
        | (PrEof, s') => (Ready (inl (match got with [] => ImmediateFin | _ => UnexpectedFin end)), got, s')
        | (PrErr e, s') => (Ready (inl e), got, s')
        end
      else (Ready (inr got), got, s)
  end.

(* ---------- GetVarint (bytes.rs:481-561): fields buffer, offset, varint_size ---------- *)
Record gv := mkgv { gv_got : bytes; gv_size : nat }.
Definition gv_init : gv := mkgv [] 0.

Definition varint_of (bs : bytes) : N :=
  match get_varint bs with Some (v, _) => v | None => 0 end.

Fixpoint gv_rest (fuel : nat) (st : gv) (s : src) : poll (ioerr + N) * gv * src :=
  match fuel with
  | O => (Pending, st, s)
  | S f =>
      if (length (gv_got st) <? gv_size st)%nat then
        match poll_read (gv_size st - length (gv_got st)) s with
        | (PrPending, s') => (Pending, st, s')
        | (PrData d, s') => gv_rest f (mkgv (gv_got st ++ d) (gv_size st)) s'
        | (PrEof, s') => (Ready (inl UnexpectedFin), st, s')
        | (PrErr e, s') => (Ready (inl e), st, s')
        end
      else (Ready (inr (varint_of (gv_got st))), st, s)
  end.

Definition gv_poll (st : gv) (s : src) : poll (ioerr + N) * gv * src :=
  match gv_got st with
  | [] =>
      match poll_read 1 s with
      | (PrPending, s') => (Pending, st, s')
      | (PrData d, s') =>
          let st' := mkgv d (parse_size (hd 0 d)) in
          gv_rest 9 st' s'
      | (PrEof, s') => (Ready (inl ImmediateFin), st, s')
      | (PrErr e, s') => (Ready (inl e), st, s')
      end
  | _ => gv_rest 9 st s
  end.

(* poll a machine to completion: the executor re-polls after every Pending *)
Fixpoint drive {St A} (fuel : nat) (step : St -> src -> poll A * St * src) (st : St) (s : src)
  : option (A * src) :=
  match fuel with
  | O => None
  | S f => match step st s with
           | (Ready a, _, s') => Some (a, s')
           | (Pending, st', s') => drive f step st' s'
           end
  end.

(* ---------- completed-read semantics: depends on the data and terminal only ---------- *)
Inductive ares (A E : Type) :=
| AOk (a : A) (rest : bytes)
| AParse (e : E) (rest : bytes)
| AIo (e : ioerr) (rest : bytes).
Arguments AOk {A E} a rest. Arguments AParse {A E} e rest. Arguments AIo {A E} e rest.

Definition eof_err (t : term) (first : bool) : ioerr :=
  match t with
  | Fin => if first then ImmediateFin else UnexpectedFin
  | Reset => IoReset
  | Lost => IoLost
  end.

Definition a_get_varint {E} (d : bytes) (t : term) : ares N E :=
  match d with
  | [] => AIo (eof_err t true) []
  | b :: _ =>
      let n := parse_size b in
      if (length d <? n)%nat then AIo (eof_err t false) []
      else AOk (varint_of (firstn n d)) (skipn n d)
  end.

Definition a_get_buffer {E} (n : nat) (d : bytes) (t : term) : ares bytes E :=
  match n with
  | O => AOk [] d
  | _ => if (length d <? n)%nat
         then AIo (eof_err t (match d with [] => true | _ => false end)) []
         else AOk (firstn n d) (skipn n d)
  end.

Definition map_imm (e : ioerr) : ioerr :=
  match e with ImmediateFin => UnexpectedFin | _ => e end.

(* the unknown-frame skip loop of Frame::read_async: chunks of <= 256 bytes *)
Fixpoint skip_loop (fuel : nat) (remaining : N) (d : bytes) (t : term) : ares frame perr :=
  match fuel with
  | O => AIo IoLost d (* out of fuel: excluded by the theorems *)
  | S f =>
      if remaining =? 0 then AParse PUnknown d
      else
        let n := N.min remaining 256 in
        match @a_get_buffer perr (N.to_nat n) d t with
        | AOk _ r => skip_loop f (remaining - n) r t
        | AParse e r => AParse e r
        | AIo e r => AIo (map_imm e) r
        end
  end.

(* Frame::read_async (after the unknown-frame repair) *)
Definition frame_read_async (d : bytes) (t : term) : ares frame perr :=
  match @a_get_varint perr d t with
  | AIo e r => AIo e r
  | AParse e r => AParse e r
  | AOk id r1 =>
      match fkind_parse id with
      | None =>
          match @a_get_varint perr r1 t with
          | AIo e r => AIo (map_imm e) r
          | AParse e r => AParse e r
          | AOk l r2 => skip_loop (S (length r2)) l r2 t
          end
      | Some KWebTransport =>
          match @a_get_varint perr r1 t with
          | AIo e r => AIo (map_imm e) r
          | AParse e r => AParse e r
          | AOk s r2 =>
              if session_ok s then AOk (mkframe KWebTransport [] (Some s)) r2
              else AParse PInvalidSessionId r2
          end
      | Some k =>
          match @a_get_varint perr r1 t with
          | AIo e r => AIo (map_imm e) r
          | AParse e r => AParse e r
          | AOk l r2 =>
              if max_parse_payload <? l then AParse PPayloadTooBig r2
              else match @a_get_buffer perr (N.to_nat l) r2 t with
                   | AIo e r => AIo (map_imm e) r
                   | AParse e r => AParse e r
                   | AOk p r3 => AOk (mkframe k p None) r3
                   end
          end
      end
  end.

(* StreamHeader::read_async *)
Definition sheader_read_async (d : bytes) (t : term) : ares sheader sperr :=
  match @a_get_varint sperr d t with
  | AIo e r => AIo e r
  | AParse e r => AParse e r
  | AOk id r1 =>
      match skind_parse id with
      | None => AParse SPUnknown r1
      | Some SWebTransport =>
          match @a_get_varint sperr r1 t with
          | AIo e r => AIo (map_imm e) r
          | AParse e r => AParse e r
          | AOk s r2 =>
              if session_ok s then AOk (mksheader SWebTransport (Some s)) r2
              else AParse SPInvalidSessionId r2
          end
      | Some k => AOk (mksheader k None) r1
      end
  end.

(* ---------- writers: PutVarint / PutBuffer over a sink accepting
   [sched] bytes per write (0 = Pending) then everything ---------- *)
Fixpoint put_buffer_async (fuel : nat) (bs : bytes) (sched : list nat) (out : bytes) : option bytes :=
  match fuel with
  | O => None
  | S f =>
      match bs with
      | [] => Some out
      | _ =>
          match sched with
          | [] => Some (out ++ bs)
          | O :: sch => put_buffer_async f bs sch out          (* Pending; re-polled *)
          | n :: sch => let k := Nat.min n (length bs) in
                        put_buffer_async f (skipn k bs) sch (out ++ firstn k bs)
          end
      end
  end.
