(* Closing.v -- how a pending or later accept call learns that the connection has ended
   (driver/mod.rs: Driver::accept_uni / accept_bi: `lock.recv().await` returns None once EVERY sender of
   that channel is gone, then the call reports the driver's result).  Who holds a sender of the
   application channel of kind k: the worker (until it ends) and every per-stream task of kind k, from the
   moment it is spawned until it has delivered its stream or given up (worker accept_uni / accept_bi clone
   the senders into the task).  A task parked on a full channel therefore keeps ITS OWN kind's channel
   open -- and must not keep the other kind's. *)
From WT.Model Require Import Base.

Inductive kind := KUni | KBi.

Record kst := mkkst {
  kchan : list N;      (* streams in the application channel *)
  kparked : list N;    (* tasks whose preamble is parsed, waiting for a slot (they hold a sender) *)
  kreading : list N    (* tasks still reading their preamble (they hold a sender) *)
}.
Record cst := mkcst { cuni : kst; cbi : kst; worker_alive : bool }.

Definition kof (k : kind) (s : cst) : kst := match k with KUni => cuni s | KBi => cbi s end.
Definition with_k (k : kind) (s : cst) (x : kst) : cst :=
  match k with KUni => mkcst x (cbi s) (worker_alive s) | KBi => mkcst (cuni s) x (worker_alive s) end.

(* senders of channel k that are still alive *)
Definition senders_alive (k : kind) (s : cst) : bool :=
  worker_alive s || negb (match kparked (kof k s), kreading (kof k s) with [], [] => true | _, _ => false end).

Inductive aout := AItem (id : N) | APending | AErr.

(* one poll of an accept call of kind k *)
Definition accept (k : kind) (s : cst) : cst * aout :=
  match kchan (kof k s) with
  | id :: c => (with_k k s (mkkst c (kparked (kof k s)) (kreading (kof k s))), AItem id)
  | [] => (s, if senders_alive k s then APending else AErr)
  end.

(* a parked task moves its stream into the channel when there is room, and ends (dropping its sender) *)
Definition task_send (cap : nat) (k : kind) (s : cst) : cst :=
  match kparked (kof k s) with
  | id :: p => if (length (kchan (kof k s)) <? cap)%nat
               then with_k k s (mkkst (kchan (kof k s) ++ [id]) p (kreading (kof k s)))
               else s
  | [] => s
  end.

(* the worker ends; the transport is closed, so every task still reading its preamble gives up *)
Definition worker_exit (s : cst) : cst :=
  mkcst (mkkst (kchan (cuni s)) (kparked (cuni s)) []) (mkkst (kchan (cbi s)) (kparked (cbi s)) []) false.

(* the application keeps calling accept of kind k; between calls the parked tasks use the room *)
Fixpoint drain_calls (cap : nat) (k : kind) (n : nat) (s : cst) : list aout :=
  match n with
  | O => []
  | S m => let (s1, x) := accept k (task_send cap k s) in x :: drain_calls cap k m s1
  end.

(* ---- the mutant design (seeded change C09-5): every task holds the senders of BOTH kinds ---- *)
Definition senders_alive_shared (k : kind) (s : cst) : bool :=
  worker_alive s ||
  negb (match kparked (cuni s), kreading (cuni s), kparked (cbi s), kreading (cbi s) with
        | [], [], [], [] => true | _, _, _, _ => false end).
Definition accept_shared (k : kind) (s : cst) : cst * aout :=
  match kchan (kof k s) with
  | id :: c => (with_k k s (mkkst c (kparked (kof k s)) (kreading (kof k s))), AItem id)
  | [] => (s, if senders_alive_shared k s then APending else AErr)
  end.
