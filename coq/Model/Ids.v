(* Ids.v -- mirrors wtransport-proto/src/ids.rs *)
From WT.Model Require Import Base Varint.

(* StreamId bit tests (ids.rs:19-35): bit 0 initiator, bit 1 direction *)
Definition is_bidirectional (x : N) : bool := N.land x 2 =? 0.
Definition is_client_initiated (x : N) : bool := N.land x 1 =? 0.
Definition is_local (x : N) (is_server : bool) : bool :=
  N.land x 1 =? (if is_server then 1 else 0).

(* SessionId::try_from_session_stream / try_from_varint (ids.rs:107-131) *)
Definition session_ok (x : N) : bool := is_bidirectional x && is_client_initiated x.
Definition session_try_from (x : N) : option N := if session_ok x then Some x else None.

(* QStreamId (ids.rs:157-221) *)
Definition qstream_max : N := 1152921504606846975. (* 2^60 - 1 *)
Definition q_from_session (s : N) : N := N.shiftr s 2.
Definition q_into_stream (q : N) : N := N.shiftl q 2.
Definition q_try_from_varint (v : N) : option N := if v <=? qstream_max then Some v else None.

(* debug_assert preconditions of the unsafe constructors, as booleans *)
Definition q_from_session_assert (s : N) : bool := q_from_session s <=? qstream_max.
Definition q_into_stream_assert (q : N) : bool := q_into_stream q <=? varint_max.

(* StatusCode (ids.rs:245-345), after the range repair of FromStr/Default *)
Definition status_min : N := 100.
Definition status_max : N := 599.
Definition status_in_range (v : N) : bool := (status_min <=? v) && (v <=? status_max).
Definition status_try_from (v : N) : option N := if status_in_range v then Some v else None.
Definition status_default : N := 200.
Definition status_is_successful (v : N) : bool := (200 <=? v) && (v <? 300).

(* Rust's u16::from_str on a byte string: optional single leading '+', then
   one or more ASCII digits, value must fit u16; anything else is an error. *)
Definition is_digit (c : N) : bool := (48 <=? c) && (c <=? 57).
Fixpoint digits_val (acc : N) (s : bytes) : option N :=
  match s with
  | [] => Some acc
  | c :: r => if is_digit c then
                let acc' := acc * 10 + (c - 48) in
                if 65535 <? acc' then None else digits_val acc' r
              else None
  end.
Definition parse_u16 (s : bytes) : option N :=
  match s with
  | [] => None
  | 43 :: [] => None
  | 43 :: r => digits_val 0 r
  | _ => digits_val 0 s
  end.
Definition status_from_str (s : bytes) : option N :=
  match parse_u16 s with
  | None => None
  | Some v => status_try_from v
  end.

(* the pre-repair behaviour, kept for Legacy refutation *)
Definition status_from_str_legacy (s : bytes) : option N := parse_u16 s.
Definition status_default_legacy : N := 0.

(* decimal rendering (Display for u16 / StatusCode::to_string) *)
Fixpoint show_dec_fuel (fuel : nat) (v : N) (acc : bytes) : bytes :=
  match fuel with
  | O => acc
  | S f => let acc' := (48 + v mod 10) :: acc in
           if v / 10 =? 0 then acc' else show_dec_fuel f (v / 10) acc'
  end.
Definition show_dec (v : N) : bytes := show_dec_fuel 20 v [].
