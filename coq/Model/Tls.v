(* Tls.v -- mirrors wtransport/src/tls.rs: ServerHashVerification::verify_server_cert (827-889, after the
   single-instant repair), Sha256Digest::{fmt, from_str_fmt, FromStr} (467-533, 573-580), pem_encode as used by
   to_pem / to_secret_pem, the self-signed identity builder (1100-1232, record level), and
   wtransport/src/config.rs: IpBindConfig (100-119), bind_socket (1163-1192), max_idle_timeout (581-593). *)
From WT.Model Require Import Base Varint Ids.

(* ---------- certificate-hash pinning ---------- *)
Inductive pinres := PinOk | PinNotValidYet | PinExpired | PinUnknownIssuer | PinBadEncoding.
Record certv := mkcertv { c_parse_ok : bool; c_nb : N; c_na : N; c_is_ec : bool; c_is_p256 : bool }.
Definition max_validity : N := 1209600. (* 14 days in seconds *)

Definition pin_verify (c : certv) (now : N) (hash_in_set : bool) : pinres :=
  if negb (c_parse_ok c) then PinBadEncoding
  else if now <? c_nb c then PinNotValidYet
  else if c_na c <? now then PinExpired
  else if negb (c_na c =? c_nb c) && negb ((c_nb c <? c_na c) && (c_na c - c_nb c <=? max_validity)) then PinUnknownIssuer
  else if negb (c_is_ec c) then PinUnknownIssuer
  else if negb (c_is_p256 c) then PinUnknownIssuer
  else if hash_in_set then PinOk
  else PinUnknownIssuer.

(* the code before the repair: not_after - not_before is None unless strictly greater *)
Definition pin_verify_legacy (c : certv) (now : N) (hash_in_set : bool) : pinres :=
  if negb (c_parse_ok c) then PinBadEncoding
  else if now <? c_nb c then PinNotValidYet
  else if c_na c <? now then PinExpired
  else if negb ((c_nb c <? c_na c) && (c_na c - c_nb c <=? max_validity)) then PinUnknownIssuer
  else if negb (c_is_ec c) then PinUnknownIssuer
  else if negb (c_is_p256 c) then PinUnknownIssuer
  else if hash_in_set then PinOk
  else PinUnknownIssuer.

(* ---------- generated identities (record level) ---------- *)
(* Identity::self_signed / validity_days(n): P-256, not_after = not_before + n days *)
Definition identity_cert (nb : N) (days : N) : certv := mkcertv true nb (nb + days * 86400) true true.

(* ---------- digests as text ---------- *)
Fixpoint intercalate (sep : bytes) (xs : list bytes) : bytes :=
  match xs with
  | [] => []
  | [x] => x
  | x :: r => x ++ sep ++ intercalate sep r
  end.

Definition hex_digit (v : N) : N := if v <? 10 then 48 + v else 87 + v. (* lowercase *)
Definition hex2 (b : N) : bytes := [hex_digit (b / 16); hex_digit (b mod 16)].

Definition fmt_array (d : bytes) : bytes := [91] ++ intercalate [44; 32] (map show_dec d) ++ [93].
Definition fmt_hex (d : bytes) : bytes := intercalate [58] (map hex2 d).

Fixpoint split_on (sep : N) (s : bytes) (cur : bytes) : list bytes :=
  match s with
  | [] => [cur]
  | c :: r => if c =? sep then cur :: split_on sep r [] else split_on sep r (cur ++ [c])
  end.

Definition is_ws (c : N) : bool := (c =? 32) || ((9 <=? c) && (c <=? 13)).
Fixpoint trim_start (s : bytes) : bytes :=
  match s with c :: r => if is_ws c then trim_start r else s | [] => [] end.
Definition trim (s : bytes) : bytes := rev (trim_start (rev (trim_start s))).

Fixpoint trim_start_ch (ch : N) (s : bytes) : bytes :=
  match s with c :: r => if c =? ch then trim_start_ch ch r else s | [] => [] end.
Definition trim_end_ch (ch : N) (s : bytes) : bytes := rev (trim_start_ch ch (rev s)).

(* u8::from_str: optional '+', decimal digits, <= 255 *)
Fixpoint dec_val (acc : N) (s : bytes) : option N :=
  match s with
  | [] => Some acc
  | c :: r => if is_digit c then let a := acc * 10 + (c - 48) in if 255 <? a then None else dec_val a r else None
  end.
Definition parse_u8 (s : bytes) : option N :=
  match s with [] => None | [43] => None | 43 :: r => dec_val 0 r | _ => dec_val 0 s end.
(* u8::from_str_radix(_, 16) *)
Definition hex_val (c : N) : option N :=
  if is_digit c then Some (c - 48)
  else if (97 <=? c) && (c <=? 102) then Some (c - 87)
  else if (65 <=? c) && (c <=? 70) then Some (c - 55)
  else None.
Fixpoint hexs_val (acc : N) (s : bytes) : option N :=
  match s with
  | [] => Some acc
  | c :: r => match hex_val c with
              | Some v => let a := acc * 16 + v in if 255 <? a then None else hexs_val a r
              | None => None
              end
  end.
Definition parse_hex_u8 (s : bytes) : option N :=
  match s with [] => None | [43] => None | 43 :: r => hexs_val 0 r | _ => hexs_val 0 s end.

Fixpoint all_some {A} (l : list (option A)) : option (list A) :=
  match l with
  | [] => Some []
  | Some x :: r => match all_some r with Some xs => Some (x :: xs) | None => None end
  | None :: _ => None
  end.
Definition want32 (o : option bytes) : option bytes :=
  match o with Some l => if Nat.eqb (length l) 32 then Some l else None | None => None end.

Definition parse_array (s : bytes) : option bytes :=
  want32 (all_some (map (fun p => parse_u8 (trim p)) (split_on 44 (trim_end_ch 93 (trim_start_ch 91 s)) []))).
Definition parse_dotted_hex (s : bytes) : option bytes :=
  want32 (all_some (map (fun p => parse_hex_u8 (trim p)) (split_on 58 s []))).
Definition digest_from_str (s : bytes) : option bytes :=
  match parse_array s with Some d => Some d | None => parse_dotted_hex s end.

(* ---------- Base64 / PEM ---------- *)
Definition b64_char (v : N) : N :=
  if v <? 26 then 65 + v else if v <? 52 then 71 + v else if v <? 62 then v - 4 else if v =? 62 then 43 else 47.
Fixpoint b64_encode (bs : bytes) : bytes :=
  match bs with
  | a :: b :: c :: r =>
      let n := a * 65536 + b * 256 + c in
      b64_char (n / 262144) :: b64_char ((n / 4096) mod 64) :: b64_char ((n / 64) mod 64) :: b64_char (n mod 64) :: b64_encode r
  | [a; b] =>
      let n := a * 65536 + b * 256 in
      [b64_char (n / 262144); b64_char ((n / 4096) mod 64); b64_char ((n / 64) mod 64); 61]
  | [a] =>
      let n := a * 65536 in
      [b64_char (n / 262144); b64_char ((n / 4096) mod 64); 61; 61]
  | [] => []
  end.
Definition b64_val (c : N) : option N :=
  if (65 <=? c) && (c <=? 90) then Some (c - 65)
  else if (97 <=? c) && (c <=? 122) then Some (c - 71)
  else if is_digit c then Some (c + 4)
  else if c =? 43 then Some 62 else if c =? 47 then Some 63 else None.
Definition b64_group (a b c d : N) : option bytes :=
  match b64_val a, b64_val b, b64_val c, b64_val d with
  | Some x, Some y, Some z, Some w =>
      let n := x * 262144 + y * 4096 + z * 64 + w in Some [n / 65536; (n / 256) mod 256; n mod 256]
  | _, _, _, _ => None
  end.
Fixpoint b64_decode (fuel : nat) (s : bytes) : option bytes :=
  match fuel with
  | O => None
  | S f =>
      match s with
      | [] => Some []
      | a :: b :: c :: d :: r =>
          if match r with [] => (c =? 61) && (d =? 61) | _ => false end then
            match b64_val a, b64_val b with
            | Some x, Some y => Some [(x * 4 + y / 16) mod 256]
            | _, _ => None
            end
          else if match r with [] => d =? 61 | _ => false end then
            match b64_val a, b64_val b, b64_val c with
            | Some x, Some y, Some z => let n := x * 4096 + y * 64 + z in Some [n / 1024; (n / 4) mod 256]
            | _, _, _ => None
            end
          else
            match b64_group a b c d, b64_decode f r with
            | Some g, Some rest => Some (g ++ rest)
            | _, _ => None
            end
      | _ => None
      end
  end.

Fixpoint wrap64 (fuel : nat) (s : bytes) : bytes :=
  match fuel with
  | O => []
  | S f => match s with
           | [] => []
           | _ => firstn 64 s ++ [13; 10] ++ wrap64 f (skipn 64 s)
           end
  end.
Definition dashes : bytes := [45; 45; 45; 45; 45].
Definition pem_encode (label data : bytes) : bytes :=
  dashes ++ [66; 69; 71; 73; 78; 32] ++ label ++ dashes ++ [13; 10] ++
  (let b := b64_encode data in wrap64 (S (length b)) b) ++
  dashes ++ [69; 78; 68; 32] ++ label ++ dashes ++ [13; 10].

(* ---------- configuration ---------- *)
Inductive preset := LocalV4 | LocalV6 | LocalDual | AnyV4 | AnyV6 | AnyDual.
Inductive dualcfg := OsDefault | Deny | Allow.
Inductive ipk := Ip4Localhost | Ip4Unspecified | Ip6Localhost | Ip6Unspecified.
Definition preset_ip (p : preset) : ipk :=
  match p with
  | LocalV4 => Ip4Localhost | LocalV6 | LocalDual => Ip6Localhost
  | AnyV4 => Ip4Unspecified | AnyV6 | AnyDual => Ip6Unspecified
  end.
Definition preset_dual (p : preset) : dualcfg :=
  match p with
  | LocalV4 | AnyV4 => OsDefault | LocalV6 | AnyV6 => Deny | LocalDual | AnyDual => Allow
  end.
(* bind_socket: IPV6_V6ONLY is Some true / Some false / left to the OS *)
Definition v6only (d : dualcfg) : option bool :=
  match d with OsDefault => None | Deny => Some true | Allow => Some false end.
(* max_idle_timeout(Some d): quinn::IdleTimeout::try_from(d) = VarInt::try_from(d.as_millis()) *)
Definition idle_ms (secs nanos : N) : N := secs * 1000 + nanos / 1000000.
Definition idle_accept (secs nanos : N) : option N :=
  let ms := idle_ms secs nanos in if ms <? two62 then Some ms else None.
