(* Runner.v -- mirrors the driver's reaction logic (wtransport/src/driver):
   streams/settings.rs (RemoteSettingsStream::run), streams/qpack.rs,
   streams/connect.rs (ConnectStream::run), mod.rs accept tasks and
   handle_uni_h3_stream / handle_bi_h3_stream, endpoint.rs:348-403 (client's
   response loop) -- as functions from the bytes a peer sends on a stream (and
   how the stream ends) to the endpoint's reaction. *)
From WT.Model Require Import Base Varint Ids Frame Async StreamTS Wire Qpack Session.

Inductive reaction :=
| RPending                       (* keeps waiting: nothing decided yet (stream still open) *)
| RContinue                      (* element accepted / ignored, connection goes on *)
| RRefuse (e : ecode)            (* that one stream is stopped with this code *)
| RIgnoreStream (e : ecode)      (* unknown uni stream: reading aborted with this code, nothing else *)
| RClose (e : ecode)             (* connection closed with this code *)
| RAppClosed (code : N) (reason : bytes)
| RNotConnected
| RDropped                       (* the per-stream task ends silently (I/O error before the preamble) *)
| ROfferSession (req : hmap)     (* request handed to the application *)
| RHandWT (sid : N) (rest : bytes). (* WebTransport stream handed over with its remaining bytes *)

(* how a stream's byte history ends, as the reader sees it *)
Definition term_of_end (t : term) := t.

(* ---------- control stream: RemoteSettingsStream::run ---------- *)
(* returns the reaction and the settings published (if any) *)
Fixpoint settings_run (fuel : nat) (have : option smap) (d : bytes) (t : term) : reaction * option smap :=
  match fuel with
  | O => (RPending, have)
  | S f =>
      match read_frame_async (fuel_for d) TUniRemote false d t with
      | ATFrame fr r _ =>
          match have with
          | None =>
              match fk fr with
              | KSettings =>
                  match settings_with_frame (fpayload fr) with
                  | Val m => settings_run f (Some m) r t
                  | Err e => (RClose e, have)
                  | _ => (RClose EFrame, have)
                  end
              | _ => (RClose EMissingSettings, have)
              end
          | Some _ =>
              match fk fr with
              | KExercise _ => settings_run f have r t
              | _ => (RClose EFrameUnexpected, have)
              end
          end
      | ATH3 e _ _ => (RClose e, have)
      | ATIo IoLost _ _ => (RNotConnected, have)
      | ATIo _ _ _ => (RClose EClosedCriticalStream, have)
      | ATOutOfFuel => (RPending, have)
      end
  end.

(* ---------- QPACK encoder / decoder streams: content ignored, must stay open ---------- *)
Definition qpack_stream_run (t : term) : reaction :=
  match t with
  | Fin => RClose EClosedCriticalStream
  | Reset => RClose EClosedCriticalStream
  | Lost => RNotConnected
  end.

(* ---------- session (CONNECT) stream after establishment: ConnectStream::run ---------- *)
Fixpoint connect_run (fuel : nat) (d : bytes) (t : term) : reaction :=
  match fuel with
  | O => RPending
  | S f =>
      match read_frame_async (fuel_for d) TSession false d t with
      | ATFrame fr r _ =>
          match fk fr with
          | KData =>
              match capsule_with_frame (fpayload fr) with
              | None => connect_run f r t
              | Some p =>
                  match close_with_capsule p with
                  | Val (c, reason) => RAppClosed c reason
                  | Err e => RClose e
                  | _ => RClose EDatagram
                  end
              end
          | _ => connect_run f r t
          end
      | ATH3 e _ _ => RClose e
      | ATIo ImmediateFin _ _ => RAppClosed 0 []
      | ATIo UnexpectedFin _ _ => RClose EClosedCriticalStream
      | ATIo IoReset _ _ => RClose EClosedCriticalStream
      | ATIo IoLost _ _ => RNotConnected
      | ATOutOfFuel => RPending
      end
  end.

(* ---------- peer-opened unidirectional stream: accept task + handle_uni_h3_stream ---------- *)
Record crit := mkcrit { has_control : bool; has_enc : bool; has_dec : bool }.

Definition uni_accept (c : crit) (d : bytes) (t : term) : reaction * crit :=
  match uni_upgrade_async d t with
  | AUH3 h r =>
      match sk h, ssid h with
      | SWebTransport, Some s => (RHandWT s r, c)
      | SWebTransport, None => (RClose EId, c) (* unreachable: parser guarantees a session id *)
      | SControl, _ => if has_control c then (RClose EStreamCreation, c)
                       else (RContinue, mkcrit true (has_enc c) (has_dec c))
      | SQPackEncoder, _ => if has_enc c then (RClose EStreamCreation, c)
                            else (RContinue, mkcrit (has_control c) true (has_dec c))
      | SQPackDecoder, _ => if has_dec c then (RClose EStreamCreation, c)
                            else (RContinue, mkcrit (has_control c) (has_enc c) true)
      | SExercise _, _ => (RContinue, c)
      end
  | AUH3Err EStreamCreation _ => (RIgnoreStream EStreamCreation, c)   (* after the repair *)
  | AUH3Err e _ => (RClose e, c)
  | AUIo _ _ => (RDropped, c)
  end.
(* pre-repair: an unknown stream type closed the connection *)
Definition uni_accept_legacy (c : crit) (d : bytes) (t : term) : reaction * crit :=
  match uni_upgrade_async d t with
  | AUH3Err e _ => (RClose e, c)
  | _ => uni_accept c d t
  end.

(* ---------- peer-opened bidirectional stream: accept task + handle_bi_h3_stream ---------- *)
Fixpoint bi_first_frame (fuel : nat) (fd : bool) (d : bytes) (t : term) : atres :=
  match fuel with
  | O => ATOutOfFuel
  | S f =>
      match read_frame_async (fuel_for d) TBiRemote fd d t with
      | ATFrame fr r fd' =>
          match fk fr with
          | KExercise _ => bi_first_frame f fd' r t
          | _ => ATFrame fr r fd'
          end
      | x => x
      end
  end.

Definition bi_accept (d : bytes) (t : term) : reaction :=
  match bi_first_frame (fuel_for d) false d t with
  | ATFrame fr r _ =>
      match fsid fr with
      | Some s => RHandWT s r
      | None =>
          match fk fr with
          | KData => RClose EFrameUnexpected
          | KSettings => RClose EFrameUnexpected
          | KHeaders =>
              match headers_with_frame (fpayload fr) with
              | Val h =>
                  match request_try_from h with
                  | inr req => ROfferSession req
                  | inl HMethodNotConnect => RRefuse ERequestRejected
                  | inl _ => RRefuse EMessage
                  end
              | Err e => RClose e
              | _ => RClose EDecompression
              end
          | _ => RContinue
          end
      end
  | ATH3 e _ _ => RClose e
  | ATIo _ _ _ => RDropped
  | ATOutOfFuel => RPending
  end.

(* ---------- client: response on the session stream (endpoint.rs:348-403) ---------- *)
Inductive connect_outcome :=
| CSession | CSessionRejected | CLocalH3 (e : ecode) | CNoConnection | CPending.

Fixpoint response_first_frame (fuel : nat) (d : bytes) (t : term) : atres :=
  match fuel with
  | O => ATOutOfFuel
  | S f =>
      match read_frame_async (fuel_for d) TSession false d t with
      | ATFrame fr r fd' =>
          match fk fr with
          | KExercise _ => response_first_frame f r t
          | _ => ATFrame fr r fd'
          end
      | x => x
      end
  end.

Definition client_response (d : bytes) (t : term) : connect_outcome :=
  match response_first_frame (fuel_for d) d t with
  | ATFrame fr _ _ =>
      match fk fr with
      | KHeaders =>
          match headers_with_frame (fpayload fr) with
          | Val h =>
              match response_try_from h with
              | inr code => if status_is_successful code then CSession else CSessionRejected
              | inl _ => CLocalH3 EMessage
              end
          | Err e => CLocalH3 e
          | _ => CLocalH3 EDecompression
          end
      | _ => CLocalH3 EFrameUnexpected
      end
  | ATH3 e _ _ => CLocalH3 e
  | ATIo _ _ _ => CNoConnection
  | ATOutOfFuel => CPending
  end.

(* after the response: Endpoint::connect hands the same stream (with whatever the peer sent after
   the response HEADERS still unread) to the driver, whose session runner continues on it *)
Definition client_session_rest (d : bytes) (t : term) : option bytes :=
  match response_first_frame (fuel_for d) d t with
  | ATFrame _ r _ => Some r
  | _ => None
  end.
Definition client_established_run (d : bytes) (t : term) : reaction :=
  match client_session_rest d t with
  | Some r => connect_run 64 r t
  | None => RNotConnected
  end.

(* ---------- worker exit (mod.rs:297-322): what is put on the wire, what is reported ---------- *)
Inductive derr := DProto (e : ecode) | DAppClosed (code : N) (reason : bytes) | DNotConnected.
Definition close_code_of (e : derr) : option N :=
  match e with
  | DAppClosed _ _ => Some (to_code ENoError)
  | DProto c => Some (to_code c)
  | DNotConnected => None
  end.
Definition derr_of_reaction (r : reaction) : option derr :=
  match r with
  | RClose e => Some (DProto e)
  | RAppClosed c reason => Some (DAppClosed c reason)
  | RNotConnected => Some DNotConnected
  | _ => None
  end.
