(* Emit.v -- the exact bytes an endpoint puts on the wire:
   driver/streams/settings.rs:22-61 (control stream), endpoint.rs:315-346 (request),
   endpoint.rs:743-796 (response), stream.rs:339-383 (WebTransport stream preambles),
   driver/mod.rs:211-233 + datagram.rs (datagrams). *)
From WT.Model Require Import Base Varint Ids Frame Wire Qpack Session.

(* control stream: stream type then ONE SETTINGS frame; [order] is the iteration order of the map *)
Definition emit_control (order : smap) : bytes :=
  sheader_write (mksheader SControl None) ++ frame_write (mkframe KSettings (settings_payload order) None).

(* WebTransport stream preambles *)
Definition emit_uni_preamble (sid : N) : bytes := sheader_write (mksheader SWebTransport (Some sid)).
Definition emit_bi_preamble (sid : N) : bytes := frame_write (mkframe KWebTransport [] (Some sid)).

(* request / response HEADERS frames *)
Definition emit_request (req : hmap) : bytes := frame_write (headers_generate_frame req).
Definition emit_response (code : N) (extra : hmap) : bytes :=
  frame_write (headers_generate_frame (fold_left (fun m kv => hinsert (fst kv) (snd kv) m) extra (response_with_status code))).

(* datagram *)
Definition emit_datagram (sid : N) (payload : bytes) : bytes := drv_dgram_write sid payload.

(* ALPN *)
Definition alpn : bytes := [104; 51]. (* "h3" *)
