(* Base.v -- conventions shared by the whole model (DESIGN.md 2.1).
   No proofs live in Model/. *)
From Coq Require Export List NArith Bool Arith.
Export ListNotations.

Global Arguments N.add : simpl never.
Global Arguments N.sub : simpl never.
Global Arguments N.mul : simpl never.
Global Arguments N.div : simpl never.
Global Arguments N.modulo : simpl never.
Global Arguments N.pow : simpl never.
Global Arguments N.shiftl : simpl never.
Global Arguments N.shiftr : simpl never.
Global Arguments N.land : simpl never.
Global Arguments N.lor : simpl never.
Global Arguments N.eqb : simpl never.
Global Arguments N.ltb : simpl never.
Global Arguments N.leb : simpl never.

Open Scope N_scope.

(* Bytes are N below 256; byte strings are list N. *)
Definition byte := N.
Definition bytes := list N.
Definition byte_ok (b : N) : bool := b <? 256.
Definition bytes_ok (l : bytes) : bool := forallb byte_ok l.

Definition len (l : bytes) : N := N.of_nat (length l).

(* Outcome classes of the code (DESIGN 2.1). *)
Inductive res (A E : Type) : Type :=
| Val (a : A)
| NeedMore
| Err (e : E)
| Panic
| OutOfFuel.
Arguments Val {A E} a.
Arguments NeedMore {A E}.
Arguments Err {A E} e.
Arguments Panic {A E}.
Arguments OutOfFuel {A E}.

(* 2^62, the varint bound, and friends: always as N constants. *)
Definition two62 : N := 4611686018427387904.
Definition varint_max : N := 4611686018427387903.
Definition two64 : N := 18446744073709551616.

Fixpoint list_eqb (a b : list N) : bool :=
  match a, b with
  | [], [] => true
  | x :: a', y :: b' => (x =? y) && list_eqb a' b'
  | _, _ => false
  end.

Definition opt_eqb {A} (eq : A -> A -> bool) (a b : option A) : bool :=
  match a, b with
  | None, None => true
  | Some x, Some y => eq x y
  | _, _ => false
  end.

(* indices of failing cases, used by every correspondence suite *)
Fixpoint bad_indices_from {C} (chk : C -> bool) (i : N) (cs : list C) : list N :=
  match cs with
  | [] => []
  | c :: r => if chk c then bad_indices_from chk (i + 1) r
              else i :: bad_indices_from chk (i + 1) r
  end.
Definition bad_indices {C} (chk : C -> bool) (cs : list C) : list N :=
  bad_indices_from chk 0 cs.
