(* Pipe.v -- one direction of a WebTransport stream, end to end, as a transition system:
     the sending application's write calls (wtransport/src/stream.rs SendStream::write / write_all over
     driver/streams/mod.rs QuicSendStream::write -- quinn accepts a PREFIX of each buffer, as much as
     flow-control credit allows), the opening path's preamble written first
     (stream.rs OpeningUniStream / OpeningBiStream -> upgrade -> StreamHeader / Frame write_async),
     the transport as a reliable ordered byte pipe with a flow-control window (quinn: oracle),
     the accept path that strips the preamble (Runner.uni_accept / bi_accept),
     the receiving application's read calls with arbitrary buffer sizes
     (stream.rs RecvStream::read over QuicRecvStream::read: Some(n>0) bytes, or None at end of stream).
   What is the library's own here: the preamble goes first and only once, every byte count quinn
   reports is honoured (nothing re-sent, nothing skipped), the accept path hands over exactly the
   bytes behind the preamble, and end-of-stream is reported only when the buffer is drained. *)
From WT.Model Require Import Base.

Record pst := mkpst {
  unsent : bytes;      (* accepted from the application (or the preamble), not yet taken by the transport *)
  wire : bytes;        (* in flight *)
  rbuf : bytes;        (* arrived, not yet read *)
  got : bytes;         (* read by the receiving application, in order *)
  written : bytes;     (* everything the sending side put on the stream so far (log) *)
  finished : bool;     (* finish() was called *)
  fin_arrived : bool;  (* the receiver's transport knows the final size and has all bytes *)
  eof : bool           (* a read returned end-of-stream *)
}.

Definition pinit (preamble : bytes) : pst := mkpst preamble [] [] [] preamble false false false.

Inductive pop :=
| PWrite (buf : bytes)     (* write_all(buf): the whole buffer is queued behind what is unsent *)
| PTake (k : nat)          (* the transport takes up to k unsent bytes (a partial write of size k), window permitting *)
| PDeliver (k : nat)       (* up to k bytes arrive *)
| PRead (n : nat)          (* a read with a buffer of n bytes *)
| PFinish.

Definition in_flight (s : pst) : nat := (length (wire s) + length (rbuf s))%nat.

(* outcome of a read *)
Inductive rout := RData (d : bytes) | REof | RPending | RNone.

Definition pstep (window : nat) (s : pst) (o : pop) : pst * rout :=
  match o with
  | PWrite buf =>
      if finished s then (s, RNone)       (* write after finish: refused by the library (ClosedStream), nothing sent *)
      else (mkpst (unsent s ++ buf) (wire s) (rbuf s) (got s) (written s ++ buf) false (fin_arrived s) (eof s), RNone)
  | PTake k =>
      let room := (window - in_flight s)%nat in
      let n := Nat.min k room in
      (mkpst (skipn n (unsent s)) (wire s ++ firstn n (unsent s)) (rbuf s) (got s) (written s)
             (finished s) (fin_arrived s) (eof s), RNone)
  | PDeliver k =>
      let w' := skipn k (wire s) in
      let r' := rbuf s ++ firstn k (wire s) in
      let fin := match w', unsent s with [], [] => finished s | _, _ => false end in
      (mkpst (unsent s) w' r' (got s) (written s) (finished s) (fin_arrived s || fin) (eof s), RNone)
  | PRead n =>
      match rbuf s with
      | [] => if fin_arrived s
              then (mkpst (unsent s) (wire s) [] (got s) (written s) (finished s) true true, REof)
              else (s, RPending)
      | _ :: _ =>
          match n with
          | O => (s, RData [])            (* a zero-length read returns at once and consumes nothing *)
          | _ => (mkpst (unsent s) (wire s) (skipn n (rbuf s)) (got s ++ firstn n (rbuf s)) (written s)
                        (finished s) (fin_arrived s) (eof s), RData (firstn n (rbuf s)))
          end
      end
  | PFinish => (mkpst (unsent s) (wire s) (rbuf s) (got s) (written s) true
                      (fin_arrived s || match unsent s, wire s with [], [] => true | _, _ => false end) (eof s), RNone)
  end.

Fixpoint prun (window : nat) (s : pst) (ops : list pop) : pst * list rout :=
  match ops with
  | [] => (s, [])
  | o :: r => let (s1, x) := pstep window s o in let (s2, xs) := prun window s1 r in (s2, x :: xs)
  end.

(* the bytes the reads returned, concatenated *)
Fixpoint read_data (xs : list rout) : bytes :=
  match xs with
  | [] => []
  | RData d :: r => d ++ read_data r
  | _ :: r => read_data r
  end.
