(* StreamTS.v -- mirrors wtransport-proto/src/stream.rs: the typestates'
   validate_frame tables and their read_frame / read_frame_from_buffer /
   read_frame_async loops. *)
From WT.Model Require Import Base Varint Ids Frame Async.

Inductive tstate := TBiRemote | TBiLocal | TUniRemote | TSession.

(* validate_frame: returns the new first_frame_done flag and the verdict.
   Only BiRemoteH3 keeps the flag (stream.rs:213-229); it is set on every
   frame that reaches validation, accepted or not. *)
Definition validate (ts : tstate) (first_done : bool) (f : frame) : bool * option ecode :=
  match ts with
  | TBiRemote =>
      (true,
       match fk f with
       | KData | KHeaders | KExercise _ => None
       | KSettings => Some EFrameUnexpected
       | KWebTransport => if first_done then Some EFrame else None
       end)
  | TBiLocal | TSession =>
      (first_done,
       match fk f with
       | KData | KHeaders | KExercise _ => None
       | KSettings | KWebTransport => Some EFrameUnexpected
       end)
  | TUniRemote =>
      (first_done,
       match fk f with
       | KSettings | KExercise _ => None
       | KData | KHeaders | KWebTransport => Some EFrameUnexpected
       end)
  end.

(* outcome of one read_frame call *)
Inductive tres :=
| TFrame (f : frame) (rest : bytes) (first_done : bool)
| TNeedMore (rest : bytes) (first_done : bool)
| TErr (e : ecode) (rest : bytes) (first_done : bool)
| TOutOfFuel.

(* read_frame (sync, slice reader): loop { match Frame::read ... continue on UnknownFrame } *)
Fixpoint read_frame (fuel : nat) (ts : tstate) (fd : bool) (bs : bytes) : tres :=
  match fuel with
  | O => TOutOfFuel
  | S k =>
      match frame_read bs with
      | (RVal f, r) =>
          match validate ts fd f with
          | (fd', None) => TFrame f r fd'
          | (fd', Some e) => TErr e r fd'
          end
      | (RNone, r) => TNeedMore r fd
      | (RErr PUnknown, r) => read_frame k ts fd r
      | (RErr PInvalidSessionId, r) => TErr EId r fd
      | (RErr PPayloadTooBig, r) => TErr EExcessiveLoad r fd
      end
  end.

(* the loop over the pre-repair Frame::read *)
Fixpoint read_frame_legacy (fuel : nat) (ts : tstate) (fd : bool) (bs : bytes) : tres :=
  match fuel with
  | O => TOutOfFuel
  | S k =>
      match frame_read_legacy bs with
      | (RVal f, r) =>
          match validate ts fd f with
          | (fd', None) => TFrame f r fd'
          | (fd', Some e) => TErr e r fd'
          end
      | (RNone, r) => TNeedMore r fd
      | (RErr PUnknown, r) => read_frame_legacy k ts fd r
      | (RErr PInvalidSessionId, r) => TErr EId r fd
      | (RErr PPayloadTooBig, r) => TErr EExcessiveLoad r fd
      end
  end.

Definition fuel_for (bs : bytes) : nat := S (length bs).

(* read_frame_from_buffer: child reader, commit only on a frame *)
Inductive bres :=
| BFrame (f : frame) (off : nat) (first_done : bool)
| BNeedMore (off : nat) (first_done : bool)
| BErr (e : ecode) (off : nat) (first_done : bool)
| BOutOfFuel.
Definition read_frame_from_buffer (ts : tstate) (fd : bool) (buf : bytes) (off : nat) : bres :=
  let rem := skipn off buf in
  match read_frame (fuel_for rem) ts fd rem with
  | TFrame f r fd' => BFrame f (length buf - length r)%nat fd'
  | TNeedMore _ fd' => BNeedMore off fd'
  | TErr e _ fd' => BErr e off fd'
  | TOutOfFuel => BOutOfFuel
  end.

(* read_frame_async: loop over Frame::read_async; IO(UnexpectedFin) => H3(Frame) *)
Inductive atres :=
| ATFrame (f : frame) (rest : bytes) (first_done : bool)
| ATH3 (e : ecode) (rest : bytes) (first_done : bool)
| ATIo (e : ioerr) (rest : bytes) (first_done : bool)
| ATOutOfFuel.

Fixpoint read_frame_async (fuel : nat) (ts : tstate) (fd : bool) (d : bytes) (t : term) : atres :=
  match fuel with
  | O => ATOutOfFuel
  | S k =>
      match frame_read_async d t with
      | AOk f r =>
          match validate ts fd f with
          | (fd', None) => ATFrame f r fd'
          | (fd', Some e) => ATH3 e r fd'
          end
      | AParse PUnknown r => read_frame_async k ts fd r t
      | AParse PInvalidSessionId r => ATH3 EId r fd
      | AParse PPayloadTooBig r => ATH3 EExcessiveLoad r fd
      | AIo UnexpectedFin r => ATH3 EFrame r fd
      | AIo e r => ATIo e r fd
      end
  end.

(* UniRemoteQuic::upgrade / upgrade_async (stream.rs:534-582) *)
Inductive ures :=
| UH3 (h : sheader) (rest : bytes)
| UQuic (rest : bytes)                 (* not enough data *)
| UErr (e : ecode) (rest : bytes).
Definition uni_upgrade (bs : bytes) : ures :=
  match sheader_read bs with
  | (SVal h, r) => UH3 h r
  | (SNone, r) => UQuic r
  | (SErr SPUnknown, r) => UErr EStreamCreation r
  | (SErr SPInvalidSessionId, r) => UErr EId r
  end.

Inductive aures :=
| AUH3 (h : sheader) (rest : bytes)
| AUH3Err (e : ecode) (rest : bytes)
| AUIo (e : ioerr) (rest : bytes).
Definition uni_upgrade_async (d : bytes) (t : term) : aures :=
  match sheader_read_async d t with
  | AOk h r => AUH3 h r
  | AParse SPUnknown r => AUH3Err EStreamCreation r
  | AParse SPInvalidSessionId r => AUH3Err EId r
  | AIo UnexpectedFin r => AUH3Err EFrame r
  | AIo e r => AUIo e r
  end.
