(* Config.v -- the transport part of the configuration builders
   (wtransport/src/config.rs: ServerConfigBuilder<WantsTransportConfigServer> 549-615,
    ClientConfigBuilder<WantsTransportConfigClient> 1076-1130): a chain of setter calls, then build().
   Each setter writes one field of the transport configuration; max_idle_timeout returns Err (and the
   builder is gone) when the duration is not representable.  Defaults are quinn's:
   max_idle_timeout = 30 s, keep_alive_interval = none, migration = allowed. *)
From WT.Model Require Import Base Varint Tls.

Record tcfg := mktcfg {
  t_idle : option N;     (* milliseconds; None = never time out *)
  t_keep : option N;     (* keep-alive interval (whole milliseconds here); None = off *)
  t_migr : bool          (* server only: clients may migrate *)
}.
Definition tdefault : tcfg := mktcfg (Some 30000) None true.

Inductive cfgop :=
| SetIdle (d : option (N * N))     (* max_idle_timeout(None | Some(Duration::new(secs, nanos))) *)
| SetKeep (ms : option N)          (* keep_alive_interval *)
| SetMigr (b : bool).              (* allow_migration (server builder only) *)

Definition capply (c : tcfg) (o : cfgop) : option tcfg :=
  match o with
  | SetIdle None => Some (mktcfg None (t_keep c) (t_migr c))
  | SetIdle (Some (s, n)) =>
      match idle_accept s n with
      | Some ms => Some (mktcfg (Some ms) (t_keep c) (t_migr c))
      | None => None                                   (* Err(InvalidIdleTimeout): no configuration *)
      end
  | SetKeep k => Some (mktcfg (t_idle c) k (t_migr c))
  | SetMigr b => Some (mktcfg (t_idle c) (t_keep c) b)
  end.

Fixpoint cbuild (c : tcfg) (ops : list cfgop) : option tcfg :=
  match ops with
  | [] => Some c
  | o :: r => match capply c o with Some c' => cbuild c' r | None => None end
  end.

(* what the last call of each setter asked for (the specification of "honoured") *)
Fixpoint last_idle (ops : list cfgop) (d : option N) : option N :=
  match ops with
  | [] => d
  | SetIdle None :: r => last_idle r None
  | SetIdle (Some (s, n)) :: r => last_idle r (Some (idle_ms s n))
  | _ :: r => last_idle r d
  end.
Fixpoint last_keep (ops : list cfgop) (d : option N) : option N :=
  match ops with [] => d | SetKeep k :: r => last_keep r k | _ :: r => last_keep r d end.
Fixpoint last_migr (ops : list cfgop) (d : bool) : bool :=
  match ops with [] => d | SetMigr b :: r => last_migr r b | _ :: r => last_migr r d end.

Definition idle_ok (o : cfgop) : bool :=
  match o with SetIdle (Some (s, n)) => idle_ms s n <? two62 | _ => true end.
