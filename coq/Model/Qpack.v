(* Qpack.v -- mirrors wtransport-proto/src/qpack.rs (Encoder, Decoder, prefix
   integers with usize = 64 bits, strings), httlib-huffman as used
   (encode; decode with DecoderSpeed::OneBit), headers.rs. *)
From WT.Model Require Import Base Varint Ids Frame Wire HuffmanTable StaticTable.

(* ---------- Huffman (httlib-huffman) ---------- *)
Fixpoint bits_msb (n : nat) (v : N) : list bool :=
  match n with
  | O => []
  | S k => bits_msb k (v / 2) ++ [N.odd v]
  end.

Fixpoint index_from {A} (i : N) (l : list A) : list (N * A) :=
  match l with [] => [] | x :: r => (i, x) :: index_from (i + 1) r end.

(* (symbol, code bits); symbol 256 is EOS.  [huff_codes_lit] is the table with
   the bits written out; Proofs/QpackP.v checks it equals this computed form. *)
Definition huff_codes_computed : list (N * list bool) :=
  map (fun p => (fst p, bits_msb (N.to_nat (fst (snd p))) (snd (snd p)))) (index_from 0 huff_table).
Definition huff_codes : list (N * list bool) := huff_codes_lit.

Fixpoint beqb (a b : list bool) : bool :=
  match a, b with
  | [], [] => true
  | x :: a', y :: b' => Bool.eqb x y && beqb a' b'
  | _, _ => false
  end.
Fixpoint find_code (p : list bool) (t : list (N * list bool)) : option N :=
  match t with
  | [] => None
  | (s, c) :: r => if beqb p c then Some s else find_code p r
  end.
Definition code_of (sym : N) : list bool :=
  match nth_error huff_codes (N.to_nat sym) with Some (_, c) => c | None => [] end.

(* pack bits into bytes, msb first; the last partial byte is padded with ones *)
Fixpoint byte_of_bits (acc : N) (n : nat) (bits : list bool) : N * list bool :=
  match n with
  | O => (acc, bits)
  | S k => match bits with
           | [] => byte_of_bits (acc * 2 + 1) k []
           | b :: r => byte_of_bits (acc * 2 + (if b then 1 else 0)) k r
           end
  end.
Fixpoint pack_bits (fuel : nat) (bits : list bool) : bytes :=
  match fuel with
  | O => []
  | S f => match bits with
           | [] => []
           | _ => let (b, r) := byte_of_bits 0 8 bits in b :: pack_bits f r
           end
  end.
Definition hencode (s : bytes) : bytes :=
  let bits := flat_map code_of s in pack_bits (S (length bits)) bits.

Definition bits_of_byte (n : nat) (b : N) : list bool := bits_msb n b.
Definition unpack_bits (bs : bytes) : list bool := flat_map (bits_msb 8) bs.

Fixpoint bits_value (acc : N) (p : list bool) : N :=
  match p with [] => acc | b :: r => bits_value (acc * 2 + (if b then 1 else 0)) r end.

(* decode, one bit at a time; pending = bits since the last symbol *)
Fixpoint hdecode_bits (pend : list bool) (bits : list bool) (out : bytes) : option (bytes * list bool) :=
  match bits with
  | [] => Some (out, pend)
  | b :: r =>
      let p := pend ++ [b] in
      match find_code p huff_codes with
      | Some s => if s <? 256 then hdecode_bits [] r (out ++ [s]) else None (* EOS inside *)
      | None => hdecode_bits p r out
      end
  end.
Definition pad_ok (pend : list bool) : bool :=
  let v := bits_value 0 pend in
  (v =? 0) || (v =? 1) || (v =? 3) || (v =? 7) || (v =? 15) || (v =? 31) || (v =? 63) || (v =? 127).
Definition hdecode (bs : bytes) : option bytes :=
  match hdecode_bits [] (unpack_bits bs) [] with
  | Some (out, pend) => if pad_ok pend then Some out else None
  | None => None
  end.

(* ---------- prefix integers ---------- *)
Inductive qerr := QUnexpectedFin | QIntegerOverflow | QInvalidString | QDynamic | QIndexNotFound.

(* encode_integer<N>(flags, value) *)
Fixpoint enc_int_rest (fuel : nat) (rem : N) : bytes :=
  match fuel with
  | O => []
  | S f => if 128 <=? rem then (rem mod 128 + 128) :: enc_int_rest f (rem / 128)
           else [rem]
  end.
Definition enc_int (n : N) (flags value : N) : bytes :=
  let mask := 2 ^ n - 1 in
  let fl := (flags * 2 ^ n) mod 256 in
  if value <? mask then [N.lor fl value]
  else N.lor fl mask :: enc_int_rest 11 (value - mask).

(* decode_integer<N> after the checked-shift repair (usize = u64):
   overflow_checks does not matter any more: no operation leaves its width *)
Fixpoint dec_int_rest (fuel : nat) (value power : N) (bs : bytes) : res (N * bytes) qerr :=
  match fuel with
  | O => OutOfFuel
  | S f =>
      match bs with
      | [] => Err QUnexpectedFin
      | b :: r =>
          let chunk := N.land b 127 in
          if 64 <=? power then Err QIntegerOverflow            (* checked_shl fails *)
          else
            let addend := (chunk * 2 ^ power) mod two64 in
            if negb (addend / 2 ^ power =? chunk) then Err QIntegerOverflow  (* bits were lost *)
            else
              let value' := value + addend in
              if two64 <=? value' then Err QIntegerOverflow      (* checked_add fails *)
              else if N.land b 128 =? 0 then Val (value', r)
                   else dec_int_rest f value' (power + 7) r
      end
  end.
Definition dec_int (n : N) (bs : bytes) : res (N * N * bytes) qerr :=   (* (flags, value, rest) *)
  match bs with
  | [] => Err QUnexpectedFin
  | b :: r =>
      let mask := 2 ^ n - 1 in
      let flags := (b / 2 ^ n) mod 256 in
      let value := N.land b mask in
      if negb (value =? mask) then Val (flags, value, r)
      else match dec_int_rest (S (length r)) value 0 r with
           | Val (v, r') => Val (flags, v, r')
           | Err e => Err e
           | NeedMore => NeedMore | Panic => Panic | OutOfFuel => OutOfFuel
           end
  end.

(* the pre-repair loop: (byte & 0x7f) << power unchecked; power grows by 7 *)
Fixpoint dec_int_rest_legacy (oc : bool) (fuel : nat) (value power : N) (bs : bytes) : res (N * bytes) qerr :=
  match fuel with
  | O => OutOfFuel
  | S f =>
      match bs with
      | [] => Err QUnexpectedFin
      | b :: r =>
          let chunk := N.land b 127 in
          if (64 <=? power) && oc then Panic
          else
            let addend := (chunk * 2 ^ (power mod 64)) mod two64 in
            let value' := value + addend in
            if two64 <=? value' then Err QIntegerOverflow
            else if N.land b 128 =? 0 then Val (value', r)
                 else dec_int_rest_legacy oc f value' (power + 7) r
      end
  end.

(* ---------- strings ---------- *)
Definition enc_str (n : N) (flags : N) (s : bytes) : bytes :=
  let h := hencode s in
  let use_h := (length h <? length s)%nat in
  let data := if use_h then h else s in
  enc_int n (flags * 2 + (if use_h then 1 else 0)) (len data) ++ data.

Definition dec_str (n : N) (bs : bytes) : res (bytes * bytes) qerr :=
  match dec_int n bs with
  | Val (flags, l, r) =>
      match get_bytes_n l r with
      | None => Err QUnexpectedFin
      | Some (data, r') =>
          let raw := if N.odd flags then hdecode data else Some data in
          match raw with
          | None => Err QInvalidString
          | Some s => if utf8_valid s then Val (s, r') else Err QInvalidString
          end
      end
  | Err e => Err e
  | NeedMore => NeedMore | Panic => Panic | OutOfFuel => OutOfFuel
  end.

(* ---------- static table ---------- *)
Definition lookup_field (i : N) : option (bytes * bytes) :=
  if i <? N.of_nat (length static_table) then nth_error static_table (N.to_nat i) else None.

Inductive lookup := LKeyValue (i : N) | LKeyOnly (i : N) | LNone.
Fixpoint lookup_index_from (i : N) (t : list (bytes * bytes)) (k v : bytes) : lookup :=
  match t with
  | [] => LNone
  | (k', v') :: r => if list_eqb k k' then (if list_eqb v v' then LKeyValue i else LKeyOnly i)
                     else lookup_index_from (i + 1) r k v
  end.
Definition lookup_index (k v : bytes) : lookup := lookup_index_from 0 static_table k v.

(* ---------- header maps: association lists with HashMap::insert semantics ---------- *)
Definition hmap := list (bytes * bytes).
Fixpoint hget (k : bytes) (m : hmap) : option bytes :=
  match m with [] => None | (k', v) :: r => if list_eqb k k' then Some v else hget k r end.
Fixpoint hinsert (k v : bytes) (m : hmap) : hmap :=
  match m with
  | [] => [(k, v)]
  | (k', v') :: r => if list_eqb k k' then (k, v) :: r else (k', v') :: hinsert k v r
  end.

(* ---------- Encoder::encode over an ordered list of fields ---------- *)
Definition enc_field (kv : bytes * bytes) : bytes :=
  let (k, v) := kv in
  match lookup_index k v with
  | LKeyValue i => enc_int 6 3 i
  | LKeyOnly i => enc_int 4 5 i ++ enc_str 7 0 v
  | LNone => enc_str 3 2 k ++ enc_str 7 0 v
  end.
Definition qpack_encode (l : hmap) : bytes := [0; 0] ++ flat_map enc_field l.

(* ---------- Decoder::decode ---------- *)
Inductive fline := FIndexed | FIndexedPost | FLiteralRefName | FLiteralPostRefName | FLiteralLitName.
Definition field_line_type (b : N) : fline :=
  if b / 128 =? 1 then FIndexed
  else if b / 16 =? 1 then FIndexedPost
  else if b / 64 =? 1 then FLiteralRefName
  else if b / 16 =? 0 then FLiteralPostRefName
  else FLiteralLitName.

Definition lift {A B} (r : res A qerr) (k : A -> res B qerr) : res B qerr :=
  match r with
  | Val a => k a
  | Err e => Err e
  | NeedMore => NeedMore | Panic => Panic | OutOfFuel => OutOfFuel
  end.

Fixpoint dec_fields (fuel : nat) (bs : bytes) (m : hmap) : res hmap qerr :=
  match fuel with
  | O => OutOfFuel
  | S f =>
      match bs with
      | [] => Val m
      | b :: _ =>
          match field_line_type b with
          | FIndexed =>
              if N.land b 64 =? 0 then Err QDynamic
              else lift (dec_int 6 bs) (fun x => let '(_, i, r) := x in
                   match lookup_field i with
                   | None => Err QIndexNotFound
                   | Some (k, v) => dec_fields f r (hinsert k v m)
                   end)
          | FIndexedPost => Err QDynamic
          | FLiteralRefName =>
              if N.land b 16 =? 0 then Err QDynamic
              else lift (dec_int 4 bs) (fun x => let '(_, i, r) := x in
                   match lookup_field i with
                   | None => Err QIndexNotFound
                   | Some (k, _) => lift (dec_str 7 r) (fun y => let '(v, r') := y in dec_fields f r' (hinsert k v m))
                   end)
          | FLiteralPostRefName => Err QDynamic
          | FLiteralLitName =>
              lift (dec_str 3 bs) (fun x => let '(k, r) := x in
              lift (dec_str 7 r) (fun y => let '(v, r') := y in dec_fields f r' (hinsert k v m)))
          end
      end
  end.

Definition qpack_decode (bs : bytes) : res hmap qerr :=
  lift (dec_int 8 bs) (fun x => let '(_, _, r1) := x in
  lift (dec_int 7 r1) (fun y => let '(_, _, r2) := y in
  dec_fields (S (length r2)) r2 [])).

(* ---------- headers.rs ---------- *)
(* sort_by_key (!starts_with(':'), name): pseudo-headers first, then by name bytes *)
Fixpoint bytes_leb (a b : bytes) : bool :=
  match a, b with
  | [], _ => true
  | _ :: _, [] => false
  | x :: a', y :: b' => if x <? y then true else if y <? x then false else bytes_leb a' b'
  end.
Definition is_pseudo (k : bytes) : bool := match k with 58 :: _ => true | _ => false end.
Definition field_leb (p q : bytes * bytes) : bool :=
  match is_pseudo (fst p), is_pseudo (fst q) with
  | true, false => true
  | false, true => false
  | _, _ => bytes_leb (fst p) (fst q)
  end.
Fixpoint hins (p : bytes * bytes) (l : hmap) : hmap :=
  match l with
  | [] => [p]
  | q :: r => if field_leb p q then p :: l else q :: hins p r
  end.
Definition sorted_headers (m : hmap) : hmap := fold_right hins [] m.

Definition headers_generate_frame (m : hmap) : frame :=
  mkframe KHeaders (qpack_encode (sorted_headers m)) None.
Definition headers_with_frame (payload : bytes) : res hmap ecode :=
  match qpack_decode payload with
  | Val m => Val m
  | Err _ => Err EDecompression
  | NeedMore => NeedMore | Panic => Panic | OutOfFuel => OutOfFuel
  end.
