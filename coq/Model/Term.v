(* Term.v -- termination and error reporting:
   driver/utils.rs:38-120 (SharedResult: set-once cell with subscribers),
   driver/mod.rs:297-322 (worker exit), error.rs:43-70,296-327 (error mapping),
   driver/streams/mod.rs:32-100,561-584 (stream error mapping), driver/utils.rs:8-36. *)
From WT.Model Require Import Base Varint Ids Frame Runner.

(* ---------- SharedResult ---------- *)
Record cell (V : Type) := mkcell { cval : option V; setters : nat }.
Arguments mkcell {V}. Arguments cval {V}. Arguments setters {V}.

Inductive cop (V : Type) := CSet (v : V) | CDropSetter | CCloneSetter | CGet.
Arguments CSet {V} v. Arguments CDropSetter {V}. Arguments CCloneSetter {V}. Arguments CGet {V}.

Inductive cout (V : Type) := OSet (accepted : bool) | OGot (v : V) | OGotNone | OPending | ONothing | OInvalid.
Arguments OSet {V}. Arguments OGot {V} v. Arguments OGotNone {V}. Arguments OPending {V}. Arguments ONothing {V}. Arguments OInvalid {V}.

Definition cstep {V} (c : cell V) (o : cop V) : cell V * cout V :=
  match o with
  | CSet v =>
      match setters c with
      | O => (c, OInvalid)                 (* nobody left who could call set *)
      | _ => match cval c with
             | None => (mkcell (Some v) (setters c), OSet true)
             | Some _ => (c, OSet false)
             end
      end
  | CDropSetter => (mkcell (cval c) (pred (setters c)), ONothing)
  | CCloneSetter => match setters c with O => (c, OInvalid) | n => (mkcell (cval c) (S n), ONothing) end
  | CGet =>
      match cval c with
      | Some v => (c, OGot v)
      | None => match setters c with O => (c, OGotNone) | _ => (c, OPending) end
      end
  end.

Fixpoint crun {V} (c : cell V) (ops : list (cop V)) : cell V * list (cout V) :=
  match ops with
  | [] => (c, [])
  | o :: r => let (c1, x) := cstep c o in let (c2, xs) := crun c1 r in (c2, x :: xs)
  end.

(* ---------- what the application is told ---------- *)
Inductive qclose := QApp (code : N) (reason : bytes) | QConnClosed | QLocally | QTimedOut | QProto | QCids.
Inductive cerr :=
| CEApplicationClosed (code : N) (reason : bytes) | CELocalH3 (e : ecode) | CELocallyClosed
| CETimedOut | CEConnectionClosed | CEQuicProto | CECids.

(* From<quinn::ConnectionError> for ConnectionError *)
Definition of_quinn (q : qclose) : cerr :=
  match q with
  | QApp c r => CEApplicationClosed c r
  | QConnClosed => CEConnectionClosed
  | QLocally => CELocallyClosed
  | QTimedOut => CETimedOut
  | QProto => CEQuicProto
  | QCids => CECids
  end.
(* ConnectionError::with_driver_error; close_reason = what quinn reports, if the connection is closed *)
Definition with_driver_error (e : derr) (close_reason : option qclose) : cerr :=
  match e with
  | DProto c => CELocalH3 c
  | DAppClosed c r => CEApplicationClosed c r
  | DNotConnected => match close_reason with Some q => of_quinn q | None => CELocallyClosed end
  end.

(* ---------- stream-level errors ---------- *)
Inductive qwrite := QWStopped (c : N) | QWConnectionLost | QWClosedStream | QWZeroRtt.
Inductive qread := QRReset (c : N) | QRConnectionLost | QRClosedStream | QRIllegalOrdered | QRZeroRtt.
Inductive qstopped := QSNone | QSSome (c : N) | QSConnectionLost | QSZeroRtt.
Inductive swerr := SWNotConnected | SWClosed | SWStopped (c : N) | SWQuicProto.
Inductive srerr := SRNotConnected | SRReset (c : N) | SRQuicProto.

Definition varint_q2w (x : N) : N := x.   (* debug_assert!(x <= VarInt::MAX): same bound on both sides *)
Definition varint_w2q (x : N) : N := x.
Definition varint_conv_assert (x : N) : bool := x <=? varint_max.

Definition map_write (e : qwrite) : swerr :=
  match e with
  | QWStopped c => SWStopped (varint_q2w c)
  | QWConnectionLost | QWClosedStream => SWNotConnected
  | QWZeroRtt => SWQuicProto
  end.
Definition map_read (e : qread) : srerr :=
  match e with
  | QRReset c => SRReset (varint_q2w c)
  | QRConnectionLost | QRClosedStream => SRNotConnected
  | QRIllegalOrdered | QRZeroRtt => SRQuicProto
  end.
Definition map_stopped (e : qstopped) : swerr :=
  match e with
  | QSNone => SWClosed
  | QSSome c => SWStopped (varint_q2w c)
  | QSConnectionLost => SWNotConnected
  | QSZeroRtt => SWQuicProto
  end.
(* QuicSendStream::finish: Ok iff stopped() reports Closed (everything acknowledged) *)
Definition finish_result (e : qstopped) : option swerr :=
  match map_stopped e with SWClosed => None | x => Some x end.
