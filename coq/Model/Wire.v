(* Wire.v -- mirrors wtransport-proto/src/settings.rs, datagram.rs,
   capsule/mod.rs, capsule/close_wt_session.rs, wtransport/src/datagram.rs,
   connection.rs:350 (max_datagram_size) and std's UTF-8 validation. *)
From WT.Model Require Import Base Varint Ids Frame.

(* ---------- UTF-8 validity (Unicode 15, Table 3-7; what str::from_utf8 accepts) ---------- *)
Definition cont (b : N) : bool := (128 <=? b) && (b <=? 191).
Definition inr_ (lo hi b : N) : bool := (lo <=? b) && (b <=? hi).

Fixpoint utf8_valid (bs : bytes) : bool :=
  match bs with
  | [] => true
  | b0 :: r =>
      if b0 <? 128 then utf8_valid r
      else if inr_ 194 223 b0 then
        match r with b1 :: r1 => cont b1 && utf8_valid r1 | _ => false end
      else if b0 =? 224 then
        match r with b1 :: b2 :: r2 => inr_ 160 191 b1 && cont b2 && utf8_valid r2 | _ => false end
      else if inr_ 225 236 b0 || inr_ 238 239 b0 then
        match r with b1 :: b2 :: r2 => cont b1 && cont b2 && utf8_valid r2 | _ => false end
      else if b0 =? 237 then
        match r with b1 :: b2 :: r2 => inr_ 128 159 b1 && cont b2 && utf8_valid r2 | _ => false end
      else if b0 =? 240 then
        match r with b1 :: b2 :: b3 :: r3 => inr_ 144 191 b1 && cont b2 && cont b3 && utf8_valid r3 | _ => false end
      else if inr_ 241 243 b0 then
        match r with b1 :: b2 :: b3 :: r3 => cont b1 && cont b2 && cont b3 && utf8_valid r3 | _ => false end
      else if b0 =? 244 then
        match r with b1 :: b2 :: b3 :: r3 => inr_ 128 143 b1 && cont b2 && cont b3 && utf8_valid r3 | _ => false end
      else false
  end.

(* ---------- settings (settings.rs) ---------- *)
Definition setting_reserved (id : N) : bool :=
  (id =? 0) || (id =? 2) || (id =? 3) || (id =? 4) || (id =? 5).
Definition setting_known (id : N) : bool :=
  (id =? 1) || (id =? 6) || (id =? 7) || (id =? 8) || (id =? 51) ||
  (id =? 727725890) (* 0x2b603742 *) || (id =? 3329323114) (* 0xc671706a *).

Inductive sparse := SReserved | SUnknown | SOk.
Definition setting_parse (id : N) : sparse :=
  if setting_reserved id then SReserved
  else if is_exercise id then SOk
  else if setting_known id then SOk
  else SUnknown.

Definition smap := list (N * N).   (* insertion order; keys are setting ids *)
Fixpoint smap_mem (k : N) (m : smap) : bool :=
  match m with [] => false | (k', _) :: r => (k =? k') || smap_mem k r end.
Fixpoint smap_get (k : N) (m : smap) : option N :=
  match m with [] => None | (k', v) :: r => if k =? k' then Some v else smap_get k r end.

(* Settings::with_frame: payload -> map | error *)
Fixpoint settings_parse (fuel : nat) (bs : bytes) (acc : smap) : res smap ecode :=
  match fuel with
  | O => OutOfFuel
  | S f =>
      match bs with
      | [] => Val acc
      | _ =>
          match get_varint bs with
          | None => Err EFrame
          | Some (id, r1) =>
              match get_varint r1 with
              | None => Err EFrame
              | Some (v, r2) =>
                  match setting_parse id with
                  | SOk => if smap_mem id acc then Err ESettings
                           else settings_parse f r2 (acc ++ [(id, v)])
                  | SUnknown => settings_parse f r2 acc
                  | SReserved => Err ESettings
                  end
              end
          end
      end
  end.
Definition settings_with_frame (payload : bytes) : res smap ecode :=
  settings_parse (S (length payload)) payload [].

(* generate_frame for one iteration order of the map *)
Fixpoint settings_payload (m : smap) : bytes :=
  match m with [] => [] | (k, v) :: r => enc k ++ enc v ++ settings_payload r end.

(* the endpoint's own settings (driver/streams/settings.rs:22-31), as a set *)
Definition local_settings : smap :=
  [(1, 0); (7, 0); (8, 1); (727725890, 1); (51, 1); (3329323114, 1)].

(* ---------- HTTP/3 datagrams (proto datagram.rs) ---------- *)
Definition dgram_read (bs : bytes) : res (N * bytes) ecode :=
  match get_varint bs with
  | None => Err EDatagram
  | Some (q, payload) =>
      match q_try_from_varint q with
      | None => Err EDatagram
      | Some q => Val (q, payload)
      end
  end.
Definition dgram_header_size (q : N) : nat := vsize q.
Definition dgram_write_size (q : N) (payload : bytes) : nat := (vsize q + length payload)%nat.
Definition dgram_write (cap : nat) (q : N) (payload : bytes) : option bytes :=
  if (cap <? dgram_write_size q payload)%nat then None else Some (enc q ++ payload).

(* driver Datagram::read (wtransport/src/datagram.rs): session id, payload offset *)
Definition drv_dgram_read (bs : bytes) : res (N * nat * bytes) ecode :=
  match dgram_read bs with
  | Val (q, payload) => Val (q_into_stream q, (length bs - length payload)%nat, payload)
  | Err e => Err e
  | NeedMore => NeedMore | Panic => Panic | OutOfFuel => OutOfFuel
  end.
(* driver Datagram::write(session_id, payload): the QUIC datagram bytes *)
Definition drv_dgram_write (sid : N) (payload : bytes) : bytes := enc (q_from_session sid) ++ payload.

(* Connection::max_datagram_size after the checked_sub repair *)
Definition max_datagram_size (quic_max : option N) (sid : N) : option N :=
  match quic_max with
  | None => None
  | Some m => let h := N.of_nat (vsize (q_from_session sid)) in
              if m <? h then None else Some (m - h)
  end.
(* pre-repair: usize subtraction; overflow_checks = true panics, false wraps *)
Definition max_datagram_size_legacy (oc : bool) (quic_max : option N) (sid : N) : res (option N) unit :=
  match quic_max with
  | None => Val None
  | Some m => let h := N.of_nat (vsize (q_from_session sid)) in
              if m <? h then (if oc then Panic else Val (Some (m + two64 - h)))
              else Val (Some (m - h))
  end.
(* quinn's send_datagram refuses iff the datagram is longer than its current maximum *)
Definition send_too_large (quic_max : N) (sid : N) (payload_len : N) : bool :=
  quic_max <? N.of_nat (vsize (q_from_session sid)) + payload_len.

(* ---------- capsules ---------- *)
Definition capsule_close_type : N := 10307. (* 0x2843 *)
(* Capsule::with_frame on a DATA frame payload: Some payload of a close capsule | None *)
Definition capsule_with_frame (bs : bytes) : option bytes :=
  match get_varint bs with
  | None => None
  | Some (ty, r1) =>
      if ty =? capsule_close_type then
        match get_varint r1 with
        | None => None
        | Some (l, r2) =>
            match get_bytes_n l r2 with
            | None => None
            | Some (p, _) => Some p
            end
        end
      else None
  end.
(* CloseWebTransportSession::with_capsule: (error code, reason bytes) | H3_DATAGRAM_ERROR *)
Definition close_with_capsule (payload : bytes) : res (N * bytes) ecode :=
  if (len payload <? 4) || (1028 <? len payload) then Err EDatagram
  else
    let code := unbe (firstn 4 payload) in
    let reason := skipn 4 payload in
    if utf8_valid reason then Val (code, reason) else Err EDatagram.
(* what a peer writes to close: the capsule bytes for (code, reason) *)
Definition close_capsule_bytes (code : N) (reason : bytes) : bytes :=
  enc capsule_close_type ++ enc (4 + len reason) ++ be 4 code ++ reason.
