(* Select.v -- a control-plane reader polled from the worker's select! loop
   (driver/mod.rs:331-389, 646-660): the future that polls the reader is
   re-created on every loop iteration, i.e. it may be dropped between two polls
   (EvCancel).  Dropping loses the machine's fields; the source keeps what it
   has already handed out. *)
From WT.Model Require Import Base Varint Ids Frame Async.

Inductive sev := EvPoll | EvCancel.

Fixpoint drive_c (evs : list sev) (st : gv) (s : src) : option ((ioerr + N) * src) :=
  match evs with
  | [] => None
  | EvCancel :: r => drive_c r gv_init s
  | EvPoll :: r =>
      match gv_poll st s with
      | (Ready a, _, s') => Some (a, s')
      | (Pending, st', s') => drive_c r st' s'
      end
  end.

Definition is_poll (e : sev) : bool := match e with EvPoll => true | EvCancel => false end.

(* every cancel happens while the reader holds no partial progress *)
Fixpoint cancel_safe (evs : list sev) (st : gv) (s : src) : bool :=
  match evs with
  | [] => true
  | EvCancel :: r => match gv_got st with [] => cancel_safe r gv_init s | _ => false end
  | EvPoll :: r =>
      match gv_poll st s with
      | (Ready _, _, _) => true
      | (Pending, st', s') => cancel_safe r st' s'
      end
  end.
