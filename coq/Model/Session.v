(* Session.v -- mirrors wtransport-proto/src/session.rs (SessionRequest,
   SessionResponse) over header maps. *)
From Coq Require Import String Ascii.
From WT.Model Require Import Base Varint Ids Frame Wire Qpack.

Definition bs (s : string) : bytes := map N_of_ascii (list_ascii_of_string s).

Definition k_method := bs ":method".
Definition k_scheme := bs ":scheme".
Definition k_protocol := bs ":protocol".
Definition k_authority := bs ":authority".
Definition k_path := bs ":path".
Definition k_status := bs ":status".
Definition v_connect := bs "CONNECT".
Definition v_https := bs "https".
Definition v_webtransport := bs "webtransport".

Inductive herr :=
| HMissingMethod | HMethodNotConnect | HMissingScheme | HSchemeNotHttps | HMissingProtocol
| HProtocolNotWebTransport | HMissingAuthority | HMissingPath | HMissingStatusCode | HInvalidStatusCode.

(* TryFrom<Headers> for SessionRequest (session.rs:212-247): checks in this order *)
Definition request_try_from (h : hmap) : herr + hmap :=
  match hget k_method h with
  | None => inl HMissingMethod
  | Some m =>
      if negb (list_eqb m v_connect) then inl HMethodNotConnect
      else match hget k_scheme h with
           | None => inl HMissingScheme
           | Some s =>
               if negb (list_eqb s v_https) then inl HSchemeNotHttps
               else match hget k_protocol h with
                    | None => inl HMissingProtocol
                    | Some p =>
                        if negb (list_eqb p v_webtransport) then inl HProtocolNotWebTransport
                        else match hget k_authority h with
                             | None => inl HMissingAuthority
                             | Some _ =>
                                 match hget k_path h with
                                 | None => inl HMissingPath
                                 | Some _ => inr h
                                 end
                             end
                    end
           end
  end.

Definition reserved_headers : list bytes := [k_method; k_scheme; k_protocol; k_authority; k_path].
Definition is_reserved (k : bytes) : bool := existsb (list_eqb k) reserved_headers.

(* SessionRequest::new after URL parsing: authority and path-with-query given *)
Definition request_new (authority path : bytes) : hmap :=
  fold_left (fun m kv => hinsert (fst kv) (snd kv) m)
    [(k_method, v_connect); (k_scheme, v_https); (k_protocol, v_webtransport);
     (k_authority, authority); (k_path, path)] [].

(* SessionRequest::insert: None = ReservedHeader *)
Definition request_insert (k v : bytes) (req : hmap) : option hmap :=
  if is_reserved k then None else Some (hinsert k v req).

(* SessionResponse *)
Definition response_with_status (code : N) : hmap := [(k_status, show_dec code)].
Definition response_try_from (h : hmap) : herr + N :=
  match hget k_status h with
  | None => inl HMissingStatusCode
  | Some s => match status_from_str s with
              | None => inl HInvalidStatusCode
              | Some c => inr c
              end
  end.
(* pre-repair *)
Definition response_try_from_legacy (h : hmap) : herr + N :=
  match hget k_status h with
  | None => inl HMissingStatusCode
  | Some s => match status_from_str_legacy s with
              | None => inl HInvalidStatusCode
              | Some c => inr c
              end
  end.
