(* Frame.v -- mirrors wtransport-proto/src/frame.rs, stream_header.rs, error.rs
   (sync paths; the async paths are in Async.v) *)
From WT.Model Require Import Base Varint Ids.

(* ---------- error codes (error.rs) ---------- *)
Inductive ecode :=
| EDatagram | ENoError | EStreamCreation | EClosedCriticalStream | EFrameUnexpected
| EFrame | EExcessiveLoad | EId | ESettings | EMissingSettings | ERequestRejected
| EMessage | EDecompression | EBufferedStreamRejected | ESessionGone.

Definition to_code (e : ecode) : N :=
  match e with
  | EDatagram => 51            (* 0x33 *)
  | ENoError => 256            (* 0x0100 *)
  | EStreamCreation => 259     (* 0x0103 *)
  | EClosedCriticalStream => 260
  | EFrameUnexpected => 261
  | EFrame => 262
  | EExcessiveLoad => 263
  | EId => 264
  | ESettings => 265
  | EMissingSettings => 266
  | ERequestRejected => 267
  | EMessage => 270            (* 0x010e *)
  | EDecompression => 512      (* 0x0200 *)
  | EBufferedStreamRejected => 966049156  (* 0x3994bd84 *)
  | ESessionGone => 386759528             (* 0x170d7b68 *)
  end.

Definition ecode_idx (e : ecode) : N :=
  match e with
  | EDatagram => 0 | ENoError => 1 | EStreamCreation => 2 | EClosedCriticalStream => 3
  | EFrameUnexpected => 4 | EFrame => 5 | EExcessiveLoad => 6 | EId => 7 | ESettings => 8
  | EMissingSettings => 9 | ERequestRejected => 10 | EMessage => 11 | EDecompression => 12
  | EBufferedStreamRejected => 13 | ESessionGone => 14
  end.

(* ---------- frame kinds (frame.rs:66-112) ---------- *)
Inductive fkind := KData | KHeaders | KSettings | KWebTransport | KExercise (id : N).

Definition is_exercise (id : N) : bool := (33 <=? id) && ((id - 33) mod 31 =? 0).

Definition fkind_parse (id : N) : option fkind :=
  if id =? 0 then Some KData
  else if id =? 1 then Some KHeaders
  else if id =? 4 then Some KSettings
  else if id =? 65 then Some KWebTransport
  else if is_exercise id then Some (KExercise id)
  else None.

Definition fkind_id (k : fkind) : N :=
  match k with
  | KData => 0 | KHeaders => 1 | KSettings => 4 | KWebTransport => 65 | KExercise id => id
  end.

Record frame := mkframe { fk : fkind; fpayload : bytes; fsid : option N }.

Definition max_parse_payload : N := 4096.

Inductive perr := PUnknown | PInvalidSessionId | PPayloadTooBig.
Inductive rd (A : Type) := RVal (a : A) | RNone | RErr (e : perr).
Arguments RVal {A} a. Arguments RNone {A}. Arguments RErr {A} e.

(* get_bytes with an N length (never converts a huge N to nat) *)
Definition get_bytes_n (n : N) (bs : bytes) : option (bytes * bytes) :=
  if len bs <? n then None else get_bytes (N.to_nat n) bs.

(* Frame::read on a slice reader (frame.rs, after the unknown-frame repair).
   The second component is what is left in the reader: on RNone / RErr the
   reader "might be partially read" and the loops of stream.rs go on from there. *)
Definition frame_read (bs : bytes) : rd frame * bytes :=
  match get_varint bs with
  | None => (RNone, bs)
  | Some (id, r1) =>
      match fkind_parse id with
      | None =>
          match get_varint r1 with
          | None => (RNone, r1)
          | Some (l, r2) =>
              match get_bytes_n l r2 with
              | None => (RNone, r2)
              | Some (_, r3) => (RErr PUnknown, r3)
              end
          end
      | Some KWebTransport =>
          match get_varint r1 with
          | None => (RNone, r1)
          | Some (s, r2) =>
              if session_ok s then (RVal (mkframe KWebTransport [] (Some s)), r2)
              else (RErr PInvalidSessionId, r2)
          end
      | Some k =>
          match get_varint r1 with
          | None => (RNone, r1)
          | Some (l, r2) =>
              if max_parse_payload <? l then (RErr PPayloadTooBig, r2)
              else match get_bytes_n l r2 with
                   | None => (RNone, r2)
                   | Some (p, r3) => (RVal (mkframe k p None), r3)
                   end
          end
      end
  end.

(* pre-repair Frame::read: UnknownFrame after the type only *)
Definition frame_read_legacy (bs : bytes) : rd frame * bytes :=
  match get_varint bs with
  | None => (RNone, bs)
  | Some (id, r1) =>
      match fkind_parse id with
      | None => (RErr PUnknown, r1)
      | Some _ => frame_read bs
      end
  end.

(* Frame::read_from_buffer: reader = (buffer, offset); offset advances only on a value *)
Definition frame_read_from_buffer (buf : bytes) (off : nat) : rd frame * nat :=
  match frame_read (skipn off buf) with
  | (RVal f, r) => (RVal f, (length buf - length r)%nat)
  | (RNone, _) => (RNone, off)
  | (RErr e, _) => (RErr e, off)
  end.

(* Frame::write (Vec writer), write_size, write_to_buffer *)
Definition frame_write (f : frame) : bytes :=
  match fk f, fsid f with
  | KWebTransport, Some s => enc (fkind_id (fk f)) ++ enc s
  | _, _ => enc (fkind_id (fk f)) ++ enc (len (fpayload f)) ++ fpayload f
  end.
Definition frame_write_size (f : frame) : nat :=
  match fk f, fsid f with
  | KWebTransport, Some s => (vsize (fkind_id (fk f)) + vsize s)%nat
  | _, _ => (vsize (fkind_id (fk f)) + vsize (len (fpayload f)) + length (fpayload f))%nat
  end.
Definition frame_write_to_buffer (cap : nat) (f : frame) : option bytes :=
  if (cap <? frame_write_size f)%nat then None else Some (frame_write f).

(* invariant of values built by the public constructors / the parser *)
Definition frame_wf (f : frame) : bool :=
  match fk f, fsid f with
  | KWebTransport, Some s => session_ok s && (s <=? varint_max) && match fpayload f with [] => true | _ => false end
  | KWebTransport, None => false
  | KExercise id, None => is_exercise id && (id <=? varint_max)
  | _, None => true
  | _, Some _ => false
  end.

(* ---------- stream headers (stream_header.rs) ---------- *)
Inductive skind := SControl | SQPackEncoder | SQPackDecoder | SWebTransport | SExercise (id : N).

Definition skind_parse (id : N) : option skind :=
  if id =? 0 then Some SControl
  else if id =? 2 then Some SQPackEncoder
  else if id =? 3 then Some SQPackDecoder
  else if id =? 84 then Some SWebTransport
  else if is_exercise id then Some (SExercise id)
  else None.

Definition skind_id (k : skind) : N :=
  match k with
  | SControl => 0 | SQPackEncoder => 2 | SQPackDecoder => 3 | SWebTransport => 84 | SExercise id => id
  end.

Record sheader := mksheader { sk : skind; ssid : option N }.

Inductive sperr := SPUnknown | SPInvalidSessionId.
Inductive srd (A : Type) := SVal (a : A) | SNone | SErr (e : sperr).
Arguments SVal {A} a. Arguments SNone {A}. Arguments SErr {A} e.

Definition sheader_read (bs : bytes) : srd sheader * bytes :=
  match get_varint bs with
  | None => (SNone, bs)
  | Some (id, r1) =>
      match skind_parse id with
      | None => (SErr SPUnknown, r1)
      | Some SWebTransport =>
          match get_varint r1 with
          | None => (SNone, r1)
          | Some (s, r2) =>
              if session_ok s then (SVal (mksheader SWebTransport (Some s)), r2)
              else (SErr SPInvalidSessionId, r2)
          end
      | Some k => (SVal (mksheader k None), r1)
      end
  end.

Definition sheader_read_from_buffer (buf : bytes) (off : nat) : srd sheader * nat :=
  match sheader_read (skipn off buf) with
  | (SVal h, r) => (SVal h, (length buf - length r)%nat)
  | (SNone, _) => (SNone, off)
  | (SErr e, _) => (SErr e, off)
  end.

Definition sheader_write (h : sheader) : bytes :=
  match sk h, ssid h with
  | SWebTransport, Some s => enc (skind_id (sk h)) ++ enc s
  | _, _ => enc (skind_id (sk h))
  end.
Definition sheader_write_size (h : sheader) : nat :=
  match sk h, ssid h with
  | SWebTransport, Some s => (vsize (skind_id (sk h)) + vsize s)%nat
  | _, _ => vsize (skind_id (sk h))
  end.
Definition sheader_write_to_buffer (cap : nat) (h : sheader) : option bytes :=
  if (cap <? sheader_write_size h)%nat then None else Some (sheader_write h).

Definition sheader_wf (h : sheader) : bool :=
  match sk h, ssid h with
  | SWebTransport, Some s => session_ok s && (s <=? varint_max)
  | SWebTransport, None => false
  | SExercise id, None => is_exercise id && (id <=? varint_max)
  | _, None => true
  | _, Some _ => false
  end.
