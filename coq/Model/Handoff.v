(* Handoff.v -- the hand-off of peer-opened streams to the application
   (driver/mod.rs: worker accept_uni/accept_bi, per-stream tasks, bounded
   channels, Driver::accept_uni/accept_bi) as a labelled transition system,
   one instance per stream kind.  [step] is the design after the repair of C07
   (slots awaited by the stream's task once its preamble is parsed);
   [step_legacy] is the pinned design (slots reserved before the QUIC accept). *)
From WT.Model Require Import Base.

Record hst := mkhst {
  quinn_q : list N;     (* opened by the peer, not yet accepted by the worker *)
  waiting : list N;     (* per-stream tasks awaiting the preamble *)
  ready : list N;       (* tasks whose preamble is parsed, awaiting a queue slot *)
  chan : list N;        (* the bounded channel to the application *)
  delivered : list N;   (* returned by an accept call *)
  gone : list N;        (* ended without delivery: reset / unknown type before the preamble *)
  opened : list N       (* log of everything the peer ever opened *)
}.

Definition hinit : hst := mkhst [] [] [] [] [] [] [].

Inductive lbl :=
| PeerOpen (id : N) | PeerPreamble (id : N) | PeerAbort (id : N)
| WorkerAccept | TaskSend (id : N) | AppRecv | AppCancel.

Fixpoint mem (x : N) (l : list N) : bool :=
  match l with [] => false | y :: r => (x =? y) || mem x r end.
Fixpoint remove1 (x : N) (l : list N) : list N :=
  match l with [] => [] | y :: r => if x =? y then r else y :: remove1 x r end.

Definition all_ids (s : hst) : list N :=
  quinn_q s ++ waiting s ++ ready s ++ chan s ++ delivered s ++ gone s.

Definition step (cap : nat) (s : hst) (l : lbl) : option hst :=
  match l with
  | PeerOpen id =>
      if mem id (opened s) then None
      else Some (mkhst (quinn_q s ++ [id]) (waiting s) (ready s) (chan s) (delivered s) (gone s) (opened s ++ [id]))
  | WorkerAccept =>
      match quinn_q s with
      | [] => None
      | id :: q => Some (mkhst q (waiting s ++ [id]) (ready s) (chan s) (delivered s) (gone s) (opened s))
      end
  | PeerPreamble id =>
      if mem id (waiting s)
      then Some (mkhst (quinn_q s) (remove1 id (waiting s)) (ready s ++ [id]) (chan s) (delivered s) (gone s) (opened s))
      else None
  | PeerAbort id =>
      if mem id (waiting s)
      then Some (mkhst (quinn_q s) (remove1 id (waiting s)) (ready s) (chan s) (delivered s) (gone s ++ [id]) (opened s))
      else None
  | TaskSend id =>
      if mem id (ready s) && (length (chan s) <? cap)%nat
      then Some (mkhst (quinn_q s) (waiting s) (remove1 id (ready s)) (chan s ++ [id]) (delivered s) (gone s) (opened s))
      else None
  | AppRecv =>
      match chan s with
      | [] => None
      | id :: c => Some (mkhst (quinn_q s) (waiting s) (ready s) c (delivered s ++ [id]) (gone s) (opened s))
      end
  | AppCancel => Some s   (* a cancelled accept call has taken nothing *)
  end.

(* the pinned design: the worker needs a free slot BEFORE accepting the next QUIC stream,
   and the slot stays with the stream's task until it delivers *)
Definition slots_in_use (s : hst) : nat := (length (waiting s) + length (ready s) + length (chan s))%nat.
Definition step_legacy (cap : nat) (s : hst) (l : lbl) : option hst :=
  match l with
  | WorkerAccept => if (slots_in_use s <? cap)%nat then step cap s l else None
  | TaskSend id => if mem id (ready s) then
                     Some (mkhst (quinn_q s) (waiting s) (remove1 id (ready s)) (chan s ++ [id]) (delivered s) (gone s) (opened s))
                   else None
  | _ => step cap s l
  end.

Fixpoint run (stp : hst -> lbl -> option hst) (s : hst) (ls : list lbl) : option hst :=
  match ls with
  | [] => Some s
  | l :: r => match stp s l with Some s' => run stp s' r | None => None end
  end.

(* like [run] but labels that are not enabled are skipped (used to replay observed traces loosely) *)
Fixpoint run_skip (stp : hst -> lbl -> option hst) (s : hst) (ls : list lbl) : hst :=
  match ls with
  | [] => s
  | l :: r => match stp s l with Some s' => run_skip stp s' r | None => run_skip stp s r end
  end.
