(* Trace.v -- validation of OBSERVED hand-off traces against the transition system of Handoff.v.
   The driver, built with --cfg wtransport_verif, appends an event to a log at these points
   (wtransport/src/driver/mod.rs, wtransport/src/verif.rs):
     OAccept id     the worker took the stream from quinn's accept queue and spawned its task
     OPreWt id      the task parsed a WebTransport preamble
     OPreOther id   the task ended otherwise (HTTP/3 stream handed to the worker, unknown type,
                    reset / error before the preamble was complete)
     OSendBegin id  the task is about to wait for a slot of the application channel
     OSendEnd id    the stream is in the channel (logged AFTER the send completed)
     ORecv id       an accept call took the stream out of the channel (logged AFTER the receive)
     OExit          the worker ended
   The log points are add-only (no statement of the driver is rewritten), so a send and a receive are
   logged a little after they happen.  [ostep] therefore linearises: the model's TaskSend of a stream is
   placed at its OSendEnd, or immediately before its ORecv when the receive is logged first; at most one
   received item can still be unlogged (receives are serialised by the accept mutex), which is why the
   observed channel bound is [S cap] and why the receive removes a named stream instead of the head. *)
From WT.Model Require Import Base Handoff.

Inductive oev :=
| OAccept (id : N) | OPreWt (id : N) | OPreOther (id : N)
| OSendBegin (id : N) | OSendEnd (id : N) | ORecv (id : N) | OExit.

Record ost := mkost { hs : hst; begun : list N; exited : bool }.
Definition oinit : ost := mkost hinit [] false.

(* the application takes stream [id] out of the channel *)
Definition recv_id (s : hst) (id : N) : option hst :=
  if mem id (chan s)
  then Some (mkhst (quinn_q s) (waiting s) (ready s) (remove1 id (chan s)) (delivered s ++ [id]) (gone s) (opened s))
  else None.

Definition with_hs (o : ost) (s : hst) : ost := mkost s (begun o) (exited o).
Definition bind_hs (o : ost) (r : option hst) : option ost :=
  match r with Some s => Some (with_hs o s) | None => None end.

Definition ostep (cap : nat) (o : ost) (e : oev) : option ost :=
  let s := hs o in
  match e with
  | OAccept id =>
      if exited o then None
      else match step cap s (PeerOpen id) with
           | Some s1 => bind_hs o (step cap s1 WorkerAccept)
           | None => None
           end
  | OPreWt id => bind_hs o (step cap s (PeerPreamble id))
  | OPreOther id => bind_hs o (step cap s (PeerAbort id))
  | OSendBegin id =>
      if mem id (ready s) && negb (mem id (begun o))
      then Some (mkost s (begun o ++ [id]) (exited o)) else None
  | OSendEnd id =>
      if mem id (delivered s) then Some o            (* linearised at its ORecv already *)
      else if mem id (begun o) then bind_hs o (step (S cap) s (TaskSend id))
      else None
  | ORecv id =>
      if mem id (chan s) then bind_hs o (recv_id s id)
      else if mem id (begun o)
           then match step (S cap) s (TaskSend id) with
                | Some s1 => bind_hs o (recv_id s1 id)
                | None => None
                end
           else None
  | OExit => Some (mkost s (begun o) true)
  end.

Fixpoint orun (cap : nat) (o : ost) (es : list oev) : option ost :=
  match es with
  | [] => Some o
  | e :: r => match ostep cap o e with Some o' => orun cap o' r | None => None end
  end.

(* index of the first event that is not enabled (for diagnostics) *)
Fixpoint ofail (cap : nat) (o : ost) (es : list oev) (k : N) : option N :=
  match es with
  | [] => None
  | e :: r => match ostep cap o e with Some o' => ofail cap o' r (k + 1) | None => Some k end
  end.

(* nothing is left in flight: every accepted stream was delivered or ended *)
Definition drained (o : ost) : bool :=
  match quinn_q (hs o), waiting (hs o), ready (hs o), chan (hs o) with
  | [], [], [], [] => true
  | _, _, _, _ => false
  end.

(* the part of a log before the worker ended *)
Fixpoint before_exit (es : list oev) : list oev :=
  match es with
  | [] => []
  | OExit :: _ => []
  | e :: r => e :: before_exit r
  end.

(* settled: no stream with a parsed preamble is waiting although the channel has room *)
Definition settled (cap : nat) (o : ost) : bool :=
  match ready (hs o) with
  | [] => true
  | _ :: _ => (cap <=? length (chan (hs o)))%nat
  end.
