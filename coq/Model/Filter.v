(* Filter.v -- the session filter of the application-facing receive calls
   (driver/mod.rs Driver::accept_uni / accept_bi / receive_datagram): items are taken from the hand-off
   channel one by one; an item of another session is discarded (a stream is stopped with
   WEBTRANSPORT_BUFFERED_STREAM_REJECTED, a datagram is dropped) and the loop goes on; the first item of
   the caller's session is returned.  An item is (id, session id). *)
From WT.Model Require Import Base Frame.

Definition item := (N * N)%type.

Record fres := mkfres {
  returned : option item;     (* None: the channel ran empty, the call keeps waiting *)
  discarded : list item;      (* taken out and refused, in order *)
  remaining : list item       (* still in the channel *)
}.

Fixpoint accept_loop (sid : N) (ch : list item) : fres :=
  match ch with
  | [] => mkfres None [] []
  | x :: r =>
      if snd x =? sid then mkfres (Some x) [] r
      else let f := accept_loop sid r in mkfres (returned f) (x :: discarded f) (remaining f)
  end.

(* the code a discarded stream is stopped with *)
Definition discard_code : N := to_code EBufferedStreamRejected.

(* [n] successive calls on a channel that is not refilled: what the application got, what was refused *)
Fixpoint accept_n (n : nat) (sid : N) (ch : list item) : list item * list item * list item :=
  match n with
  | O => ([], [], ch)
  | S k =>
      let f := accept_loop sid ch in
      match returned f with
      | None => ([], discarded f, remaining f)
      | Some x => let '(g, d, r) := accept_n k sid (remaining f) in (x :: g, discarded f ++ d, r)
      end
  end.
