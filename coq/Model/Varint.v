(* Varint.v -- mirrors wtransport-proto/src/varint.rs and the octets
   functions it rests on (get_varint, put_varint, varint_len,
   varint_parse_len), plus the slice reader of bytes.rs:29-45. *)
From WT.Model Require Import Base.

(* VarInt::size (varint.rs:60-72) == octets::varint_len.  The code's last
   branch is unreachable!(); here it is 8 and [vsize_ok] records the guard. *)
Definition vsize (v : N) : nat :=
  if v <=? 63 then 1%nat
  else if v <=? 16383 then 2%nat
  else if v <=? 1073741823 then 4%nat
  else 8%nat.
Definition vsize_ok (v : N) : bool := v <=? varint_max.

(* VarInt::try_from_u64 (varint.rs:31-37) *)
Definition try_from_u64 (v : N) : option N :=
  if v <=? varint_max then Some v else None.

(* VarInt::parse_size (varint.rs:75-83) == octets::varint_parse_len *)
Definition parse_size (first : N) : nat :=
  match N.shiftr first 6 with
  | 0 => 1%nat
  | 1 => 2%nat
  | 2 => 4%nat
  | _ => 8%nat
  end.

(* big-endian: [be n v] = the n low-order bytes of v, most significant first
   (put_u8/u16/u32/u64 after the `as uN` truncation). *)
Fixpoint be (n : nat) (v : N) : bytes :=
  match n with
  | O => []
  | S k => be k (v / 256) ++ [v mod 256]
  end.
Fixpoint unbe_acc (acc : N) (bs : bytes) : N :=
  match bs with
  | [] => acc
  | b :: r => unbe_acc (acc * 256 + b) r
  end.
Definition unbe (bs : bytes) : N := unbe_acc 0 bs.

(* the two tag bits OR-ed into the first byte (octets put_varint_with_len) *)
Definition vtag (n : nat) : N :=
  match n with
  | 1%nat => 0
  | 2%nat => 64
  | 4%nat => 128
  | _ => 192
  end.
(* the mask applied on read: 0x3f.. (octets get_varint) *)
Definition vmask (n : nat) : N := N.ones (8 * N.of_nat n - 2).

(* put_varint: bytes appended by Vec/BufferWriter/PutVarint for value v *)
Definition enc (v : N) : bytes :=
  let n := vsize v in
  match be n v with
  | [] => []
  | b :: r => N.lor b (vtag n) :: r
  end.

(* get_varint on a slice reader: None = not enough bytes (nothing consumed),
   Some (value, rest). Mirrors bytes.rs:29-38 and octets get_varint. *)
Definition get_varint (bs : bytes) : option (N * bytes) :=
  match bs with
  | [] => None
  | b :: _ =>
      let n := parse_size b in
      if (length bs <? n)%nat then None
      else Some (N.land (unbe (firstn n bs)) (vmask n), skipn n bs)
  end.

(* get_bytes n (bytes.rs:40-44) *)
Definition get_bytes (n : nat) (bs : bytes) : option (bytes * bytes) :=
  if (length bs <? n)%nat then None else Some (firstn n bs, skipn n bs).

(* BufferWriter::put_varint with remaining capacity cap: Err leaves the
   buffer untouched (octets checks cap < len first). *)
Definition put_varint_cap (cap : nat) (v : N) : option bytes :=
  if (cap <? vsize v)%nat then None else Some (enc v).
