(* QpackC.v -- model side of harness suite "qpack" (501-505) *)
From WT.Model Require Import Base Varint Ids Frame Wire Qpack.
From WT.Corr Require Import CorrBase StreamTSC.

Definition qerr_idx (e : qerr) : N :=
  match e with QUnexpectedFin => 0 | QIntegerOverflow => 1 | QInvalidString => 2 | QDynamic => 3 | QIndexNotFound => 4 end.

(* sort entries by key (byte-wise), then flatten to k1; v1; k2; v2 ... *)
Fixpoint eins (p : bytes * bytes) (l : hmap) : hmap :=
  match l with
  | [] => [p]
  | q :: r => if bytes_leb (fst p) (fst q) then p :: l else q :: eins p r
  end.
Definition esort (m : hmap) : hmap := fold_right eins [] m.
Fixpoint eflat (m : hmap) : list (list N) :=
  match m with [] => [] | (k, v) :: r => k :: v :: eflat r end.
Definition entries (m : hmap) : list (list N) := [1; N.of_nat (length m)] :: eflat (esort m).

Fixpoint pairs_of (a : list (list N)) : hmap :=
  match a with
  | k :: v :: r => (k, v) :: pairs_of r
  | _ => []
  end.
(* Headers::from_iter = successive HashMap inserts *)
Definition map_of (l : hmap) : hmap := fold_left (fun m kv => hinsert (fst kv) (snd kv) m) l [].

Definition model (f : N) (a : list (list N)) : list (list N) :=
  match f with
  | 501 =>
      match qpack_decode (arg 0 a) with
      | Val m => entries m
      | Err e => [[2; qerr_idx e]]
      | _ => [[PANIC]]
      end
  | 502 => [[1]; qpack_encode (pairs_of a)]
  | 503 =>
      let m := map_of (pairs_of a) in
      let payload := fpayload (headers_generate_frame m) in
      [[1]; payload] ++
      match headers_with_frame payload with
      | Val m' => entries m'
      | Err e => [[2; ecode_idx e]]
      | _ => [[PANIC]]
      end
  | 504 => [[1]; hencode (arg 0 a)]
  | 505 => match hdecode (arg 0 a) with Some s => [[1]; s] | None => [[0]] end
  | _ => [[PANIC]]
  end.

Definition chk : case -> bool := mk_chk model.
