(* E2C.v -- model side of the wire engine (harness/e2): for every scenario the
   model predicts what the application and the raw peer observe. *)
From WT.Model Require Import Base Varint Ids Frame Async StreamTS Wire Qpack Session Runner Emit Term.
From WT.Corr Require Import CorrBase StreamTSC WireC QpackC E2Strings.

Definition PENDING : list N := [8].
Definition NOT_ISSUED : list N := [9].

Definition term_of_mode (mode : N) : term :=
  match mode with 0 => Fin | 1 => Reset | _ => Lost end.

(* ---- family 601: the session stream ends ---- *)
Definition masked (mask : N) (bit : N) (v : list N * list N) : list (list N) :=
  if N.testbit mask bit then [fst v; snd v] else [NOT_ISSUED; []].

Definition enc_sw (e : swerr) : list N :=
  match e with SWNotConnected => [3] | SWClosed => [4] | SWStopped c => [1; c] | SWQuicProto => [6] end.
Definition enc_cerr (e : cerr) : list N * list N :=
  match e with
  | CEApplicationClosed c r => ([1; c], r)
  | CELocalH3 e => ([2; ecode_idx e], [])
  | CELocallyClosed => ([3], [])
  | CETimedOut => ([4], [])
  | CEConnectionClosed => ([5], [])
  | CEQuicProto => ([6], [])
  | CECids => ([7], [])
  end.

Definition model_601 (a : list (list N)) : list (list N) :=
  let mode := argn 0 0 a in
  let code := argn 0 1 a in
  let mask := argn 0 2 a in
  let B := arg 1 a in
  let reason := arg 2 a in
  let r := connect_run 64 B (term_of_mode mode) in
  let mk (wait open closed raw : list N * list N) :=
      [[1]] ++ masked mask 0 wait ++ masked mask 1 wait ++ masked mask 2 wait ++
      [fst wait; snd wait; fst wait; snd wait; fst wait; snd wait] ++
      [fst open; snd open; fst closed; snd closed; fst raw; snd raw] ++
      (* finish(), twice, on a stream that was unfinished when the connection ended: quinn reports the
         connection lost; while the connection lives the peer acknowledges and finish succeeds *)
      (let fin := if list_eqb (fst wait) PENDING then [0]
                  else match finish_result QSConnectionLost with Some e => enc_sw e | None => [0] end in
       [fin; fin]) in
  if mode =? 4 then
    (* Connection::close: quinn reports LocallyClosed to every call, the peer gets code and reason *)
    let l := enc_cerr (with_driver_error DNotConnected (Some QLocally)) in
    mk l l l ([1; varint_w2q code], reason)
  else if mode =? 5 then
    let l := enc_cerr (with_driver_error DNotConnected (Some QTimedOut)) in
    mk l l l ([4], [])
  else
  match r with
  | RAppClosed c rs => mk ([1; c], rs) ([3], []) ([3], []) ([1; to_code ENoError], [])
  | RClose e => mk ([2; ecode_idx e], []) ([3], []) ([3], []) ([1; to_code e], [])
  | RNotConnected =>
      if mode =? 2 then mk ([1; code], reason) ([1; code], reason) ([1; code], reason) ([3], [])
      else mk (PENDING, []) ([0], []) (PENDING, []) (PENDING, [])
  | _ => [[PANIC]]
  end.

(* ---- family 611: the peer's control stream ---- *)
Definition model_611 (a : list (list N)) : list (list N) :=
  let mode := argn 0 0 a in
  let B := arg 1 a in
  let t := term_of_mode mode in
  match uni_accept (mkcrit false false false) B t with
  | (RContinue, c) =>
      if has_control c then
        (* bytes after the one-byte stream type *)
        let rest := tl B in
        match settings_run 64 None rest t with
        | (RClose e, _) => [[1; 2]; [1; to_code e]; []; [0]]
        | (RNotConnected, Some _) => [[1; 1]; PENDING; []; [1]]
        | (RNotConnected, None) => [[1; 2]; PENDING; []; [2]]
        | _ => [[PANIC]]
        end
      else [[PANIC]]
  | (RClose e, _) => [[1; 2]; [1; to_code e]; []; [0]]
  | _ => [[PANIC]]
  end.

(* ---- family 621: streams opened by the raw peer ---- *)
Definition WILD : N := 77777.
Fixpoint elems_match (m o : list N) : bool :=
  match m, o with
  | [], [] => true
  | x :: m', y :: o' => ((x =? WILD) || (x =? y)) && elems_match m' o'
  | _, _ => false
  end.
(* a model entry that is exactly [WILD] matches any observed entry *)
Fixpoint lists_match (m o : list (list N)) : bool :=
  match m, o with
  | [], [] => true
  | x :: m', y :: o' => (list_eqb x [WILD] || elems_match x y) && lists_match m' o'
  | _, _ => false
  end.

Record sspec := mksspec { s_kind : N; s_cut : nat; s_pause : N; s_end : N; s_code : N; s_bytes : bytes }.
Fixpoint parse_streams (a : list (list N)) : list sspec :=
  match a with
  | sp :: b :: r => mksspec (nth 0 sp 0) (N.to_nat (nth 1 sp 0)) (nth 2 sp 0) (nth 3 sp 0) (nth 4 sp 0) b :: parse_streams r
  | _ => []
  end.

Definition live_sid : N := 0.

(* what one stream contributes: delivered entry (kind, end status, payload), raw-side entry, close code *)
Record scontrib := mkcontrib { c_deliv : option (N * list N * bytes); c_raw : list N; c_close : option N }.

(* the harness application leaves a stream whose payload starts with "NOREAD" unread after those
   six bytes and reports it as (still open, "NOREAD") *)
Definition noread : bytes := [78; 79; 82; 69; 65; 68].
Definition app_view (endst : list N) (is_reset : bool) (rest : bytes) : list N * bytes :=
  if list_eqb (firstn 6 rest) noread then ([2], noread)
  else (endst, if is_reset then [WILD] else rest).
Definition stream_contrib (c : crit) (s : sspec) : scontrib * crit :=
  let w := if (s_end s =? 2) && negb (s_pause s =? 0) then firstn (s_cut s) (s_bytes s) else s_bytes s in
  let t := match s_end s with 0 => Fin | 1 => Reset | _ => Lost end in
  let endst := match s_end s with 0 => [0] | 1 => [1; s_code s] | _ => [2] end in
  if s_kind s =? 0 then
    match uni_accept c w t with
    | (RHandWT sid rest, c') =>
        if sid =? live_sid then (let (e, d) := app_view endst (s_end s =? 1) rest in mkcontrib (Some (0, e, d)) [WILD] None, c')
        else (mkcontrib None [1; to_code EBufferedStreamRejected] None, c')
    | (RIgnoreStream e, c') => (mkcontrib None [1; to_code e] None, c')
    | (RContinue, c') =>
        match uni_upgrade_async w t with
        | AUH3 (mksheader (SExercise _) _) _ => (mkcontrib None [1; 0] None, c')
        | AUH3 (mksheader (SQPackEncoder | SQPackDecoder) _) _ =>
            (* a critical stream that the peer finishes or resets closes the connection *)
            (mkcontrib None [WILD]
               (match qpack_stream_run t with RClose e => if s_end s =? 2 then None else Some (to_code e) | _ => None end), c')
        | _ => (mkcontrib None [WILD] None, c')
        end
    | (RClose e, c') => (mkcontrib None [WILD] (Some (to_code e)), c')
    | (_, c') => (mkcontrib None [WILD] None, c')
    end
  else
    match bi_accept w t with
    | RHandWT sid rest =>
        if sid =? live_sid then (let (e, d) := app_view endst (s_end s =? 1) rest in mkcontrib (Some (1, e, d)) [WILD] None, c)
        else (mkcontrib None [1; to_code EBufferedStreamRejected; 0] None, c)
    | RClose e => (mkcontrib None [WILD] (Some (to_code e)), c)
    | RRefuse e => (mkcontrib None [1; to_code e; 0] None, c)
    | _ => (mkcontrib None [WILD] None, c)
    end.

Fixpoint contribs (c : crit) (l : list sspec) : list scontrib :=
  match l with
  | [] => []
  | s :: r => let (x, c') := stream_contrib c s in x :: contribs c' r
  end.

(* the harness sorts delivered streams by (kind, payload, end status) *)
Fixpoint lex_leb (a b : list N) : bool :=
  match a, b with
  | [], _ => true
  | _ :: _, [] => false
  | x :: a', y :: b' => if x <? y then true else if y <? x then false else lex_leb a' b'
  end.
Definition deliv_leb (p q : N * list N * bytes) : bool :=
  let '(k1, e1, d1) := p in let '(k2, e2, d2) := q in
  if k1 <? k2 then true else if k2 <? k1 then false
  else if list_eqb d1 d2 then lex_leb e1 e2 else lex_leb d1 d2.
Fixpoint dins (p : N * list N * bytes) (l : list (N * list N * bytes)) :=
  match l with [] => [p] | q :: r => if deliv_leb p q then p :: l else q :: dins p r end.
Fixpoint deliv_flat (l : list (N * list N * bytes)) : list (list N) :=
  match l with [] => [] | (k, e, d) :: r => (k :: e) :: d :: deliv_flat r end.
Fixpoint opt_list {A} (l : list (option A)) : list A :=
  match l with [] => [] | Some x :: r => x :: opt_list r | None :: r => opt_list r end.

Inductive pred621 := PClose (code : N) | PNormal (m : list (list N)).
Definition predict_621 (a : list (list N)) : pred621 :=
  let ss := parse_streams (tl a) in
  let cs := contribs (mkcrit true false false) ss in
  match opt_list (map c_close cs) with
  | code :: _ => PClose code
  | [] =>
      let d := fold_right dins [] (opt_list (map c_deliv cs)) in
      PNormal ([[1; N.of_nat (length d)]] ++ deliv_flat d ++ [[7777]] ++ map c_raw cs ++ [PENDING; []])
  end.

Fixpoint last2 (l : list (list N)) : list (list N) :=
  match l with
  | [] | [_] => l
  | [x; y] => l
  | _ :: r => last2 r
  end.

Definition chk_621 (a o : list (list N)) : bool :=
  match predict_621 a with
  | PClose code => lists_eqb (last2 o) [[1; code]; []]
  | PNormal m => lists_match m o
  end.

(* ---- family 631: what the endpoint emits ---- *)
Definition control_ok (bs : bytes) : bool :=
  match sheader_read bs with
  | (SVal (mksheader SControl None), r1) =>
      match frame_read r1 with
      | (RVal (mkframe KSettings payload None), []) =>
          match settings_with_frame payload with
          | Val m => list_eqb (flat (sort_pairs m)) (flat (sort_pairs local_settings))
          | _ => false
          end
      | _ => false
      end
  | _ => false
  end.

Definition chk_631 (a o : list (list N)) : bool :=
  let sid := 4 * argn 0 0 a in
  match o with
  | [h; ok; control; uni; bi; dg; runi; rbi] =>
      list_eqb h [1; sid] && list_eqb ok [1; 1; 1] && control_ok control &&
      list_eqb uni (emit_uni_preamble sid ++ arg 1 a) &&
      list_eqb bi (emit_bi_preamble sid ++ arg 2 a) &&
      list_eqb dg (emit_datagram sid (arg 3 a)) &&
      (* the other direction: what the accept path hands the application for the same session *)
      (match uni_accept (mkcrit true false false) (emit_uni_preamble sid ++ arg 2 a) Fin with
       | (RHandWT s2 rest, _) => (s2 =? sid) && list_eqb runi (1 :: 0 :: rest)
       | _ => false end) &&
      (match bi_accept (emit_bi_preamble sid ++ arg 1 a) Fin with
       | RHandWT s2 rest => (s2 =? sid) && list_eqb rbi (1 :: 0 :: rest)
       | _ => false end)
  | _ => false
  end.

(* ---- family 632: opening a stream of one kind while the other kind waits for credit ---- *)
Definition chk_632 (a o : list (list N)) : bool :=
  let pre := if argn 0 0 a =? 0 then emit_bi_preamble 0 else emit_uni_preamble 0 in
  lists_eqb o [[1]; [1]; pre ++ [111; 116; 104; 101; 114; 45; 107; 105; 110; 100]; PENDING].

(* ---- family 641: stream termination signals ---- *)
Definition model_641 (a : list (list N)) : list (list N) :=
  let op := argn 0 0 a in let code := argn 0 1 a in let nb := argn 0 2 a in
  match op with
  | 1 => let st := enc_sw (map_stopped (QSSome code)) in
         let wr := enc_sw (map_write (QWStopped code)) in
         let fi := match finish_result (QSSome code) with Some e => enc_sw e | None => [0] end in
         [[1]; st; wr; fi; wr; st; fi]
  | 2 => [[1]; match map_read (QRReset code) with SRReset c => [1; c] | _ => [3] end]
  | 3 => [[1]; [1; varint_w2q code]]
  | 4 => [[1; 1]; [1; varint_w2q code]]
  | 7 => [[1; 1]; [1; varint_w2q code]]   (* an abandoned finish() does not swallow the reset *)
  | 5 => [[1; 1; nb]; match finish_result QSNone with None => [0] | Some e => enc_sw e end; [0]]
  (* finish() retried while nothing is acknowledged: pending twice (the cell is not set), then Ok *)
  | 6 => [[1; 1]; PENDING; PENDING; match finish_result QSNone with None => [0] | Some e => enc_sw e end; [0]]
  | _ => [[PANIC]]
  end.

(* ---- family 651: datagrams ---- *)
Definition opt_of (l : list N) : option N := match l with [1; v] => Some v | _ => None end.
Fixpoint probes_ok (qm sid : N) (l : list N) : bool :=
  match l with
  | L :: r :: rest => ((r =? (if send_too_large qm sid L then 1 else 0))) && probes_ok qm sid rest
  | [] => true
  | _ => false
  end.
Fixpoint expected_dgrams (sid : N) (ds : list (list N)) : list bytes * bool :=
  match ds with
  | [] => ([], true)
  | d :: r =>
      let (l, ok) := expected_dgrams sid r in
      match drv_dgram_read d with
      | Val (s, _, p) => ((if s =? sid then p :: l else l), ok)
      | _ => (l, false)
      end
  end.
Fixpoint bins (p : bytes) (l : list bytes) : list bytes :=
  match l with [] => [p] | q :: r => if lex_leb p q then p :: l else q :: bins p r end.
Definition chk_651 (a o : list (list N)) : bool :=
  let sid := 4 * argn 0 0 a in
  match o with
  | h :: wt :: qmx :: probes :: peer :: cnt :: rest =>
      let qm := opt_of qmx in
      let '(exp, all_ok) := expected_dgrams sid (skipn 2 a) in
      let exp_sorted := fold_right bins [] exp in
      list_eqb h [1; sid] &&
      (match max_datagram_size qm sid with Some m => list_eqb wt [1; m] | None => list_eqb wt [0] end) &&
      (match qm with Some q => probes_ok q sid probes | None => match probes with [] => true | _ => false end end) &&
      (nth 1 peer 1 =? 0) &&
      (if all_ok then
         list_eqb cnt [N.of_nat (length exp_sorted)] && lists_eqb (firstn (length exp_sorted) rest) exp_sorted
       else lists_eqb (last2 o) [[1; to_code EDatagram]; []])
  | _ => false
  end.

(* ---- family 661: the client against a raw server ---- *)
Definition chk_661 (a o : list (list N)) : bool :=
  let resp := arg 1 a in
  let t := term_of_mode (match argn 2 0 a with 0 => 0 | 1 => 1 | _ => 2 end) in
  let extra := pairs_of (skipn 3 a) in
  let reserved := existsb (fun kv => is_reserved (fst kv)) extra in
  match o with
  | [h; outcome; reqframe; ch; cr; port; post; post_reason] =>
      if reserved then list_eqb outcome [4]
      else
        let authority := loopback_prefix ++ show_dec (nth 0 port 0) in
        let req := fold_left (fun m kv => hinsert (fst kv) (snd kv) m) extra (request_new authority client_path) in
        list_eqb reqframe (qpack_encode (sorted_headers req)) &&
        match client_response resp t with
        | CSession => list_eqb outcome [0; 0] &&
            (* the established session continues on the bytes behind the response *)
            match client_established_run resp t with
            | RAppClosed c rs => list_eqb post [1; c] && list_eqb post_reason rs
            | RClose e => list_eqb post [2; ecode_idx e]
            | _ => list_eqb post PENDING
            end
        | CSessionRejected => list_eqb outcome [1]
        | CLocalH3 e => list_eqb outcome [2; 2; ecode_idx e] && list_eqb ch [1; to_code e]
        | CNoConnection => list_eqb outcome [2; 3]
        | CPending => list_eqb outcome [8]
        end
  | _ => false
  end.

Definition model (f : N) (a : list (list N)) : list (list N) :=
  match f with
  | 601 => model_601 a
  | 611 => model_611 a
  | 621 => match predict_621 a with PClose code => [[1; code]] | PNormal m => m end
  | 641 => model_641 a
  | _ => [[PANIC]]
  end.

(* ---- family 671: the library on both ends ---- *)
Definition chk_671 (a o : list (list N)) : bool :=
  let kind := argn 0 1 a in
  let code := argn 0 3 a in
  let sizes := arg 1 a in
  let reason := arg 2 a in
  let dg := arg 3 a in
  let remote := enc_cerr (of_quinn (QApp (varint_q2w code) reason)) in
  let local := enc_cerr (of_quinn QLocally) in
  let dgp := flat_map (fun _ => [1; 1]) dg in
  if argn 0 5 a =? 2 then
    (* tokio I/O traits: one read_exact over two deliveries returns the payload, then end-of-stream *)
    lists_eqb o [[1; 1; 1; 0; 1; 1]]
  else if argn 0 5 a =? 1 then
    (* tight connection credit: either the machine could not be calibrated ([[3]]: no verdict) or the
       1000 bytes arrive exactly, then end-of-stream *)
    lists_eqb o [[3]] || lists_eqb o [[1; 1]; [1; 1000; 0]]
  else
  lists_eqb o ([[1; len sizes]] ++ map (fun sz => [1; sz; 0]) sizes ++ [[7777]]
               ++ map (fun _ => if kind =? 0 then [1; 1; 0] else [1; 1; 0; 1]) sizes
               ++ [[8888]; dgp; dgp; [9999]]
               ++ [fst remote; snd remote; fst remote; snd remote; fst local]).

(* all handles dropped: the peer sees the connection end (how is quinn's business) *)
Definition chk_601 (a o : list (list N)) : bool :=
  if argn 0 0 a =? 6 then match o with [[1]; seen; _] => negb (list_eqb seen PENDING) | _ => false end
  else lists_eqb (model_601 a) o.

(* client role (a[0][3] = 1): connect() sends its request as soon as the SETTINGS are in, so when the
   peer closes or resets its control stream afterwards, whether the request still got out is a race:
   only the close code is predicted then *)
Definition chk_611 (a o : list (list N)) : bool :=
  let m := model_611 a in
  if (argn 0 3 a =? 1) && negb (argn 0 0 a =? 3) then
    match m, o with
    | [_; mch; _; _], [_; och; _; _] => list_eqb mch och
    | _, _ => false
    end
  else lists_eqb m o.

Definition chk (c : case) : bool :=
  let '(f, a, o) := c in
  if f =? 601 then chk_601 a o
  else if f =? 611 then chk_611 a o
  else if f =? 671 then chk_671 a o
  else if f =? 621 then chk_621 a o
  else if f =? 631 then chk_631 a o
  else if f =? 632 then chk_632 a o
  else if f =? 651 then chk_651 a o
  else if f =? 661 then chk_661 a o
  else lists_eqb (model f a) o.
