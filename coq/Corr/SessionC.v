(* SessionC.v -- model side of harness suite "request" (521-524) *)
From WT.Model Require Import Base Varint Ids Frame Wire Qpack Session.
From WT.Corr Require Import CorrBase QpackC.

Definition herr_idx (e : herr) : N :=
  match e with
  | HMissingMethod => 0 | HMethodNotConnect => 1 | HMissingScheme => 2 | HSchemeNotHttps => 3
  | HMissingProtocol => 4 | HProtocolNotWebTransport => 5 | HMissingAuthority => 6 | HMissingPath => 7
  | HMissingStatusCode => 8 | HInvalidStatusCode => 9
  end.

Fixpoint do_inserts (l : hmap) (req : hmap) (acc : list N) : hmap * list N :=
  match l with
  | [] => (req, acc)
  | (k, v) :: r => match request_insert k v req with
                   | Some req' => do_inserts r req' (acc ++ [1])
                   | None => do_inserts r req (acc ++ [0])
                   end
  end.

Definition opt_bytes (o : option bytes) : bytes := match o with Some b => b | None => [] end.

Definition model (f : N) (a : list (list N)) : list (list N) :=
  match f with
  | 521 =>
      match a with
      | [_; authority; path] =>
          let req := request_new authority path in
          [[1]; authority; path] ++ entries req
      | [_; cls] => [[0; nth 0 cls 0]]   (* URL refused: the class comes from the url crate (oracle) *)
      | _ => [[PANIC]]
      end
  | 522 =>
      let req := request_new (arg 0 a) (arg 1 a) in
      let '(req', res) := do_inserts (pairs_of (skipn 2 a)) req [] in
      [[1]; res; opt_bytes (hget k_authority req'); opt_bytes (hget k_path req')] ++ entries req'
  | 523 =>
      match request_try_from (map_of (pairs_of a)) with
      | inr h => [[1]] ++ entries h
      | inl e => [[0; herr_idx e]]
      end
  | 524 =>
      match response_try_from (map_of (pairs_of a)) with
      | inr c => [[1; c; if status_is_successful c then 1 else 0]] ++ entries (response_with_status c)
      | inl e => [[0; herr_idx e]]
      end
  | _ => [[PANIC]]
  end.

Definition chk : case -> bool := mk_chk model.
