(* E4C.v -- model side of the TLS / configuration engine (harness/e4) *)
From WT.Model Require Import Base Varint Ids Tls Config.
From WT.Corr Require Import CorrBase.

Definition bias : N := 1099511627776. (* 2^40 *)
Definition pin_idx (r : pinres) : N :=
  match r with PinOk => 0 | PinNotValidYet => 1 | PinExpired => 2 | PinUnknownIssuer => 3 | PinBadEncoding => 4 end.
Definition opt32 (o : option bytes) : list N := match o with Some d => 1 :: d | None => [0] end.

Definition private_key_label : bytes := [80; 82; 73; 86; 65; 84; 69; 32; 75; 69; 89].
Definition certificate_label : bytes := [67; 69; 82; 84; 73; 70; 73; 67; 65; 84; 69].

Definition ip_out (i : ipk) : list N :=
  match i with
  | Ip4Localhost => [4; 127; 0; 0; 1]
  | Ip4Unspecified => [4; 0; 0; 0; 0]
  | Ip6Localhost => 6 :: repeat 0 15 ++ [1]
  | Ip6Unspecified => 6 :: repeat 0 16
  end.
Definition preset_of (n : N) : preset :=
  match n with 0 => LocalV4 | 1 => LocalV6 | 2 => LocalDual | 3 => AnyV4 | 4 => AnyV6 | _ => AnyDual end.

(* 701: args [alg; nb; na; now; mode; corrupt]; the abstract certificate inputs are in the observation (out[1]) *)
Definition chk_701 (a o : list (list N)) : bool :=
  match o with
  | [_; code] :: [nb; na; ec; p256] :: h :: set =>
      let corrupt := argn 0 5 a in
      (* the configured set and the SHA-256 of the presented certificate are observed; membership is the model's *)
      let hash_in := existsb (list_eqb h) set in
      let c := mkcertv (negb (corrupt =? 1)) nb na (ec =? 1) (p256 =? 1) in
      code =? pin_idx (pin_verify c (argn 0 3 a) hash_in)
  | _ => false
  end.

Definition chk_722 (a o : list (list N)) : bool :=
  match o with
  | h :: text :: ders =>
      list_eqb h [1; 1; 1; 1] && list_eqb text (flat_map (pem_encode certificate_label) ders)
  | _ => false
  end.

Definition model (f : N) (a : list (list N)) : list (list N) :=
  match f with
  | 711 =>
      let d := arg 0 a in
      let sa := fmt_array d in let sh := fmt_hex d in
      [[1]; sa; opt32 (parse_array sa); opt32 (digest_from_str sa); sh; opt32 (parse_dotted_hex sh); opt32 (digest_from_str sh); sh]
  | 712 =>
      let s := arg 1 a in
      [opt32 (match argn 0 0 a with 0 => parse_array s | 1 => parse_dotted_hex s | _ => digest_from_str s end)]
  | 721 => [[1; 1; 1]; pem_encode private_key_label (arg 0 a)]
  | 741 =>
      let preset := argn 0 1 a in
      let role := argn 0 0 a in
      let ip := match preset with
                | 6 => Ip4Localhost
                | 7 => Ip6Unspecified
                | p => preset_ip (preset_of p)
                end in
      let dual := match preset with
                  | 6 => OsDefault
                  | 7 => match argn 0 2 a with 0 => OsDefault | 1 => Deny | _ => Allow end
                  | p => preset_dual (preset_of p)
                  end in
      (* reachability over the two loopbacks, as a function of (ip, v6only); OS default on Linux = dual stack *)
      let v4 := match ip with
                | Ip4Localhost | Ip4Unspecified => 1
                | Ip6Localhost => 0
                | Ip6Unspecified => match v6only dual with Some true => 0 | _ => 1 end
                end in
      let v6 := match ip with Ip4Localhost | Ip4Unspecified => 0 | _ => 1 end in
      (* server role: reachable from the v4 / v6 loopback; client role: can reach a server on the v4 / v6 loopback *)
      [[1]; ip_out ip; [1; v4; v6]; []]
  | 724 => [[1; 1; 1; 1; 1; 1]]
  | 751 =>
      let ok := match idle_accept (argn 0 0 a) (argn 0 1 a) with Some _ => 1 | None => 0 end in
      [[1; ok; ok; 1]]
  | 754 =>
      let ops := map (fun o => match o with
                               | [1; 0] => SetIdle None
                               | [1; _; s; n] => SetIdle (Some (s, n))
                               | [2; 0] => SetKeep None
                               | [2; _; ms] => SetKeep (Some ms)
                               | [3; v] => if argn 0 0 a =? 0 then SetMigr (v =? 1) else SetKeep None
                               | _ => SetKeep None
                               end) (tl a) in
      (* the client builder has no allow_migration: such an op is not generated for it *)
      match cbuild tdefault ops with
      | None => [[1; 0]]
      | Some c => [[1; 1];
                   match t_idle c with None => [0] | Some ms => [1; ms] end;
                   match t_keep c with None => [0] | Some ms => [1; ms] end;
                   [if t_migr c then 1 else 0]]
      end
  | _ => [[PANIC]]
  end.

Definition chk (c : case) : bool :=
  let '(f, a, o) := c in
  if f =? 701 then chk_701 a o
  else if f =? 722 then chk_722 a o
  else if (f =? 702) || (f =? 703) || (f =? 732) || (f =? 742) || (f =? 723) || (f =? 731) || (f =? 753) || (f =? 772) || (f =? 752) || (f =? 761) || (f =? 771) then true  (* judged by the implementation-side oracle *)
  else lists_eqb (model f a) o.
