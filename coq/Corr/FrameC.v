(* FrameC.v -- model side of harness suites "frame" (201-209) and "sheader" (251-255) *)
From WT.Model Require Import Base Varint Ids Frame Async.
From WT.Corr Require Import CorrBase.

Definition frame_hdr (f : frame) : list N :=
  let k := match fk f with KData => 0 | KHeaders => 1 | KSettings => 2 | KWebTransport => 3 | KExercise _ => 4 end in
  match fk f, fsid f with
  | KWebTransport, Some s => [k; fkind_id (fk f); 1; s]
  | _, _ => [k; fkind_id (fk f); 0; 0]
  end.
Definition perr_idx (e : perr) : N :=
  match e with PUnknown => 0 | PInvalidSessionId => 1 | PPayloadTooBig => 2 end.
Definition ioerr_idx (e : ioerr) : N :=
  match e with ImmediateFin => 0 | UnexpectedFin => 1 | IoReset => 2 | IoLost => 3 end.
Definition sheader_hdr (h : sheader) : list N :=
  let k := match sk h with SControl => 0 | SQPackEncoder => 1 | SQPackDecoder => 2 | SWebTransport => 3 | SExercise _ => 4 end in
  match sk h, ssid h with
  | SWebTransport, Some s => [k; skind_id (sk h); 1; s]
  | _, _ => [k; skind_id (sk h); 0; 0]
  end.
Definition sperr_idx (e : sperr) : N := match e with SPUnknown => 0 | SPInvalidSessionId => 1 end.

Definition sched_of (l : list N) : list ev :=
  map (fun n => if n =? 0 then Pend else Chunk (N.to_nat n)) l.
Definition term_of (n : N) : term := match n with 0 => Fin | 1 => Reset | _ => Lost end.

Definition mk_frame (spec : list N) (payload : bytes) : frame :=
  match nth 0 spec 0 with
  | 0 => mkframe KData payload None
  | 1 => mkframe KHeaders payload None
  | 2 => mkframe KSettings payload None
  | 3 => mkframe KWebTransport [] (Some (nth 1 spec 0))
  | _ => mkframe (KExercise (nth 1 spec 0)) payload None
  end.
Definition mk_sheader (spec : list N) : sheader :=
  match nth 0 spec 0 with
  | 0 => mksheader SControl None
  | _ => mksheader SWebTransport (Some (nth 1 spec 0))
  end.

Definition sink_sched (l : list N) : list nat := map N.to_nat l.

Definition model (f : N) (a : list (list N)) : list (list N) :=
  match f with
  | 201 =>
      let bs := arg 0 a in
      match frame_read bs with
      | (RVal fr, r) => [[1; nlen bs - nlen r]; frame_hdr fr; fpayload fr]
      | (RNone, r) => [[0; nlen bs - nlen r]]
      | (RErr e, r) => [[2; nlen bs - nlen r; perr_idx e]]
      end
  | 202 =>
      let bs := arg 0 a in
      let off := N.to_nat (argn 1 0 a) in
      match frame_read_from_buffer bs off with
      | (RVal fr, o) => [[1; N.of_nat o]; frame_hdr fr; fpayload fr]
      | (RNone, o) => [[0; N.of_nat o]]
      | (RErr e, o) => [[2; N.of_nat o; perr_idx e]]
      end
  | 203 =>
      let bs := arg 0 a in
      match frame_read_async bs (term_of (argn 2 0 a)) with
      | AOk fr r => [[1; nlen bs - nlen r]; frame_hdr fr; fpayload fr]
      | AParse e r => [[2; nlen bs - nlen r; perr_idx e]]
      | AIo e r => [[3; nlen bs - nlen r; ioerr_idx e]]
      end
  | 204 =>
      let fr := mk_frame (arg 0 a) (arg 1 a) in
      let w := frame_write fr in
      let aw := match put_buffer_async (S (length w + length (arg 2 a))) w (sink_sched (arg 2 a)) [] with Some o => o | None => [PANIC] end in
      [[1]; w; [N.of_nat (frame_write_size fr)]; aw] ++
      match frame_read (w ++ [171]) with
      | (RVal g, r) => [[1; nlen w + 1 - nlen r]; frame_hdr g; fpayload g]
      | (RNone, _) => [[0]]
      | (RErr e, _) => [[2; perr_idx e]]
      end
  | 205 =>
      let fr := mk_frame (arg 0 a) (arg 1 a) in
      let cap := N.to_nat (argn 2 0 a) in
      match frame_write_to_buffer cap fr with
      | None => [[0]; repeat 170 cap; [0]]
      | Some w => [[1]; w ++ repeat 170 (cap - length w); [nlen w]]
      end
  | 206 => let b := if is_exercise (argn 0 0 a) then 1 else 0 in [[b; b]]
  | 207 =>
      let bs := arg 0 a in
      let sch := sched_of (arg 1 a) in
      let s := mksrc bs sch (term_of (argn 2 0 a)) in
      match drive (S (length sch)) gv_poll gv_init s with
      | Some (inr v, s') => [[1; nlen bs - nlen (sdata s'); N.of_nat (length sch - length (ssched s')); v]]
      | Some (inl e, s') => [[3; nlen bs - nlen (sdata s'); N.of_nat (length sch - length (ssched s')); ioerr_idx e]]
      | None => [[PANIC]]
      end
  | 208 =>
      let bs := arg 0 a in
      let sch := sched_of (arg 1 a) in
      let n := N.to_nat (argn 3 0 a) in
      let s := mksrc bs sch (term_of (argn 2 0 a)) in
      match drive (S (length sch)) (gb_poll (S n) n) [] s with
      | Some (inr got, s') => [[1; nlen bs - nlen (sdata s'); N.of_nat (length sch - length (ssched s'))]; got]
      | Some (inl e, s') => [[3; nlen bs - nlen (sdata s'); N.of_nat (length sch - length (ssched s')); ioerr_idx e]]
      | None => [[PANIC]]
      end
  | 209 =>
      let w := enc (argn 0 0 a) in
      let bs := arg 1 a in
      let sch := sink_sched (arg 2 a) in
      (* the sink's schedule is consumed by PutVarint first, then by PutBuffer:
         bytes emitted are the concatenation whatever the split *)
      [[1]; w ++ bs]
  | 251 =>
      let bs := arg 0 a in
      match sheader_read bs with
      | (SVal h, r) => [[1; nlen bs - nlen r]; sheader_hdr h]
      | (SNone, r) => [[0; nlen bs - nlen r]]
      | (SErr e, r) => [[2; nlen bs - nlen r; sperr_idx e]]
      end
  | 252 =>
      let bs := arg 0 a in
      let off := N.to_nat (argn 1 0 a) in
      match sheader_read_from_buffer bs off with
      | (SVal h, o) => [[1; N.of_nat o]; sheader_hdr h]
      | (SNone, o) => [[0; N.of_nat o]]
      | (SErr e, o) => [[2; N.of_nat o; sperr_idx e]]
      end
  | 253 =>
      let bs := arg 0 a in
      match sheader_read_async bs (term_of (argn 2 0 a)) with
      | AOk h r => [[1; nlen bs - nlen r]; sheader_hdr h]
      | AParse e r => [[2; nlen bs - nlen r; sperr_idx e]]
      | AIo e r => [[3; nlen bs - nlen r; ioerr_idx e]]
      end
  | 254 =>
      let h := mk_sheader (arg 0 a) in
      let w := sheader_write h in
      let aw := match put_buffer_async (S (length w + length (arg 1 a))) w (sink_sched (arg 1 a)) [] with Some o => o | None => [PANIC] end in
      [[1]; w; [N.of_nat (sheader_write_size h)]; aw] ++
      match sheader_read (w ++ [171]) with
      | (SVal g, r) => [[1; nlen w + 1 - nlen r]; sheader_hdr g]
      | (SNone, _) => [[0]]
      | (SErr e, _) => [[2; sperr_idx e]]
      end
  | 255 =>
      let h := mk_sheader (arg 0 a) in
      let cap := N.to_nat (argn 1 0 a) in
      match sheader_write_to_buffer cap h with
      | None => [[0]; repeat 170 cap; [0]]
      | Some w => [[1]; w ++ repeat 170 (cap - length w); [nlen w]]
      end
  | _ => [[PANIC]]
  end.

Definition chk : case -> bool := mk_chk model.
