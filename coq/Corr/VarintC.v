(* VarintC.v -- model side of harness suite "varint" (function ids 101-107) *)
From WT.Model Require Import Base Varint.
From WT.Corr Require Import CorrBase.

Definition ck_mod : N := 2305843009213693951.

Fixpoint ck_bytes (i : N) (bs : bytes) (ck : N) : N :=
  match bs with
  | [] => ck
  | b :: r => ck_bytes (i + 1) r ((ck + (i + 1) * (b + 1)) mod ck_mod)
  end.

(* iterate over [lo, lo+n) *)
Fixpoint range_ck (n : nat) (x : N) (fails ck : N) : N * N :=
  match n with
  | O => (fails, ck)
  | S k =>
      let e := enc x in
      let ok := match get_varint e with
                | Some (y, []) => (y =? x) && (Nat.eqb (length e) (vsize x))
                | _ => false
                end in
      range_ck k (x + 1) (if ok then fails else fails + 1)
               ((ck_bytes 0 e ck * 31) mod ck_mod)
  end.

Definition model (f : N) (a : list (list N)) : list (list N) :=
  match f with
  | 101 =>
      let bs := arg 0 a in
      match get_varint bs with
      | Some (v, r) => [[1; v; nlen bs - nlen r]]
      | None => [[0; 0]]
      end
  | 102 =>
      let bs := arg 0 a in
      let off := N.to_nat (argn 1 0 a) in
      if (length bs <? off)%nat then [[2; 0]]
      else
        let rem := skipn off bs in
        match get_varint rem with
        | Some (v, r) => [[1; v; nlen bs - nlen r; nlen r]]
        | None => [[0; N.of_nat off; nlen rem]]
        end
  | 103 =>
      let v := argn 0 0 a in
      let e := enc v in
      [[1]; e; [N.of_nat (vsize v)];
       match get_varint (e ++ [171]) with
       | Some (y, r) => [1; y; nlen e + 1 - nlen r]
       | None => [0]
       end]
  | 104 =>
      match try_from_u64 (argn 0 0 a) with
      | Some v => [[1; v]]
      | None => [[0]]
      end
  | 105 => [[1; N.of_nat (parse_size (argn 0 0 a))]]
  | 106 =>
      let cap := N.to_nat (argn 0 0 a) in
      let v := argn 0 1 a in
      match put_varint_cap cap v with
      | None => [[0]; repeat 170 cap; [0]]
      | Some e => [[1]; e ++ repeat 170 (cap - length e); [nlen e]]
      end
  | 107 =>
      let lo := argn 0 0 a in
      let hi := argn 0 1 a in
      let '(fails, ck) := range_ck (N.to_nat (hi - lo)) lo 0 0 in
      [[1; fails; ck]]
  | _ => [[PANIC]]
  end.

Definition chk : case -> bool := mk_chk model.
