(* StreamTSC.v -- model side of harness suite "typestate" (301-306) *)
From WT.Model Require Import Base Varint Ids Frame Async StreamTS.
From WT.Corr Require Import CorrBase FrameC.

Definition ts_of (n : N) : tstate :=
  match n with 0 => TBiRemote | 1 => TBiLocal | 2 => TUniRemote | _ => TSession end.

(* a sequence of read_frame calls on one reader (at most 64, as the harness) *)
Fixpoint seq_sync (calls : nat) (ts : tstate) (fd : bool) (total : N) (bs : bytes) : list (list N) :=
  match calls with
  | O => []
  | S k =>
      match read_frame (fuel_for bs) ts fd bs with
      | TFrame f r fd' => ([1; total - nlen r] ++ frame_hdr f) :: fpayload f :: seq_sync k ts fd' total r
      | TNeedMore r _ => [[0; total - nlen r]]
      | TErr e r _ => [[2; total - nlen r; ecode_idx e]]
      | TOutOfFuel => [[PANIC]]
      end
  end.

Fixpoint seq_buf (calls : nat) (ts : tstate) (fd : bool) (buf : bytes) (off : nat) : list (list N) :=
  match calls with
  | O => []
  | S k =>
      match read_frame_from_buffer ts fd buf off with
      | BFrame f o fd' => ([1; N.of_nat o] ++ frame_hdr f) :: fpayload f :: seq_buf k ts fd' buf o
      | BNeedMore o _ => [[0; N.of_nat o]]
      | BErr e o _ => [[2; N.of_nat o; ecode_idx e]]
      | BOutOfFuel => [[PANIC]]
      end
  end.

Fixpoint seq_async (calls : nat) (ts : tstate) (fd : bool) (total : N) (d : bytes) (t : term) : list (list N) :=
  match calls with
  | O => []
  | S k =>
      match read_frame_async (fuel_for d) ts fd d t with
      | ATFrame f r fd' => ([1; total - nlen r] ++ frame_hdr f) :: fpayload f :: seq_async k ts fd' total r t
      | ATH3 e r _ => [[2; total - nlen r; ecode_idx e]]
      | ATIo e r _ => [[3; total - nlen r; ioerr_idx e]]
      | ATOutOfFuel => [[PANIC]]
      end
  end.

Definition all_codes : list ecode :=
  [EDatagram; ENoError; EStreamCreation; EClosedCriticalStream; EFrameUnexpected; EFrame;
   EExcessiveLoad; EId; ESettings; EMissingSettings; ERequestRejected; EMessage; EDecompression;
   EBufferedStreamRejected; ESessionGone].

Definition model (f : N) (a : list (list N)) : list (list N) :=
  match f with
  | 301 => let bs := arg 1 a in seq_sync 64 (ts_of (argn 0 0 a)) false (nlen bs) bs
  | 302 => seq_buf 64 (ts_of (argn 0 0 a)) false (arg 1 a) 0
  | 303 => let bs := arg 1 a in seq_async 64 (ts_of (argn 0 0 a)) false (nlen bs) bs (term_of (argn 3 0 a))
  | 304 =>
      let bs := arg 0 a in
      match uni_upgrade bs with
      | UH3 h r => [[1; nlen bs - nlen r]; sheader_hdr h]
      | UQuic r => [[0; nlen bs - nlen r]]
      | UErr e r => [[2; nlen bs - nlen r; ecode_idx e]]
      end
  | 305 =>
      let bs := arg 0 a in
      match uni_upgrade_async bs (term_of (argn 2 0 a)) with
      | AUH3 h r => [[1; nlen bs - nlen r]; sheader_hdr h]
      | AUH3Err e r => [[2; nlen bs - nlen r; ecode_idx e]]
      | AUIo e r => [[3; nlen bs - nlen r; ioerr_idx e]]
      end
  | 306 => [map to_code all_codes]
  | _ => [[PANIC]]
  end.

Definition chk : case -> bool := mk_chk model.
