(* E3C.v -- model side of the trace engine (harness/e2/src/suites/trace.rs).
   681: the driver's own hand-off event log of a scripted-streams scenario is folded through
        [Trace.orun] (one instance of the transition system per direction: the unidirectional
        channel holds 4 streams, the bidirectional one 1) and compared with what the application
        saw through the public API.
   691: operation sequences on the real result cell against [Term.cstep]. *)
From WT.Model Require Import Base Varint Ids Frame Wire Qpack Session Runner Handoff Trace Term Filter Closing.

From WT.Corr Require Import CorrBase.

(* ---- 681 ---- *)
Definition UNI_CAP : nat := 4.   (* driver/mod.rs: mpsc::channel(4) *)
Definition BI_CAP : nat := 1.    (* driver/mod.rs: mpsc::channel(1) *)

(* event = [tag; dir; id; extra] *)
Definition oev_of (e : list N) : option oev :=
  match e with
  | [1; _; id; _] => Some (OAccept id)
  | [2; _; id; _] => Some (OPreWt id)
  | [3; _; id; _] => Some (OPreOther id)
  | [4; _; id; _] => Some (OSendBegin id)
  | [5; _; id; _] => Some (OSendEnd id)
  | [6; _; id; _] => Some (ORecv id)
  | [7; _; _; _] => Some OExit
  | _ => None
  end.

Definition dir_of (e : list N) : N := nth 1 e 9.

Fixpoint events_of (dir : N) (es : list (list N)) : option (list oev) :=
  match es with
  | [] => Some []
  | e :: r =>
      if (dir_of e =? dir) || (dir_of e =? 2) then
        match oev_of e, events_of dir r with
        | Some x, Some xs => Some (x :: xs)
        | _, _ => None
        end
      else if dir_of e <? 2 then events_of dir r else None
  end.

(* session named by the preamble of stream [id] (None: no WebTransport preamble logged) *)
Fixpoint session_of (dir id : N) (es : list (list N)) : option N :=
  match es with
  | [] => None
  | [2; d; i; s] :: r => if (d =? dir) && (i =? id) then Some s else session_of dir id r
  | _ :: r => session_of dir id r
  end.

(* every receive is flagged "returned to the caller" exactly when the stream names the live session
   (session 0 in these scenarios): streams of other sessions are taken out and discarded *)
Fixpoint recv_flags_ok (all es : list (list N)) : bool :=
  match es with
  | [] => true
  | [6; d; i; flag] :: r =>
      match session_of d i all with
      | Some s =>
          (* the model's filter (Filter.accept_loop) on the one item the call took out *)
          (flag =? match returned (accept_loop 0 [(i, s)]) with Some _ => 1 | None => 0 end) && recv_flags_ok all r
      | None => false
      end
  | _ :: r => recv_flags_ok all r
  end.

Fixpoint count_returned (dir : N) (es : list (list N)) : N :=
  match es with
  | [] => 0
  | [6; d; _; 1] :: r => (if d =? dir then 1 else 0) + count_returned dir r
  | _ :: r => count_returned dir r
  end.

Definition trace_ok (cap : nat) (dir : N) (es : list (list N)) : bool :=
  match events_of dir es with
  | Some evs =>
      match orun cap oinit evs with
      | Some _ =>
          (* when the scenario ended (before the worker was told to stop) nothing parsed was waiting
             although the channel had room *)
          match orun cap oinit (before_exit evs) with Some o => settled cap o | None => false end
      | None => false
      end
  | None => false
  end.

Definition chk_681 (o : list (list N)) : bool :=
  match o with
  | [2] :: _ => true                      (* no connection: no scenario *)
  | [1; gu; gb] :: [8888] :: es =>
      trace_ok UNI_CAP 0 es && trace_ok BI_CAP 1 es && recv_flags_ok es es &&
      (* everything the application got through accept_uni / accept_bi is in the log as returned *)
      (gu <=? count_returned 0 es) && (gb <=? count_returned 1 es)
  | _ => false
  end.

(* diagnostics for replays: (index of the first refused uni event, of the first refused bidi event) *)
Definition diag_681 (o : list (list N)) : list (list N) :=
  match o with
  | _ :: _ :: es =>
      let f dir cap := match events_of dir es with
                       | Some evs => match ofail cap oinit evs 0 with Some k => [k] | None => [] end
                       | None => [PANIC]
                       end in
      [f 0 UNI_CAP; f 1 BI_CAP; [count_returned 0 es; count_returned 1 es]]
  | _ => []
  end.

(* ---- 691 ---- *)
Definition enc_cout (x : cout N) : list N :=
  match x with
  | OSet b => [1; if b then 1 else 0]
  | OGot v => [2; v]
  | OGotNone => [3]
  | OPending => [4]
  | ONothing => [0]
  | OInvalid => [9]
  end.

(* state: the cell, and the getter of every call that is still pending (creation order) *)
Fixpoint run_691 (fuel : nat) (ngetters : N) (c : cell N) (pend : list N) (ops : list N) : list (list N) :=
  match fuel with
  | O => [[PANIC]]
  | S fuel' =>
      match ops with
      | [] => []
      | 1 :: v :: r => let (c', x) := cstep c (CSet v) in enc_cout x :: run_691 fuel' ngetters c' pend r
      | 2 :: r => let (c', x) := cstep c CDropSetter in
                  (match setters c with O => [9] | _ => enc_cout x end) :: run_691 fuel' ngetters c' pend r
      | 3 :: r => let (c', x) := cstep c CCloneSetter in enc_cout x :: run_691 fuel' ngetters c' pend r
      | 4 :: g0 :: r =>
          let g := g0 mod ngetters in
          (* a call on a getter whose earlier call is still pending waits for that call (the getter's mutex) *)
          if mem g pend then [4] :: run_691 fuel' ngetters c (pend ++ [g]) r
          else let (c', x) := cstep c CGet in
               enc_cout x :: run_691 fuel' ngetters c' (match x with OPending => pend ++ [g] | _ => pend end) r
      | _ :: r =>
          (* the executor round: every pending call completes iff the cell is decided *)
          match snd (cstep c CGet) with
          | OGot v => (5 :: flat_map (fun _ => [12; v + 10]) pend) :: run_691 fuel' ngetters c [] r
          | OGotNone => (5 :: flat_map (fun _ => [13]) pend) :: run_691 fuel' ngetters c [] r
          | _ => (5 :: flat_map (fun _ => [14]) pend) :: run_691 fuel' ngetters c pend r
          end
      end
  end.

Definition model_691 (a : list (list N)) : list (list N) :=
  let ops := arg 0 a in
  let ng := N.max 1 (argn 1 0 a) in
  [1] :: run_691 (S (length ops)) ng (mkcell None 1) [] ops.

(* ---- 602: a backlog of one kind, then the peer's close capsule: every call of the other kind and
   receive_datagram, pending or later, reports the peer's code and reason (with_driver_error) ---- *)
Definition enc_kind (k : N) : kind := if k =? 0 then KUni else KBi.
Definition cap_of (k : kind) : nat := match k with KUni => UNI_CAP | KBi => BI_CAP end.
Fixpoint ids_from (n : nat) (i : N) : list N := match n with O => [] | S m => i :: ids_from m (i + 1) end.
Definition count_items (xs : list aout) : N :=
  N.of_nat (length (filter (fun x => match x with AItem _ => true | _ => false end) xs)).

Definition model_602 (a : list (list N)) : list (list N) :=
  let k := enc_kind (argn 0 0 a) in
  let other := match k with KUni => KBi | KBi => KUni end in
  let count := N.to_nat (N.min (argn 0 1 a) 1000) in
  let code := argn 0 2 a in
  let reason := arg 1 a in
  (* the state when the session ends: the backlog fills the channel, the rest of the tasks are parked *)
  let ids := ids_from count 0 in
  let stalled := argn 0 4 a =? 1 in
  (* stalled streams sit in their tasks, reading the preamble; complete ones fill the channel, the rest is parked *)
  let backlog := if stalled then mkkst [] [] ids else mkkst (firstn (cap_of k) ids) (skipn (cap_of k) ids) [] in
  let s0 := with_k k (mkcst (mkkst [] [] []) (mkkst [] [] []) true) backlog in
  let s := worker_exit s0 in
  let err := match with_driver_error (Runner.DAppClosed code reason) None with
             | CEApplicationClosed c r => [[1; c]; r]
             | _ => [[PANIC]; []]
             end in
  let of_out (x : aout) := match x with AErr => err | APending => [[8]; []] | AItem _ => [[0]; []] end in
  let drained := drain_calls (cap_of k) k (S count) s in
  [[1]] ++ of_out (snd (accept other s)) ++ err ++ of_out (snd (accept other s)) ++ err
        ++ [[count_items drained]] ++ of_out (last drained APending).

(* ---- 673: the server application's view of the request and the mirrored decision ---- *)
Fixpoint pairs_of (l : list (list N)) : hmap :=
  match l with k :: v :: r => (k, v) :: pairs_of r | _ => [] end.
Fixpoint all_in (obs model : hmap) : bool :=
  match obs with [] => true | (k, v) :: r => (match hget k model with Some v' => list_eqb v v' | None => false end) && all_in r model end.

Definition chk_673 (a o : list (list N)) : bool :=
  match o with
  | [1; outcome; csid; sok; ssid; port] :: authority :: path :: fields =>
      let decision := argn 0 0 a in
      let nreq := N.to_nat (argn 0 1 a) in
      let extras := pairs_of (firstn (2 * nreq) (skipn 2 a)) in
      (* what SessionRequest::new + insert build on the client = what the server application must see *)
      let want_auth := [49; 50; 55; 46; 48; 46; 48; 46; 49; 58] ++ show_dec port in   (* "127.0.0.1:" *)
      match fold_left (fun m kv => match m with Some m' => request_insert (fst kv) (snd kv) m' | None => None end)
                      extras (Some (request_new want_auth (arg 1 a))) with
      | None => false
      | Some req =>
          let obs := pairs_of fields in
          list_eqb authority want_auth && list_eqb path (arg 1 a) &&
          (length obs =? length req)%nat && all_in obs req &&
          (* the decision is mirrored: 2xx <-> session, both ends name the request stream *)
          (if decision <=? 1 then list_eqb [outcome; csid; sok; ssid] [0; 0; 1; 0]
           else list_eqb [outcome; csid; sok; ssid] [1; 9; 0; 9])
      end
  | _ => false
  end.

Definition model (f : N) (a : list (list N)) : list (list N) :=
  match f with
  | 602 => model_602 a
  | 691 => model_691 a
  | _ => [[PANIC]]
  end.

Definition chk (c : case) : bool :=
  let '(f, a, o) := c in
  if f =? 681 then chk_681 o
  else if f =? 673 then chk_673 a o
  else if f =? 622 then (match o with [2] :: _ => true | _ => lists_eqb o [[1; argn 0 1 a; argn 0 2 a; argn 0 1 a + argn 0 2 a]] end)
  else if f =? 602 then (match o with [2] :: _ => true | _ => lists_eqb (model_602 a) o end)
  else lists_eqb (model f a) o.
