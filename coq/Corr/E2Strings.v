(* E2Strings.v -- string constants of the wire scenarios *)
From Coq Require Import String.
From WT.Model Require Import Base Session.
Definition loopback_prefix : bytes := bs "127.0.0.1:".
Definition client_path : bytes := bs "/client/path?q=1".
