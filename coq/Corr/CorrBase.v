(* CorrBase.v -- shared helpers for the correspondence dispatchers.
   A case is (function id, args, observed output); args/output are lists of
   number lists in the canonical form the Rust harness prints. *)
From WT.Model Require Import Base.

Definition arg (i : nat) (a : list (list N)) : list N := nth i a [].
Definition argn (i j : nat) (a : list (list N)) : N := nth j (nth i a []) 0.

Fixpoint lists_eqb (a b : list (list N)) : bool :=
  match a, b with
  | [], [] => true
  | x :: a', y :: b' => list_eqb x y && lists_eqb a' b'
  | _, _ => false
  end.

Definition case := (N * list (list N) * list (list N))%type.

Definition mk_chk (model : N -> list (list N) -> list (list N)) (c : case) : bool :=
  let '(f, a, o) := c in lists_eqb (model f a) o.

Definition nlen (l : list N) : N := N.of_nat (length l).
Definition PANIC : N := 999999999.
