(* WireC.v -- model side of harness suite "wire" (401-409) *)
From WT.Model Require Import Base Varint Ids Frame Wire.
From WT.Corr Require Import CorrBase StreamTSC.

(* insertion sort of (key, value) pairs by key, flattened *)
Fixpoint ins (p : N * N) (l : list (N * N)) : list (N * N) :=
  match l with
  | [] => [p]
  | q :: r => if fst p <=? fst q then p :: l else q :: ins p r
  end.
Definition sort_pairs (l : list (N * N)) : list (N * N) := fold_right ins [] l.
Fixpoint flat (l : list (N * N)) : list N :=
  match l with [] => [] | (k, v) :: r => k :: v :: flat r end.

Definition b2n (b : bool) : N := if b then 1 else 0.

Definition builder_map (fl v1 v2 v3 : N) : smap :=
  (if N.testbit fl 0 then [(1, v1)] else []) ++
  (if N.testbit fl 1 then [(7, v2)] else []) ++
  (if N.testbit fl 2 then [(8, 1)] else []) ++
  (if N.testbit fl 3 then [(727725890, 1)] else []) ++
  (if N.testbit fl 4 then [(51, 1)] else []) ++
  (if N.testbit fl 5 then [(3329323114, v3)] else []).

Definition opt_out (o : option N) : list N := match o with Some x => [1; x] | None => [0] end.
Definition in8 (v : N) : option N := if v <=? 255 then status_try_from v else None.
Definition in16 (v : N) : option N := if v <=? 65535 then status_try_from v else None.
Definition in32 (v : N) : option N := if v <=? 4294967295 then status_try_from v else None.

Definition model (f : N) (a : list (list N)) : list (list N) :=
  match f with
  | 401 =>
      match settings_with_frame (arg 0 a) with
      | Val m => [[1]; flat (sort_pairs m)]
      | Err e => [[2; ecode_idx e]]
      | _ => [[PANIC]]
      end
  | 402 =>
      let m := builder_map (argn 0 0 a) (argn 0 1 a) (argn 0 2 a) (argn 0 3 a) in
      let payload := settings_payload m in
      let back := match settings_with_frame payload with
                  | Val m' => flat (sort_pairs m')
                  | _ => [PANIC]
                  end in
      [[1; 1; nlen payload; 1; 0]; flat (sort_pairs m); back]
  | 403 =>
      let bs := arg 0 a in
      match dgram_read bs with
      | Val (q, p) => [[1; q; nlen bs - nlen p]; p]
      | Err e => [[2; ecode_idx e]]
      | _ => [[PANIC]]
      end
  | 404 =>
      let q := argn 0 0 a in
      let cap := N.to_nat (argn 0 1 a) in
      let p := arg 1 a in
      match dgram_write cap q p with
      | None => [[0; 0; N.of_nat (dgram_write_size q p); N.of_nat (dgram_header_size q)]; repeat 170 cap]
      | Some w => [[1; nlen w; N.of_nat (dgram_write_size q p); N.of_nat (dgram_header_size q)];
                   w ++ repeat 170 (cap - length w)]
      end
  | 405 =>
      match capsule_with_frame (arg 0 a) with
      | None => [[0]]
      | Some p => match close_with_capsule p with
                  | Val (c, r) => [[1; c]; r]
                  | Err e => [[2; ecode_idx e]]
                  | _ => [[PANIC]]
                  end
      end
  | 406 => [[b2n (utf8_valid (arg 0 a))]]
  | 407 =>
      let x := argn 0 0 a in
      [[b2n (is_bidirectional x); b2n (is_client_initiated x); b2n (is_local x true); b2n (is_local x false)] ++
       (match session_try_from x with
        | Some s => let q := q_from_session s in [1; q; q_into_stream q; q_into_stream q; s]
        | None => [0]
        end) ++ [b2n (qstream_max =? 2 ^ 60 - 1)]]
  | 408 =>
      let bs := arg 0 a in
      if utf8_valid bs then
        match status_from_str bs with
        | Some v => [[1; v; b2n (status_is_successful v)]]
        | None => [[0]]
        end
      else [[9]]
  | 409 =>
      let v := argn 0 0 a in
      [opt_out (in8 v); opt_out (in16 v); opt_out (in32 v); opt_out (status_try_from v);
       match status_try_from v with Some x => show_dec x | None => [] end;
       [status_default; status_min; status_max]]
  | _ => [[PANIC]]
  end.

Definition chk : case -> bool := mk_chk model.
