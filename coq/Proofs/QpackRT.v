(* QpackRT.v -- QPACK strings, field lines, field sections and header maps
   round-trip through the encoder and decoder of Model/Qpack.v. *)
From WT.Model Require Import Base Varint Ids Frame Wire HuffmanTable StaticTable Qpack.
From WT.Proofs Require Import VarintP FrameP QpackP HuffmanP.
From Coq Require Import Lia ZArith ZifyBool ZifyNat ZifyN Permutation.
Ltac Zify.zify_post_hook ::= Z.to_euclidean_division_equations.
Local Open Scope N_scope.

(* ---------- UTF-8 strings are byte strings ---------- *)
Lemma cont_lt b : cont b = true -> byte_ok b = true.
Proof. unfold cont, byte_ok. lia. Qed.
Lemma inr_lt lo hi b : hi < 256 -> inr_ lo hi b = true -> byte_ok b = true.
Proof. unfold inr_, byte_ok. lia. Qed.

Lemma bytes_ok_cons b r : bytes_ok (b :: r) = byte_ok b && bytes_ok r.
Proof. reflexivity. Qed.

Lemma utf8_bytes_ok n : forall bs, (length bs <= n)%nat -> utf8_valid bs = true -> bytes_ok bs = true.
Proof.
  induction n as [|n IH]; intros bs Hl Hu.
  - destruct bs; [reflexivity|cbn in Hl; lia].
  - destruct bs as [|b0 r]; [reflexivity|]. cbn [length] in Hl.
    cbn [utf8_valid] in Hu. rewrite bytes_ok_cons.
    destruct (b0 <? 128) eqn:E0.
    { rewrite (IH r) by (lia || exact Hu). unfold byte_ok. lia. }
    assert (B0 : forall lo hi, hi < 256 -> inr_ lo hi b0 = true -> byte_ok b0 = true) by (intros; eapply inr_lt; eauto).
    assert (T : forall x y : bool, x && y = true -> x = true /\ y = true) by (intros x y; apply andb_prop).
    destruct (inr_ 194 223 b0) eqn:E1.
    { destruct r as [|b1 r1]; [discriminate|]. apply T in Hu. destruct Hu as [H1 H2].
      rewrite (B0 194 223 ltac:(lia) E1), bytes_ok_cons, (cont_lt _ H1), (IH r1); [reflexivity| cbn [length] in Hl; lia | exact H2]. }
    destruct (b0 =? 224) eqn:E2.
    { destruct r as [|b1 [|b2 r2]]; try discriminate. apply T in Hu. destruct Hu as [Hu H3]. apply T in Hu. destruct Hu as [H1 H2].
      rewrite !bytes_ok_cons, (inr_lt 160 191 b1 ltac:(lia) H1), (cont_lt _ H2), (IH r2); [unfold byte_ok; lia| cbn [length] in Hl; lia | exact H3]. }
    destruct (inr_ 225 236 b0 || inr_ 238 239 b0) eqn:E3.
    { destruct r as [|b1 [|b2 r2]]; try discriminate. apply T in Hu. destruct Hu as [Hu H3]. apply T in Hu. destruct Hu as [H1 H2].
      rewrite !bytes_ok_cons, (cont_lt _ H1), (cont_lt _ H2), (IH r2); [unfold byte_ok, inr_ in *; lia| cbn [length] in Hl; lia | exact H3]. }
    destruct (b0 =? 237) eqn:E4.
    { destruct r as [|b1 [|b2 r2]]; try discriminate. apply T in Hu. destruct Hu as [Hu H3]. apply T in Hu. destruct Hu as [H1 H2].
      rewrite !bytes_ok_cons, (inr_lt 128 159 b1 ltac:(lia) H1), (cont_lt _ H2), (IH r2); [unfold byte_ok; lia| cbn [length] in Hl; lia | exact H3]. }
    destruct (b0 =? 240) eqn:E5.
    { destruct r as [|b1 [|b2 [|b3 r3]]]; try discriminate.
      apply T in Hu. destruct Hu as [Hu H4]. apply T in Hu. destruct Hu as [Hu H3]. apply T in Hu. destruct Hu as [H1 H2].
      rewrite !bytes_ok_cons, (inr_lt 144 191 b1 ltac:(lia) H1), (cont_lt _ H2), (cont_lt _ H3), (IH r3); [unfold byte_ok; lia| cbn [length] in Hl; lia | exact H4]. }
    destruct (inr_ 241 243 b0) eqn:E6.
    { destruct r as [|b1 [|b2 [|b3 r3]]]; try discriminate.
      apply T in Hu. destruct Hu as [Hu H4]. apply T in Hu. destruct Hu as [Hu H3]. apply T in Hu. destruct Hu as [H1 H2].
      rewrite !bytes_ok_cons, (cont_lt _ H1), (cont_lt _ H2), (cont_lt _ H3), (IH r3); [unfold byte_ok, inr_ in *; lia| cbn [length] in Hl; lia | exact H4]. }
    destruct (b0 =? 244) eqn:E7; [|discriminate].
    { destruct r as [|b1 [|b2 [|b3 r3]]]; try discriminate.
      apply T in Hu. destruct Hu as [Hu H4]. apply T in Hu. destruct Hu as [Hu H3]. apply T in Hu. destruct Hu as [H1 H2].
      rewrite !bytes_ok_cons, (inr_lt 128 143 b1 ltac:(lia) H1), (cont_lt _ H2), (cont_lt _ H3), (IH r3); [unfold byte_ok; lia| cbn [length] in Hl; lia | exact H4]. }
Qed.

Lemma utf8_is_bytes s : utf8_valid s = true -> bytes_ok s = true.
Proof. apply (utf8_bytes_ok (length s)). lia. Qed.

(* ---------- strings ---------- *)
(* what a Rust String is: valid UTF-8 whose length fits usize *)
Definition str_ok (s : bytes) : Prop := utf8_valid s = true /\ len s < two64.

Lemma odd_flag fl (b : bool) : N.odd (fl * 2 + (if b then 1 else 0)) = b.
Proof.
  replace (fl * 2 + (if b then 1 else 0)) with ((if b then 1 else 0) + 2 * fl) by lia.
  rewrite N.odd_add_mul_2. destruct b; reflexivity.
Qed.

Theorem dec_enc_str n fl s tail :
  In n [1; 2; 3; 4; 5; 6; 7; 8] -> fl * 2 + 1 < 2 ^ (8 - n) -> str_ok s ->
  dec_str n (enc_str n fl s ++ tail) = Val (s, tail).
Proof.
  intros Hn Hf [Hu Hl]. unfold enc_str, dec_str. cbv zeta.
  set (h := hencode s). set (use_h := (length h <? length s)%nat).
  rewrite <- app_assoc.
  rewrite dec_enc_int; [| exact Hn | destruct use_h; lia | ].
  - rewrite get_bytes_n_app, odd_flag.
    destruct use_h eqn:U.
    + subst h. rewrite (huffman_roundtrip s (utf8_is_bytes s Hu)), Hu. reflexivity.
    + rewrite Hu. reflexivity.
  - destruct use_h eqn:U; [|exact Hl]. subst use_h. apply Nat.ltb_lt in U. unfold len in *. lia.
Qed.

(* ---------- the first byte of a prefix integer ---------- *)
Lemma enc_int_head n fl v : In n [1; 2; 3; 4; 5; 6; 7; 8] -> fl < 2 ^ (8 - n) ->
  exists b r, enc_int n fl v = b :: r /\ b < 256 /\ (b / 2 ^ n) mod 256 = fl.
Proof.
  intros Hn Hf. unfold enc_int.
  assert (Hpow : 0 < 2 ^ n) by (apply N.neq_0_lt_0; apply N.pow_nonzero; lia).
  destruct (v <? 2 ^ n - 1) eqn:E.
  - apply N.ltb_lt in E. destruct (lor_flags n fl v Hn Hf ltac:(lia)) as (L1 & L2 & L3). cbv zeta in *.
    eexists. eexists. split; [reflexivity|]. split; assumption.
  - destruct (lor_flags n fl (2 ^ n - 1) Hn Hf ltac:(lia)) as (L1 & L2 & L3). cbv zeta in *.
    eexists. eexists. split; [reflexivity|]. split; assumption.
Qed.

Definition is_line (t : fline) (b : N) : bool :=
  match field_line_type b, t with
  | FIndexed, FIndexed | FLiteralRefName, FLiteralRefName | FLiteralLitName, FLiteralLitName => true
  | _, _ => false
  end.

Lemma first_byte_sweep : forallb (fun b =>
    implb ((b / 2 ^ 6) mod 256 =? 3) (is_line FIndexed b && negb (N.land b 64 =? 0)) &&
    implb ((b / 2 ^ 4) mod 256 =? 5) (is_line FLiteralRefName b && negb (N.land b 16 =? 0)) &&
    implb (((b / 2 ^ 3) mod 256 =? 4) || ((b / 2 ^ 3) mod 256 =? 5)) (is_line FLiteralLitName b))
  (map N.of_nat (seq 0 256)) = true.
Proof. vm_compute. reflexivity. Qed.

Lemma first_byte b : b < 256 ->
  ((b / 2 ^ 6) mod 256 = 3 -> field_line_type b = FIndexed /\ (N.land b 64 =? 0) = false) /\
  ((b / 2 ^ 4) mod 256 = 5 -> field_line_type b = FLiteralRefName /\ (N.land b 16 =? 0) = false) /\
  ((b / 2 ^ 3) mod 256 = 4 \/ (b / 2 ^ 3) mod 256 = 5 -> field_line_type b = FLiteralLitName).
Proof.
  intros Hb. pose proof first_byte_sweep as S. rewrite forallb_forall in S.
  assert (Hin : In b (map N.of_nat (seq 0 256))).
  { apply in_map_iff. exists (N.to_nat b). split; [lia|]. apply in_seq. lia. }
  specialize (S b Hin). apply andb_prop in S. destruct S as [S S3]. apply andb_prop in S. destruct S as [S1 S2].
  unfold is_line in *.
  split; [|split].
  - intros E. apply N.eqb_eq in E. rewrite E in S1. cbn [implb] in S1.
    apply andb_prop in S1. destruct S1 as [A B]. apply Bool.negb_true_iff in B.
    destruct (field_line_type b); try discriminate. auto.
  - intros E. apply N.eqb_eq in E. rewrite E in S2. cbn [implb] in S2.
    apply andb_prop in S2. destruct S2 as [A B]. apply Bool.negb_true_iff in B.
    destruct (field_line_type b); try discriminate. auto.
  - intros E.
    assert (E' : ((b / 2 ^ 3) mod 256 =? 4) || ((b / 2 ^ 3) mod 256 =? 5) = true).
    { destruct E as [E|E]; apply N.eqb_eq in E; rewrite E; [reflexivity|apply Bool.orb_true_r]. }
    rewrite E' in S3. cbn [implb] in S3. destruct (field_line_type b); try discriminate. reflexivity.
Qed.

(* ---------- one field line ---------- *)
Definition dec_line (f : nat) (bs : bytes) (m : hmap) (b : N) : res hmap qerr :=
  match field_line_type b with
  | FIndexed =>
      if N.land b 64 =? 0 then Err QDynamic
      else lift (dec_int 6 bs) (fun x => let '(_, i, r) := x in
           match lookup_field i with
           | None => Err QIndexNotFound
           | Some (k, v) => dec_fields f r (hinsert k v m)
           end)
  | FIndexedPost => Err QDynamic
  | FLiteralRefName =>
      if N.land b 16 =? 0 then Err QDynamic
      else lift (dec_int 4 bs) (fun x => let '(_, i, r) := x in
           match lookup_field i with
           | None => Err QIndexNotFound
           | Some (k, _) => lift (dec_str 7 r) (fun y => let '(v, r') := y in dec_fields f r' (hinsert k v m))
           end)
  | FLiteralPostRefName => Err QDynamic
  | FLiteralLitName =>
      lift (dec_str 3 bs) (fun x => let '(k, r) := x in
      lift (dec_str 7 r) (fun y => let '(v, r') := y in dec_fields f r' (hinsert k v m)))
  end.

Lemma dec_fields_S f b r m : dec_fields (S f) (b :: r) m = dec_line f (b :: r) m b.
Proof. reflexivity. Qed.

Definition field_ok (kv : bytes * bytes) : Prop := str_ok (fst kv) /\ str_ok (snd kv).

Lemma static_index_fits i : i < 99 -> i < two64.
Proof. intros H. assert (99 < two64) by (vm_compute; reflexivity). lia. Qed.

Lemma enc_str_head k : exists b r, enc_str 3 2 k = b :: r /\ field_line_type b = FLiteralLitName.
Proof.
  unfold enc_str. cbv zeta. set (u := (length (hencode k) <? length k)%nat).
  destruct (enc_int_head 3 (2 * 2 + (if u then 1 else 0)) (len (if u then hencode k else k))) as (b & r & E & B1 & B2);
    [cbn; auto 10 | destruct u; vm_compute; reflexivity|].
  destruct (first_byte b B1) as (_ & _ & F3).
  exists b, (r ++ (if u then hencode k else k)). rewrite E. split; [reflexivity|].
  apply F3. destruct u; lia.
Qed.

Lemma dec_field f kv rest m : field_ok kv ->
  dec_fields (S f) (enc_field kv ++ rest) m = dec_fields f rest (hinsert (fst kv) (snd kv) m).
Proof.
  destruct kv as [k v]. intros [Hk Hv]. cbn [fst snd] in *. unfold enc_field.
  pose proof (lookup_index_sound k v) as Hs. pose proof (lookup_index_bound k v) as Hb.
  destruct (lookup_index k v) as [i|i|].
  - destruct (enc_int_head 6 3 i) as (b & r & E & B1 & B2); [cbn; auto 10 | vm_compute; reflexivity|].
    destruct (first_byte b B1) as (F1 & _ & _). destruct (F1 B2) as [T L].
    rewrite E. cbn [app]. rewrite dec_fields_S.
    rewrite app_comm_cons, <- E.
    unfold dec_line. rewrite T, L.
    rewrite dec_enc_int; [|cbn; auto 10|vm_compute; reflexivity|apply static_index_fits; exact Hb].
    cbn [lift]. rewrite Hs. reflexivity.
  - destruct Hs as [v' Hs].
    destruct (enc_int_head 4 5 i) as (b & r & E & B1 & B2); [cbn; auto 10 | vm_compute; reflexivity|].
    destruct (first_byte b B1) as (_ & F2 & _). destruct (F2 B2) as [T L].
    rewrite <- app_assoc. rewrite E. cbn [app]. rewrite dec_fields_S.
    rewrite app_comm_cons, <- E.
    unfold dec_line. rewrite T, L.
    rewrite dec_enc_int; [|cbn; auto 10|vm_compute; reflexivity|apply static_index_fits; exact Hb].
    cbn [lift]. rewrite Hs.
    rewrite dec_enc_str; [|cbn; auto 10|vm_compute; reflexivity|exact Hv]. reflexivity.
  - destruct (enc_str_head k) as (b & r & E & T).
    rewrite <- app_assoc. rewrite E. cbn [app]. rewrite dec_fields_S.
    rewrite app_comm_cons, <- E. unfold dec_line. rewrite T.
    rewrite dec_enc_str; [|cbn; auto 10|vm_compute; reflexivity|exact Hk]. cbn [lift].
    rewrite dec_enc_str; [|cbn; auto 10|vm_compute; reflexivity|exact Hv]. reflexivity.
Qed.

Definition ins (m : hmap) (kv : bytes * bytes) : hmap := hinsert (fst kv) (snd kv) m.

Lemma dec_fields_enc l : forall fuel m, Forall field_ok l -> (length l < fuel)%nat ->
  dec_fields fuel (flat_map enc_field l) m = Val (fold_left ins l m).
Proof.
  induction l as [|kv l IH]; intros fuel m Hok Hf.
  - destruct fuel; [lia|]. reflexivity.
  - destruct fuel as [|f]; [lia|]. cbn [flat_map fold_left]. inversion Hok as [|? ? H1 H2]; subst.
    rewrite dec_field by exact H1. apply IH; [exact H2|cbn [length] in Hf; lia].
Qed.

Lemma enc_field_nonempty kv : (1 <= length (enc_field kv))%nat.
Proof.
  destruct kv as [k v]. unfold enc_field. destruct (lookup_index k v) as [i|i|].
  - destruct (enc_int_head 6 3 i) as (b & r & E & _); [cbn; auto 10|vm_compute; reflexivity|]. rewrite E. cbn [length]. lia.
  - destruct (enc_int_head 4 5 i) as (b & r & E & _); [cbn; auto 10|vm_compute; reflexivity|]. rewrite app_length, E. cbn [length]. lia.
  - unfold enc_str at 1. cbv zeta. set (u := (length (hencode k) <? length k)%nat).
    destruct (enc_int_head 3 (2 * 2 + (if u then 1 else 0)) (len (if u then hencode k else k))) as (b & r & E & _);
      [cbn; auto 10|destruct u; vm_compute; reflexivity|].
    rewrite !app_length, E. cbn [length]. lia.
Qed.

Lemma flat_map_enc_length l : (length l <= length (flat_map enc_field l))%nat.
Proof.
  induction l as [|kv l IH]; [vm_compute; reflexivity|]. cbn [flat_map length]. rewrite app_length.
  pose proof (enc_field_nonempty kv). lia.
Qed.

Lemma section_prefix : [0; 0] = enc_int 8 0 0 ++ enc_int 7 0 0.
Proof. vm_compute. reflexivity. Qed.

Theorem qpack_roundtrip l : Forall field_ok l ->
  qpack_decode (qpack_encode l) = Val (fold_left ins l []).
Proof.
  intros Hok. unfold qpack_decode, qpack_encode. rewrite section_prefix, <- app_assoc.
  rewrite dec_enc_int; [|cbn; auto 10|vm_compute; reflexivity|vm_compute; reflexivity]. cbn [lift].
  rewrite dec_enc_int; [|cbn; auto 10|vm_compute; reflexivity|vm_compute; reflexivity]. cbn [lift].
  apply dec_fields_enc; [exact Hok|]. pose proof (flat_map_enc_length l). lia.
Qed.

(* ---------- maps with distinct keys ---------- *)
Lemma list_eqb_refl k : list_eqb k k = true.
Proof. apply list_eqb_eq. reflexivity. Qed.

Lemma list_eqb_neq a b : a <> b -> list_eqb a b = false.
Proof. intros H. destruct (list_eqb a b) eqn:E; [|reflexivity]. apply list_eqb_eq in E. contradiction. Qed.

Lemma hinsert_fresh k v m : hget k m = None -> hinsert k v m = m ++ [(k, v)].
Proof.
  induction m as [|[k' v'] m IH]; intros H; [reflexivity|].
  cbn [hget hinsert] in *. destruct (list_eqb k k'); [discriminate|]. rewrite IH by exact H. reflexivity.
Qed.

Lemma hget_app_fresh k m k' v' : k <> k' -> hget k m = None -> hget k (m ++ [(k', v')]) = None.
Proof.
  intros Hne. induction m as [|[k2 v2] m IH]; intros H.
  - cbn. rewrite list_eqb_neq by exact Hne. reflexivity.
  - cbn [hget app] in *. destruct (list_eqb k k2); [discriminate|]. apply IH. exact H.
Qed.

Lemma fold_ins_distinct l : forall m0, NoDup (map fst l) ->
  (forall kv, In kv l -> hget (fst kv) m0 = None) -> fold_left ins l m0 = m0 ++ l.
Proof.
  induction l as [|[k v] l IH]; intros m0 Hnd Hfresh.
  - cbn. rewrite app_nil_r. reflexivity.
  - cbn [fold_left]. unfold ins at 2. cbn [fst snd].
    rewrite hinsert_fresh by (apply (Hfresh (k, v)); left; reflexivity).
    cbn [map] in Hnd. inversion Hnd as [|? ? Hnotin Hnd']; subst.
    rewrite IH.
    + rewrite <- app_assoc. reflexivity.
    + exact Hnd'.
    + intros [k2 v2] Hin. cbn [fst]. apply hget_app_fresh.
      * intros ->. apply Hnotin. change k with (fst (k, v2)). apply in_map. exact Hin.
      * apply (Hfresh (k2, v2)). right. exact Hin.
Qed.

Lemma hins_perm p l : Permutation (hins p l) (p :: l).
Proof.
  induction l as [|q l IH]; [reflexivity|]. cbn [hins]. destruct (field_leb p q); [reflexivity|].
  rewrite IH. apply perm_swap.
Qed.

Lemma sorted_headers_perm m : Permutation (sorted_headers m) m.
Proof.
  unfold sorted_headers. induction m as [|p m IH]; [reflexivity|]. cbn [fold_right].
  rewrite hins_perm. apply perm_skip. exact IH.
Qed.

Lemma hget_in l : NoDup (map fst l) -> forall k v, hget k l = Some v <-> In (k, v) l.
Proof.
  induction l as [|[k' v'] l IH]; intros Hnd k v.
  - cbn. split; [discriminate|tauto].
  - cbn [map] in Hnd. inversion Hnd as [|? ? Hnotin Hnd']; subst. cbn [hget].
    destruct (list_eqb k k') eqn:E.
    + apply list_eqb_eq in E. subst k'. split.
      * intros [= ->]. left. reflexivity.
      * intros [[= ->]|Hin]; [reflexivity|]. exfalso. apply Hnotin. change k with (fst (k, v)). apply in_map. exact Hin.
    + rewrite (IH Hnd'). split; [intros H; right; exact H|].
      intros [[= -> ->]|Hin]; [|exact Hin]. rewrite list_eqb_refl in E. discriminate.
Qed.

Lemma hget_perm l1 l2 : Permutation l1 l2 -> NoDup (map fst l1) -> forall k, hget k l1 = hget k l2.
Proof.
  intros Hp Hnd k.
  assert (Hnd2 : NoDup (map fst l2)) by (eapply Permutation_NoDup; [apply Permutation_map; exact Hp|exact Hnd]).
  destruct (hget k l1) as [v|] eqn:E1.
  - apply (hget_in l1 Hnd) in E1. symmetry. apply (hget_in l2 Hnd2). eapply Permutation_in; eauto.
  - destruct (hget k l2) as [v|] eqn:E2; [|reflexivity].
    apply (hget_in l2 Hnd2) in E2. apply Permutation_sym in Hp.
    assert (In (k, v) l1) by (eapply Permutation_in; eauto).
    apply (hget_in l1 Hnd) in H. congruence.
Qed.

(* ---------- header maps through HEADERS frames ---------- *)
Theorem headers_roundtrip m : NoDup (map fst m) -> Forall field_ok m ->
  headers_with_frame (fpayload (headers_generate_frame m)) = Val (sorted_headers m)
  /\ Permutation (sorted_headers m) m
  /\ forall k, hget k (sorted_headers m) = hget k m.
Proof.
  intros Hnd Hok. pose proof (sorted_headers_perm m) as Hp.
  assert (Hnd' : NoDup (map fst (sorted_headers m))).
  { eapply Permutation_NoDup; [apply Permutation_map; apply Permutation_sym; exact Hp|exact Hnd]. }
  assert (Hok' : Forall field_ok (sorted_headers m)).
  { apply Forall_forall. intros kv Hin. rewrite Forall_forall in Hok. apply Hok. eapply Permutation_in; eauto. }
  split; [|split].
  - unfold headers_with_frame, headers_generate_frame. cbn [fpayload].
    rewrite (qpack_roundtrip _ Hok'). rewrite fold_ins_distinct; [reflexivity|exact Hnd'|reflexivity].
  - exact Hp.
  - intros k. apply hget_perm; [exact Hp|exact Hnd'].
Qed.

(* ---------- the hypotheses as boolean predicates ---------- *)
Fixpoint keys_distinct (m : hmap) : bool :=
  match m with
  | [] => true
  | (k, _) :: r => match hget k r with None => keys_distinct r | Some _ => false end
  end.
Definition str_okb (s : bytes) : bool := utf8_valid s && (len s <? two64).
Definition fields_okb (m : hmap) : bool := forallb (fun kv => str_okb (fst kv) && str_okb (snd kv)) m.

Lemma hget_none_notin k m : hget k m = None -> ~ In k (map fst m).
Proof.
  induction m as [|[k' v'] m IH]; intros H; [intros []|].
  cbn [hget] in H. destruct (list_eqb k k') eqn:E; [discriminate|].
  cbn [map fst In]. intros [->|Hin]; [rewrite list_eqb_refl in E; discriminate|]. exact (IH H Hin).
Qed.

Lemma keys_distinct_nodup m : keys_distinct m = true -> NoDup (map fst m).
Proof.
  induction m as [|[k v] m IH]; intros H; [constructor|].
  cbn [keys_distinct] in H. destruct (hget k m) eqn:E; [discriminate|].
  cbn [map fst]. constructor; [apply hget_none_notin; exact E|exact (IH H)].
Qed.

Lemma str_okb_ok s : str_okb s = true -> str_ok s.
Proof. unfold str_okb, str_ok. intros H. apply andb_prop in H. destruct H as [H1 H2]. apply N.ltb_lt in H2. auto. Qed.

Lemma fields_okb_ok m : fields_okb m = true -> Forall field_ok m.
Proof.
  unfold fields_okb. rewrite forallb_forall, Forall_forall. intros H kv Hin.
  specialize (H kv Hin). apply andb_prop in H. destruct H as [H1 H2].
  split; apply str_okb_ok; assumption.
Qed.

Theorem headers_roundtrip_b m : keys_distinct m = true -> fields_okb m = true ->
  headers_with_frame (fpayload (headers_generate_frame m)) = Val (sorted_headers m)
  /\ Permutation (sorted_headers m) m
  /\ forall k, hget k (sorted_headers m) = hget k m.
Proof. intros H1 H2. apply headers_roundtrip; [apply keys_distinct_nodup; exact H1|apply fields_okb_ok; exact H2]. Qed.

Theorem qpack_roundtrip_b l : fields_okb l = true -> qpack_decode (qpack_encode l) = Val (fold_left ins l []).
Proof. intros H. apply qpack_roundtrip. apply fields_okb_ok. exact H. Qed.
