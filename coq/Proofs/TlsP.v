(* TlsP.v -- proofs about Model/Tls.v *)
From WT.Model Require Import Base Varint Ids Tls.
From WT.Proofs Require Import VarintP.
From Coq Require Import Lia ZArith ZifyBool ZifyNat ZifyN.
Ltac Zify.zify_post_hook ::= Z.to_euclidean_division_equations.

(* ---------- certificate-hash pinning: accepts exactly ... ---------- *)
Theorem pin_accepts_iff c now h :
  pin_verify c now h = PinOk <->
  (c_parse_ok c = true /\ c_nb c <= now <= c_na c /\ c_na c - c_nb c <= max_validity /\
   c_is_ec c = true /\ c_is_p256 c = true /\ h = true).
Proof.
  unfold pin_verify, max_validity.
  destruct (c_parse_ok c); cbn [negb]; [|split; [discriminate|intros (H & _); discriminate]].
  destruct (now <? c_nb c) eqn:E1; [split; [discriminate|lia]|].
  destruct (c_na c <? now) eqn:E2; [split; [discriminate|lia]|].
  destruct (negb (c_na c =? c_nb c) && negb ((c_nb c <? c_na c) && (c_na c - c_nb c <=? 1209600))) eqn:E3;
    [split; [discriminate|lia]|].
  destruct (c_is_ec c); cbn [negb]; [|split; [discriminate|intros (_ & _ & _ & H & _); discriminate]].
  destruct (c_is_p256 c); cbn [negb]; [|split; [discriminate|intros (_ & _ & _ & _ & H & _); discriminate]].
  destruct h; split; try discriminate; try (intros (_ & _ & _ & _ & _ & H); discriminate).
  - intros _. repeat split; auto; lia.
  - reflexivity.
Qed.

(* no value of the other inputs makes a certificate failing one condition acceptable *)
Corollary pin_each_condition_necessary c now h :
  (c_parse_ok c = false \/ now < c_nb c \/ c_na c < now \/ max_validity < c_na c - c_nb c \/
   c_is_ec c = false \/ c_is_p256 c = false \/ h = false) -> pin_verify c now h <> PinOk.
Proof.
  intros H E. apply pin_accepts_iff in E. destruct E as (E1 & E2 & E3 & E4 & E5 & E6).
  destruct H as [H|[H|[H|[H|[H|[H|H]]]]]]; try congruence; lia.
Qed.

(* the refusal value for each failed condition, in the code's order *)
Theorem pin_refusals c now h :
  match pin_verify c now h with
  | PinBadEncoding => c_parse_ok c = false
  | PinNotValidYet => now < c_nb c
  | PinExpired => c_na c < now
  | PinUnknownIssuer => max_validity < c_na c - c_nb c \/ c_is_ec c = false \/ c_is_p256 c = false \/ h = false
  | PinOk => True
  end.
Proof.
  unfold pin_verify, max_validity.
  destruct (c_parse_ok c); cbn [negb]; [|reflexivity].
  destruct (now <? c_nb c) eqn:E1; [lia|].
  destruct (c_na c <? now) eqn:E2; [lia|].
  destruct (negb (c_na c =? c_nb c) && negb ((c_nb c <? c_na c) && (c_na c - c_nb c <=? 1209600))) eqn:E3; [left; lia|].
  destruct (c_is_ec c); cbn [negb]; [|auto].
  destruct (c_is_p256 c); cbn [negb]; [|auto].
  destruct h; auto.
Qed.

Theorem pin_legacy_refuted :
  exists c now, pin_verify_legacy c now true <> PinOk /\
    c_parse_ok c = true /\ c_nb c <= now <= c_na c /\ c_na c - c_nb c <= max_validity /\ c_is_ec c = true /\ c_is_p256 c = true.
Proof.
  exists (mkcertv true 5 5 true true), 5. unfold max_validity. cbn [c_parse_ok c_nb c_na c_is_ec c_is_p256].
  split; [vm_compute; discriminate|repeat split; lia].
Qed.

(* a generated identity (P-256, <= 14 days) is accepted by pinning configured with its own hash *)
Theorem generated_identity_is_pinnable nb days now :
  days <= 14 -> nb <= now <= nb + days * 86400 -> pin_verify (identity_cert nb days) now true = PinOk.
Proof.
  intros Hd Hn. apply pin_accepts_iff. unfold identity_cert, max_validity. cbn. repeat split; auto; lia.
Qed.
Theorem generated_identity_default_validity nb : c_na (identity_cert nb 14) - c_nb (identity_cert nb 14) = 14 * 86400.
Proof. unfold identity_cert. cbn. lia. Qed.

(* ---------- idle timeout: refused iff not representable, never altered ---------- *)
Theorem idle_accept_spec secs nanos :
  (forall ms, idle_accept secs nanos = Some ms -> ms = idle_ms secs nanos /\ ms < two62) /\
  (idle_accept secs nanos = None <-> two62 <= idle_ms secs nanos).
Proof.
  unfold idle_accept. destruct (idle_ms secs nanos <? two62) eqn:E.
  - apply N.ltb_lt in E. split; [intros ms [= <-]; auto|split; [discriminate|lia]].
  - apply N.ltb_ge in E. split; [discriminate|tauto].
Qed.

(* ---------- bind presets ---------- *)
Theorem bind_table p :
  (preset_ip p, v6only (preset_dual p)) =
  match p with
  | LocalV4 => (Ip4Localhost, None) | LocalV6 => (Ip6Localhost, Some true) | LocalDual => (Ip6Localhost, Some false)
  | AnyV4 => (Ip4Unspecified, None) | AnyV6 => (Ip6Unspecified, Some true) | AnyDual => (Ip6Unspecified, Some false)
  end.
Proof. destruct p; reflexivity. Qed.

(* ---------- Base64 ---------- *)
Lemma b64_val_char v : v < 64 -> b64_val (b64_char v) = Some v.
Proof.
  intros H.
  assert (S : forallb (fun v => match b64_val (b64_char v) with Some w => w =? v | None => false end)
                      (map N.of_nat (seq 0 64)) = true) by (vm_compute; reflexivity).
  rewrite forallb_forall in S.
  assert (Hin : In v (map N.of_nat (seq 0 64))).
  { apply in_map_iff. exists (N.to_nat v). split; [lia|]. apply in_seq. lia. }
  specialize (S v Hin). destruct (b64_val (b64_char v)) as [w|]; [|discriminate].
  apply N.eqb_eq in S. congruence.
Qed.

Lemma b64_char_not_pad v : v < 64 -> b64_char v <> 61.
Proof.
  intros H.
  assert (S : forallb (fun v => negb (b64_char v =? 61)) (map N.of_nat (seq 0 64)) = true) by (vm_compute; reflexivity).
  rewrite forallb_forall in S.
  assert (Hin : In v (map N.of_nat (seq 0 64))).
  { apply in_map_iff. exists (N.to_nat v). split; [lia|]. apply in_seq. lia. }
  specialize (S v Hin). apply Bool.negb_true_iff in S. apply N.eqb_neq in S. exact S.
Qed.

Theorem b64_roundtrip : forall bs fuel, bytes_ok bs = true -> (length bs < fuel)%nat ->
  b64_decode fuel (b64_encode bs) = Some bs.
Proof.
  intros bs. remember (length bs) as n eqn:En. revert bs En.
  induction n as [n IH] using lt_wf_ind. intros bs En fuel Hok Hf.
  destruct fuel as [|fuel]; [lia|].
  destruct bs as [|a [|b [|c r]]].
  - reflexivity.
  - (* one byte *)
    cbn [b64_encode bytes_ok forallb] in *. apply andb_prop in Hok. destruct Hok as [Ha _].
    unfold byte_ok in Ha. apply N.ltb_lt in Ha.
    cbn [b64_decode]. rewrite !N.eqb_refl. cbn [andb].
    rewrite !b64_val_char by lia. f_equal. f_equal. lia.
  - (* two bytes *)
    cbn [b64_encode bytes_ok forallb] in *. apply andb_prop in Hok. destruct Hok as [Ha Hok].
    apply andb_prop in Hok. destruct Hok as [Hb _].
    unfold byte_ok in Ha, Hb. apply N.ltb_lt in Ha, Hb.
    set (n2 := a * 65536 + b * 256).
    cbn [b64_decode].
    assert (Q3 : b64_char ((n2 / 64) mod 64) <> 61) by (apply b64_char_not_pad; lia).
    apply N.eqb_neq in Q3. rewrite Q3, N.eqb_refl. cbn [andb].
    rewrite !b64_val_char by (subst n2; lia). cbv zeta. subst n2. f_equal. f_equal; [lia|f_equal; lia].
  - (* three or more *)
    cbn [b64_encode]. cbn [bytes_ok forallb] in Hok. apply andb_prop in Hok. destruct Hok as [Ha Hok].
    apply andb_prop in Hok. destruct Hok as [Hb Hok]. apply andb_prop in Hok. destruct Hok as [Hc Hr].
    unfold byte_ok in Ha, Hb, Hc. apply N.ltb_lt in Ha, Hb, Hc.
    set (n3 := a * 65536 + b * 256 + c).
    assert (Q4 : b64_char (n3 mod 64) <> 61) by (apply b64_char_not_pad; lia).
    apply N.eqb_neq in Q4.
    cbn [b64_decode]. rewrite Q4, Bool.andb_false_r.
    assert (G1 : (match b64_encode r with [] => false | _ :: _ => false end) = false) by (destruct (b64_encode r); reflexivity).
    assert (G2 : (if match b64_encode r with [] => false | _ :: _ => false end then 1 else 0) = 0) by (rewrite G1; reflexivity).
    replace (match b64_encode r with [] => false | _ :: _ => false end) with false by (destruct (b64_encode r); reflexivity).
    unfold b64_group. rewrite !b64_val_char by (subst n3; lia).
    rewrite (IH (length r)); [| cbn [length] in En; lia | reflexivity | exact Hr | cbn [length] in *; lia].
    cbv zeta. cbn [app]. subst n3. f_equal. f_equal; [lia|f_equal; [lia|f_equal; lia]].
Qed.

(* ---------- digests: format then parse is the identity, both formats and FromStr ---------- *)
Definition nosep (sep : N) (x : bytes) : bool := forallb (fun c => negb (c =? sep)) x.

Lemma split_on_app_nosep sep x : forall rest cur, nosep sep x = true ->
  split_on sep (x ++ rest) cur = split_on sep rest (cur ++ x).
Proof.
  induction x as [|c x IH]; intros rest cur H; cbn [app]; [rewrite app_nil_r; reflexivity|].
  cbn [nosep forallb] in H. apply andb_prop in H. destruct H as [Hc Hx].
  apply Bool.negb_true_iff in Hc. cbn [split_on]. rewrite Hc. rewrite (IH rest (cur ++ [c]) Hx).
  rewrite <- app_assoc. reflexivity.
Qed.

Lemma split_intercalate sep s2 : forall xs cur,
  nosep sep s2 = true -> forallb (nosep sep) xs = true ->
  split_on sep (intercalate (sep :: s2) xs) cur =
  match xs with [] => [cur] | x :: r => (cur ++ x) :: map (fun p => s2 ++ p) r end.
Proof.
  induction xs as [|x xs IH]; intros cur Hs Hx; [reflexivity|].
  cbn [forallb] in Hx. apply andb_prop in Hx. destruct Hx as [H1 H2].
  destruct xs as [|y ys].
  - cbn [intercalate map]. rewrite <- (app_nil_r x) at 1. rewrite (split_on_app_nosep sep x [] cur H1). reflexivity.
  - change (intercalate (sep :: s2) (x :: y :: ys)) with (x ++ (sep :: s2) ++ intercalate (sep :: s2) (y :: ys)).
    rewrite (split_on_app_nosep sep x _ cur H1). cbn [app split_on]. rewrite N.eqb_refl.
    f_equal. rewrite (split_on_app_nosep sep s2 _ [] Hs). rewrite (IH (([] ++ s2)) Hs H2).
    cbn [app map]. reflexivity.
Qed.

(* per-byte facts, by exhaustive computation over the 256 byte values *)
Definition byte_facts (b : N) : bool :=
  let dec := show_dec b in let hx := hex2 b in
  match parse_u8 (trim dec), parse_u8 (trim (32 :: dec)), parse_hex_u8 (trim hx) with
  | Some x, Some y, Some z => (x =? b) && (y =? b) && (z =? b)
  | _, _, _ => false
  end && nosep 44 dec && nosep 58 hx && nosep 44 hx &&
  match dec with c :: _ => negb (c =? 91) | [] => false end &&
  match rev dec with c :: _ => negb (c =? 93) | [] => false end &&
  match hx with c :: _ => negb (c =? 91) | [] => false end &&
  match rev hx with c :: _ => negb (c =? 93) | [] => false end.
Lemma byte_facts_all : forallb byte_facts bytes256 = true.
Proof. vm_compute. reflexivity. Qed.
Lemma byte_fact b : b < 256 -> byte_facts b = true.
Proof. intros H. pose proof byte_facts_all as S. rewrite forallb_forall in S. apply S. apply in_bytes256. exact H. Qed.

Lemma all_some_map_some {A} (l : list A) : all_some (map Some l) = Some l.
Proof. induction l as [|x l IH]; [reflexivity|]. cbn [map all_some]. rewrite IH. reflexivity. Qed.

Lemma bytes_ok_forall d : bytes_ok d = true -> forall b, In b d -> b < 256.
Proof. unfold bytes_ok, byte_ok. rewrite forallb_forall. intros H b Hb. apply N.ltb_lt. apply H. exact Hb. Qed.

Lemma map_parse_pieces (f : bytes -> option N) (s2 : bytes) (g : N -> bytes) b0 d' :
  (forall b, In b (b0 :: d') -> f (g b) = Some b /\ f (s2 ++ g b) = Some b) ->
  f ([] ++ g b0) :: map f (map (fun p => s2 ++ p) (map g d')) = map Some (b0 :: d').
Proof.
  intros H. cbn [map app]. f_equal; [apply (H b0); left; reflexivity|].
  rewrite !map_map. apply map_ext_in. intros b Hin. apply (H b). right. exact Hin.
Qed.

Lemma byte_fact_parts b : b < 256 ->
  parse_u8 (trim (show_dec b)) = Some b /\ parse_u8 (trim (32 :: show_dec b)) = Some b /\
  parse_hex_u8 (trim (hex2 b)) = Some b.
Proof.
  intros H. pose proof (byte_fact b H) as F. unfold byte_facts in F.
  repeat (apply andb_prop in F; destruct F as [F ?]).
  destruct (parse_u8 (trim (show_dec b))), (parse_u8 (trim (32 :: show_dec b))), (parse_hex_u8 (trim (hex2 b))); try discriminate.
  repeat (apply andb_prop in F; destruct F as [F ?]).
  repeat split; f_equal; apply N.eqb_eq; assumption.
Qed.

Theorem hex_roundtrip d : bytes_ok d = true -> length d = 32%nat -> parse_dotted_hex (fmt_hex d) = Some d.
Proof.
  intros Hok Hl. unfold parse_dotted_hex, fmt_hex.
  pose proof (bytes_ok_forall d Hok) as Hb.
  rewrite (split_intercalate 58 [] (map hex2 d) []); [|reflexivity|].
  2:{ apply forallb_forall. intros x Hx. apply in_map_iff in Hx. destruct Hx as (b & <- & Hin).
      pose proof (byte_fact b (Hb b Hin)) as F. unfold byte_facts in F.
      repeat (apply andb_prop in F; destruct F as [F ?]). assumption. }
  destruct d as [|b0 d']; [discriminate|]. cbn [map].
  rewrite (map_parse_pieces (fun p => parse_hex_u8 (trim p)) [] hex2 b0 d').
  - rewrite all_some_map_some. unfold want32. rewrite Hl. reflexivity.
  - intros b Hin. cbn [app]. destruct (byte_fact_parts b (Hb b Hin)) as (_ & _ & P). auto.
Qed.

Lemma trim_start_ch_head ch c s : c <> ch -> trim_start_ch ch (c :: s) = c :: s.
Proof. intros H. cbn [trim_start_ch]. apply N.eqb_neq in H. rewrite H. reflexivity. Qed.

(* the body between the brackets starts and ends with a digit *)
Lemma intercalate_head sep x xs : exists t, intercalate sep (x :: xs) = x ++ t.
Proof. destruct xs as [|y ys]; [exists []; cbn; rewrite app_nil_r; reflexivity|]. eexists. reflexivity. Qed.
Lemma intercalate_last sep : forall xs x, exists t, intercalate sep (xs ++ [x]) = t ++ x.
Proof.
  induction xs as [|y ys IH]; intros x; [exists []; reflexivity|].
  cbn [app]. destruct (IH x) as [t Ht].
  destruct (ys ++ [x]) as [|z zs] eqn:E; [destruct ys; discriminate|].
  change (intercalate sep (y :: z :: zs)) with (y ++ sep ++ intercalate sep (z :: zs)).
  rewrite Ht. exists (y ++ sep ++ t). rewrite <- !app_assoc. reflexivity.
Qed.

Theorem array_roundtrip d : bytes_ok d = true -> length d = 32%nat -> parse_array (fmt_array d) = Some d.
Proof.
  intros Hok Hl. unfold parse_array, fmt_array.
  pose proof (bytes_ok_forall d Hok) as Hb.
  destruct d as [|b0 d']; [discriminate|].
  set (body := intercalate [44; 32] (map show_dec (b0 :: d'))).
  (* strip '[' *)
  assert (Hhead : exists c t, body = c :: t /\ c <> 91).
  { subst body. cbn [map]. destruct (intercalate_head [44; 32] (show_dec b0) (map show_dec d')) as [t Ht].
    rewrite Ht. pose proof (byte_fact b0 (Hb b0 (or_introl eq_refl))) as F. unfold byte_facts in F.
    repeat (apply andb_prop in F; destruct F as [F ?]).
    destruct (show_dec b0) as [|c r]; [discriminate|]. exists c, (r ++ t). split; [reflexivity|].
    match goal with H : negb (c =? 91) = true |- _ => apply Bool.negb_true_iff in H; apply N.eqb_neq in H; exact H end. }
  destruct Hhead as (c0 & t0 & Hbody & Hc0).
  cbn [app trim_start_ch]. rewrite N.eqb_refl.
  assert (T1 : trim_start_ch 91 (body ++ [93]) = body ++ [93]).
  { rewrite Hbody. cbn [app]. apply trim_start_ch_head. exact Hc0. }
  rewrite T1.
  (* strip ']' *)
  assert (Hlast : exists t c, body = t ++ [c] /\ c <> 93).
  { subst body. destruct (exists_last (l := b0 :: d')) as (dpre & dl & Edl); [discriminate|].
    rewrite Edl, map_app. cbn [map]. destruct (intercalate_last [44; 32] (map show_dec dpre) (show_dec dl)) as [t Ht].
    rewrite Ht.
    assert (Hdl : In dl (b0 :: d')) by (rewrite Edl; apply in_or_app; right; left; reflexivity).
    pose proof (byte_fact dl (Hb dl Hdl)) as F.
    unfold byte_facts in F. repeat (apply andb_prop in F; destruct F as [F ?]).
    destruct (rev (show_dec dl)) as [|c r] eqn:Er; [discriminate|].
    assert (Hsd : show_dec dl = rev r ++ [c]) by (rewrite <- (rev_involutive (show_dec dl)), Er; reflexivity).
    exists (t ++ rev r), c. split; [rewrite Hsd, app_assoc; reflexivity|].
    match goal with H : negb (c =? 93) = true |- _ => apply Bool.negb_true_iff in H; apply N.eqb_neq in H; exact H end. }
  destruct Hlast as (tl_ & cl & Hbl & Hcl).
  assert (T2 : trim_end_ch 93 (body ++ [93]) = body).
  { unfold trim_end_ch. rewrite rev_app_distr. cbn [rev app trim_start_ch]. rewrite N.eqb_refl.
    rewrite Hbl. rewrite rev_app_distr. cbn [rev app]. rewrite (trim_start_ch_head 93 cl _ Hcl).
    change (cl :: rev tl_) with (rev [cl] ++ rev tl_). rewrite <- rev_app_distr, rev_involutive. reflexivity. }
  rewrite T2.
  (* split and parse *)
  subst body. rewrite (split_intercalate 44 [32] (map show_dec (b0 :: d')) []); [|reflexivity|].
  2:{ apply forallb_forall. intros x Hx. apply in_map_iff in Hx. destruct Hx as (b & <- & Hin).
      pose proof (byte_fact b (Hb b Hin)) as F. unfold byte_facts in F.
      repeat (apply andb_prop in F; destruct F as [F ?]). assumption. }
  cbn [map].
  rewrite (map_parse_pieces (fun p => parse_u8 (trim p)) [32] show_dec b0 d').
  - rewrite all_some_map_some. unfold want32. rewrite Hl. reflexivity.
  - intros b Hin. cbn [app]. destruct (byte_fact_parts b (Hb b Hin)) as (P1 & P2 & _). auto.
Qed.

(* FromStr tries the array form first and falls back to the dotted-hex form: it never mis-parses
   the other format's output *)
Theorem from_str_array d : bytes_ok d = true -> length d = 32%nat -> digest_from_str (fmt_array d) = Some d.
Proof. intros H1 H2. unfold digest_from_str. rewrite (array_roundtrip d H1 H2). reflexivity. Qed.

Lemma split_nosep sep s : nosep sep s = true -> split_on sep s [] = [s].
Proof. intros H. rewrite <- (app_nil_r s) at 1. rewrite (split_on_app_nosep sep s [] [] H). reflexivity. Qed.

Lemma nosep_intercalate sep s2 : forall xs, nosep sep s2 = true -> forallb (nosep sep) xs = true -> nosep sep (intercalate s2 xs) = true.
Proof.
  induction xs as [|x xs IH]; intros Hs Hx; [reflexivity|].
  cbn [forallb] in Hx. apply andb_prop in Hx. destruct Hx as [H1 H2].
  destruct xs as [|y ys]; [exact H1|].
  change (intercalate s2 (x :: y :: ys)) with (x ++ s2 ++ intercalate s2 (y :: ys)).
  unfold nosep in *. rewrite !forallb_app, H1, Hs. cbn [andb]. apply IH; assumption.
Qed.

Theorem from_str_hex d : bytes_ok d = true -> length d = 32%nat -> digest_from_str (fmt_hex d) = Some d.
Proof.
  intros H1 H2. unfold digest_from_str.
  assert (N0 : parse_array (fmt_hex d) = None).
  { unfold parse_array.
    assert (NS : nosep 44 (trim_end_ch 93 (trim_start_ch 91 (fmt_hex d))) = true).
    { (* trimming only removes characters: a string without commas keeps none *)
      assert (G : forall ch s, nosep 44 s = true -> nosep 44 (trim_start_ch ch s) = true).
      { intros ch s. induction s as [|c s IHs]; intros H; [reflexivity|]. cbn [trim_start_ch].
        destruct (c =? ch); [apply IHs; cbn [nosep forallb] in H; apply andb_prop in H; tauto|exact H]. }
      assert (R : forall s, nosep 44 s = true -> nosep 44 (rev s) = true).
      { intros s H. unfold nosep in *. rewrite forallb_forall in *. intros x Hx. apply H. apply in_rev. exact Hx. }
      unfold trim_end_ch. apply R, G, R, G. unfold fmt_hex. apply nosep_intercalate; [reflexivity|].
      apply forallb_forall. intros x Hx. apply in_map_iff in Hx. destruct Hx as (b & <- & Hin).
      pose proof (byte_fact b (bytes_ok_forall d H1 b Hin)) as F. unfold byte_facts in F.
      repeat (apply andb_prop in F; destruct F as [F ?]). assumption. }
    rewrite (split_nosep 44 _ NS). cbn [map all_some].
    destruct (parse_u8 _); reflexivity. }
  rewrite N0. apply hex_roundtrip; assumption.
Qed.
