(* FrameP.v -- proofs about Model/Frame.v (frames and stream headers, sync paths) *)
From WT.Model Require Import Base Varint Ids Frame.
From WT.Proofs Require Import VarintP.
From Coq Require Import Lia ZArith ZifyBool ZifyNat ZifyN.
Ltac Zify.zify_post_hook ::= Z.to_euclidean_division_equations.

(* ---------- small list facts ---------- *)
Lemma len_app a b : len (a ++ b) = len a + len b.
Proof. unfold len. rewrite app_length. lia. Qed.

Lemma get_bytes_app p r : get_bytes (length p) (p ++ r) = Some (p, r).
Proof.
  unfold get_bytes. rewrite app_length.
  assert (H : (length p + length r <? length p)%nat = false) by (apply Nat.ltb_ge; lia).
  rewrite H. rewrite (firstn_app_exact p r _ eq_refl), (skipn_app_exact p r _ eq_refl). reflexivity.
Qed.

Lemma get_bytes_n_app p r : get_bytes_n (len p) (p ++ r) = Some (p, r).
Proof.
  unfold get_bytes_n. rewrite len_app.
  assert (H : (len p + len r <? len p) = false) by (apply N.ltb_ge; lia).
  rewrite H. unfold len. rewrite Nat2N.id. apply get_bytes_app.
Qed.

Lemma get_bytes_n_split n bs p r : get_bytes_n n bs = Some (p, r) -> bs = p ++ r /\ len p = n.
Proof.
  unfold get_bytes_n, get_bytes. destruct (len bs <? n) eqn:E; [discriminate|].
  apply N.ltb_ge in E.
  destruct (length bs <? N.to_nat n)%nat eqn:E2; [discriminate|].
  intros [= <- <-]. split; [symmetry; apply firstn_skipn|].
  unfold len in *. rewrite firstn_length. lia.
Qed.

Lemma get_bytes_n_none n bs : get_bytes_n n bs = None <-> len bs < n.
Proof.
  unfold get_bytes_n, get_bytes. destruct (len bs <? n) eqn:E.
  - apply N.ltb_lt in E. tauto.
  - apply N.ltb_ge in E. unfold len in *.
    assert (H : (length bs <? N.to_nat n)%nat = false) by (apply Nat.ltb_ge; lia).
    rewrite H. split; [discriminate|lia].
Qed.

(* ---------- frame kinds ---------- *)
Lemma is_exercise_not_known id : is_exercise id = true ->
  id <> 0 /\ id <> 1 /\ id <> 4 /\ id <> 65 /\ id <> 84 /\ id <> 2 /\ id <> 3.
Proof.
  unfold is_exercise. intros H. apply andb_prop in H. destruct H as [H1 H2].
  apply N.leb_le in H1. apply N.eqb_eq in H2.
  repeat split; try lia; intros ->; vm_compute in H2; discriminate.
Qed.

Definition fkind_wf (k : fkind) : bool :=
  match k with KExercise id => is_exercise id | _ => true end.

Lemma fkind_parse_id k : fkind_wf k = true -> fkind_parse (fkind_id k) = Some k.
Proof.
  destruct k; cbn [fkind_wf fkind_id]; intros H; try reflexivity.
  destruct (is_exercise_not_known _ H) as (H0 & H1 & H4 & H65 & _).
  unfold fkind_parse.
  apply N.eqb_neq in H0, H1, H4, H65. rewrite H0, H1, H4, H65, H. reflexivity.
Qed.

Lemma fkind_parse_some id k : fkind_parse id = Some k -> fkind_id k = id /\ fkind_wf k = true.
Proof.
  unfold fkind_parse.
  destruct (id =? 0) eqn:E0; [apply N.eqb_eq in E0; intros [= <-]; subst; split; reflexivity|].
  destruct (id =? 1) eqn:E1; [apply N.eqb_eq in E1; intros [= <-]; subst; split; reflexivity|].
  destruct (id =? 4) eqn:E4; [apply N.eqb_eq in E4; intros [= <-]; subst; split; reflexivity|].
  destruct (id =? 65) eqn:E65; [apply N.eqb_eq in E65; intros [= <-]; subst; split; reflexivity|].
  destruct (is_exercise id) eqn:EX; [|discriminate].
  intros [= <-]. split; [reflexivity|exact EX].
Qed.

(* ---------- frames ---------- *)
Lemma frame_wf_kind f : frame_wf f = true -> fkind_wf (fk f) = true.
Proof.
  unfold frame_wf. destruct f as [k p s]; cbn [fk fsid fpayload].
  destruct k; cbn [fkind_wf]; try (intros; reflexivity). destruct s; [discriminate|].
  intros H. apply andb_prop in H. tauto.
Qed.

Lemma frame_wf_id f : frame_wf f = true -> fkind_id (fk f) <= varint_max.
Proof.
  unfold frame_wf. destruct f as [k p s]; cbn [fk fsid fpayload fkind_id].
  destruct k; cbn [fkind_id]; try (intros _; unfold varint_max; lia).
  destruct s; [discriminate|]. intros H. apply andb_prop in H. lia.
Qed.

Theorem frame_write_length f : length (frame_write f) = frame_write_size f.
Proof.
  unfold frame_write, frame_write_size. destruct (fk f); destruct (fsid f);
    rewrite ?app_length, ?enc_length; lia.
Qed.

Theorem frame_read_write f r :
  frame_wf f = true -> len (fpayload f) <= max_parse_payload ->
  frame_read (frame_write f ++ r) = (RVal f, r).
Proof.
  intros Hwf Hlen. pose proof (frame_wf_kind f Hwf) as Hk. pose proof (frame_wf_id f Hwf) as Hid.
  unfold frame_read, frame_write.
  destruct f as [k p s]. cbn [fk fsid fpayload] in *.
  assert (Hp : len p <= varint_max) by (unfold max_parse_payload, varint_max in *; lia).
  destruct k as [| | | |id].
  1,2,3,5: (destruct s as [s|]; [unfold frame_wf in Hwf; cbn in Hwf; discriminate|];
    rewrite <- !app_assoc, (get_enc _ _ Hid), (fkind_parse_id _ Hk);
    rewrite (get_enc _ _ Hp);
    assert (Hb : (max_parse_payload <? len p) = false) by (apply N.ltb_ge; exact Hlen);
    rewrite Hb, get_bytes_n_app; reflexivity).
  (* WebTransport *)
  destruct s as [s|]; [|unfold frame_wf in Hwf; cbn in Hwf; discriminate].
  unfold frame_wf in Hwf. cbn [fk fsid fpayload] in Hwf.
  apply andb_prop in Hwf. destruct Hwf as [Hwf Hpe]. apply andb_prop in Hwf. destruct Hwf as [Hs Hsm].
  destruct p; [|discriminate].
  rewrite <- !app_assoc, (get_enc _ _ Hid). cbn [fkind_id]. change (fkind_parse 65) with (Some KWebTransport).
  cbv iota. assert (Hs2 : s <= varint_max) by lia. rewrite (get_enc _ _ Hs2), Hs. reflexivity.
Qed.

(* whatever frame_read returns, the reader's remainder is a suffix of the input,
   and a value / a skipped unknown frame consumed at least one byte *)
Lemma get_varint_split bs v r : get_varint bs = Some (v, r) -> exists p, bs = p ++ r /\ p <> [].
Proof. apply get_varint_suffix. Qed.

Theorem frame_read_suffix bs x r : frame_read bs = (x, r) -> exists p, bs = p ++ r.
Proof.
  unfold frame_read.
  destruct (get_varint bs) as [[id r1]|] eqn:E1; [|intros [= <- <-]; exists []; reflexivity].
  destruct (get_varint_split _ _ _ E1) as (p1 & -> & _).
  assert (G : forall (y : rd frame * bytes), (exists q, r1 = q ++ snd y) -> y = (x, r) -> exists p, p1 ++ r1 = p ++ r).
  { intros y [q Hq] ->. cbn in Hq. exists (p1 ++ q). rewrite Hq, app_assoc. reflexivity. }
  destruct (fkind_parse id) as [k|].
  - destruct k.
    1,2,3,5: (apply G; destruct (get_varint r1) as [[l r2]|] eqn:E2; [|exists []; reflexivity];
      destruct (get_varint_split _ _ _ E2) as (p2 & -> & _);
      destruct (max_parse_payload <? l); [exists p2; reflexivity|];
      destruct (get_bytes_n l r2) as [[pp r3]|] eqn:E3; [|exists p2; reflexivity];
      destruct (get_bytes_n_split _ _ _ _ E3) as [-> _]; exists (p2 ++ pp); cbn; rewrite app_assoc; reflexivity).
    apply G. destruct (get_varint r1) as [[s r2]|] eqn:E2; [|exists []; reflexivity].
    destruct (get_varint_split _ _ _ E2) as (p2 & -> & _).
    destruct (session_ok s); exists p2; reflexivity.
  - apply G. destruct (get_varint r1) as [[l r2]|] eqn:E2; [|exists []; reflexivity].
    destruct (get_varint_split _ _ _ E2) as (p2 & -> & _).
    destruct (get_bytes_n l r2) as [[pp r3]|] eqn:E3; [|exists p2; reflexivity].
    destruct (get_bytes_n_split _ _ _ _ E3) as [-> _]. exists (p2 ++ pp). cbn. rewrite app_assoc. reflexivity.
Qed.

Theorem frame_read_progress bs x r :
  frame_read bs = (x, r) -> x <> RNone -> (length r < length bs)%nat.
Proof.
  unfold frame_read.
  destruct (get_varint bs) as [[id r1]|] eqn:E1; [|intros [= <- <-] H; congruence].
  destruct (get_varint_split _ _ _ E1) as (p1 & -> & Hp1).
  assert (L1 : (length r1 < length (p1 ++ r1))%nat).
  { rewrite app_length. destruct p1; [congruence|cbn; lia]. }
  intros H Hx.
  assert (Hr : (length r <= length r1)%nat).
  { pose proof (frame_read_suffix (p1 ++ r1) x r) as S.
    unfold frame_read in S. rewrite E1 in S. specialize (S H).
    clear S.
    destruct (fkind_parse id) as [k|].
    - destruct k.
      1,2,3,5: (destruct (get_varint r1) as [[l r2]|] eqn:E2; [|injection H as _ <-; lia];
        destruct (get_varint_split _ _ _ E2) as (p2 & -> & _);
        destruct (max_parse_payload <? l); [injection H as _ <-; rewrite app_length; lia|];
        destruct (get_bytes_n l r2) as [[pp r3]|] eqn:E3; [|injection H as _ <-; rewrite app_length; lia];
        destruct (get_bytes_n_split _ _ _ _ E3) as [-> _]; injection H as _ <-; rewrite !app_length; lia).
      destruct (get_varint r1) as [[s r2]|] eqn:E2; [|injection H as _ <-; lia].
      destruct (get_varint_split _ _ _ E2) as (p2 & -> & _).
      destruct (session_ok s); injection H as _ <-; rewrite app_length; lia.
    - destruct (get_varint r1) as [[l r2]|] eqn:E2; [|injection H as _ <-; lia].
      destruct (get_varint_split _ _ _ E2) as (p2 & -> & _).
      destruct (get_bytes_n l r2) as [[pp r3]|] eqn:E3; [|injection H as _ <-; rewrite app_length; lia].
      destruct (get_bytes_n_split _ _ _ _ E3) as [-> _]. injection H as _ <-. rewrite !app_length. lia. }
  lia.
Qed.

(* values returned by the parser satisfy the type's invariants (C11) *)
Theorem frame_read_wf bs f r :
  frame_read bs = (RVal f, r) -> frame_wf f = true /\ len (fpayload f) <= max_parse_payload.
Proof.
  unfold frame_read.
  destruct (get_varint bs) as [[id r1]|] eqn:E1; [|discriminate].
  pose proof (get_varint_range _ _ _ E1) as Hid.
  destruct (fkind_parse id) as [k|] eqn:EK.
  - destruct (fkind_parse_some _ _ EK) as [Hki Hkw].
    destruct k.
    1,2,3,5: (destruct (get_varint r1) as [[l r2]|] eqn:E2; [|discriminate];
      destruct (max_parse_payload <? l) eqn:EL; [discriminate|];
      destruct (get_bytes_n l r2) as [[pp r3]|] eqn:E3; [|discriminate];
      destruct (get_bytes_n_split _ _ _ _ E3) as [_ Hl];
      intros [= <- <-]; cbn [fpayload]; apply N.ltb_ge in EL; split; [|lia];
      unfold frame_wf; cbn [fk fsid fpayload]; try reflexivity).
    + cbn [fkind_wf fkind_id] in *. subst id0. rewrite Hkw. apply N.leb_le in Hid. rewrite Hid. reflexivity.
    + destruct (get_varint r1) as [[s r2]|] eqn:E2; [|discriminate].
      pose proof (get_varint_range _ _ _ E2) as Hs.
      destruct (session_ok s) eqn:ES; [|discriminate].
      intros [= <- <-]. cbn [fpayload]. split; [|unfold len, max_parse_payload; cbn; lia].
      unfold frame_wf. cbn [fk fsid fpayload]. rewrite ES. apply N.leb_le in Hs. rewrite Hs. reflexivity.
  - destruct (get_varint r1) as [[l r2]|]; [|discriminate].
    destruct (get_bytes_n l r2) as [[pp r3]|]; discriminate.
Qed.

(* read_from_buffer: the offset moves only when a frame is returned *)
Theorem frame_read_from_buffer_offset buf off x o :
  frame_read_from_buffer buf off = (x, o) ->
  match x with RVal _ => True | _ => o = off end.
Proof.
  unfold frame_read_from_buffer. destruct (frame_read (skipn off buf)) as [[f| |e] r];
    intros [= <- <-]; auto.
Qed.

Theorem frame_read_from_buffer_value buf off f o : (off <= length buf)%nat ->
  frame_read_from_buffer buf off = (RVal f, o) ->
  exists r, frame_read (skipn off buf) = (RVal f, r) /\ (o = length buf - length r)%nat /\ (off < o <= length buf)%nat.
Proof.
  unfold frame_read_from_buffer. intros Hoff.
  destruct (frame_read (skipn off buf)) as [[g| |e] r] eqn:E; intros [= <- <-].
  exists r. split; [reflexivity|]. split; [reflexivity|].
  pose proof (frame_read_progress _ _ _ E ltac:(discriminate)) as P.
  rewrite skipn_length in P. lia.
Qed.

Theorem frame_write_to_buffer_spec cap f :
  (frame_write_to_buffer cap f = None <-> (cap < frame_write_size f)%nat) /\
  (forall w, frame_write_to_buffer cap f = Some w -> w = frame_write f /\ length w = frame_write_size f).
Proof.
  unfold frame_write_to_buffer. destruct (cap <? frame_write_size f)%nat eqn:E.
  - apply Nat.ltb_lt in E. split; [tauto|discriminate].
  - apply Nat.ltb_ge in E. split; [split; [discriminate|lia]|].
    intros w [= <-]. split; [reflexivity|apply frame_write_length].
Qed.

(* ---------- stream headers ---------- *)
Definition skind_wf (k : skind) : bool :=
  match k with SExercise id => is_exercise id | _ => true end.

Lemma skind_parse_id k : skind_wf k = true -> skind_parse (skind_id k) = Some k.
Proof.
  destruct k; cbn [skind_wf skind_id]; intros H; try reflexivity.
  destruct (is_exercise_not_known _ H) as (H0 & _ & _ & _ & H84 & H2 & H3).
  unfold skind_parse. apply N.eqb_neq in H0, H2, H3, H84. rewrite H0, H2, H3, H84, H. reflexivity.
Qed.

Lemma skind_parse_some id k : skind_parse id = Some k -> skind_id k = id /\ skind_wf k = true.
Proof.
  unfold skind_parse.
  destruct (id =? 0) eqn:E0; [apply N.eqb_eq in E0; intros [= <-]; subst; split; reflexivity|].
  destruct (id =? 2) eqn:E2; [apply N.eqb_eq in E2; intros [= <-]; subst; split; reflexivity|].
  destruct (id =? 3) eqn:E3; [apply N.eqb_eq in E3; intros [= <-]; subst; split; reflexivity|].
  destruct (id =? 84) eqn:E84; [apply N.eqb_eq in E84; intros [= <-]; subst; split; reflexivity|].
  destruct (is_exercise id) eqn:EX; [|discriminate].
  intros [= <-]. split; [reflexivity|exact EX].
Qed.

Theorem sheader_write_length h : length (sheader_write h) = sheader_write_size h.
Proof.
  unfold sheader_write, sheader_write_size. destruct (sk h); destruct (ssid h);
    rewrite ?app_length, ?enc_length; lia.
Qed.

Theorem sheader_read_write h r : sheader_wf h = true -> sheader_read (sheader_write h ++ r) = (SVal h, r).
Proof.
  unfold sheader_wf, sheader_read, sheader_write. destruct h as [k s]. cbn [sk ssid].
  destruct k as [| | | |id]; destruct s as [s|]; try discriminate; intros H;
    try (rewrite get_enc by (cbn; unfold varint_max; lia); reflexivity).
  - apply andb_prop in H. destruct H as [Hs Hm]. apply N.leb_le in Hm.
    rewrite <- app_assoc, get_enc by (cbn; unfold varint_max; lia).
    cbn [skind_id]. change (skind_parse 84) with (Some SWebTransport). cbv iota.
    rewrite (get_enc _ _ Hm), Hs. reflexivity.
  - apply andb_prop in H. destruct H as [Hx Hm]. apply N.leb_le in Hm.
    cbn [skind_id]. rewrite (get_enc _ _ Hm).
    pose proof (skind_parse_id (SExercise id) Hx) as P. cbn [skind_id] in P. rewrite P. reflexivity.
Qed.

Theorem sheader_read_wf bs h r : sheader_read bs = (SVal h, r) -> sheader_wf h = true.
Proof.
  unfold sheader_read.
  destruct (get_varint bs) as [[id r1]|] eqn:E1; [|discriminate].
  pose proof (get_varint_range _ _ _ E1) as Hid.
  destruct (skind_parse id) as [k|] eqn:EK; [|discriminate].
  destruct (skind_parse_some _ _ EK) as [Hki Hkw].
  destruct k; try (intros [= <- <-]; reflexivity).
  - destruct (get_varint r1) as [[s r2]|] eqn:E2; [|discriminate].
    pose proof (get_varint_range _ _ _ E2) as Hs.
    destruct (session_ok s) eqn:ES; [|discriminate].
    intros [= <- <-]. unfold sheader_wf. cbn [sk ssid]. rewrite ES. apply N.leb_le in Hs. rewrite Hs. reflexivity.
  - intros [= <- <-]. unfold sheader_wf. cbn [sk ssid skind_wf skind_id] in *. subst id0.
    rewrite Hkw. apply N.leb_le in Hid. rewrite Hid. reflexivity.
Qed.

Theorem sheader_read_suffix bs x r : sheader_read bs = (x, r) -> exists p, bs = p ++ r.
Proof.
  unfold sheader_read.
  destruct (get_varint bs) as [[id r1]|] eqn:E1; [|intros [= <- <-]; exists []; reflexivity].
  destruct (get_varint_split _ _ _ E1) as (p1 & -> & _).
  destruct (skind_parse id) as [k|]; [|intros [= <- <-]; exists p1; reflexivity].
  destruct k; try (intros [= <- <-]; exists p1; reflexivity).
  destruct (get_varint r1) as [[s r2]|] eqn:E2; [|intros [= <- <-]; exists p1; reflexivity].
  destruct (get_varint_split _ _ _ E2) as (p2 & -> & _).
  destruct (session_ok s); intros [= <- <-]; exists (p1 ++ p2); rewrite app_assoc; reflexivity.
Qed.

Theorem sheader_read_from_buffer_offset buf off x o :
  sheader_read_from_buffer buf off = (x, o) ->
  match x with SVal _ => True | _ => o = off end.
Proof.
  unfold sheader_read_from_buffer. destruct (sheader_read (skipn off buf)) as [[f| |e] r];
    intros [= <- <-]; auto.
Qed.

Theorem sheader_write_to_buffer_spec cap h :
  (sheader_write_to_buffer cap h = None <-> (cap < sheader_write_size h)%nat) /\
  (forall w, sheader_write_to_buffer cap h = Some w -> w = sheader_write h /\ length w = sheader_write_size h).
Proof.
  unfold sheader_write_to_buffer. destruct (cap <? sheader_write_size h)%nat eqn:E.
  - apply Nat.ltb_lt in E. split; [tauto|discriminate].
  - apply Nat.ltb_ge in E. split; [split; [discriminate|lia]|].
    intros w [= <-]. split; [reflexivity|apply sheader_write_length].
Qed.

(* ---------- extension: more input never changes a completed read ---------- *)
Lemma get_varint_ext p q v r : get_varint p = Some (v, r) -> get_varint (p ++ q) = Some (v, r ++ q).
Proof.
  unfold get_varint. destruct p as [|b p']; [discriminate|]. cbn [app].
  destruct (length (b :: p') <? parse_size b)%nat eqn:E; [discriminate|].
  apply Nat.ltb_ge in E. intros [= <- <-].
  assert (E2 : (length (b :: p' ++ q) <? parse_size b)%nat = false).
  { apply Nat.ltb_ge. cbn [length] in *. rewrite app_length. lia. }
  rewrite E2. change (b :: p' ++ q) with ((b :: p') ++ q).
  rewrite firstn_app, skipn_app.
  replace (parse_size b - length (b :: p'))%nat with 0%nat by lia.
  cbn [firstn skipn]. rewrite app_nil_r. reflexivity.
Qed.

Lemma get_bytes_n_ext n p q x r : get_bytes_n n p = Some (x, r) -> get_bytes_n n (p ++ q) = Some (x, r ++ q).
Proof.
  intros H. destruct (get_bytes_n_split _ _ _ _ H) as [-> Hl]. subst n.
  rewrite <- app_assoc. apply get_bytes_n_app.
Qed.

Theorem frame_read_ext p q x r : frame_read p = (x, r) -> x <> RNone -> frame_read (p ++ q) = (x, r ++ q).
Proof.
  unfold frame_read.
  destruct (get_varint p) as [[id r1]|] eqn:E1; [|intros [= <- <-] H; congruence].
  rewrite (get_varint_ext _ q _ _ E1).
  destruct (fkind_parse id) as [k|].
  - destruct k.
    1,2,3,5: (destruct (get_varint r1) as [[l r2]|] eqn:E2; [|intros [= <- <-] H; congruence];
      rewrite (get_varint_ext _ q _ _ E2);
      destruct (max_parse_payload <? l); [intros [= <- <-] _; reflexivity|];
      destruct (get_bytes_n l r2) as [[pp r3]|] eqn:E3; [|intros [= <- <-] H; congruence];
      rewrite (get_bytes_n_ext _ _ q _ _ E3); intros [= <- <-] _; reflexivity).
    destruct (get_varint r1) as [[s r2]|] eqn:E2; [|intros [= <- <-] H; congruence].
    rewrite (get_varint_ext _ q _ _ E2).
    destruct (session_ok s); intros [= <- <-] _; reflexivity.
  - destruct (get_varint r1) as [[l r2]|] eqn:E2; [|intros [= <- <-] H; congruence].
    rewrite (get_varint_ext _ q _ _ E2).
    destruct (get_bytes_n l r2) as [[pp r3]|] eqn:E3; [|intros [= <- <-] H; congruence].
    rewrite (get_bytes_n_ext _ _ q _ _ E3). intros [= <- <-] _. reflexivity.
Qed.

(* a proper prefix of a valid encoding asks for more data *)
Theorem frame_read_prefix f p q :
  frame_wf f = true -> len (fpayload f) <= max_parse_payload ->
  frame_write f = p ++ q -> q <> [] -> fst (frame_read p) = RNone.
Proof.
  intros Hwf Hl Hw Hq.
  destruct (frame_read p) as [x r] eqn:E. cbn [fst].
  destruct x as [g| |e]; [exfalso| reflexivity | exfalso].
  - pose proof (frame_read_ext p q _ _ E ltac:(discriminate)) as X.
    pose proof (frame_read_write f [] Hwf Hl) as W. rewrite app_nil_r, Hw, X in W.
    injection W as _ W. destruct r; [cbn in W; congruence|discriminate].
  - pose proof (frame_read_ext p q _ _ E ltac:(discriminate)) as X.
    pose proof (frame_read_write f [] Hwf Hl) as W. rewrite app_nil_r, Hw, X in W. discriminate.
Qed.

Theorem sheader_read_ext p q x r : sheader_read p = (x, r) -> x <> SNone -> sheader_read (p ++ q) = (x, r ++ q).
Proof.
  unfold sheader_read.
  destruct (get_varint p) as [[id r1]|] eqn:E1; [|intros [= <- <-] H; congruence].
  rewrite (get_varint_ext _ q _ _ E1).
  destruct (skind_parse id) as [k|]; [|intros [= <- <-] _; reflexivity].
  destruct k; try (intros [= <- <-] _; reflexivity).
  destruct (get_varint r1) as [[s r2]|] eqn:E2; [|intros [= <- <-] H; congruence].
  rewrite (get_varint_ext _ q _ _ E2).
  destruct (session_ok s); intros [= <- <-] _; reflexivity.
Qed.

Theorem sheader_read_prefix h p q :
  sheader_wf h = true -> sheader_write h = p ++ q -> q <> [] -> fst (sheader_read p) = SNone.
Proof.
  intros Hwf Hw Hq.
  destruct (sheader_read p) as [x r] eqn:E. cbn [fst].
  destruct x as [g| |e]; [exfalso| reflexivity | exfalso].
  - pose proof (sheader_read_ext p q _ _ E ltac:(discriminate)) as X.
    pose proof (sheader_read_write h [] Hwf) as W. rewrite app_nil_r, Hw, X in W.
    injection W as _ W. destruct r; [cbn in W; congruence|discriminate].
  - pose proof (sheader_read_ext p q _ _ E ltac:(discriminate)) as X.
    pose proof (sheader_read_write h [] Hwf) as W. rewrite app_nil_r, Hw, X in W. discriminate.
Qed.
