(* ConfigP.v -- C20: for every chain of setter calls, build() yields a configuration exactly when every
   requested idle timeout is representable, and then each field holds what the LAST call of its setter
   asked for (quinn's default when there was none); setters of different fields do not interfere. *)
From WT.Model Require Import Base Varint Tls Config.
From Coq Require Import Lia.

Lemma idle_accept_ok s n : idle_accept s n = if idle_ms s n <? two62 then Some (idle_ms s n) else None.
Proof. reflexivity. Qed.

Theorem cbuild_spec ops : forall c,
  cbuild c ops = if forallb idle_ok ops
                 then Some (mktcfg (last_idle ops (t_idle c)) (last_keep ops (t_keep c)) (last_migr ops (t_migr c)))
                 else None.
Proof.
  induction ops as [|o ops IH]; intros c; cbn [cbuild forallb last_idle last_keep last_migr].
  - destruct c; reflexivity.
  - destruct o as [[[s n]|]|k|b]; cbn [capply idle_ok andb].
    + rewrite idle_accept_ok. destruct (idle_ms s n <? two62); cbn [andb]; [|reflexivity].
      rewrite IH. reflexivity.
    + rewrite IH. reflexivity.
    + rewrite IH. reflexivity.
    + rewrite IH. reflexivity.
Qed.

(* a chain with an unrepresentable idle timeout anywhere yields no configuration at all *)
Theorem cbuild_refuses ops c : cbuild c ops = None <-> forallb idle_ok ops = false.
Proof. rewrite cbuild_spec. destruct (forallb idle_ok ops); split; congruence. Qed.

(* one setter call changes its own field only *)
Theorem capply_frame c o c' : capply c o = Some c' ->
  match o with
  | SetIdle _ => t_keep c' = t_keep c /\ t_migr c' = t_migr c
  | SetKeep k => t_idle c' = t_idle c /\ t_migr c' = t_migr c /\ t_keep c' = k
  | SetMigr b => t_idle c' = t_idle c /\ t_keep c' = t_keep c /\ t_migr c' = b
  end.
Proof.
  destruct o as [[[s n]|]|k|b]; cbn [capply].
  - destruct (idle_accept s n); [|discriminate]. intros [= <-]. auto.
  - intros [= <-]. auto.
  - intros [= <-]. auto.
  - intros [= <-]. auto.
Qed.

(* calls of different setters commute *)
Definition same_setter (a b : cfgop) : bool :=
  match a, b with SetIdle _, SetIdle _ | SetKeep _, SetKeep _ | SetMigr _, SetMigr _ => true | _, _ => false end.
Theorem setters_commute c a b : same_setter a b = false -> cbuild c [a; b] = cbuild c [b; a].
Proof.
  intros H. rewrite !cbuild_spec.
  destruct a as [[[s n]|]|k|x], b as [[[s' n']|]|k'|x']; cbn in H; try discriminate;
    cbn [forallb idle_ok andb last_idle last_keep last_migr];
    repeat match goal with |- context [?a <? ?b] => destruct (a <? b) end; reflexivity.
Qed.

(* keep-alive survives any later idle-timeout call and vice versa (seeded change C20-3) *)
Corollary keep_alive_survives_idle c k d c' :
  cbuild c [SetKeep k; SetIdle d] = Some c' -> t_keep c' = k.
Proof.
  rewrite cbuild_spec. destruct (forallb idle_ok [SetKeep k; SetIdle d]); [|discriminate].
  intros [= <-]. destruct d as [[s n]|]; reflexivity.
Qed.

Example config_example :
  cbuild tdefault [SetKeep (Some 250); SetIdle None; SetMigr false; SetIdle (Some (2, 500000000))]
  = Some (mktcfg (Some 2500) (Some 250) false) /\
  cbuild tdefault [SetKeep (Some 1); SetIdle (Some (4611686018427387, 904000000)); SetKeep None] = None /\
  cbuild tdefault [] = Some (mktcfg (Some 30000) None true).
Proof. vm_compute. repeat split; reflexivity. Qed.
