(* WireP.v -- proofs about Model/Ids.v and Model/Wire.v *)
From WT.Model Require Import Base Varint Ids Frame Wire.
From WT.Proofs Require Import VarintP FrameP.
From Coq Require Import Lia ZArith ZifyBool ZifyNat ZifyN.
Ltac Zify.zify_post_hook ::= Z.to_euclidean_division_equations.

(* ---------- identifier algebra (C17) ---------- *)
Lemma land1_mod x : N.land x 1 = x mod 2.
Proof. change 1 with (N.ones 1). rewrite N.land_ones. reflexivity. Qed.

Lemma land3_mod x : N.land x 3 = x mod 4.
Proof. change 3 with (N.ones 2). rewrite N.land_ones. reflexivity. Qed.

Lemma land2_via3 x : N.land x 2 = N.land (x mod 4) 2.
Proof. rewrite <- land3_mod, <- N.land_assoc. reflexivity. Qed.

Lemma land2_zero x : (N.land x 2 =? 0) = ((x mod 4 =? 0) || (x mod 4 =? 1)).
Proof.
  rewrite land2_via3. assert (H : x mod 4 < 4) by (apply N.mod_lt; lia).
  assert (S : forallb (fun r => Bool.eqb (N.land r 2 =? 0) ((r =? 0) || (r =? 1))) [0; 1; 2; 3] = true)
    by reflexivity.
  rewrite forallb_forall in S.
  assert (Hin : In (x mod 4) [0; 1; 2; 3]) by (cbn; lia).
  specialize (S _ Hin). apply Bool.eqb_prop in S. exact S.
Qed.

Theorem session_ok_spec x : session_ok x = true <-> x mod 4 = 0.
Proof.
  unfold session_ok, is_bidirectional, is_client_initiated.
  rewrite land2_zero, land1_mod. split.
  - intros H. apply andb_prop in H. destruct H as [H1 H2]. lia.
  - intros H. apply andb_true_intro. split; lia.
Qed.

Theorem is_bidirectional_spec x : is_bidirectional x = true <-> (x / 2) mod 2 = 0.
Proof. unfold is_bidirectional. rewrite land2_zero. lia. Qed.

Theorem is_client_initiated_spec x : is_client_initiated x = true <-> x mod 2 = 0.
Proof. unfold is_client_initiated. rewrite land1_mod. lia. Qed.

Theorem is_local_spec x srv : is_local x srv = true <-> x mod 2 = (if srv then 1 else 0).
Proof. unfold is_local. rewrite land1_mod. destruct srv; lia. Qed.

Lemma q_from_session_div s : q_from_session s = s / 4.
Proof. unfold q_from_session. rewrite N.shiftr_div_pow2. reflexivity. Qed.
Lemma q_into_stream_mul q : q_into_stream q = q * 4.
Proof. unfold q_into_stream. rewrite N.shiftl_mul_pow2. reflexivity. Qed.

Theorem q_roundtrip_session s : session_ok s = true -> q_into_stream (q_from_session s) = s.
Proof. intros H. apply session_ok_spec in H. rewrite q_from_session_div, q_into_stream_mul. lia. Qed.

Theorem q_roundtrip_q q : q_from_session (q_into_stream q) = q.
Proof. rewrite q_from_session_div, q_into_stream_mul. lia. Qed.

Theorem q_into_stream_session q : session_ok (q_into_stream q) = true.
Proof. apply session_ok_spec. rewrite q_into_stream_mul. lia. Qed.

Theorem q_into_stream_range q : q <= qstream_max -> q_into_stream q <= varint_max.
Proof. unfold qstream_max, varint_max. rewrite q_into_stream_mul. lia. Qed.

Theorem q_from_session_range s : s <= varint_max -> q_from_session s <= qstream_max.
Proof. unfold qstream_max, varint_max. rewrite q_from_session_div. lia. Qed.

Theorem q_try_from_varint_spec v : q_try_from_varint v = Some v <-> v <= qstream_max.
Proof.
  unfold q_try_from_varint. destruct (v <=? qstream_max) eqn:E.
  - apply N.leb_le in E. tauto.
  - apply N.leb_gt in E. split; [discriminate|lia].
Qed.
Lemma q_try_from_varint_some v q : q_try_from_varint v = Some q -> q = v /\ v <= qstream_max.
Proof. unfold q_try_from_varint. destruct (v <=? qstream_max) eqn:E; [|discriminate]. intros [= <-]. apply N.leb_le in E. auto. Qed.

(* none of the debug_assert / unsafe preconditions can fail on checked values *)
Theorem q_asserts_hold :
  (forall s, s <= varint_max -> q_from_session_assert s = true) /\
  (forall q, q <= qstream_max -> q_into_stream_assert q = true).
Proof.
  split; intros x H.
  - unfold q_from_session_assert. apply N.leb_le. apply q_from_session_range. exact H.
  - unfold q_into_stream_assert. apply N.leb_le. apply q_into_stream_range. exact H.
Qed.

(* ---------- status codes (C18) ---------- *)
Theorem status_try_from_spec v : (exists n, status_try_from v = Some n) <-> 100 <= v <= 599.
Proof.
  unfold status_try_from, status_in_range, status_min, status_max.
  destruct ((100 <=? v) && (v <=? 599)) eqn:E.
  - split; [lia|eauto].
  - split; [intros [n H]; discriminate|lia].
Qed.

Theorem status_try_from_range v n : status_try_from v = Some n -> n = v /\ 100 <= n <= 599.
Proof.
  unfold status_try_from, status_in_range, status_min, status_max.
  destruct ((100 <=? v) && (v <=? 599)) eqn:E; [|discriminate]. intros [= <-]. lia.
Qed.

Theorem status_from_str_range s n : status_from_str s = Some n -> 100 <= n <= 599.
Proof.
  unfold status_from_str. destruct (parse_u16 s) as [v|]; [|discriminate].
  intros H. apply status_try_from_range in H. lia.
Qed.

Theorem status_default_range : 100 <= status_default <= 599.
Proof. unfold status_default. lia. Qed.

(* print then parse is the identity on the whole (finite) range *)
Definition status_range_list : list N := map (fun k => 100 + N.of_nat k) (seq 0 500).
Lemma status_show_parse_sweep :
  forallb (fun n => match status_from_str (show_dec n) with Some m => m =? n | None => false end)
          status_range_list = true.
Proof. vm_compute. reflexivity. Qed.

Theorem status_show_parse n : 100 <= n <= 599 -> status_from_str (show_dec n) = Some n.
Proof.
  intros H. pose proof status_show_parse_sweep as S. rewrite forallb_forall in S.
  assert (Hin : In n status_range_list).
  { unfold status_range_list. apply in_map_iff. exists (N.to_nat (n - 100)). split; [lia|].
    apply in_seq. lia. }
  specialize (S n Hin). destruct (status_from_str (show_dec n)) as [m|]; [|discriminate].
  apply N.eqb_eq in S. congruence.
Qed.

Theorem status_acceptance v : status_is_successful v = true <-> 200 <= v <= 299.
Proof. unfold status_is_successful. lia. Qed.

Theorem status_legacy_refuted :
  (exists s n, status_from_str_legacy s = Some n /\ ~ (100 <= n <= 599)) /\ ~ (100 <= status_default_legacy <= 599).
Proof.
  split.
  - exists [57; 57; 57], 999. split; [reflexivity|lia].
  - unfold status_default_legacy. lia.
Qed.

(* ---------- datagrams (C03) ---------- *)
Theorem dgram_roundtrip q p : q <= qstream_max -> dgram_read (enc q ++ p) = Val (q, p).
Proof.
  intros H. unfold dgram_read.
  assert (Hq : q <= varint_max) by (unfold qstream_max, varint_max in *; lia).
  rewrite (get_enc _ _ Hq). apply q_try_from_varint_spec in H. rewrite H. reflexivity.
Qed.

(* whatever is delivered is exactly the suffix after the header: no merging,
   truncation or framing bytes *)
Theorem dgram_read_suffix bs q p : dgram_read bs = Val (q, p) ->
  exists h, bs = h ++ p /\ h <> [] /\ q <= qstream_max.
Proof.
  unfold dgram_read. destruct (get_varint bs) as [[v r]|] eqn:E; [|discriminate].
  destruct (q_try_from_varint v) as [q'|] eqn:EQ; [|discriminate].
  intros [= <- <-]. destruct (q_try_from_varint_some _ _ EQ) as [-> Hr].
  destruct (get_varint_suffix _ _ _ E) as (h & -> & Hh). exists h. auto.
Qed.

Theorem dgram_write_spec cap q p :
  (dgram_write cap q p = None <-> (cap < dgram_write_size q p)%nat) /\
  (forall w, dgram_write cap q p = Some w -> w = enc q ++ p /\ length w = dgram_write_size q p).
Proof.
  unfold dgram_write, dgram_write_size. destruct (cap <? vsize q + length p)%nat eqn:E.
  - apply Nat.ltb_lt in E. split; [tauto|discriminate].
  - apply Nat.ltb_ge in E. split; [split; [discriminate|lia]|].
    intros w [= <-]. rewrite app_length, enc_length. auto.
Qed.

Theorem drv_dgram_roundtrip sid p : session_ok sid = true -> sid <= varint_max ->
  drv_dgram_read (drv_dgram_write sid p) = Val (sid, vsize (q_from_session sid), p).
Proof.
  intros Hs Hm. unfold drv_dgram_read, drv_dgram_write.
  rewrite dgram_roundtrip by (apply q_from_session_range; exact Hm).
  rewrite (q_roundtrip_session _ Hs), app_length, enc_length.
  f_equal. f_equal. f_equal. lia.
Qed.

(* size contract: within the advertised maximum <=> not refused as too large *)
Theorem max_datagram_size_contract qm sid m L :
  max_datagram_size (Some qm) sid = Some m -> (send_too_large qm sid L = false <-> L <= m).
Proof.
  unfold max_datagram_size, send_too_large.
  destruct (qm <? N.of_nat (vsize (q_from_session sid))) eqn:E; [discriminate|].
  apply N.ltb_ge in E. intros [= <-]. rewrite N.ltb_ge. lia.
Qed.

Theorem max_datagram_size_sane qm sid :
  match max_datagram_size qm sid with
  | None => True
  | Some m => exists q, qm = Some q /\ m + N.of_nat (vsize (q_from_session sid)) = q
  end.
Proof.
  unfold max_datagram_size. destruct qm as [q|]; [|exact I].
  destruct (q <? N.of_nat (vsize (q_from_session sid))) eqn:E; [exact I|].
  apply N.ltb_ge in E. exists q. split; [reflexivity|lia].
Qed.

(* when the header does not fit nothing can be sent: None is the honest answer *)
Theorem max_datagram_size_none qm sid L :
  max_datagram_size (Some qm) sid = None -> send_too_large qm sid L = true.
Proof.
  unfold max_datagram_size, send_too_large.
  destruct (qm <? N.of_nat (vsize (q_from_session sid))) eqn:E; [|discriminate].
  apply N.ltb_lt in E. intros _. apply N.ltb_lt. lia.
Qed.

Theorem max_datagram_size_legacy_refuted :
  exists qm sid, max_datagram_size_legacy true (Some qm) sid = Panic /\
                 exists m, max_datagram_size_legacy false (Some qm) sid = Val (Some m) /\ qm < m.
Proof. exists 0, 0. split; [reflexivity|]. eexists. split; [reflexivity|]. vm_compute. reflexivity. Qed.

(* ---------- capsules (C04) ---------- *)
Theorem close_with_capsule_spec payload c r :
  close_with_capsule payload = Val (c, r) <->
  (4 <= len payload <= 1028 /\ c = unbe (firstn 4 payload) /\ r = skipn 4 payload /\ utf8_valid r = true).
Proof.
  unfold close_with_capsule.
  destruct ((len payload <? 4) || (1028 <? len payload)) eqn:E.
  - split; [discriminate|]. intros (H & _). lia.
  - destruct (utf8_valid (skipn 4 payload)) eqn:U.
    + split.
      * intros [= <- <-]. repeat split; auto; lia.
      * intros (_ & -> & -> & _). reflexivity.
    + split; [discriminate|]. intros (_ & _ & -> & H). congruence.
Qed.

Theorem close_with_capsule_malformed payload :
  (len payload < 4 \/ 1028 < len payload \/ utf8_valid (skipn 4 payload) = false) ->
  close_with_capsule payload = Err EDatagram.
Proof.
  unfold close_with_capsule. intros H.
  destruct ((len payload <? 4) || (1028 <? len payload)) eqn:E; [reflexivity|].
  destruct H as [H|[H|H]]; try lia. rewrite H. reflexivity.
Qed.

Lemma be4_length c : length (be 4 c) = 4%nat.
Proof. apply be_length. Qed.

Theorem close_capsule_roundtrip code reason trailing :
  code < 4294967296 -> len reason <= 1024 -> utf8_valid reason = true ->
  exists p, capsule_with_frame (close_capsule_bytes code reason ++ trailing) = Some p /\
            close_with_capsule p = Val (code, reason).
Proof.
  intros Hc Hl Hu. exists (be 4 code ++ reason). unfold capsule_with_frame, close_capsule_bytes.
  rewrite <- !app_assoc.
  rewrite get_enc by (unfold capsule_close_type, varint_max; lia).
  rewrite N.eqb_refl.
  rewrite get_enc by (unfold varint_max; lia).
  assert (HL : 4 + len reason = len (be 4 code ++ reason)).
  { rewrite len_app. unfold len at 2. rewrite be4_length. lia. }
  rewrite HL, app_assoc, get_bytes_n_app. split; [reflexivity|].
  apply close_with_capsule_spec.
  assert (F : firstn 4 (be 4 code ++ reason) = be 4 code) by (apply firstn_app_exact; apply be4_length).
  assert (K : skipn 4 (be 4 code ++ reason) = reason) by (apply skipn_app_exact; apply be4_length).
  rewrite F, K, unbe_be. change (256 ^ N.of_nat 4) with 4294967296.
  rewrite N.mod_small by exact Hc. repeat split; auto; lia.
Qed.

(* a capsule of any other type is skipped (None), whatever follows *)
Theorem other_capsule_skipped ty rest : ty <= varint_max -> ty <> capsule_close_type ->
  capsule_with_frame (enc ty ++ rest) = None.
Proof.
  intros Ht Hne. unfold capsule_with_frame. rewrite (get_enc _ _ Ht).
  apply N.eqb_neq in Hne. rewrite Hne. reflexivity.
Qed.

(* ---------- settings (C13, C14) ---------- *)
Definition sok (p : N * N) : bool := match setting_parse (fst p) with SOk => true | _ => false end.
Definition pair_ok (p : N * N) : bool :=
  negb (setting_reserved (fst p)) && (fst p <=? varint_max) && (snd p <=? varint_max).

Lemma settings_payload_app a b : settings_payload (a ++ b) = settings_payload a ++ settings_payload b.
Proof. induction a as [|[k v] a IH]; [reflexivity|]. cbn [settings_payload app]. rewrite IH, !app_assoc. reflexivity. Qed.

Lemma enc_nonempty v : enc v <> [].
Proof. intros H. apply (f_equal (@length N)) in H. rewrite enc_length in H. destruct (vsize_pos v) as [k Hk]. rewrite Hk in H. discriminate. Qed.

Lemma smap_mem_app k a b : smap_mem k (a ++ b) = smap_mem k a || smap_mem k b.
Proof. induction a as [|[k' v] a IH]; [reflexivity|]. cbn [smap_mem app]. rewrite IH, Bool.orb_assoc. reflexivity. Qed.

(* keys of the entries that will be stored must not repeat *)
Fixpoint sok_nodup (seen : smap) (l : smap) : bool :=
  match l with
  | [] => true
  | p :: r => if sok p then negb (smap_mem (fst p) seen) && sok_nodup (seen ++ [p]) r
              else sok_nodup seen r
  end.

Theorem settings_parse_all : forall l fuel acc,
  forallb pair_ok l = true -> sok_nodup acc l = true -> (length (settings_payload l) < fuel)%nat ->
  settings_parse fuel (settings_payload l) acc = Val (acc ++ filter sok l).
Proof.
  induction l as [|[k v] l IH]; intros fuel acc Hok Hnd Hf.
  - destruct fuel; [cbn in Hf; lia|]. cbn. rewrite app_nil_r. reflexivity.
  - destruct fuel as [|fuel]; [lia|].
    cbn [forallb] in Hok. apply andb_prop in Hok. destruct Hok as [Hp Hok].
    unfold pair_ok in Hp. cbn [fst snd] in Hp. apply andb_prop in Hp. destruct Hp as [Hp Hv].
    apply andb_prop in Hp. destruct Hp as [Hr Hk]. apply N.leb_le in Hk, Hv.
    apply Bool.negb_true_iff in Hr.
    cbn [settings_payload settings_parse].
    destruct (enc k ++ enc v ++ settings_payload l) eqn:EP.
    { exfalso. destruct (enc k) eqn:EK; [exact (enc_nonempty k EK)|discriminate]. }
    rewrite <- EP. rewrite (get_enc _ _ Hk), (get_enc _ _ Hv).
    cbn [settings_payload length] in Hf. rewrite !app_length in Hf.
    pose proof (enc_length k). destruct (vsize_pos k) as [kk Hkk].
    cbn [sok_nodup] in Hnd. cbn [filter]. unfold sok in *. cbn [fst] in *.
    unfold setting_parse in *. rewrite Hr in *.
    destruct (is_exercise k || setting_known k) eqn:ES.
    + assert (Hs : (if is_exercise k then SOk else if setting_known k then SOk else SUnknown) = SOk)
        by (destruct (is_exercise k); [reflexivity|]; destruct (setting_known k); [reflexivity|discriminate]).
      rewrite Hs in *. apply andb_prop in Hnd. destruct Hnd as [Hm Hnd].
      apply Bool.negb_true_iff in Hm. rewrite Hm.
      rewrite IH; [rewrite <- app_assoc; reflexivity|exact Hok|exact Hnd|lia].
    + assert (Hs : (if is_exercise k then SOk else if setting_known k then SOk else SUnknown) = SUnknown)
        by (destruct (is_exercise k); [discriminate|]; destruct (setting_known k); [discriminate|reflexivity]).
      rewrite Hs in *. apply IH; [exact Hok|exact Hnd|lia].
Qed.

Theorem settings_roundtrip l :
  forallb pair_ok l = true -> sok_nodup [] l = true ->
  settings_with_frame (settings_payload l) = Val (filter sok l).
Proof. intros H1 H2. unfold settings_with_frame. apply (settings_parse_all l _ [] H1 H2). lia. Qed.

(* known settings are untouched by unknown / GREASE entries anywhere in the frame *)
Definition is_known_setting (p : N * N) : bool := setting_known (fst p) && negb (setting_reserved (fst p)) && negb (is_exercise (fst p)).

Lemma filter_known_sok l : filter is_known_setting (filter sok l) = filter is_known_setting l.
Proof.
  induction l as [|p l IH]; [reflexivity|]. cbn [filter].
  destruct (sok p) eqn:E; cbn [filter]; rewrite IH; [reflexivity|].
  unfold is_known_setting, sok, setting_parse in *.
  destruct (setting_reserved (fst p)); [rewrite Bool.andb_false_r; reflexivity|].
  destruct (is_exercise (fst p)); [discriminate|].
  destruct (setting_known (fst p)); [discriminate|reflexivity].
Qed.

Theorem settings_unknown_transparent l m :
  forallb pair_ok l = true -> sok_nodup [] l = true ->
  settings_with_frame (settings_payload l) = Val m ->
  filter is_known_setting m = filter is_known_setting l.
Proof.
  intros H1 H2 H3. rewrite (settings_roundtrip l H1 H2) in H3. injection H3 as <-.
  apply filter_known_sok.
Qed.

(* totality: with_frame never runs out of fuel *)
Lemma settings_parse_total fuel : forall bs acc, (length bs < fuel)%nat ->
  settings_parse fuel bs acc <> OutOfFuel /\ settings_parse fuel bs acc <> Panic /\ settings_parse fuel bs acc <> NeedMore.
Proof.
  induction fuel as [|fuel IH]; intros bs acc Hf; [lia|].
  cbn [settings_parse]. destruct bs as [|b bs']; [repeat split; discriminate|].
  destruct (get_varint (b :: bs')) as [[id r1]|] eqn:E1; [|repeat split; discriminate].
  destruct (get_varint r1) as [[v r2]|] eqn:E2; [|repeat split; discriminate].
  destruct (get_varint_suffix _ _ _ E1) as (p1 & Hp1 & Hn1).
  destruct (get_varint_suffix _ _ _ E2) as (p2 & Hp2 & Hn2).
  assert (L : (length r2 < fuel)%nat).
  { apply (f_equal (@length N)) in Hp1, Hp2. rewrite app_length in Hp1, Hp2.
    destruct p1; [congruence|]. cbn [length] in *. lia. }
  destruct (setting_parse id).
  - repeat split; discriminate.
  - apply IH. exact L.
  - destruct (smap_mem id acc); [repeat split; discriminate|]. apply IH. exact L.
Qed.

Theorem settings_with_frame_total payload :
  settings_with_frame payload <> OutOfFuel /\ settings_with_frame payload <> Panic /\ settings_with_frame payload <> NeedMore.
Proof. unfold settings_with_frame. apply settings_parse_total. lia. Qed.
