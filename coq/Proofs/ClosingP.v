(* ClosingP.v -- C09: every pending or later accept call observes the end of the connection, whatever
   the other kind of stream is doing (backlog, parked tasks). *)
From WT.Model Require Import Base Closing.
From Coq Require Import Lia.

(* an accept call reports the end exactly when its own channel is empty, the worker has ended and no task
   of ITS kind is left *)
Theorem accept_err_iff k s :
  snd (accept k s) = AErr <->
  kchan (kof k s) = [] /\ worker_alive s = false /\ kparked (kof k s) = [] /\ kreading (kof k s) = [].
Proof.
  unfold accept, senders_alive. destruct (kchan (kof k s)) as [|id c]; cbn [snd].
  - destruct (worker_alive s); cbn [orb].
    + split; [discriminate|]. intros (_ & H & _). discriminate.
    + destruct (kparked (kof k s)), (kreading (kof k s)); cbn [negb]; split; intros H; try discriminate;
        try (destruct H as (_ & _ & H1 & H2); discriminate); auto.
  - split; [discriminate|]. intros (H & _). discriminate.
Qed.

(* the outcome of a call of one kind does not depend on the state of the other kind at all *)
Theorem accept_independent_of_other_kind s s' :
  (cuni s = cuni s' -> worker_alive s = worker_alive s' -> snd (accept KUni s) = snd (accept KUni s')) /\
  (cbi s = cbi s' -> worker_alive s = worker_alive s' -> snd (accept KBi s) = snd (accept KBi s')).
Proof.
  split; intros H1 H2; unfold accept, senders_alive, kof; rewrite H1, H2;
    match goal with |- context [kchan ?x] => destruct (kchan x) end; reflexivity.
Qed.

Lemma kof_with_k k s x : kof k (with_k k s x) = x.
Proof. destruct k; reflexivity. Qed.
Lemma worker_with_k k s x : worker_alive (with_k k s x) = worker_alive s.
Proof. destruct k; reflexivity. Qed.

(* one call of a draining application, worker gone, no task reading: the conceptual queue is
   channel ++ parked; the call returns its head (or the end when it is empty) and leaves its tail *)
Definition queue (k : kind) (s : cst) : list N := kchan (kof k s) ++ kparked (kof k s).
Definition quiet (cap : nat) (k : kind) (s : cst) : Prop :=
  worker_alive s = false /\ kreading (kof k s) = [] /\ (length (kchan (kof k s)) <= cap)%nat.

Lemma accept_head k s id c :
  kchan (kof k s) = id :: c ->
  accept k s = (with_k k s (mkkst c (kparked (kof k s)) (kreading (kof k s))), AItem id).
Proof. intros H. unfold accept. rewrite H. reflexivity. Qed.

Lemma drain_one cap k s : (1 <= cap)%nat -> quiet cap k s ->
  match queue k s with
  | [] => snd (accept k (task_send cap k s)) = AErr
  | h :: t => snd (accept k (task_send cap k s)) = AItem h /\
              quiet cap k (fst (accept k (task_send cap k s))) /\
              queue k (fst (accept k (task_send cap k s))) = t
  end.
Proof.
  intros Hcap (Hw & Hr & Hl). unfold queue, task_send.
  destruct (kparked (kof k s)) as [|x p] eqn:Hp.
  - (* nothing parked *)
    rewrite app_nil_r. destruct (kchan (kof k s)) as [|y c] eqn:Hc.
    + apply accept_err_iff. auto.
    + rewrite (accept_head k s y c Hc). cbn [fst snd]. unfold quiet. rewrite kof_with_k, worker_with_k.
      cbn [kchan kparked kreading]. rewrite Hp, Hr, app_nil_r. cbn [length] in Hl. repeat split; auto; lia.
  - destruct (length (kchan (kof k s)) <? cap)%nat eqn:E.
    + (* room: the first parked task moves in *)
      apply Nat.ltb_lt in E.
      set (s1 := with_k k s (mkkst (kchan (kof k s) ++ [x]) p (kreading (kof k s)))).
      destruct (kchan (kof k s)) as [|y c] eqn:Hc; cbn [app].
      * assert (H1 : kchan (kof k s1) = x :: []) by (unfold s1; rewrite kof_with_k; reflexivity).
        rewrite (accept_head k s1 x [] H1). cbn [fst snd]. unfold quiet.
        rewrite kof_with_k, worker_with_k. unfold s1. rewrite kof_with_k, worker_with_k.
        cbn [kchan kparked kreading app length]. repeat split; auto; lia.
      * assert (H1 : kchan (kof k s1) = y :: (c ++ [x])) by (unfold s1; rewrite kof_with_k; reflexivity).
        rewrite (accept_head k s1 y (c ++ [x]) H1). cbn [fst snd]. unfold quiet.
        rewrite kof_with_k, worker_with_k. unfold s1. rewrite kof_with_k, worker_with_k.
        cbn [kchan kparked kreading]. rewrite <- app_assoc. cbn [app]. rewrite app_length. cbn [length] in *.
        repeat split; auto; lia.
    + (* full channel (not empty since cap >= 1): its head is taken, the task stays parked *)
      apply Nat.ltb_ge in E. destruct (kchan (kof k s)) as [|y c] eqn:Hc; [cbn [length] in E; lia|].
      cbn [app]. rewrite (accept_head k s y c Hc). cbn [fst snd]. unfold quiet.
      rewrite kof_with_k, worker_with_k. cbn [kchan kparked kreading]. rewrite Hp, Hr.
      cbn [length] in Hl. repeat split; auto; lia.
Qed.

(* after the worker has ended, an application that keeps calling accept is handed the whole backlog of that
   kind (channel, then parked tasks), in order, and then the end -- for every capacity >= 1 and backlog *)
Theorem drain_reaches_the_end cap k : (1 <= cap)%nat -> forall q s,
  quiet cap k s -> queue k s = q ->
  drain_calls cap k (S (length q)) s = map AItem q ++ [AErr].
Proof.
  intros Hcap. induction q as [|h t IH]; intros s Hq Hs.
  - cbn [length drain_calls map app]. pose proof (drain_one cap k s Hcap Hq) as D. rewrite Hs in D.
    destruct (accept k (task_send cap k s)) as [s1 x]. cbn [snd] in D. rewrite D. reflexivity.
  - cbn [length]. change (drain_calls cap k (S (S (length t))) s)
      with (let (s1, x) := accept k (task_send cap k s) in x :: drain_calls cap k (S (length t)) s1).
    pose proof (drain_one cap k s Hcap Hq) as D. rewrite Hs in D.
    destruct (accept k (task_send cap k s)) as [s1 x]. cbn [fst snd] in D. destruct D as (-> & Hq1 & Hs1).
    cbn [map app]. f_equal. apply IH; assumption.
Qed.

(* the worker's end closes the transport: afterwards only delivered-or-parked streams hold senders *)
Theorem worker_exit_state s :
  worker_alive (worker_exit s) = false /\ kreading (cuni (worker_exit s)) = [] /\ kreading (cbi (worker_exit s)) = [].
Proof. repeat split. Qed.

(* the other kind never matters: with nothing of its own kind outstanding, a call reports the end at once,
   however large the other kind's backlog is *)
Theorem end_reported_despite_other_backlog s :
  kchan (cbi (worker_exit s)) = [] -> kparked (cbi (worker_exit s)) = [] -> snd (accept KBi (worker_exit s)) = AErr.
Proof.
  intros H1 H2. apply accept_err_iff. cbn [kof]. repeat split; auto.
Qed.

(* the mutant design (tasks hold both kinds' senders): one parked unidirectional task and a call of the
   other kind hangs although the worker has ended -- and no step of the bidirectional side can change that *)
Theorem shared_senders_refuted :
  let s := mkcst (mkkst [1; 2; 3; 4] [5] []) (mkkst [] [] []) false in
  snd (accept KBi s) = AErr /\ snd (accept_shared KBi s) = APending /\
  snd (accept_shared KBi (task_send 1 KBi s)) = APending.
Proof. cbn. repeat split; reflexivity. Qed.

(* in particular right after the worker's end, whatever the backlog *)
Corollary drain_after_worker_exit cap k s : (1 <= cap)%nat -> (length (kchan (kof k s)) <= cap)%nat ->
  drain_calls cap k (S (length (queue k (worker_exit s)))) (worker_exit s)
  = map AItem (queue k (worker_exit s)) ++ [AErr].
Proof.
  intros Hcap Hl. apply drain_reaches_the_end; auto. unfold quiet. destruct k; cbn; auto.
Qed.

Example drain_example :
  drain_calls 4 KUni 7 (mkcst (mkkst [1; 2; 3; 4] [5; 6] []) (mkkst [] [] []) false)
  = [AItem 1; AItem 2; AItem 3; AItem 4; AItem 5; AItem 6; AErr].
Proof. vm_compute. reflexivity. Qed.

(* ---------- Closing and Handoff are two views of one system ---------- *)
(* per kind, the state of Closing.v is the projection (channel, tasks waiting for a slot, tasks reading
   their preamble) of the hand-off state of Handoff.v; its two moves are Handoff's TaskSend and AppRecv *)
From WT.Model Require Import Handoff.

Definition kst_of (s : hst) : kst := mkkst (chan s) (ready s) (waiting s).

Theorem task_send_is_handoff_step cap k c s id p :
  kof k c = kst_of s -> ready s = id :: p ->
  match step cap s (TaskSend id) with
  | Some s' => kof k (task_send cap k c) = kst_of s'
  | None => task_send cap k c = c
  end.
Proof.
  intros H R. unfold task_send. rewrite H. cbn [kst_of kparked kchan kreading]. rewrite R.
  cbn [step]. rewrite R. cbn [mem]. rewrite N.eqb_refl. cbn [orb andb].
  destruct (length (chan s) <? cap)%nat.
  - rewrite kof_with_k. unfold kst_of. cbn [chan ready waiting remove1]. rewrite N.eqb_refl. reflexivity.
  - reflexivity.
Qed.

Theorem accept_is_handoff_step cap k c s id r :
  kof k c = kst_of s -> chan s = id :: r ->
  snd (accept k c) = AItem id /\
  exists s', step cap s AppRecv = Some s' /\ kof k (fst (accept k c)) = kst_of s'.
Proof.
  intros H C. unfold accept. rewrite H. cbn [kst_of kchan kparked kreading]. rewrite C. cbn [fst snd].
  split; [reflexivity|]. cbn [step]. rewrite C. eexists. split; [reflexivity|].
  rewrite kof_with_k. reflexivity.
Qed.
