(* SpecP.v -- the model's tables refine the specification tables of Spec/Spec9114.v *)
From WT.Model Require Import Base Varint Ids Frame Async StreamTS Wire.
From WT.Spec Require Import Spec9114.
From Coq Require Import Lia.

Definition kind_of (k : fkind) : kind :=
  match k with KData => DATA | KHeaders => HEADERS | KSettings => SETTINGS | KWebTransport => WT_STREAM | KExercise _ => GREASE end.
Definition where_of (ts : tstate) : where_ :=
  match ts with TUniRemote => OnControl | TBiRemote => OnRequestFromPeer | TBiLocal | TSession => OnRequestLocal end.

(* every verdict of validate_frame is one the specifications prescribe *)
Theorem validate_refines_spec ts fd f :
  match snd (validate ts fd f), frame_rule (where_of ts) (kind_of (fk f)) (negb fd) with
  | None, None => True
  | Some e, Some codes => In (to_code e) codes
  | _, _ => False
  end.
Proof.
  destruct ts, fd, f as [[| | | |id] p s]; cbn; auto.
Qed.

(* wire constants *)
Theorem registry_matches :
  to_code EDatagram = H3_DATAGRAM_ERROR /\ to_code ENoError = H3_NO_ERROR /\
  to_code EStreamCreation = H3_STREAM_CREATION_ERROR /\ to_code EClosedCriticalStream = H3_CLOSED_CRITICAL_STREAM /\
  to_code EFrameUnexpected = H3_FRAME_UNEXPECTED /\ to_code EFrame = H3_FRAME_ERROR /\
  to_code EExcessiveLoad = H3_EXCESSIVE_LOAD /\ to_code EId = H3_ID_ERROR /\
  to_code ESettings = H3_SETTINGS_ERROR /\ to_code EMissingSettings = H3_MISSING_SETTINGS /\
  to_code ERequestRejected = H3_REQUEST_REJECTED /\ to_code EMessage = H3_MESSAGE_ERROR /\
  to_code EDecompression = QPACK_DECOMPRESSION_FAILED /\
  to_code EBufferedStreamRejected = WEBTRANSPORT_BUFFERED_STREAM_REJECTED /\
  to_code ESessionGone = WEBTRANSPORT_SESSION_GONE.
Proof. repeat split; reflexivity. Qed.

Theorem type_ids_match :
  fkind_id KData = FRAME_DATA /\ fkind_id KHeaders = FRAME_HEADERS /\ fkind_id KSettings = FRAME_SETTINGS /\
  fkind_id KWebTransport = FRAME_WEBTRANSPORT_STREAM /\
  skind_id SControl = STREAM_CONTROL /\ skind_id SQPackEncoder = STREAM_QPACK_ENCODER /\
  skind_id SQPackDecoder = STREAM_QPACK_DECODER /\ skind_id SWebTransport = STREAM_WEBTRANSPORT /\
  capsule_close_type = CAPSULE_CLOSE_WEBTRANSPORT_SESSION /\
  (forall id, is_exercise id = is_grease id) /\ (forall id, setting_reserved id = h2_reserved_setting id).
Proof. repeat split; reflexivity. Qed.

(* parse-level errors map to the prescribed codes *)
Theorem parse_errors_match :
  In (to_code EExcessiveLoad) oversize_frame /\ In (to_code EId) invalid_session_id /\
  In (to_code EFrame) frame_truncated_by_fin /\ In (to_code EClosedCriticalStream) critical_stream_closed /\
  In (to_code EStreamCreation) duplicate_critical_stream /\
  In (to_code EMissingSettings) control_first_not_settings /\ In (to_code EFrameUnexpected) control_first_not_settings /\
  In (to_code EFrameUnexpected) control_second_settings.
Proof. cbn. repeat split; auto 10. Qed.

(* the endpoint's own settings are the ones WebTransport over HTTP/3 requires *)
Theorem local_settings_spec :
  forall k v, In (k, v) local_settings <->
    (k, v) = (SETTINGS_QPACK_MAX_TABLE_CAPACITY, 0) \/ (k, v) = (SETTINGS_QPACK_BLOCKED_STREAMS, 0) \/
    (k, v) = (SETTINGS_ENABLE_CONNECT_PROTOCOL, 1) \/ (k, v) = (SETTINGS_ENABLE_WEBTRANSPORT, 1) \/
    (k, v) = (SETTINGS_H3_DATAGRAM, 1) \/ (k, v) = (SETTINGS_WEBTRANSPORT_MAX_SESSIONS, 1).
Proof.
  intros k v. unfold local_settings. cbn [In]. split.
  - intros H. repeat (destruct H as [H|H]; [injection H as <- <-; cbn; auto 10|]). destruct H.
  - intros H. repeat (destruct H as [H|H]; [injection H as -> ->; cbn; auto 10|]). injection H as -> ->. cbn. auto 10.
Qed.
