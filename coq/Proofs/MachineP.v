(* MachineP.v -- the GetBuffer / GetVarint poll machines keep their progress
   across Pending and, driven to completion, compute a_get_buffer / a_get_varint
   for EVERY schedule of chunk sizes and Pending results. *)
From WT.Model Require Import Base Varint Ids Frame Async.
From WT.Proofs Require Import VarintP FrameP AsyncP.
From Coq Require Import Lia ZArith ZifyBool ZifyNat ZifyN.

Definition gb_spec (n : nat) (got data : bytes) (t : term) : (ioerr + bytes) * bytes :=
  if (n <=? length got)%nat then (inr got, data)
  else let need := (n - length got)%nat in
       if (need <=? length data)%nat then (inr (got ++ firstn need data), skipn need data)
       else (inl (eof_err t (is_nil (got ++ data))), []).

(* taking k more bytes from the data into got does not change the final outcome *)
Lemma gb_spec_advance n got data t k :
  (length got < n)%nat -> (k <= n - length got)%nat -> (k <= length data)%nat ->
  gb_spec n (got ++ firstn k data) (skipn k data) t = gb_spec n got data t.
Proof.
  intros Hg Hk Hd. unfold gb_spec.
  rewrite app_length, firstn_length, skipn_length.
  replace (Nat.min k (length data)) with k by lia.
  assert (E1 : (n <=? length got)%nat = false) by (apply Nat.leb_gt; lia). rewrite E1.
  destruct (n <=? length got + k)%nat eqn:E2.
  - apply Nat.leb_le in E2. assert (k = n - length got)%nat by lia. subst k.
    assert (E3 : (n - length got <=? length data)%nat = true) by (apply Nat.leb_le; lia).
    rewrite E3. reflexivity.
  - apply Nat.leb_gt in E2.
    destruct (n - (length got + k) <=? length data - k)%nat eqn:E3.
    + apply Nat.leb_le in E3.
      assert (E4 : (n - length got <=? length data)%nat = true) by (apply Nat.leb_le; lia).
      rewrite E4. f_equal.
      * f_equal. rewrite <- app_assoc. f_equal.
        replace (n - length got)%nat with (k + (n - (length got + k)))%nat by lia.
        rewrite <- (firstn_skipn k data) at 3.
        rewrite firstn_app, firstn_length.
        replace (Nat.min k (length data)) with k by lia.
        replace (k + (n - (length got + k)) - k)%nat with (n - (length got + k))%nat by lia.
        rewrite firstn_firstn. replace (Nat.min (k + (n - (length got + k))) k) with k by lia.
        reflexivity.
      * rewrite skipn_skipn'. f_equal. lia.
    + apply Nat.leb_gt in E3.
      assert (E4 : (n - length got <=? length data)%nat = false) by (apply Nat.leb_gt; lia).
      rewrite E4. rewrite <- app_assoc, firstn_skipn. reflexivity.
Qed.

Lemma deliver_spec c want s sch :
  (1 <= want)%nat ->
  match deliver c want s sch with
  | (PrPending, _) => False
  | (PrData d, s') => exists k, (1 <= k <= want)%nat /\ (k <= length (sdata s))%nat /\
                      d = firstn k (sdata s) /\ sdata s' = skipn k (sdata s) /\
                      ssched s' = sch /\ sterm s' = sterm s
  | (PrEof, s') => sdata s = [] /\ sterm s = Fin /\ sdata s' = [] /\ ssched s' = sch /\ sterm s' = sterm s
  | (PrErr e, s') => sdata s = [] /\ e = eof_err (sterm s) true /\ sterm s <> Fin /\
                     sdata s' = [] /\ ssched s' = sch /\ sterm s' = sterm s
  end.
Proof.
  intros Hw. unfold deliver. destruct (sdata s) as [|b d] eqn:E.
  - destruct (sterm s) eqn:T; cbn; repeat split; auto; discriminate.
  - set (k := Nat.min (Nat.max c 1) (Nat.min want (length (b :: d)))).
    exists k. cbn [length] in *. repeat split; auto; cbn [length]; lia.
Qed.

Definition gb_post (n : nat) (got : bytes) (s : src) (x : poll (ioerr + bytes) * bytes * src) : Prop :=
  match x with
  | (Ready r, _, s') => (r, sdata s') = gb_spec n got (sdata s) (sterm s) /\ sterm s' = sterm s
  | (Pending, got', s') =>
      gb_spec n got' (sdata s') (sterm s') = gb_spec n got (sdata s) (sterm s) /\
      (length (ssched s') < length (ssched s))%nat /\ sterm s' = sterm s /\
      (length (sdata s') <= length (sdata s))%nat /\ (exists d, got' = got ++ d)
  end.

(* what happens after one ready poll_read, given the induction hypothesis for the rest of the loop *)
Lemma gb_after_deliver F n got s c sch :
  (forall got' s', (n - length got' < F)%nat -> gb_post n got' s' (gb_poll F n got' s')) ->
  (n - length got < S F)%nat -> (length got < n)%nat -> (length sch <= length (ssched s))%nat ->
  gb_post n got s
    (let (p, s') := deliver c (n - length got) s sch in
     match p with
     | PrPending => (Pending, got, s')
     | PrData d => gb_poll F n (got ++ d) s'
     | PrEof => (Ready (inl match got with [] => ImmediateFin | _ => UnexpectedFin end), got, s')
     | PrErr e => (Ready (inl e), got, s')
     end).
Proof.
  intros IH HF Hg Hsch.
  pose proof (deliver_spec c (n - length got) s sch ltac:(lia)) as D.
  destruct (deliver c (n - length got) s sch) as [[|d| |e] s1].
  - destruct D.
  - destruct D as (k & Hk & Hkd & -> & Hd1 & Hs1 & Ht1).
    assert (L1 : (n - length (got ++ firstn k (sdata s)) < F)%nat)
      by (rewrite app_length, firstn_length; lia).
    specialize (IH (got ++ firstn k (sdata s)) s1 L1).
    unfold gb_post in *.
    destruct (gb_poll F n (got ++ firstn k (sdata s)) s1) as [[[|r] got2] s2].
    + destruct IH as (I1 & I2 & I3 & I4 & (d5 & I5)). rewrite Hd1, Ht1 in I1.
      rewrite gb_spec_advance in I1 by lia.
      rewrite I1, I3, Ht1. repeat split; auto.
      * rewrite Hs1 in I2. lia.
      * rewrite Hd1, skipn_length in I4. lia.
      * exists (firstn k (sdata s) ++ d5). rewrite I5, app_assoc. reflexivity.
    + destruct IH as (I1 & I2). rewrite Hd1, Ht1 in I1.
      rewrite gb_spec_advance in I1 by lia. rewrite I1, I2, Ht1. auto.
  - destruct D as (Hd & Ht & Hd1 & Hs1 & Ht1). unfold gb_post, gb_spec.
    assert (E1 : (n <=? length got)%nat = false) by (apply Nat.leb_gt; lia). rewrite E1, Hd.
    assert (E2 : (n - length got <=? length (@nil N))%nat = false) by (apply Nat.leb_gt; cbn; lia).
    rewrite E2, Ht, app_nil_r, Hd1, Ht1. split; [|auto].
    destruct got; reflexivity.
  - destruct D as (Hd & -> & Hne & Hd1 & Hs1 & Ht1). unfold gb_post, gb_spec.
    assert (E1 : (n <=? length got)%nat = false) by (apply Nat.leb_gt; lia). rewrite E1, Hd.
    assert (E2 : (n - length got <=? length (@nil N))%nat = false) by (apply Nat.leb_gt; cbn; lia).
    rewrite E2, Hd1, Ht1. split; [|auto].
    destruct (sterm s); [congruence| |]; reflexivity.
Qed.

Lemma gb_poll_step F : forall n got s, (n - length got < F)%nat -> gb_post n got s (gb_poll F n got s).
Proof.
  induction F as [|F IH]; intros n got s HF; [lia|].
  cbn [gb_poll]. destruct (length got <? n)%nat eqn:E.
  2:{ apply Nat.ltb_ge in E. unfold gb_post, gb_spec.
      assert (E1 : (n <=? length got)%nat = true) by (apply Nat.leb_le; lia). rewrite E1. auto. }
  apply Nat.ltb_lt in E. unfold poll_read.
  destruct (ssched s) as [|[c|] sch] eqn:ES.
  - pose proof (gb_after_deliver F n got s (n - length got)%nat [] (IH n) HF E) as G.
    rewrite ES in G. apply G. cbn. lia.
  - pose proof (gb_after_deliver F n got s c sch (IH n) HF E) as G.
    rewrite ES in G. apply G. cbn. lia.
  - unfold gb_post. cbn [sdata ssched sterm]. rewrite ES. cbn [length]. repeat split; auto.
    exists []. rewrite app_nil_r. reflexivity.
Qed.

(* driving the machine to completion, for every schedule *)
Theorem gb_drive fuel : forall F n got s,
  (length (ssched s) < fuel)%nat -> (n < F)%nat ->
  exists s', drive fuel (gb_poll F n) got s = Some (fst (gb_spec n got (sdata s) (sterm s)), s') /\
             sdata s' = snd (gb_spec n got (sdata s) (sterm s)) /\ sterm s' = sterm s.
Proof.
  induction fuel as [|fuel IH]; intros F n got s Hf HF; [lia|].
  cbn [drive]. pose proof (gb_poll_step F n got s ltac:(lia)) as P. unfold gb_post in P.
  destruct (gb_poll F n got s) as [[[|r] got1] s1].
  - destruct P as (P1 & P2 & P3 & P4 & _).
    destruct (IH F n got1 s1 ltac:(lia) ltac:(lia)) as (s2 & D1 & D2 & D3).
    exists s2. rewrite D1, D2, D3, P1, P3. auto.
  - destruct P as (P1 & P2). exists s1. rewrite <- P1. cbn [fst snd]. auto.
Qed.

(* GetBuffer started fresh computes a_get_buffer, whatever the schedule *)
Theorem get_buffer_machine_refines E n data sch t :
  exists s', drive (S (length sch)) (gb_poll (S n) n) [] (mksrc data sch t) =
             Some (match @a_get_buffer E n data t with
                   | AOk p _ => inr p
                   | AIo e _ => inl e
                   | AParse _ _ => inl IoLost
                   end, s') /\
             sdata s' = match @a_get_buffer E n data t with AOk _ r => r | AIo _ r => r | AParse _ r => r end.
Proof.
  destruct (gb_drive (S (length sch)) (S n) n [] (mksrc data sch t)) as (s' & D1 & D2 & _);
    cbn [ssched sdata]; try lia.
  exists s'. rewrite D1, D2. cbn [sdata sterm]. unfold gb_spec, a_get_buffer. cbn [length app].
  destruct n as [|n]; [cbn; auto|].
  cbn [Nat.leb]. rewrite Nat.sub_0_r.
  destruct (S n <=? length data)%nat eqn:E1.
  - apply Nat.leb_le in E1. assert (E2 : (length data <? S n)%nat = false) by (apply Nat.ltb_ge; lia).
    rewrite E2. cbn. auto.
  - apply Nat.leb_gt in E1. assert (E2 : (length data <? S n)%nat = true) by (apply Nat.ltb_lt; lia).
    rewrite E2. cbn. auto.
Qed.

(* ---------- GetVarint ---------- *)
Definition gv_map (x : poll (ioerr + bytes) * bytes * src) (n : nat) : poll (ioerr + N) * gv * src :=
  let '(p, got', s') := x in
  (match p with
   | Pending => Pending
   | Ready (inl e) => Ready (inl e)
   | Ready (inr g) => Ready (inr (varint_of g))
   end, mkgv got' n, s').

(* once the first byte is in, the rest of GetVarint is GetBuffer on the same fields *)
Lemma gv_rest_as_gb F : forall n got s, got <> [] ->
  gv_rest F (mkgv got n) s = gv_map (gb_poll F n got s) n.
Proof.
  induction F as [|F IH]; intros n got s Hg; [reflexivity|].
  cbn [gv_rest gb_poll gv_got gv_size].
  destruct (length got <? n)%nat; [|reflexivity].
  destruct (poll_read (n - length got) s) as [[|d| |e] s1]; try reflexivity.
  - apply IH. destruct got; [congruence|discriminate].
  - destruct got; [congruence|reflexivity].
Qed.

Definition gv_final (data : bytes) (t : term) : (ioerr + N) * bytes :=
  match @a_get_varint unit data t with
  | AOk v r => (inr v, r)
  | AIo e r => (inl e, r)
  | AParse _ r => (inl IoLost, r)
  end.

(* the outcome promised from a mid-way state *)
Definition gv_spec (st : gv) (data : bytes) (t : term) : (ioerr + N) * bytes :=
  match gv_got st with
  | [] => gv_final data t
  | _ => match gb_spec (gv_size st) (gv_got st) data t with
         | (inr g, r) => (inr (varint_of g), r)
         | (inl _, r) => (inl (eof_err t false), r)
         end
  end.

Lemma gv_first_byte b d t :
  gv_spec (mkgv [b] (parse_size b)) d t = gv_final (b :: d) t.
Proof.
  unfold gv_spec, gv_final, gb_spec, a_get_varint. cbn [gv_got gv_size length].
  pose proof (parse_size_cases b) as Hc.
  assert (Hn : exists k, parse_size b = S k).
  { cbn in Hc. destruct Hc as [H|[H|[H|[H|[]]]]]; rewrite <- H; eauto. }
  destruct Hn as [k Hk]. rewrite Hk.
  destruct k as [|k].
  - cbn. reflexivity.
  - assert (E1 : (S (S k) <=? 1)%nat = false) by reflexivity. rewrite E1.
    replace (S (S k) - 1)%nat with (S k) by lia.
    destruct (S k <=? length d)%nat eqn:E2.
    + apply Nat.leb_le in E2.
      assert (E3 : (S (length d) <? S (S k))%nat = false) by (apply Nat.ltb_ge; lia).
      rewrite E3. reflexivity.
    + apply Nat.leb_gt in E2.
      assert (E3 : (S (length d) <? S (S k))%nat = true) by (apply Nat.ltb_lt; lia).
      rewrite E3. reflexivity.
Qed.

Definition gv_inv (st : gv) : Prop :=
  match gv_got st with
  | [] => True
  | b :: _ => gv_size st = parse_size b
  end.

Definition gv_post (st : gv) (s : src) (x : poll (ioerr + N) * gv * src) : Prop :=
  match x with
  | (Ready r, _, s') => (r, sdata s') = gv_spec st (sdata s) (sterm s) /\ sterm s' = sterm s
  | (Pending, st', s') =>
      gv_spec st' (sdata s') (sterm s') = gv_spec st (sdata s) (sterm s) /\ gv_inv st' /\
      (length (ssched s') < length (ssched s))%nat /\ sterm s' = sterm s
  end.

Lemma gv_rest_post F n got s : got <> [] -> (n - length got < F)%nat ->
  n = parse_size (hd 0 got) ->
  gv_post (mkgv got n) s (gv_rest F (mkgv got n) s).
Proof.
  intros Hg HF Hn. rewrite gv_rest_as_gb by exact Hg.
  pose proof (gb_poll_step F n got s HF) as P. unfold gb_post in P.
  unfold gv_map, gv_post, gv_spec. cbn [gv_got gv_size].
  destruct got as [|b0 got0]; [congruence|]. cbn [hd] in Hn.
  destruct (gb_poll F n (b0 :: got0) s) as [[[|r] got1] s1].
  - destruct P as (P1 & P2 & P3 & P4 & (d5 & P5)). subst got1. cbn [app].
    cbn [app] in P1. cbn [gv_got gv_size]. rewrite P1, P3. unfold gv_inv. cbn [gv_got gv_size]. auto.
  - destruct P as (P1 & P2). rewrite <- P1.
    destruct r as [e|g]; (split; [|exact P2]); [|reflexivity].
    unfold gb_spec in P1.
    destruct (n <=? length (b0 :: got0))%nat; [discriminate|].
    destruct (n - length (b0 :: got0) <=? length (sdata s))%nat; [discriminate|].
    injection P1 as -> _. reflexivity.
Qed.

Lemma gv_poll_post st s : gv_inv st -> gv_post st s (gv_poll st s).
Proof.
  intros Hinv. unfold gv_poll. destruct (gv_got st) as [|b0 got0] eqn:EG.
  - (* nothing read yet: state is as good as the initial one *)
    unfold poll_read.
    assert (Hspec0 : forall d t, gv_spec st d t = gv_final d t) by (intros; unfold gv_spec; rewrite EG; reflexivity).
    assert (AFTER : forall c sch, (length sch <= length (ssched s))%nat ->
      gv_post st s
        (let (p, s') := deliver c 1 s sch in
         match p with
         | PrPending => (Pending, st, s')
         | PrData d => gv_rest 9 (mkgv d (parse_size (hd 0 d))) s'
         | PrEof => (Ready (inl ImmediateFin), st, s')
         | PrErr e => (Ready (inl e), st, s')
         end)).
    { intros c sch Hsch. pose proof (deliver_spec c 1 s sch ltac:(lia)) as D.
      destruct (deliver c 1 s sch) as [[|d| |e] s1].
      - destruct D.
      - destruct D as (k & Hk & Hkd & -> & Hd1 & Hs1 & Ht1).
        assert (k = 1)%nat by lia. subst k.
        destruct (sdata s) as [|b d0] eqn:ED; [cbn in Hkd; lia|]. cbn [firstn skipn hd] in *.
        pose proof (gv_rest_post 9 (parse_size b) [b] s1 ltac:(discriminate)) as R.
        assert (H9 : (parse_size b - length [b] < 9)%nat).
        { pose proof (parse_size_cases b) as Hc. cbn in Hc. cbn [length].
          destruct Hc as [H|[H|[H|[H|[]]]]]; rewrite <- H; lia. }
        specialize (R H9 eq_refl). unfold gv_post in *.
        rewrite Hspec0.
        destruct (gv_rest 9 {| gv_got := [b]; gv_size := parse_size b |} s1) as [[[|r] st2] s2].
        + destruct R as (R1 & R2 & R3 & R4). rewrite R1, Hd1, Ht1, gv_first_byte, R4, Ht1.
          repeat split; auto; [rewrite ED; reflexivity | rewrite Hs1 in R3; lia].
        + destruct R as (R1 & R2). rewrite R1, Hd1, Ht1, gv_first_byte, R2, Ht1, ED. auto.
      - destruct D as (Hd & Ht & Hd1 & Hs1 & Ht1). unfold gv_post. rewrite Hspec0, Hd, Ht, Hd1, Ht1.
        split; [reflexivity|auto].
      - destruct D as (Hd & -> & Hne & Hd1 & Hs1 & Ht1). unfold gv_post. rewrite Hspec0, Hd, Hd1, Ht1.
        split; [|auto]. unfold gv_final, a_get_varint. reflexivity. }
    destruct (ssched s) as [|[c|] sch] eqn:ES.
    + specialize (AFTER 1%nat [] ltac:(cbn; lia)). exact AFTER.
    + specialize (AFTER c sch ltac:(cbn; lia)). exact AFTER.
    + unfold gv_post. cbn [sdata ssched sterm length]. repeat split; auto. rewrite ES. cbn [length]. lia.
  - unfold gv_inv in Hinv. rewrite EG in Hinv.
    destruct st as [g n]. cbn [gv_got gv_size] in *. subst g.
    apply gv_rest_post; [discriminate| |exact Hinv].
    rewrite Hinv. pose proof (parse_size_cases b0) as Hc. cbn in Hc. cbn [length].
    destruct Hc as [H|[H|[H|[H|[]]]]]; rewrite <- H; lia.
Qed.

Theorem gv_drive fuel : forall st s, gv_inv st -> (length (ssched s) < fuel)%nat ->
  exists s', drive fuel gv_poll st s = Some (fst (gv_spec st (sdata s) (sterm s)), s') /\
             sdata s' = snd (gv_spec st (sdata s) (sterm s)) /\ sterm s' = sterm s.
Proof.
  induction fuel as [|fuel IH]; intros st s Hinv Hf; [lia|].
  cbn [drive]. pose proof (gv_poll_post st s Hinv) as P. unfold gv_post in P.
  destruct (gv_poll st s) as [[[|r] st1] s1].
  - destruct P as (P1 & P2 & P3 & P4).
    destruct (IH st1 s1 P2 ltac:(lia)) as (s2 & D1 & D2 & D3).
    exists s2. rewrite D1, D2, D3, P1, P4. auto.
  - destruct P as (P1 & P2). exists s1. rewrite <- P1. cbn [fst snd]. auto.
Qed.

(* GetVarint started fresh computes a_get_varint, whatever the schedule *)
Theorem get_varint_machine_refines data sch t :
  exists s', drive (S (length sch)) gv_poll gv_init (mksrc data sch t) = Some (fst (gv_final data t), s') /\
             sdata s' = snd (gv_final data t).
Proof.
  destruct (gv_drive (S (length sch)) gv_init (mksrc data sch t) I) as (s' & D1 & D2 & _);
    cbn [ssched]; try lia.
  exists s'. rewrite D1, D2. auto.
Qed.
