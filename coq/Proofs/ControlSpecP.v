(* ControlSpecP.v -- the control-stream runner refines the sequential rules of
   RFC 9114 (6.2.1, 7.2.4, 7.2.8) for every sequence of frames, by induction
   over the sequence.  The rules are stated here as a small automaton over
   abstract items, written from the specification (Spec/Spec9114.v gives the
   codes); the theorem relates it to Model/Runner.v's settings_run on the
   encoded bytes. *)
From WT.Model Require Import Base Varint Ids Frame Async StreamTS Wire Qpack Session Runner.
From WT.Spec Require Import Spec9114.
From WT.Proofs Require Import VarintP FrameP AsyncP StreamTSP WireP RunnerP SpecP.
From Coq Require Import Lia ZArith ZifyBool ZifyNat ZifyN.
Local Open Scope N_scope.

(* what a peer can put on its control stream after the stream type *)
Inductive citem :=
| CSettings (payload : bytes)            (* a SETTINGS frame whose payload parses *)
| CGrease (id : N) (p : bytes)           (* a frame of a reserved (GREASE) type *)
| CUnknown (u : N) (p : bytes)           (* a frame of a type the endpoint does not know *)
| CData (p : bytes)
| CHeaders (p : bytes)
| CWt (sid : N).                         (* a WebTransport stream signal *)

Definition citem_ok (i : citem) : bool :=
  match i with
  | CSettings payload => (len payload <=? max_parse_payload) &&
                         match settings_with_frame payload with Val _ => true | _ => false end
  | CGrease id p => is_exercise id && (id <=? varint_max) && (len p <=? max_parse_payload)
  | CUnknown u p => match fkind_parse u with None => true | Some _ => false end
                    && (u <=? varint_max) && (len p <=? varint_max)
  | CData p | CHeaders p => len p <=? max_parse_payload
  | CWt sid => session_ok sid && (sid <=? varint_max)
  end.

Definition enc_citem (i : citem) : bytes :=
  match i with
  | CSettings payload => frame_write (mkframe KSettings payload None)
  | CGrease id p => frame_write (mkframe (KExercise id) p None)
  | CUnknown u p => unknown_frame u p
  | CData p => frame_write (mkframe KData p None)
  | CHeaders p => frame_write (mkframe KHeaders p None)
  | CWt sid => frame_write (mkframe KWebTransport [] (Some sid))
  end.
Fixpoint enc_citems (l : list citem) : bytes :=
  match l with [] => [] | i :: r => enc_citem i ++ enc_citems r end.

(* ---------- the specification's automaton ---------- *)
Inductive cverdict :=
| VClose (codes : list N)   (* connection error, one of these codes *)
| VOpen.                    (* nothing wrong so far and the stream is still open *)

(* seen = a SETTINGS frame has been received.  How the stream ends: Fin/Reset = the peer closed a
   critical stream; Lost = still open (nothing more arrived). *)
Fixpoint spec_control (seen : bool) (items : list citem) (t : term) : cverdict :=
  match items with
  | [] => match t with Lost => VOpen | _ => VClose critical_stream_closed end
  | CSettings _ :: r => if seen then VClose control_second_settings else spec_control true r t
  | CGrease _ _ :: r => if seen then spec_control seen r t else VClose control_first_not_settings
  | CUnknown _ _ :: r => spec_control seen r t          (* invisible: RFC 9114 9 (C13) *)
  | (CData _ | CHeaders _ | CWt _) :: _ =>
      if seen then VClose [H3_FRAME_UNEXPECTED] else VClose control_first_not_settings
  end.

Definition refines (v : cverdict) (r : reaction * option smap) : Prop :=
  match v with
  | VClose codes => exists e, fst r = RClose e /\ In (to_code e) codes
  | VOpen => fst r = RNotConnected
  end.

Definition is_some {A} (o : option A) : bool := match o with Some _ => true | None => false end.

Lemma wt_frame_wf sid : session_ok sid = true -> sid <= varint_max ->
  frame_wf (mkframe KWebTransport [] (Some sid)) = true.
Proof. intros H1 H2. unfold frame_wf. cbn [fk fsid fpayload]. rewrite H1. apply N.leb_le in H2. rewrite H2. reflexivity. Qed.

Lemma settings_run_wt sid rest t f have : session_ok sid = true -> sid <= varint_max ->
  settings_run (S f) have (frame_write (mkframe KWebTransport [] (Some sid)) ++ rest) t = (RClose EFrameUnexpected, have).
Proof.
  intros H1 H2. cbn [settings_run].
  rewrite (read_frame_async_known TUniRemote false _ rest t (wt_frame_wf sid H1 H2)); [reflexivity|].
  cbn [fpayload]. unfold len, max_parse_payload. cbn [length]. lia.
Qed.

Theorem control_refines_spec items : forall have fuel t,
  forallb citem_ok items = true -> (length items < fuel)%nat ->
  refines (spec_control (is_some have) items t) (settings_run fuel have (enc_citems items) t).
Proof.
  induction items as [|i r IH]; intros have fuel t Hok Hf.
  - destruct fuel as [|f]; [cbn in Hf; lia|]. cbn [enc_citems spec_control].
    rewrite settings_run_closed. destruct t; cbn [refines fst].
    + exists EClosedCriticalStream. split; [reflexivity|]. vm_compute. auto.
    + exists EClosedCriticalStream. split; [reflexivity|]. vm_compute. auto.
    + reflexivity.
  - cbn [forallb] in Hok. apply andb_prop in Hok. destruct Hok as [Hi Hr].
    destruct fuel as [|f]; [cbn in Hf; lia|]. cbn [length] in Hf.
    cbn [enc_citems spec_control].
    destruct i as [payload|id p|u p|p|p|sid]; cbn [citem_ok enc_citem] in *.
    + (* SETTINGS *)
      apply andb_prop in Hi. destruct Hi as [Hl Hp]. apply N.leb_le in Hl.
      destruct have as [m0|]; cbn [is_some].
      * rewrite settings_run_repeated_settings by exact Hl. cbn [refines fst].
        exists EFrameUnexpected. split; [reflexivity|]. vm_compute. auto.
      * destruct (settings_with_frame payload) as [m| | | |] eqn:E; try discriminate.
        rewrite (settings_run_first payload _ t f m Hl E).
        apply (IH (Some m) f t Hr). lia.
    + (* GREASE *)
      apply andb_prop in Hi. destruct Hi as [Hi Hl]. apply andb_prop in Hi. destruct Hi as [Hx Hid].
      apply N.leb_le in Hl, Hid.
      destruct have as [m0|]; cbn [is_some].
      * rewrite settings_run_grease_after_settings by assumption.
        apply (IH (Some m0) f t Hr). lia.
      * rewrite settings_run_missing_settings by assumption. cbn [refines fst].
        exists EMissingSettings. split; [reflexivity|]. vm_compute. auto.
    + (* unknown type: invisible *)
      apply andb_prop in Hi. destruct Hi as [Hi Hl]. apply andb_prop in Hi. destruct Hi as [Hk Hu].
      apply N.leb_le in Hl, Hu.
      destruct (fkind_parse u) eqn:Ek; [discriminate|].
      rewrite settings_run_unknown_frame by assumption.
      apply (IH have (S f) t Hr). lia.
    + (* DATA *)
      apply N.leb_le in Hi. rewrite settings_run_data_or_headers by (auto; exact Hi).
      destruct have; cbn [is_some refines fst]; exists EFrameUnexpected; (split; [reflexivity|vm_compute; auto]).
    + (* HEADERS *)
      apply N.leb_le in Hi. rewrite settings_run_data_or_headers by (auto; exact Hi).
      destruct have; cbn [is_some refines fst]; exists EFrameUnexpected; (split; [reflexivity|vm_compute; auto]).
    + (* WebTransport signal *)
      apply andb_prop in Hi. destruct Hi as [H1 H2]. apply N.leb_le in H2.
      rewrite settings_run_wt by assumption.
      destruct have; cbn [is_some refines fst]; exists EFrameUnexpected; (split; [reflexivity|vm_compute; auto]).
Qed.

(* the whole control stream of a peer, starting from nothing received *)
Corollary control_stream_refines_spec items t :
  forallb citem_ok items = true ->
  refines (spec_control false items t) (settings_run (S (length items)) None (enc_citems items) t).
Proof. intros H. apply (control_refines_spec items None); [exact H|lia]. Qed.

(* no permitted sequence is rejected: SETTINGS first, then any mix of GREASE and unknown frames,
   stream left open *)
Definition benign (i : citem) : bool := match i with CGrease _ _ | CUnknown _ _ => true | _ => false end.

Lemma spec_benign_open items : forallb benign items = true -> spec_control true items Lost = VOpen.
Proof.
  induction items as [|i r IH]; intros H; [reflexivity|].
  cbn [forallb] in H. apply andb_prop in H. destruct H as [Hi Hr].
  destruct i; try discriminate; cbn [spec_control]; exact (IH Hr).
Qed.

Lemma spec_unknown_prefix pre items : forallb (fun i => match i with CUnknown _ _ => true | _ => false end) pre = true ->
  forall seen t, spec_control seen (pre ++ items) t = spec_control seen items t.
Proof.
  induction pre as [|i r IH]; intros H seen t; [reflexivity|].
  cbn [forallb] in H. apply andb_prop in H. destruct H as [Hi Hr].
  destruct i; try discriminate. cbn [app spec_control]. exact (IH Hr seen t).
Qed.

Theorem permitted_control_stream_accepted payload items :
  citem_ok (CSettings payload) = true -> forallb citem_ok items = true -> forallb benign items = true ->
  fst (settings_run (S (S (length items))) None (enc_citems (CSettings payload :: items)) Lost) = RNotConnected.
Proof.
  intros H1 H2 H3.
  pose proof (control_refines_spec (CSettings payload :: items) None (S (S (length items))) Lost) as R.
  cbn [forallb] in R. rewrite H1, H2 in R. specialize (R eq_refl ltac:(cbn [length]; lia)).
  cbn [is_some spec_control] in R. rewrite (spec_benign_open items H3) in R. exact R.
Qed.
