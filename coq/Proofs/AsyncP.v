(* AsyncP.v -- the async readers agree with the sync readers (C15) *)
From WT.Model Require Import Base Varint Ids Frame Async.
From WT.Proofs Require Import VarintP FrameP.
From Coq Require Import Lia ZArith ZifyBool ZifyNat ZifyN.
Ltac Zify.zify_post_hook ::= Z.to_euclidean_division_equations.

Definition is_nil (d : bytes) : bool := match d with [] => true | _ => false end.

Lemma skipn_skipn' {A} a : forall b (l : list A), skipn a (skipn b l) = skipn (b + a) l.
Proof.
  intros b. induction b as [|b IH]; intros l; [reflexivity|].
  destruct l as [|x l]; [rewrite !skipn_nil; reflexivity|]. cbn [skipn Nat.add]. apply IH.
Qed.

Lemma firstn_firstn_same {A} n (l : list A) : firstn n (firstn n l) = firstn n l.
Proof. rewrite firstn_firstn. f_equal. lia. Qed.

(* ---- varints ---- *)
Lemma a_get_varint_some {E} d t v r : get_varint d = Some (v, r) -> @a_get_varint E d t = AOk v r.
Proof.
  unfold get_varint, a_get_varint. destruct d as [|b d']; [discriminate|].
  destruct (length (b :: d') <? parse_size b)%nat eqn:EL; [discriminate|].
  intros [= <- <-]. f_equal.
  unfold varint_of, get_varint.
  apply Nat.ltb_ge in EL.
  assert (Hn : exists k, parse_size b = S k).
  { pose proof (parse_size_cases b) as H. cbn in H. destruct H as [H|[H|[H|[H|[]]]]]; rewrite <- H; eauto. }
  destruct Hn as [k Hk]. rewrite Hk in *. cbn [firstn].
  rewrite Hk.
  assert (HL : (length (b :: firstn k d') <? S k)%nat = false).
  { apply Nat.ltb_ge. cbn [length] in *. rewrite firstn_length. lia. }
  rewrite HL. cbn [firstn]. rewrite firstn_firstn_same. reflexivity.
Qed.

Lemma a_get_varint_none {E} d t : get_varint d = None -> @a_get_varint E d t = AIo (eof_err t (is_nil d)) [].
Proof.
  unfold get_varint, a_get_varint. destruct d as [|b d']; [reflexivity|].
  destruct (length (b :: d') <? parse_size b)%nat; [reflexivity|discriminate].
Qed.

(* ---- buffers ---- *)
Lemma a_get_buffer_some {E} l d t p r : get_bytes_n l d = Some (p, r) -> @a_get_buffer E (N.to_nat l) d t = AOk p r.
Proof.
  unfold get_bytes_n, get_bytes, a_get_buffer.
  destruct (len d <? l) eqn:E1; [discriminate|].
  destruct (length d <? N.to_nat l)%nat eqn:E2; [discriminate|].
  intros [= <- <-]. destruct (N.to_nat l) eqn:EN; reflexivity.
Qed.

Lemma a_get_buffer_none {E} l d t : get_bytes_n l d = None ->
  @a_get_buffer E (N.to_nat l) d t = AIo (eof_err t (is_nil d)) [].
Proof.
  intros H. apply get_bytes_n_none in H. unfold a_get_buffer, len in *.
  destruct (N.to_nat l) eqn:EN; [lia|].
  assert (H2 : (length d <? S n)%nat = true) by (apply Nat.ltb_lt; lia).
  rewrite H2. destruct d; reflexivity.
Qed.

Lemma map_imm_eof t b : map_imm (eof_err t b) = eof_err t false.
Proof. destruct t, b; reflexivity. Qed.

(* ---- the unknown-frame skip loop ---- *)
Lemma skip_loop_enough fuel : forall l d t, (length d < fuel)%nat -> l <= len d ->
  skip_loop fuel l d t = AParse PUnknown (skipn (N.to_nat l) d).
Proof.
  induction fuel as [|f IH]; intros l d t Hf Hl; [lia|].
  cbn [skip_loop]. destruct (l =? 0) eqn:E0.
  - apply N.eqb_eq in E0. subst l. reflexivity.
  - apply N.eqb_neq in E0.
    set (n := N.min l 256).
    assert (Hn : 0 < n <= l) by (unfold n; lia).
    unfold a_get_buffer, len in *.
    destruct (N.to_nat n) eqn:EN; [lia|].
    assert (H2 : (length d <? S n0)%nat = false) by (apply Nat.ltb_ge; lia).
    rewrite H2. rewrite IH.
    + f_equal. rewrite skipn_skipn'. f_equal. lia.
    + rewrite skipn_length. lia.
    + rewrite skipn_length. lia.
Qed.

Lemma skip_loop_short fuel : forall l d t, (length d < fuel)%nat -> len d < l ->
  skip_loop fuel l d t = AIo (eof_err t false) [].
Proof.
  induction fuel as [|f IH]; intros l d t Hf Hl; [lia|].
  cbn [skip_loop]. destruct (l =? 0) eqn:E0; [apply N.eqb_eq in E0; lia|].
  set (n := N.min l 256).
  assert (Hn : 0 < n <= l) by (unfold n; lia).
  unfold a_get_buffer, len in *.
  destruct (N.to_nat n) eqn:EN; [lia|].
  destruct (length d <? S n0)%nat eqn:H2.
  - rewrite map_imm_eof. reflexivity.
  - apply Nat.ltb_ge in H2. apply IH.
    + rewrite skipn_length. lia.
    + rewrite skipn_length. lia.
Qed.

(* ---- Frame: the async path agrees with the one-shot path ---- *)
Theorem frame_async_agrees bs t :
  match frame_read bs with
  | (RVal f, r) => frame_read_async bs t = AOk f r
  | (RErr e, r) => frame_read_async bs t = AParse e r
  | (RNone, _) => frame_read_async bs t = AIo (eof_err t (is_nil bs)) []
  end.
Proof.
  unfold frame_read, frame_read_async.
  destruct (get_varint bs) as [[id r1]|] eqn:E1.
  2:{ rewrite (a_get_varint_none _ _ E1). reflexivity. }
  rewrite (a_get_varint_some _ _ _ _ E1).
  assert (Hbs : is_nil bs = false) by (destruct bs; [discriminate|reflexivity]).
  rewrite Hbs.
  destruct (fkind_parse id) as [k|].
  - destruct k.
    1,2,3,5: (destruct (get_varint r1) as [[l r2]|] eqn:E2;
      [rewrite (a_get_varint_some _ _ _ _ E2)|rewrite (a_get_varint_none _ _ E2), map_imm_eof; reflexivity];
      destruct (max_parse_payload <? l); [reflexivity|];
      destruct (get_bytes_n l r2) as [[pp r3]|] eqn:E3;
      [rewrite (a_get_buffer_some _ _ _ _ _ E3); reflexivity
      |rewrite (a_get_buffer_none _ _ _ E3), map_imm_eof; reflexivity]).
    destruct (get_varint r1) as [[s r2]|] eqn:E2;
      [rewrite (a_get_varint_some _ _ _ _ E2)|rewrite (a_get_varint_none _ _ E2), map_imm_eof; reflexivity].
    destruct (session_ok s); reflexivity.
  - destruct (get_varint r1) as [[l r2]|] eqn:E2;
      [rewrite (a_get_varint_some _ _ _ _ E2)|rewrite (a_get_varint_none _ _ E2), map_imm_eof; reflexivity].
    destruct (get_bytes_n l r2) as [[pp r3]|] eqn:E3.
    + destruct (get_bytes_n_split _ _ _ _ E3) as [Hsp Hl].
      rewrite skip_loop_enough.
      * f_equal. subst r2. rewrite <- Hl. unfold len. rewrite Nat2N.id.
        apply skipn_app_exact. reflexivity.
      * lia.
      * subst r2. rewrite len_app. lia.
    + apply get_bytes_n_none in E3. rewrite skip_loop_short; [reflexivity|lia|exact E3].
Qed.

(* the async result never depends on anything but the bytes and the terminal
   (it is a function of them): chunking / Pending invariance at this level is
   by construction; Proofs/MachineP.v shows the poll machines refine
   a_get_varint / a_get_buffer for every schedule. *)

(* ---- StreamHeader ---- *)
Theorem sheader_async_agrees bs t :
  match sheader_read bs with
  | (SVal h, r) => sheader_read_async bs t = AOk h r
  | (SErr e, r) => sheader_read_async bs t = AParse e r
  | (SNone, _) => sheader_read_async bs t = AIo (eof_err t (is_nil bs)) []
  end.
Proof.
  unfold sheader_read, sheader_read_async.
  destruct (get_varint bs) as [[id r1]|] eqn:E1.
  2:{ rewrite (a_get_varint_none _ _ E1). reflexivity. }
  rewrite (a_get_varint_some _ _ _ _ E1).
  assert (Hbs : is_nil bs = false) by (destruct bs; [discriminate|reflexivity]).
  rewrite Hbs.
  destruct (skind_parse id) as [k|]; [|reflexivity].
  destruct k; try reflexivity.
  destruct (get_varint r1) as [[s r2]|] eqn:E2;
    [rewrite (a_get_varint_some _ _ _ _ E2)|rewrite (a_get_varint_none _ _ E2), map_imm_eof; reflexivity].
  destruct (session_ok s); reflexivity.
Qed.

(* a proper prefix of a valid frame encoding asks for more data on every path *)
Lemma get_varint_app_none a b : get_varint (a ++ b) = None -> get_varint a = None.
Proof.
  unfold get_varint. destruct a as [|x a']; [reflexivity|]. cbn [app].
  destruct (length (x :: a' ++ b) <? parse_size x)%nat eqn:E; [|discriminate].
  intros _. apply Nat.ltb_lt in E. cbn [length] in *. rewrite app_length in E.
  assert (H : (S (length a') <? parse_size x)%nat = true) by (apply Nat.ltb_lt; lia).
  rewrite H. reflexivity.
Qed.
