(* SelectP.v -- cancellation of control-plane reads (C05) *)
From WT.Model Require Import Base Varint Ids Frame Async Select.
From WT.Proofs Require Import VarintP FrameP AsyncP MachineP.
From Coq Require Import Lia.

(* without cancellation the select loop is the plain executor *)
Lemma drive_c_polls n : forall st s, drive_c (repeat EvPoll n) st s = drive n gv_poll st s.
Proof.
  induction n as [|n IH]; intros st s; [reflexivity|]. cbn [repeat drive_c drive].
  destruct (gv_poll st s) as [[[|a] st'] s']; [apply IH|reflexivity].
Qed.

(* ... hence no segmentation of the bytes and no pattern of Pending results changes the outcome *)
Theorem select_no_cancel data sch t :
  exists s', drive_c (repeat EvPoll (S (length sch))) gv_init (mksrc data sch t) = Some (fst (gv_final data t), s') /\
             sdata s' = snd (gv_final data t).
Proof. rewrite drive_c_polls. apply get_varint_machine_refines. Qed.

(* a machine that has read nothing behaves like a fresh one *)
Lemma gv_poll_empty st s : gv_got st = [] ->
  match gv_poll st s, gv_poll gv_init s with
  | (Ready a, _, s1), (Ready b, _, s2) => a = b /\ s1 = s2
  | (Pending, st1, s1), (Pending, st2, s2) => s1 = s2 /\ ((gv_got st1 = [] /\ gv_got st2 = []) \/ st1 = st2)
  | _, _ => False
  end.
Proof.
  intros H. unfold gv_poll. rewrite H. cbn [gv_got gv_init].
  destruct (poll_read 1 s) as [[|d| |e] s1]; auto.
  - destruct (gv_rest 9 _ s1) as [[[|a] st'] s']; auto.
Qed.

Lemma drive_c_empty evs : forall st s, gv_got st = [] -> drive_c evs st s = drive_c evs gv_init s.
Proof.
  induction evs as [|e evs IH]; intros st s H; [reflexivity|].
  destruct e; cbn [drive_c]; [|reflexivity].
  pose proof (gv_poll_empty st s H) as P.
  destruct (gv_poll st s) as [[[|a] st1] s1]; destruct (gv_poll gv_init s) as [[[|b] st2] s2]; try contradiction.
  - destruct P as [-> [[H1 H2]| ->]]; [|reflexivity].
    rewrite (IH st1 s2 H1), (IH st2 s2 H2). reflexivity.
  - destruct P as [-> ->]. reflexivity.
Qed.

(* cancels that hit the reader while it holds no partial progress are harmless *)
Theorem select_cancel_safe evs : forall st s, cancel_safe evs st s = true ->
  drive_c evs st s = drive_c (filter is_poll evs) st s.
Proof.
  induction evs as [|e evs IH]; intros st s H; [reflexivity|].
  destruct e; cbn [cancel_safe drive_c filter is_poll] in *.
  - destruct (gv_poll st s) as [[[|a] st1] s1]; [apply IH; exact H|reflexivity].
  - destruct (gv_got st) eqn:E; [|discriminate].
    rewrite (IH _ _ H). symmetry. apply drive_c_empty. exact E.
Qed.

(* but a cancel that hits a partially read varint tears it: the pinned worker
   re-creates its control-plane read futures on every loop iteration *)
Theorem select_cancel_refuted :
  exists data sch t evs,
    drive_c evs gv_init (mksrc data sch t) <> drive_c (filter is_poll evs) gv_init (mksrc data sch t) /\
    length (filter (fun e => negb (is_poll e)) evs) = 1%nat.
Proof.
  exists [64; 200; 7; 7; 7], [Chunk 1; Pend], Fin, [EvPoll; EvCancel; EvPoll; EvPoll].
  split; [vm_compute; discriminate|reflexivity].
Qed.
