(* FilterP.v -- C17 at the driver level: nothing of another session is ever returned, nothing of the
   caller's session is ever refused, order is kept, and nothing but the consumed prefix is touched. *)
From WT.Model Require Import Base Frame Filter.
From Coq Require Import Lia.

Lemma accept_loop_split sid ch :
  let f := accept_loop sid ch in
  match returned f with
  | Some x => exists pre, ch = pre ++ x :: remaining f /\ discarded f = pre /\ snd x = sid /\
                          Forall (fun y => snd y <> sid) pre
  | None => remaining f = [] /\ discarded f = ch /\ Forall (fun y => snd y <> sid) ch
  end.
Proof.
  induction ch as [|x r IH]; cbn [accept_loop]; [cbn; auto|].
  destruct (snd x =? sid) eqn:E.
  - cbn [returned remaining discarded]. exists []. apply N.eqb_eq in E. cbn. auto.
  - apply N.eqb_neq in E. cbn zeta in IH. cbn [returned remaining discarded].
    destruct (returned (accept_loop sid r)) as [y|].
    + destruct IH as (pre & H1 & H2 & H3 & H4). exists (x :: pre). cbn [app]. rewrite <- H1, H2. auto.
    + destruct IH as (H1 & H2 & H3). rewrite H2. auto.
Qed.

(* one call: what is returned names the caller's session; everything refused names another one; the
   channel is exactly refused ++ [returned] ++ remaining, in order *)
Theorem accept_returns_own_session sid ch x : returned (accept_loop sid ch) = Some x -> snd x = sid.
Proof. intros H. pose proof (accept_loop_split sid ch) as S. cbn zeta in S. rewrite H in S. destruct S as (? & ? & ? & ? & ?). assumption. Qed.

Theorem accept_refuses_only_foreign sid ch : Forall (fun y => snd y <> sid) (discarded (accept_loop sid ch)).
Proof.
  pose proof (accept_loop_split sid ch) as S. cbn zeta in S.
  destruct (returned (accept_loop sid ch)).
  - destruct S as (pre & _ & -> & _ & H). exact H.
  - destruct S as (_ & -> & H). exact H.
Qed.

Theorem accept_conserves sid ch :
  ch = discarded (accept_loop sid ch) ++ match returned (accept_loop sid ch) with Some x => [x] | None => [] end
       ++ remaining (accept_loop sid ch).
Proof.
  pose proof (accept_loop_split sid ch) as S. cbn zeta in S.
  destruct (returned (accept_loop sid ch)).
  - destruct S as (pre & H1 & -> & _). exact H1.
  - destruct S as (-> & -> & _). cbn. rewrite app_nil_r. reflexivity.
Qed.

(* a waiting item of the caller's session is returned by the call (it cannot be starved or skipped) *)
Theorem accept_finds_own sid ch : (exists x, In x ch /\ snd x = sid) -> returned (accept_loop sid ch) <> None.
Proof.
  intros (x & Hin & Hx) Hn. pose proof (accept_loop_split sid ch) as S. cbn zeta in S. rewrite Hn in S.
  destruct S as (_ & _ & F). rewrite Forall_forall in F. exact (F x Hin Hx).
Qed.

Definition own (sid : N) (l : list item) : list item := filter (fun y => snd y =? sid) l.
Definition foreign (sid : N) (l : list item) : list item := filter (fun y => negb (snd y =? sid)) l.

Lemma own_foreign_only sid l : Forall (fun y => snd y <> sid) l -> own sid l = [] /\ foreign sid l = l.
Proof.
  induction 1 as [|y l Hy _ IH]; [auto|]. apply N.eqb_neq in Hy. unfold own, foreign in *. cbn [filter].
  rewrite Hy. cbn [negb]. destruct IH as (IH1 & IH2). rewrite IH1, IH2. auto.
Qed.
Lemma own_app sid a b : own sid (a ++ b) = own sid a ++ own sid b.
Proof. apply filter_app. Qed.
Lemma foreign_app sid a b : foreign sid (a ++ b) = foreign sid a ++ foreign sid b.
Proof. apply filter_app. Qed.

(* any number of calls: the application gets exactly the items of its session among those consumed, in
   arrival order; exactly the other consumed items are refused, in order; the rest is untouched *)
Theorem accept_n_spec n sid : forall ch g d r, accept_n n sid ch = (g, d, r) ->
  exists consumed, ch = consumed ++ r /\ g = own sid consumed /\ d = foreign sid consumed.
Proof.
  induction n as [|n IH]; intros ch g d r H; cbn [accept_n] in H.
  - injection H as <- <- <-. exists []. auto.
  - pose proof (accept_loop_split sid ch) as S. cbn zeta in S.
    destruct (returned (accept_loop sid ch)) as [x|].
    + destruct S as (pre & H1 & H2 & H3 & H4).
      destruct (accept_n n sid (remaining (accept_loop sid ch))) as [[g1 d1] r1] eqn:E.
      injection H as <- <- <-. destruct (IH _ _ _ _ E) as (c1 & C1 & C2 & C3).
      destruct (own_foreign_only sid pre H4) as (O1 & F1).
      exists (pre ++ x :: c1). repeat split.
      * rewrite H1, C1, <- app_assoc. reflexivity.
      * rewrite own_app, O1. cbn. apply N.eqb_eq in H3. rewrite H3. cbn. rewrite C2. reflexivity.
      * rewrite foreign_app, F1, H2. cbn. apply N.eqb_eq in H3. rewrite H3. cbn. rewrite C3. reflexivity.
    + destruct S as (H1 & H2 & H3). injection H as <- <- <-.
      destruct (own_foreign_only sid ch H3) as (O1 & F1).
      exists ch. rewrite H1, app_nil_r, O1, F1, H2. auto.
Qed.

Corollary accept_n_never_delivers_foreign n sid ch g d r :
  accept_n n sid ch = (g, d, r) -> Forall (fun y => snd y = sid) g /\ Forall (fun y => snd y <> sid) d.
Proof.
  intros H. destruct (accept_n_spec _ _ _ _ _ _ H) as (c & _ & -> & ->). split; apply Forall_forall; intros y Hy.
  - apply filter_In in Hy. destruct Hy as (_ & Hy). apply N.eqb_eq in Hy. exact Hy.
  - apply filter_In in Hy. destruct Hy as (_ & Hy). apply Bool.negb_true_iff, N.eqb_neq in Hy. exact Hy.
Qed.

Example filter_example :
  accept_n 2 0 [(3, 4); (7, 0); (11, 8); (15, 0); (19, 0)] = ([(7, 0); (15, 0)], [(3, 4); (11, 8)], [(19, 0)]) /\
  discard_code = 966049156.
Proof. vm_compute. split; reflexivity. Qed.
