(* VarintP.v -- proofs about Model/Varint.v *)
From WT.Model Require Import Base Varint.
From Coq Require Import Lia ZArith ZifyBool ZifyNat ZifyN.
Ltac Zify.zify_post_hook ::= Z.to_euclidean_division_equations.

Lemma be_length n : forall v, length (be n v) = n.
Proof.
  induction n as [|k IH]; intros v; cbn [be]; [reflexivity|].
  rewrite app_length, IH. cbn. lia.
Qed.

Lemma unbe_acc_snoc l : forall acc b, unbe_acc acc (l ++ [b]) = unbe_acc acc l * 256 + b.
Proof.
  induction l as [|x l IH]; intros acc b; cbn [app unbe_acc]; [reflexivity|].
  apply IH.
Qed.

Lemma unbe_acc_shift l : forall acc, unbe_acc acc l = acc * 256 ^ N.of_nat (length l) + unbe l.
Proof.
  unfold unbe.
  induction l as [|x l IH]; intros acc.
  - cbn [unbe_acc length]. change (N.of_nat 0) with 0. rewrite N.pow_0_r. lia.
  - cbn [unbe_acc length]. rewrite IH. rewrite (IH (0 * 256 + x)).
    rewrite Nat2N.inj_succ, N.pow_succ_r'. lia.
Qed.

Lemma unbe_be n : forall v, unbe (be n v) = v mod 256 ^ N.of_nat n.
Proof.
  unfold unbe.
  induction n as [|k IH]; intros v.
  - cbn [be unbe_acc]. change (N.of_nat 0) with 0. rewrite N.pow_0_r, N.mod_1_r. reflexivity.
  - cbn [be]. rewrite unbe_acc_snoc, IH.
    rewrite Nat2N.inj_succ, N.pow_succ_r'.
    assert (H : 256 ^ N.of_nat k <> 0) by (apply N.pow_nonzero; lia).
    rewrite N.mod_mul_r by lia. lia.
Qed.

Lemma bytes_ok_app a b : bytes_ok (a ++ b) = bytes_ok a && bytes_ok b.
Proof. unfold bytes_ok. apply forallb_app. Qed.

Lemma be_bytes_ok n : forall v, bytes_ok (be n v) = true.
Proof.
  induction n as [|k IH]; intros v; cbn [be]; [reflexivity|].
  rewrite bytes_ok_app, IH. cbn [bytes_ok forallb andb]. unfold byte_ok.
  assert (v mod 256 < 256) by (apply N.mod_lt; lia).
  rewrite Bool.andb_true_r. apply N.ltb_lt. assumption.
Qed.

(* most-significant-byte-first characterisation *)
Lemma be_msb k : forall v,
  be (S k) v = (v / 256 ^ N.of_nat k) mod 256 :: be k (v mod 256 ^ N.of_nat k).
Proof.
  induction k as [|k IH]; intros v.
  - cbn [be app]. change (N.of_nat 0) with 0. rewrite N.pow_0_r, N.div_1_r. reflexivity.
  - change (be (S (S k)) v) with (be (S k) (v / 256) ++ [v mod 256]).
    rewrite IH. cbn [app].
    rewrite Nat2N.inj_succ, N.pow_succ_r'.
    set (p := 256 ^ N.of_nat k).
    assert (Hp : p <> 0) by (apply N.pow_nonzero; lia).
    f_equal.
    + rewrite N.div_div by lia. reflexivity.
    + change (be (S k) (v mod (256 * p))) with
        (be k (v mod (256 * p) / 256) ++ [(v mod (256 * p)) mod 256]).
      rewrite N.mod_mul_r by lia.
      assert (Ha : v mod 256 < 256) by (apply N.mod_lt; lia).
      generalize dependent (v mod 256). intros a Ha.
      generalize ((v / 256) mod p). intros c.
      replace ((a + 256 * c) / 256) with c by lia.
      replace ((a + 256 * c) mod 256) with a by lia.
      reflexivity.
Qed.

(* ---- finite facts about one byte, by exhaustive computation ---- *)

Definition bytes256 : list N := map N.of_nat (seq 0 256).
Lemma in_bytes256 b : b < 256 -> In b bytes256.
Proof.
  intros H. unfold bytes256. apply in_map_iff. exists (N.to_nat b). split; [lia|].
  apply in_seq. lia.
Qed.

Lemma lor_tag_sweep :
  forallb (fun b => forallb (fun n =>
     (N.lor b (vtag n) =? b + vtag n) && (Nat.eqb (parse_size (b + vtag n)) n))
     [1%nat; 2%nat; 4%nat; 8%nat]) (map N.of_nat (seq 0 64)) = true.
Proof. vm_compute. reflexivity. Qed.

Lemma lor_tag b n : b < 64 -> In n [1%nat; 2%nat; 4%nat; 8%nat] ->
  N.lor b (vtag n) = b + vtag n /\ parse_size (b + vtag n) = n.
Proof.
  intros Hb Hn. pose proof lor_tag_sweep as S.
  rewrite forallb_forall in S.
  assert (Hin : In b (map N.of_nat (seq 0 64))).
  { apply in_map_iff. exists (N.to_nat b). split; [lia|]. apply in_seq. lia. }
  specialize (S b Hin). rewrite forallb_forall in S. specialize (S n Hn).
  apply andb_prop in S. destruct S as [S1 S2].
  apply N.eqb_eq in S1. apply Nat.eqb_eq in S2. split; assumption.
Qed.

Lemma parse_size_cases b : In (parse_size b) [1%nat; 2%nat; 4%nat; 8%nat].
Proof.
  unfold parse_size. destruct (N.shiftr b 6) as [|p]; cbn; auto 10.
  destruct p as [p|p|]; cbn; auto 10. destruct p; cbn; auto 10.
Qed.

Lemma vsize_cases v : In (vsize v) [1%nat; 2%nat; 4%nat; 8%nat].
Proof.
  unfold vsize. destruct (v <=? 63); [cbn; auto|].
  destruct (v <=? 16383); [cbn; auto|]. destruct (v <=? 1073741823); cbn; auto.
Qed.

(* the value range of each size *)
Definition vbound (n : nat) : N := 2 ^ (8 * N.of_nat n - 2).

Ltac vb :=
  change (vbound 1%nat) with 64 in *;
  change (vbound 2%nat) with 16384 in *;
  change (vbound 4%nat) with 1073741824 in *;
  change (vbound 8%nat) with 4611686018427387904 in *;
  change (256 ^ N.of_nat 0) with 1 in *;
  change (256 ^ N.of_nat 1) with 256 in *;
  change (256 ^ N.of_nat 3) with 16777216 in *;
  change (256 ^ N.of_nat 7) with 72057594037927936 in *;
  change (vtag 1%nat) with 0 in *;
  change (vtag 2%nat) with 64 in *;
  change (vtag 4%nat) with 128 in *;
  change (vtag 8%nat) with 192 in *.

Lemma vsize_bound v : v <= varint_max -> v < vbound (vsize v).
Proof.
  unfold varint_max, vsize. intros H.
  destruct (v <=? 63) eqn:E1; [vb; lia|].
  destruct (v <=? 16383) eqn:E2; [vb; lia|].
  destruct (v <=? 1073741823) eqn:E3; vb; lia.
Qed.

(* shortest form: any of the four sizes able to hold v is at least vsize v *)
Lemma vsize_minimal v n : In n [1%nat; 2%nat; 4%nat; 8%nat] -> v < vbound n -> (vsize v <= n)%nat.
Proof.
  unfold vsize. intros Hn Hv.
  cbn in Hn. destruct Hn as [<-|[<-|[<-|[<-|[]]]]]; vb;
  destruct (v <=? 63) eqn:E1; try lia;
  destruct (v <=? 16383) eqn:E2; try lia;
  destruct (v <=? 1073741823) eqn:E3; lia.
Qed.

Lemma enc_length v : length (enc v) = vsize v.
Proof.
  unfold enc. pose proof (be_length (vsize v) v) as H.
  destruct (be (vsize v) v) as [|b r] eqn:E; [exact H|]. cbn [length] in *. exact H.
Qed.

Lemma vsize_pos v : exists k, vsize v = S k.
Proof.
  pose proof (vsize_cases v) as H. cbn in H.
  destruct H as [H|[H|[H|[H|[]]]]]; rewrite <- H; eauto.
Qed.

(* explicit shape of enc for in-range values *)
Lemma enc_shape v k : v <= varint_max -> vsize v = S k ->
  enc v = (v / 256 ^ N.of_nat k + vtag (S k)) :: be k (v mod 256 ^ N.of_nat k)
  /\ v / 256 ^ N.of_nat k < 64.
Proof.
  intros Hv Hk. unfold enc. rewrite Hk, be_msb.
  pose proof (vsize_bound v Hv) as Hb. rewrite Hk in Hb.
  pose proof (vsize_cases v) as Hc. rewrite Hk in Hc.
  assert (Hq : v / 256 ^ N.of_nat k < 64).
  { cbn in Hc.
    destruct Hc as [Hc|[Hc|[Hc|[Hc|[]]]]]; injection Hc as <-; vb; lia. }
  assert (Hm : (v / 256 ^ N.of_nat k) mod 256 = v / 256 ^ N.of_nat k).
  { apply N.mod_small. lia. }
  rewrite Hm. destruct (lor_tag _ (S k) Hq Hc) as [L _]. rewrite L. split; [reflexivity|assumption].
Qed.

Lemma firstn_app_exact {A} (a b : list A) n : length a = n -> firstn n (a ++ b) = a.
Proof. intros <-. rewrite firstn_app, Nat.sub_diag, firstn_all. cbn. apply app_nil_r. Qed.
Lemma skipn_app_exact {A} (a b : list A) n : length a = n -> skipn n (a ++ b) = b.
Proof. intros <-. rewrite skipn_app, Nat.sub_diag, skipn_all. reflexivity. Qed.

Lemma vmask_mod x n : N.land x (vmask n) = x mod vbound n.
Proof. unfold vmask, vbound. apply N.land_ones. Qed.

(* ---- round trip ---- *)
Theorem get_enc v r : v <= varint_max -> get_varint (enc v ++ r) = Some (v, r).
Proof.
  intros Hv. destruct (vsize_pos v) as [k Hk].
  destruct (enc_shape v k Hv Hk) as [Hs Hq].
  pose proof (enc_length v) as Hl. rewrite Hk in Hl.
  pose proof (vsize_cases v) as Hc. rewrite Hk in Hc.
  destruct (lor_tag _ (S k) Hq Hc) as [_ Hp].
  unfold get_varint.
  destruct (enc v ++ r) as [|b0 t] eqn:E.
  { rewrite Hs in E. discriminate. }
  assert (Hb0 : b0 = v / 256 ^ N.of_nat k + vtag (S k)).
  { rewrite Hs in E. cbn [app] in E. congruence. }
  rewrite Hb0, Hp. rewrite <- Hb0, <- E.
  assert (Hlen : (length (enc v ++ r) <? S k)%nat = false).
  { apply Nat.ltb_ge. rewrite app_length. lia. }
  rewrite Hlen.
  rewrite (firstn_app_exact _ _ _ Hl), (skipn_app_exact _ _ _ Hl).
  f_equal. f_equal.
  rewrite vmask_mod, Hs. unfold unbe. cbn [unbe_acc].
  rewrite unbe_acc_shift, be_length, unbe_be.
  pose proof (vsize_bound v Hv) as Hb. rewrite Hk in Hb.
  assert (Hpk : 256 ^ N.of_nat k <> 0) by (apply N.pow_nonzero; lia).
  rewrite N.mod_mod by assumption.
  cbn in Hc. destruct Hc as [Hc|[Hc|[Hc|[Hc|[]]]]]; injection Hc as <-; vb; lia.
Qed.

(* ---- decoder-side facts ---- *)
Lemma get_varint_range bs v r : get_varint bs = Some (v, r) -> v <= varint_max.
Proof.
  unfold get_varint. destruct bs as [|b t]; [discriminate|].
  destruct (length (b :: t) <? parse_size b)%nat; [discriminate|].
  intros [= <- <-]. rewrite vmask_mod.
  pose proof (parse_size_cases b) as Hc. unfold varint_max.
  assert (Hm : forall x y, y <> 0 -> x mod y < y) by (intros; apply N.mod_lt; assumption).
  cbn in Hc. destruct Hc as [Hc|[Hc|[Hc|[Hc|[]]]]]; rewrite <- Hc; vb;
  match goal with |- ?x mod ?y <= _ => specialize (Hm x y ltac:(lia)); lia end.
Qed.

Lemma get_varint_consumes bs v r : get_varint bs = Some (v, r) ->
  exists n, In n [1%nat; 2%nat; 4%nat; 8%nat] /\ (n <= length bs)%nat /\
            r = skipn n bs /\ v < vbound n /\ length r = (length bs - n)%nat.
Proof.
  unfold get_varint. destruct bs as [|b t]; [discriminate|].
  destruct (length (b :: t) <? parse_size b)%nat eqn:E; [discriminate|].
  intros [= <- <-]. exists (parse_size b). apply Nat.ltb_ge in E.
  repeat split; auto using parse_size_cases.
  - rewrite vmask_mod. apply N.mod_lt. unfold vbound. apply N.pow_nonzero. lia.
  - apply skipn_length.
Qed.

(* the decoder never reads more bytes than the shortest form would need...
   stated the right way round: what it consumed is at least vsize v *)
Theorem get_varint_minimal bs v r : get_varint bs = Some (v, r) ->
  (vsize v <= length bs - length r)%nat.
Proof.
  intros H. destruct (get_varint_consumes _ _ _ H) as (n & Hn & Hle & -> & Hv & Hl).
  rewrite Hl. pose proof (vsize_minimal v n Hn Hv). lia.
Qed.

Lemma get_varint_suffix bs v r : get_varint bs = Some (v, r) -> exists p, bs = p ++ r /\ p <> [].
Proof.
  intros H. destruct (get_varint_consumes _ _ _ H) as (n & Hn & Hle & -> & _ & _).
  exists (firstn n bs). split; [symmetry; apply firstn_skipn|].
  destruct bs; [discriminate|]. cbn in Hn.
  destruct Hn as [<-|[<-|[<-|[<-|[]]]]]; discriminate.
Qed.

Lemma enc_bytes_ok v : bytes_ok (enc v) = true.
Proof.
  unfold enc. destruct (vsize_pos v) as [k Hk]. rewrite Hk, be_msb.
  cbn [bytes_ok forallb]. fold (bytes_ok (be k (v mod 256 ^ N.of_nat k))).
  rewrite be_bytes_ok, Bool.andb_true_r. unfold byte_ok. apply N.ltb_lt.
  set (b := (v / 256 ^ N.of_nat k) mod 256).
  assert (Hb : b < 256) by (apply N.mod_lt; lia).
  pose proof (vsize_cases v) as Hc. rewrite Hk in Hc.
  assert (S : forallb (fun b => forallb (fun n => N.lor b (vtag n) <? 256)
            [1%nat; 2%nat; 4%nat; 8%nat]) bytes256 = true) by (vm_compute; reflexivity).
  rewrite forallb_forall in S. specialize (S b (in_bytes256 b Hb)).
  rewrite forallb_forall in S. specialize (S _ Hc). apply N.ltb_lt in S. exact S.
Qed.

(* need-more: a proper prefix of an encoding is never a value *)
Theorem get_varint_prefix_none v p q : v <= varint_max -> enc v = p ++ q -> q <> [] ->
  get_varint p = None.
Proof.
  intros Hv He Hq. destruct (vsize_pos v) as [k Hk].
  destruct (enc_shape v k Hv Hk) as [Hs Hq64].
  pose proof (enc_length v) as Hl. rewrite Hk in Hl.
  pose proof (vsize_cases v) as Hc. rewrite Hk in Hc.
  destruct (lor_tag _ (S k) Hq64 Hc) as [_ Hp].
  unfold get_varint. destruct p as [|b t]; [reflexivity|].
  assert (Hb : b = v / 256 ^ N.of_nat k + vtag (S k)).
  { rewrite Hs in He. cbn [app] in He. congruence. }
  rewrite Hb, Hp.
  assert (Hlt : (length (b :: t) < S k)%nat).
  { rewrite <- Hl, He, app_length. destruct q; [congruence|]. cbn [length]. lia. }
  rewrite <- Hb. apply Nat.ltb_lt in Hlt. rewrite Hlt. reflexivity.
Qed.

(* put_varint_cap: too-small destination untouched, otherwise exactly vsize bytes *)
Lemma put_varint_cap_spec cap v :
  (put_varint_cap cap v = None <-> (cap < vsize v)%nat) /\
  (forall bs, put_varint_cap cap v = Some bs -> bs = enc v /\ length bs = vsize v).
Proof.
  unfold put_varint_cap. destruct (cap <? vsize v)%nat eqn:E.
  - apply Nat.ltb_lt in E. split; [tauto|discriminate].
  - apply Nat.ltb_ge in E. split.
    + split; [discriminate|lia].
    + intros bs [= <-]. split; [reflexivity|apply enc_length].
Qed.
