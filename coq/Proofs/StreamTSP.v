(* StreamTSP.v -- proofs about the typestates' read_frame loops:
   termination (fuel is never exhausted), unknown frames are transparent (C13),
   the three paths agree (C15). *)
From WT.Model Require Import Base Varint Ids Frame Async StreamTS.
From WT.Proofs Require Import VarintP FrameP AsyncP.
From Coq Require Import Lia ZArith ZifyBool ZifyNat ZifyN.
Ltac Zify.zify_post_hook ::= Z.to_euclidean_division_equations.

(* ---------- termination and fuel independence ---------- *)
Lemma read_frame_fuel_indep n : forall m ts fd bs, (length bs < n)%nat -> (length bs < m)%nat ->
  read_frame n ts fd bs = read_frame m ts fd bs /\ read_frame n ts fd bs <> TOutOfFuel.
Proof.
  induction n as [|n IH]; intros m ts fd bs Hn Hm; [lia|].
  destruct m as [|m]; [lia|]. cbn [read_frame].
  destruct (frame_read bs) as [[f| |e] r] eqn:E.
  - destruct (validate ts fd f) as [fd' [e|]]; split; congruence.
  - split; congruence.
  - destruct e; try (split; congruence).
    pose proof (frame_read_progress _ _ _ E ltac:(discriminate)) as P.
    apply IH; lia.
Qed.

Theorem read_frame_terminates ts fd bs : read_frame (fuel_for bs) ts fd bs <> TOutOfFuel.
Proof. unfold fuel_for. apply (read_frame_fuel_indep _ (S (length bs))); lia. Qed.

Lemma read_frame_any_fuel n ts fd bs : (length bs < n)%nat ->
  read_frame n ts fd bs = read_frame (fuel_for bs) ts fd bs.
Proof. intros H. unfold fuel_for. apply read_frame_fuel_indep; lia. Qed.

(* ---------- C13: an unknown frame is skipped whole ---------- *)
Definition unknown_frame (t : N) (p : bytes) : bytes := enc t ++ enc (len p) ++ p.

Lemma unknown_frame_pos t p : (0 < length (unknown_frame t p))%nat.
Proof.
  unfold unknown_frame. rewrite app_length, enc_length.
  destruct (vsize_pos t) as [k ->]. lia.
Qed.

Lemma frame_read_unknown t p rest :
  fkind_parse t = None -> t <= varint_max -> len p <= varint_max ->
  frame_read (unknown_frame t p ++ rest) = (RErr PUnknown, rest).
Proof.
  intros Hk Ht Hp. unfold frame_read, unknown_frame.
  rewrite <- !app_assoc, (get_enc _ _ Ht), Hk, (get_enc _ _ Hp), get_bytes_n_app. reflexivity.
Qed.

Theorem read_frame_skips_unknown ts fd t p rest :
  fkind_parse t = None -> t <= varint_max -> len p <= varint_max ->
  read_frame (fuel_for (unknown_frame t p ++ rest)) ts fd (unknown_frame t p ++ rest)
  = read_frame (fuel_for rest) ts fd rest.
Proof.
  intros Hk Ht Hp. unfold fuel_for at 1. cbn [read_frame].
  rewrite (frame_read_unknown _ _ _ Hk Ht Hp).
  apply read_frame_any_fuel. rewrite app_length. pose proof (unknown_frame_pos t p). lia.
Qed.

(* the same on the async path, for every terminal *)
Lemma read_frame_async_fuel_indep n : forall m ts fd d t, (length d < n)%nat -> (length d < m)%nat ->
  read_frame_async n ts fd d t = read_frame_async m ts fd d t /\ read_frame_async n ts fd d t <> ATOutOfFuel.
Proof.
  induction n as [|n IH]; intros m ts fd d t Hn Hm; [lia|].
  destruct m as [|m]; [lia|]. cbn [read_frame_async].
  pose proof (frame_async_agrees d t) as A.
  destruct (frame_read d) as [[f| |e] r] eqn:E.
  - rewrite A. destruct (validate ts fd f) as [fd' [e|]]; split; congruence.
  - rewrite A. destruct (eof_err t (is_nil d)); split; congruence.
  - rewrite A. destruct e; try (split; congruence).
    pose proof (frame_read_progress _ _ _ E ltac:(discriminate)) as P.
    apply IH; lia.
Qed.

Theorem read_frame_async_terminates ts fd d t : read_frame_async (fuel_for d) ts fd d t <> ATOutOfFuel.
Proof. unfold fuel_for. apply (read_frame_async_fuel_indep _ (S (length d))); lia. Qed.

Theorem read_frame_async_skips_unknown ts fd t p rest tm :
  fkind_parse t = None -> t <= varint_max -> len p <= varint_max ->
  read_frame_async (fuel_for (unknown_frame t p ++ rest)) ts fd (unknown_frame t p ++ rest) tm
  = read_frame_async (fuel_for rest) ts fd rest tm.
Proof.
  intros Hk Ht Hp. unfold fuel_for at 1. cbn [read_frame_async].
  pose proof (frame_async_agrees (unknown_frame t p ++ rest) tm) as A.
  rewrite (frame_read_unknown _ _ _ Hk Ht Hp) in A. rewrite A.
  pose proof (unknown_frame_pos t p).
  unfold fuel_for. apply read_frame_async_fuel_indep; rewrite ?app_length; lia.
Qed.

(* ---------- whole exchanges: insertions at frame boundaries are invisible ---------- *)
Inductive item := IFrame (f : frame) | IUnknown (t : N) (p : bytes).

Definition item_ok (i : item) : bool :=
  match i with
  | IFrame f => frame_wf f && (len (fpayload f) <=? max_parse_payload)
  | IUnknown t p => match fkind_parse t with None => true | Some _ => false end
                    && (t <=? varint_max) && (len p <=? varint_max)
  end.
Definition enc_item (i : item) : bytes :=
  match i with IFrame f => frame_write f | IUnknown t p => unknown_frame t p end.
Fixpoint enc_items (l : list item) : bytes :=
  match l with [] => [] | i :: r => enc_item i ++ enc_items r end.
Definition is_known (i : item) : bool := match i with IFrame _ => true | IUnknown _ _ => false end.

(* all frames obtained by calling read_frame again and again, and how it ends *)
Inductive ending := EndNeedMore | EndErr (e : ecode) | EndOutOfFuel.
Fixpoint frames_of (calls : nat) (ts : tstate) (fd : bool) (bs : bytes) : list frame * ending :=
  match calls with
  | O => ([], EndOutOfFuel)
  | S k =>
      match read_frame (fuel_for bs) ts fd bs with
      | TFrame f r fd' => let (fs, e) := frames_of k ts fd' r in (f :: fs, e)
      | TNeedMore _ _ => ([], EndNeedMore)
      | TErr e _ _ => ([], EndErr e)
      | TOutOfFuel => ([], EndOutOfFuel)
      end
  end.

Lemma read_frame_progress fuel : forall ts fd bs f r fd',
  read_frame fuel ts fd bs = TFrame f r fd' -> (length r < length bs)%nat.
Proof.
  induction fuel as [|n IH]; intros ts fd bs f r fd'; [discriminate|].
  cbn [read_frame]. destruct (frame_read bs) as [[g| |e] r0] eqn:E.
  - pose proof (frame_read_progress _ _ _ E ltac:(discriminate)) as P.
    destruct (validate ts fd g) as [fd2 [e|]]; [discriminate|]. intros [= <- <- <-]. exact P.
  - discriminate.
  - destruct e; try discriminate.
    pose proof (frame_read_progress _ _ _ E ltac:(discriminate)) as P.
    intros H. apply IH in H. lia.
Qed.

Lemma frames_of_fuel_indep n : forall m ts fd bs, (length bs < n)%nat -> (length bs < m)%nat ->
  frames_of n ts fd bs = frames_of m ts fd bs /\ snd (frames_of n ts fd bs) <> EndOutOfFuel.
Proof.
  induction n as [|n IH]; intros m ts fd bs Hn Hm; [lia|].
  destruct m as [|m]; [lia|]. cbn [frames_of].
  destruct (read_frame (fuel_for bs) ts fd bs) as [f r fd'| | |] eqn:E.
  - pose proof (read_frame_progress _ _ _ _ _ _ _ E) as P.
    destruct (IH m ts fd' r ltac:(lia) ltac:(lia)) as [I1 I2].
    rewrite <- I1. destruct (frames_of n ts fd' r) as [fs e]. cbn in *. split; [reflexivity|exact I2].
  - split; [reflexivity|discriminate].
  - split; [reflexivity|discriminate].
  - exfalso. exact (read_frame_terminates _ _ _ E).
Qed.

Definition all_frames (ts : tstate) (bs : bytes) : list frame * ending :=
  frames_of (S (length bs)) ts false bs.

Lemma frames_of_enough n ts fd bs : (length bs < n)%nat ->
  frames_of n ts fd bs = frames_of (S (length bs)) ts fd bs.
Proof. intros H. apply frames_of_fuel_indep; lia. Qed.

Lemma frames_of_skip_unknown n ts fd t p rest :
  fkind_parse t = None -> t <= varint_max -> len p <= varint_max ->
  (length (unknown_frame t p ++ rest) < n)%nat ->
  frames_of n ts fd (unknown_frame t p ++ rest) = frames_of (S (length rest)) ts fd rest.
Proof.
  intros Hk Ht Hp Hn. destruct n as [|n]; [lia|].
  cbn [frames_of]. rewrite (read_frame_skips_unknown _ _ _ _ _ Hk Ht Hp).
  destruct (read_frame (fuel_for rest) ts fd rest) as [f r fd'| | |] eqn:E; try reflexivity.
  pose proof (read_frame_progress _ _ _ _ _ _ _ E) as P.
  rewrite (frames_of_enough n) by (rewrite app_length in Hn; lia).
  rewrite (frames_of_enough (length rest)) by lia. reflexivity.
Qed.

Lemma frames_of_known_step n ts fd f rest : frame_wf f = true -> len (fpayload f) <= max_parse_payload ->
  (length (frame_write f ++ rest) < n)%nat ->
  frames_of n ts fd (frame_write f ++ rest) =
  match validate ts fd f with
  | (fd', None) => let (fs, e) := frames_of (S (length rest)) ts fd' rest in (f :: fs, e)
  | (_, Some e) => ([], EndErr e)
  end.
Proof.
  intros Hwf Hl Hn. destruct n as [|n]; [lia|]. cbn [frames_of]. unfold fuel_for at 1. cbn [read_frame].
  rewrite (frame_read_write f rest Hwf Hl).
  destruct (validate ts fd f) as [fd' [e|]]; [reflexivity|].
  rewrite (frames_of_enough n); [reflexivity|]. rewrite app_length in Hn.
  pose proof (frame_write_length f). destruct (frame_write f) eqn:W.
  - exfalso. unfold frame_write in W. destruct (fk f), (fsid f);
      apply (f_equal (@length N)) in W; rewrite ?app_length, enc_length in W;
      destruct (vsize_pos (fkind_id (fk f))) as [k Hk]; cbn [fk] in *; cbn in W; try lia;
      match goal with H : context [vsize ?x] |- _ => destruct (vsize_pos x) as [k' Hk']; lia end.
  - cbn [length] in Hn. lia.
Qed.

Theorem insertions_invisible ts : forall items fd tail,
  forallb item_ok items = true ->
  frames_of (S (length (enc_items items ++ tail))) ts fd (enc_items items ++ tail)
  = frames_of (S (length (enc_items (filter is_known items) ++ tail))) ts fd
              (enc_items (filter is_known items) ++ tail).
Proof.
  induction items as [|i items IH]; intros fd tail Hok; [reflexivity|].
  cbn [forallb] in Hok. apply andb_prop in Hok. destruct Hok as [Hi Hok].
  destruct i as [f|t p]; cbn [filter is_known enc_items enc_item].
  - cbn [item_ok] in Hi. apply andb_prop in Hi. destruct Hi as [Hwf Hl]. apply N.leb_le in Hl.
    rewrite <- !app_assoc.
    rewrite (frames_of_known_step _ ts fd f _ Hwf Hl) by lia.
    rewrite (frames_of_known_step _ ts fd f _ Hwf Hl) by lia.
    destruct (validate ts fd f) as [fd' [e|]]; [reflexivity|].
    rewrite (IH fd' tail Hok). reflexivity.
  - cbn [item_ok] in Hi. apply andb_prop in Hi. destruct Hi as [Hi Hp]. apply andb_prop in Hi.
    destruct Hi as [Hk Ht]. apply N.leb_le in Hp, Ht.
    destruct (fkind_parse t) eqn:EK; [discriminate|].
    rewrite <- !app_assoc.
    rewrite (frames_of_skip_unknown _ ts fd t p _ EK Ht Hp) by lia.
    apply IH. exact Hok.
Qed.

(* ---------- C15: the three paths of a typestate agree ---------- *)
(* strip the complete unknown frames at the front: where the next Frame::read starts *)
Fixpoint after_unknowns (fuel : nat) (bs : bytes) : bytes :=
  match fuel with
  | O => bs
  | S k => match frame_read bs with
           | (RErr PUnknown, r) => after_unknowns k r
           | _ => bs
           end
  end.

Theorem read_frame_paths_agree n : forall ts fd bs t, (length bs < n)%nat ->
  match read_frame n ts fd bs with
  | TFrame f r fd' => read_frame_async n ts fd bs t = ATFrame f r fd'
  | TErr e r fd' => read_frame_async n ts fd bs t = ATH3 e r fd'
  | TNeedMore _ fd' =>
      fd' = fd /\
      read_frame_async n ts fd bs t =
        match eof_err t (is_nil (after_unknowns n bs)) with
        | UnexpectedFin => ATH3 EFrame [] fd
        | e => ATIo e [] fd
        end
  | TOutOfFuel => False
  end.
Proof.
  induction n as [|n IH]; intros ts fd bs t Hn; [lia|].
  cbn [read_frame read_frame_async after_unknowns].
  pose proof (frame_async_agrees bs t) as A.
  destruct (frame_read bs) as [[f| |e] r] eqn:E.
  - rewrite A. destruct (validate ts fd f) as [fd' [e|]]; reflexivity.
  - rewrite A. split; [reflexivity|]. destruct (eof_err t (is_nil bs)); reflexivity.
  - rewrite A. destruct e; try reflexivity.
    pose proof (frame_read_progress _ _ _ E ltac:(discriminate)) as P.
    apply IH. lia.
Qed.

(* buffered path: by definition the offset moves only when a frame is returned *)
Theorem read_frame_from_buffer_offset ts fd buf off :
  match read_frame_from_buffer ts fd buf off with
  | BFrame _ o _ => (off <= length buf -> off < o <= length buf)%nat
  | BNeedMore o _ => o = off
  | BErr _ o _ => o = off
  | BOutOfFuel => False
  end.
Proof.
  unfold read_frame_from_buffer.
  destruct (read_frame (fuel_for (skipn off buf)) ts fd (skipn off buf)) as [f r fd'| | |] eqn:E; auto.
  - intros Ho. pose proof (read_frame_progress _ _ _ _ _ _ _ E) as P.
    rewrite skipn_length in P. lia.
  - exact (read_frame_terminates _ _ _ E).
Qed.

Theorem read_frame_from_buffer_same ts fd buf off :
  match read_frame_from_buffer ts fd buf off, read_frame (fuel_for (skipn off buf)) ts fd (skipn off buf) with
  | BFrame f o fd1, TFrame g r fd2 => f = g /\ fd1 = fd2 /\ o = (length buf - length r)%nat
  | BNeedMore _ fd1, TNeedMore _ fd2 => fd1 = fd2
  | BErr e _ fd1, TErr e' _ fd2 => e = e' /\ fd1 = fd2
  | BOutOfFuel, TOutOfFuel => True
  | _, _ => False
  end.
Proof.
  unfold read_frame_from_buffer.
  destruct (read_frame (fuel_for (skipn off buf)) ts fd (skipn off buf)); auto.
Qed.

(* ---------- the pre-repair loop re-read a skipped frame's length and payload ---------- *)
Theorem legacy_unknown_frame_refuted :
  exists ts t p rest,
    fkind_parse t = None /\
    read_frame_legacy (fuel_for (unknown_frame t p ++ rest)) ts false (unknown_frame t p ++ rest)
    <> read_frame_legacy (fuel_for rest) ts false rest.
Proof.
  exists TUniRemote, 7, [0], [4; 0]. split; [reflexivity|]. vm_compute. discriminate.
Qed.
