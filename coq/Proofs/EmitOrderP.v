(* EmitOrderP.v -- order and representation of emitted field sections (C16):
   pseudo-header fields precede all regular fields; every field line is a
   static-table reference or a literal. *)
From WT.Model Require Import Base Varint Ids Frame Wire HuffmanTable StaticTable Qpack.
From WT.Proofs Require Import VarintP FrameP QpackP HuffmanP QpackRT.
From Coq Require Import Lia.
Local Open Scope N_scope.

(* no pseudo-header after a regular field; [seen] = a regular field has been passed *)
Fixpoint pfirst (seen : bool) (l : hmap) : bool :=
  match l with
  | [] => true
  | (k, _) :: r => if is_pseudo k then negb seen && pfirst seen r else pfirst true r
  end.

Lemma pfirst_true_hins p l : is_pseudo (fst p) = false -> pfirst true l = true -> pfirst true (hins p l) = true.
Proof.
  destruct p as [k v]. cbn [fst]. intros Hp. induction l as [|[k' v'] r IH]; intros H.
  - cbn. rewrite Hp. reflexivity.
  - cbn [hins]. destruct (field_leb (k, v) (k', v')).
    + cbn [pfirst]. rewrite Hp. exact H.
    + cbn [pfirst] in *. destruct (is_pseudo k'); [discriminate|]. exact (IH H).
Qed.

Lemma pfirst_hins p l : pfirst false l = true -> pfirst false (hins p l) = true.
Proof.
  destruct p as [k v]. induction l as [|[k' v'] r IH]; intros H.
  - cbn. destruct (is_pseudo k); reflexivity.
  - cbn [hins]. destruct (field_leb (k, v) (k', v')) eqn:E.
    + cbn [pfirst] in *. destruct (is_pseudo k) eqn:Pk; [exact H|].
      unfold field_leb in E. cbn [fst] in E. rewrite Pk in E.
      destruct (is_pseudo k'); [discriminate|]. exact H.
    + cbn [pfirst] in *. destruct (is_pseudo k') eqn:Pk'.
      * cbn [negb andb] in *. exact (IH H).
      * unfold field_leb in E. cbn [fst] in E. rewrite Pk' in E.
        destruct (is_pseudo k) eqn:Pk; [discriminate|].
        apply (pfirst_true_hins (k, v)); [exact Pk|exact H].
Qed.

Theorem sorted_headers_pseudo_first m : pfirst false (sorted_headers m) = true.
Proof.
  unfold sorted_headers. induction m as [|p m IH]; [reflexivity|].
  cbn [fold_right]. apply pfirst_hins. exact IH.
Qed.

(* the representation of every emitted field line, read off its first byte (RFC 9204 4.5):
   1 T=1 ...  indexed, static;  01 N T=1 ...  literal with static name reference;  001 ...  literal *)
Definition static_or_literal (b : N) : bool :=
  match field_line_type b with
  | FIndexed => negb (N.land b 64 =? 0)
  | FLiteralRefName => negb (N.land b 16 =? 0)
  | FLiteralLitName => true
  | _ => false
  end.

Theorem enc_field_static_or_literal kv : exists b r, enc_field kv = b :: r /\ static_or_literal b = true.
Proof.
  destruct kv as [k v]. unfold enc_field. destruct (lookup_index k v) as [i|i|].
  - destruct (enc_int_head 6 3 i) as (b & r & E & B1 & B2); [cbn; auto 10|vm_compute; reflexivity|].
    destruct (first_byte b B1) as (F1 & _ & _). destruct (F1 B2) as [T L].
    exists b, r. split; [exact E|]. unfold static_or_literal. rewrite T, L. reflexivity.
  - destruct (enc_int_head 4 5 i) as (b & r & E & B1 & B2); [cbn; auto 10|vm_compute; reflexivity|].
    destruct (first_byte b B1) as (_ & F2 & _). destruct (F2 B2) as [T L].
    exists b, (r ++ enc_str 7 0 v). rewrite E. split; [reflexivity|]. unfold static_or_literal. rewrite T, L. reflexivity.
  - destruct (enc_str_head k) as (b & r & E & T).
    exists b, (r ++ enc_str 7 0 v). rewrite E. split; [reflexivity|]. unfold static_or_literal. rewrite T. reflexivity.
Qed.
