(* QpackP.v -- proofs about Model/Qpack.v: prefix integers (round trip, no
   silent wrap, totality), static table soundness, table consistency. *)
From WT.Model Require Import Base Varint Ids Frame Wire HuffmanTable StaticTable Qpack.
From WT.Proofs Require Import VarintP FrameP.
From Coq Require Import Lia ZArith ZifyBool ZifyNat ZifyN.
Ltac Zify.zify_post_hook ::= Z.to_euclidean_division_equations.

(* the literal code table is the numeric table with the bits written out *)
Lemma huff_codes_consistent : huff_codes = huff_codes_computed.
Proof. vm_compute. reflexivity. Qed.

Lemma huff_table_length : length huff_table = 257%nat /\ length static_table = 99%nat.
Proof. split; reflexivity. Qed.

(* ---------- list_eqb ---------- *)
Lemma list_eqb_eq a : forall b, list_eqb a b = true <-> a = b.
Proof.
  induction a as [|x a IH]; intros [|y b]; cbn [list_eqb]; split; try congruence; try discriminate.
  - intros H. apply andb_prop in H. destruct H as [H1 H2]. apply N.eqb_eq in H1. apply IH in H2. congruence.
  - intros [= -> ->]. rewrite N.eqb_refl. apply IH. reflexivity.
Qed.

(* ---------- static table soundness (generic in the table) ---------- *)
Lemma lookup_index_from_sound t : forall i k v,
  match lookup_index_from i t k v with
  | LKeyValue j => exists d, j = i + N.of_nat d /\ nth_error t d = Some (k, v)
  | LKeyOnly j => exists d v', j = i + N.of_nat d /\ nth_error t d = Some (k, v')
  | LNone => forall d kv, nth_error t d = Some kv -> fst kv <> k
  end.
Proof.
  induction t as [|[k' v'] t IH]; intros i k v; cbn [lookup_index_from].
  - intros d kv H. destruct d; discriminate.
  - destruct (list_eqb k k') eqn:EK.
    + apply list_eqb_eq in EK. subst k'. destruct (list_eqb v v') eqn:EV.
      * apply list_eqb_eq in EV. subst v'. exists 0%nat. split; [lia|reflexivity].
      * exists 0%nat, v'. split; [lia|reflexivity].
    + specialize (IH (i + 1) k v). destruct (lookup_index_from (i + 1) t k v).
      * destruct IH as (d & -> & H). exists (S d). split; [lia|exact H].
      * destruct IH as (d & w & -> & H). exists (S d), w. split; [lia|exact H].
      * intros d kv H. destruct d as [|d].
        -- cbn in H. injection H as <-. cbn. intros ->.
           assert (list_eqb k k = true) by (apply list_eqb_eq; reflexivity). congruence.
        -- cbn in H. exact (IH d kv H).
Qed.

Theorem lookup_index_sound k v :
  match lookup_index k v with
  | LKeyValue i => lookup_field i = Some (k, v)
  | LKeyOnly i => exists v', lookup_field i = Some (k, v')
  | LNone => True
  end.
Proof.
  unfold lookup_index. pose proof (lookup_index_from_sound static_table 0 k v) as H.
  destruct (lookup_index_from 0 static_table k v).
  - destruct H as (d & -> & H). unfold lookup_field.
    assert (L : (d < length static_table)%nat) by (apply nth_error_Some; congruence).
    assert (E : (0 + N.of_nat d <? N.of_nat (length static_table)) = true) by (apply N.ltb_lt; lia).
    rewrite E. replace (N.to_nat (0 + N.of_nat d)) with d by lia. exact H.
  - destruct H as (d & w & -> & H). exists w. unfold lookup_field.
    assert (L : (d < length static_table)%nat) by (apply nth_error_Some; congruence).
    assert (E : (0 + N.of_nat d <? N.of_nat (length static_table)) = true) by (apply N.ltb_lt; lia).
    rewrite E. replace (N.to_nat (0 + N.of_nat d)) with d by lia. exact H.
  - exact I.
Qed.

Lemma lookup_index_bound k v :
  match lookup_index k v with
  | LKeyValue i | LKeyOnly i => i < 99
  | LNone => True
  end.
Proof.
  pose proof (lookup_index_sound k v) as H. destruct (lookup_index k v) as [i|i|]; auto.
  - unfold lookup_field in H. destruct (i <? N.of_nat (length static_table)) eqn:E; [|discriminate].
    apply N.ltb_lt in E. change (length static_table) with 99%nat in E. lia.
  - destruct H as [w H]. unfold lookup_field in H.
    destruct (i <? N.of_nat (length static_table)) eqn:E; [|discriminate].
    apply N.ltb_lt in E. change (length static_table) with 99%nat in E. lia.
Qed.

(* ---------- prefix integers: decoder totality ---------- *)
Lemma dec_int_rest_total fuel : forall value power bs, (length bs < fuel)%nat ->
  match dec_int_rest fuel value power bs with
  | Val (v, r) => (length r < length bs)%nat /\ v < two64
  | Err _ => True
  | _ => False
  end.
Proof.
  induction fuel as [|fuel IH]; intros value power bs Hf; [lia|].
  cbn [dec_int_rest]. destruct bs as [|b r]; [exact I|].
  destruct (64 <=? power); [exact I|].
  destruct (negb _); [exact I|].
  destruct (two64 <=? value + (N.land b 127 * 2 ^ power) mod two64) eqn:E; [exact I|].
  apply N.leb_gt in E.
  destruct (N.land b 128 =? 0).
  - cbn [length]. split; [lia|exact E].
  - cbn [length] in Hf. specialize (IH (value + (N.land b 127 * 2 ^ power) mod two64) (power + 7) r ltac:(lia)).
    destruct (dec_int_rest fuel _ _ r) as [[v r']| | | |]; auto. cbn [length]. lia.
Qed.

Lemma land_mask_le b n : N.land b (2 ^ n - 1) <= 2 ^ n - 1.
Proof.
  replace (2 ^ n - 1) with (N.ones n) by (rewrite N.ones_equiv; lia).
  rewrite N.land_ones. pose proof (N.mod_lt b (2 ^ n) ltac:(apply N.pow_nonzero; lia)).
  rewrite N.ones_equiv. lia.
Qed.

Lemma pow2_le_256 n : n <= 8 -> 2 ^ n <= 256.
Proof. intros H. change 256 with (2 ^ 8). apply N.pow_le_mono_r; lia. Qed.

Theorem dec_int_total n bs : n <= 8 ->
  match dec_int n bs with
  | Val (_, v, r) => (length r < length bs)%nat /\ v < two64
  | Err _ => True
  | _ => False
  end.
Proof.
  intros Hn. unfold dec_int. destruct bs as [|b r]; [exact I|].
  destruct (negb (N.land b (2 ^ n - 1) =? 2 ^ n - 1)) eqn:E.
  - cbn [length]. split; [lia|].
    pose proof (land_mask_le b n). pose proof (pow2_le_256 n Hn). unfold two64. lia.
  - pose proof (dec_int_rest_total (S (length r)) (N.land b (2 ^ n - 1)) 0 r ltac:(lia)) as T.
    destruct (dec_int_rest (S (length r)) _ 0 r) as [[v r']| | | |]; auto. cbn [length]. lia.
Qed.

(* ---------- prefix integers: no silent wrap ---------- *)
Lemma two64_split p : p < 64 -> two64 = 2 ^ (64 - p) * 2 ^ p.
Proof. intros H. rewrite <- N.pow_add_r. replace (64 - p + p) with 64 by lia. reflexivity. Qed.

(* the checked shift: if no bit was lost then the product did not leave 64 bits *)
Lemma shl_check c p : p < 64 -> ((c * 2 ^ p) mod two64) / 2 ^ p = c ->
  c * 2 ^ p < two64 /\ (c * 2 ^ p) mod two64 = c * 2 ^ p.
Proof.
  intros Hp H. rewrite (two64_split p Hp) in *.
  assert (HP : 2 ^ p <> 0) by (apply N.pow_nonzero; lia).
  assert (HQ : 2 ^ (64 - p) <> 0) by (apply N.pow_nonzero; lia).
  rewrite N.mul_mod_distr_r in H by assumption.
  rewrite N.div_mul in H by assumption.
  assert (Hc : c < 2 ^ (64 - p)) by (rewrite <- H; apply N.mod_lt; assumption).
  split.
  - apply N.mul_lt_mono_pos_r; [lia|exact Hc].
  - rewrite N.mul_mod_distr_r by assumption. rewrite N.mod_small by exact Hc. reflexivity.
Qed.

Fixpoint groups_val (power : N) (p : bytes) : N :=
  match p with
  | [] => 0
  | b :: r => N.land b 127 * 2 ^ power + groups_val (power + 7) r
  end.

(* whatever integer the decoder returns IS the mathematical value of the bytes
   it consumed (a too large one is an error, never a wrapped value) *)
Theorem dec_int_rest_exact fuel : forall value power bs v r,
  dec_int_rest fuel value power bs = Val (v, r) ->
  exists p, bs = p ++ r /\ p <> [] /\ v = value + groups_val power p /\ v < two64.
Proof.
  induction fuel as [|fuel IH]; intros value power bs v r; [discriminate|].
  cbn [dec_int_rest]. destruct bs as [|b t]; [discriminate|].
  destruct (64 <=? power) eqn:EP; [discriminate|]. apply N.leb_gt in EP.
  destruct (negb ((N.land b 127 * 2 ^ power) mod two64 / 2 ^ power =? N.land b 127)) eqn:EL; [discriminate|].
  apply Bool.negb_false_iff in EL. apply N.eqb_eq in EL.
  destruct (shl_check _ _ EP EL) as [S1 S2]. rewrite S2.
  destruct (two64 <=? value + N.land b 127 * 2 ^ power) eqn:EO; [discriminate|]. apply N.leb_gt in EO.
  destruct (N.land b 128 =? 0).
  - intros [= <- <-]. exists [b]. cbn [groups_val app]. repeat split; try discriminate; lia.
  - intros H. destruct (IH _ _ _ _ _ H) as (p & -> & Hp & -> & Hv).
    exists (b :: p). cbn [groups_val app]. repeat split; try discriminate; lia.
Qed.

(* ---------- prefix integers: round trip ---------- *)
Lemma land127 x : N.land x 127 = x mod 128.
Proof. change 127 with (N.ones 7). apply N.land_ones. Qed.
Lemma land128_cont x : x < 128 -> N.land (x + 128) 128 =? 0 = false.
Proof.
  intros H.
  assert (S : forallb (fun x => negb (N.land (x + 128) 128 =? 0)) (map N.of_nat (seq 0 128)) = true) by (vm_compute; reflexivity).
  rewrite forallb_forall in S.
  assert (Hin : In x (map N.of_nat (seq 0 128))).
  { apply in_map_iff. exists (N.to_nat x). split; [lia|]. apply in_seq. lia. }
  specialize (S x Hin). apply Bool.negb_true_iff in S. exact S.
Qed.
Lemma land128_last x : x < 128 -> N.land x 128 =? 0 = true.
Proof.
  intros H.
  assert (S : forallb (fun x => N.land x 128 =? 0) (map N.of_nat (seq 0 128)) = true) by (vm_compute; reflexivity).
  rewrite forallb_forall in S. apply S. apply in_map_iff. exists (N.to_nat x). split; [lia|]. apply in_seq. lia.
Qed.

Lemma pow_split power : 2 ^ (power + 7) = 128 * 2 ^ power.
Proof. rewrite N.pow_add_r. change (2 ^ 7) with 128. lia. Qed.

Lemma dec_enc_rest f1 : forall rem f2 value power tail,
  rem < 128 ^ N.of_nat (S f1) -> power < 64 -> value + rem * 2 ^ power < two64 ->
  (length (enc_int_rest (S f1) rem ++ tail) < f2)%nat ->
  dec_int_rest f2 value power (enc_int_rest (S f1) rem ++ tail) = Val (value + rem * 2 ^ power, tail).
Proof.
  induction f1 as [|f1 IH]; intros rem f2 value power tail Hr Hp Hv Hf;
    cbn [enc_int_rest] in *; destruct (128 <=? rem) eqn:E.
  - apply N.leb_le in E. change (128 ^ N.of_nat 1) with 128 in Hr. lia.
  - apply N.leb_gt in E. destruct f2 as [|f2]; [exfalso; exact (Nat.nlt_0_r _ Hf)|].
    cbn [app dec_int_rest].
    assert (Hp2 : (64 <=? power) = false) by (apply N.leb_gt; exact Hp). rewrite Hp2.
    rewrite land127, (N.mod_small rem 128 E).
    assert (HP : 2 ^ power <> 0) by (apply N.pow_nonzero; lia).
    assert (Hsm : (rem * 2 ^ power) mod two64 = rem * 2 ^ power) by (apply N.mod_small; lia).
    rewrite Hsm, N.div_mul by exact HP. rewrite N.eqb_refl. cbn [negb].
    assert (Ho : (two64 <=? value + rem * 2 ^ power) = false) by (apply N.leb_gt; lia).
    rewrite Ho, (land128_last _ E). reflexivity.
  - apply N.leb_le in E. destruct f2 as [|f2]; [exfalso; exact (Nat.nlt_0_r _ Hf)|].
    cbn [app dec_int_rest].
    assert (Hp2 : (64 <=? power) = false) by (apply N.leb_gt; exact Hp). rewrite Hp2.
    assert (Hm : rem mod 128 < 128) by (apply N.mod_lt; lia).
    rewrite land127.
    replace ((rem mod 128 + 128) mod 128) with (rem mod 128) by lia.
    assert (HP : 2 ^ power <> 0) by (apply N.pow_nonzero; lia).
    assert (Hle : rem mod 128 * 2 ^ power <= rem * 2 ^ power) by (apply N.mul_le_mono_r; lia).
    assert (Hsm : (rem mod 128 * 2 ^ power) mod two64 = rem mod 128 * 2 ^ power) by (apply N.mod_small; lia).
    rewrite Hsm, N.div_mul by exact HP. rewrite N.eqb_refl. cbn [negb].
    assert (Ho : (two64 <=? value + rem mod 128 * 2 ^ power) = false) by (apply N.leb_gt; lia).
    rewrite Ho, (land128_cont _ Hm).
    assert (Hq : rem / 128 * 2 ^ (power + 7) = 128 * (rem / 128) * 2 ^ power) by (rewrite pow_split; lia).
    assert (Hge : 2 ^ (power + 7) <= rem * 2 ^ power).
    { rewrite pow_split. apply N.mul_le_mono_r. exact E. }
    assert (Hp7 : power + 7 < 64).
    { apply (N.pow_lt_mono_r_iff 2); [lia|]. change (2 ^ 64) with two64. lia. }
    assert (Hsum : rem * 2 ^ power = 128 * (rem / 128) * 2 ^ power + rem mod 128 * 2 ^ power).
    { rewrite <- N.mul_add_distr_r. f_equal. apply N.div_mod. lia. }
    change (enc_int_rest (S f1) (rem / 128)) with (enc_int_rest (S f1) (rem / 128)).
    rewrite IH.
    + f_equal. f_equal. rewrite Hq. lia.
    + rewrite (Nat2N.inj_succ (S f1)), N.pow_succ_r' in Hr. lia.
    + exact Hp7.
    + rewrite Hq. lia.
    + cbn [app length] in Hf. lia.
  - apply N.leb_gt in E. destruct f2 as [|f2]; [exfalso; exact (Nat.nlt_0_r _ Hf)|].
    cbn [app dec_int_rest].
    assert (Hp2 : (64 <=? power) = false) by (apply N.leb_gt; exact Hp). rewrite Hp2.
    rewrite land127, (N.mod_small rem 128 E).
    assert (HP : 2 ^ power <> 0) by (apply N.pow_nonzero; lia).
    assert (Hsm : (rem * 2 ^ power) mod two64 = rem * 2 ^ power) by (apply N.mod_small; lia).
    rewrite Hsm, N.div_mul by exact HP. rewrite N.eqb_refl. cbn [negb].
    assert (Ho : (two64 <=? value + rem * 2 ^ power) = false) by (apply N.leb_gt; lia).
    rewrite Ho, (land128_last _ E). reflexivity.
Qed.

(* lor of the flag bits and a value below the mask: disjoint bits, for n = 1..8 *)
Lemma lor_flags_sweep :
  forallb (fun n => forallb (fun fl => forallb (fun v =>
      let b := N.lor ((fl * 2 ^ n) mod 256) v in
      ((b / 2 ^ n) mod 256 =? fl mod 2 ^ (8 - n)) && (N.land b (2 ^ n - 1) =? v) && (b <? 256))
      (map N.of_nat (seq 0 (N.to_nat (2 ^ n)))))
      (map N.of_nat (seq 0 (N.to_nat (2 ^ (8 - n))))))
    [1; 2; 3; 4; 5; 6; 7; 8] = true.
Proof. vm_compute. reflexivity. Qed.

Lemma lor_flags n fl v : In n [1; 2; 3; 4; 5; 6; 7; 8] -> fl < 2 ^ (8 - n) -> v < 2 ^ n ->
  let b := N.lor ((fl * 2 ^ n) mod 256) v in
  (b / 2 ^ n) mod 256 = fl /\ N.land b (2 ^ n - 1) = v /\ b < 256.
Proof.
  intros Hn Hf Hv. pose proof lor_flags_sweep as S. rewrite forallb_forall in S.
  specialize (S n Hn). rewrite forallb_forall in S.
  assert (Hin1 : In fl (map N.of_nat (seq 0 (N.to_nat (2 ^ (8 - n)))))).
  { apply in_map_iff. exists (N.to_nat fl). split; [lia|]. apply in_seq. lia. }
  specialize (S fl Hin1). rewrite forallb_forall in S.
  assert (Hin2 : In v (map N.of_nat (seq 0 (N.to_nat (2 ^ n))))).
  { apply in_map_iff. exists (N.to_nat v). split; [lia|]. apply in_seq. lia. }
  specialize (S v Hin2). cbv zeta in S.
  apply andb_prop in S. destruct S as [S S3]. apply andb_prop in S. destruct S as [S1 S2].
  apply N.eqb_eq in S1, S2. apply N.ltb_lt in S3. cbv zeta.
  rewrite (N.mod_small fl) in S1 by exact Hf. auto.
Qed.

Lemma enc_int_rest_length f rem : (length (enc_int_rest f rem) <= f)%nat.
Proof.
  revert rem. induction f as [|f IH]; intros rem; cbn [enc_int_rest]; [cbn; lia|].
  destruct (128 <=? rem); cbn [length]; [specialize (IH (rem / 128)); lia|lia].
Qed.

Theorem dec_enc_int n fl v tail :
  In n [1; 2; 3; 4; 5; 6; 7; 8] -> fl < 2 ^ (8 - n) -> v < two64 ->
  dec_int n (enc_int n fl v ++ tail) = Val (fl, v, tail).
Proof.
  intros Hn Hf Hv. unfold enc_int, dec_int.
  assert (Hpow : 0 < 2 ^ n) by (apply N.neq_0_lt_0; apply N.pow_nonzero; lia).
  destruct (v <? 2 ^ n - 1) eqn:E.
  - apply N.ltb_lt in E. cbn [app].
    destruct (lor_flags n fl v Hn Hf ltac:(lia)) as (L1 & L2 & L3). cbv zeta in L1, L2.
    rewrite L1, L2.
    assert (Hne : negb (v =? 2 ^ n - 1) = true) by (apply Bool.negb_true_iff; apply N.eqb_neq; lia).
    rewrite Hne. reflexivity.
  - apply N.ltb_ge in E. cbn [app].
    destruct (lor_flags n fl (2 ^ n - 1) Hn Hf ltac:(lia)) as (L1 & L2 & L3). cbv zeta in L1, L2.
    rewrite L1, L2, N.eqb_refl. cbn [negb].
    pose proof (enc_int_rest_length 11 (v - (2 ^ n - 1))).
    rewrite (dec_enc_rest 10).
    + f_equal. f_equal. f_equal. rewrite N.pow_0_r. lia.
    + assert (HB : two64 <= 128 ^ N.of_nat 11) by (vm_compute; discriminate). lia.
    + lia.
    + rewrite N.pow_0_r. lia.
    + rewrite app_length in *. lia.
Qed.

(* ---------- the pre-repair decoder: panic with overflow checks, silently wrong without ---------- *)
Theorem dec_int_legacy_refuted :
  (* debug build: 10 continuation bytes => shift amount 70 => panic *)
  dec_int_rest_legacy true 20 63 0 ([128; 128; 128; 128; 128; 128; 128; 128; 128; 128] ++ [0]) = Panic /\
  (* release build: the group with power 63 loses its high bit: 2 * 2^63 wraps to 0 and the
     decoder returns 63 instead of reporting an overflow *)
  dec_int_rest_legacy false 20 63 0 ([128; 128; 128; 128; 128; 128; 128; 128; 128] ++ [2]) = Val (63, []) /\
  63 + groups_val 0 ([128; 128; 128; 128; 128; 128; 128; 128; 128] ++ [2]) <> 63 /\
  (* the repaired decoder refuses both *)
  dec_int_rest 20 63 0 ([128; 128; 128; 128; 128; 128; 128; 128; 128; 128] ++ [0]) = Err QIntegerOverflow /\
  dec_int_rest 20 63 0 ([128; 128; 128; 128; 128; 128; 128; 128; 128] ++ [2]) = Err QIntegerOverflow.
Proof. vm_compute. repeat split; try reflexivity. discriminate. Qed.

(* ---------- section decoder: total, never out of fuel ---------- *)
Lemma dec_str_total n bs : n <= 8 ->
  match dec_str n bs with
  | Val (_, r) => (length r < length bs)%nat
  | Err _ => True
  | _ => False
  end.
Proof.
  intros Hn. unfold dec_str. pose proof (dec_int_total n bs Hn) as T.
  destruct (dec_int n bs) as [[[fl l] r]| | | |]; auto.
  destruct T as [T _].
  destruct (get_bytes_n l r) as [[data r']|] eqn:E; [|exact I].
  destruct (get_bytes_n_split _ _ _ _ E) as [-> _].
  destruct (if N.odd fl then hdecode data else Some data); [|exact I].
  destruct (utf8_valid b); [|exact I]. rewrite app_length in T. lia.
Qed.

Lemma dec_fields_total fuel : forall bs m, (length bs < fuel)%nat ->
  match dec_fields fuel bs m with
  | Val _ => True | Err _ => True | _ => False
  end.
Proof.
  induction fuel as [|fuel IH]; intros bs m Hf; [lia|].
  cbn [dec_fields]. destruct bs as [|b t]; [exact I|].
  destruct (field_line_type b).
  - destruct (N.land b 64 =? 0); [exact I|].
    pose proof (dec_int_total 6 (b :: t) ltac:(lia)) as T. unfold lift.
    destruct (dec_int 6 (b :: t)) as [[[fl i] r]| | | |]; auto.
    destruct (lookup_field i) as [[k v]|]; [|exact I]. apply IH. cbn [length] in *. lia.
  - exact I.
  - destruct (N.land b 16 =? 0); [exact I|].
    pose proof (dec_int_total 4 (b :: t) ltac:(lia)) as T. unfold lift.
    destruct (dec_int 4 (b :: t)) as [[[fl i] r]| | | |]; auto.
    destruct (lookup_field i) as [[k v]|]; [|exact I].
    pose proof (dec_str_total 7 r ltac:(lia)) as T2.
    destruct (dec_str 7 r) as [[v' r']| | | |]; auto. apply IH. cbn [length] in *. lia.
  - exact I.
  - pose proof (dec_str_total 3 (b :: t) ltac:(lia)) as T. unfold lift.
    destruct (dec_str 3 (b :: t)) as [[k r]| | | |]; auto.
    pose proof (dec_str_total 7 r ltac:(lia)) as T2.
    destruct (dec_str 7 r) as [[v' r']| | | |]; auto. apply IH. cbn [length] in *. lia.
Qed.

Theorem qpack_decode_total bs :
  match qpack_decode bs with Val _ => True | Err _ => True | _ => False end.
Proof.
  unfold qpack_decode, lift.
  pose proof (dec_int_total 8 bs ltac:(lia)) as T1.
  destruct (dec_int 8 bs) as [[[f1 v1] r1]| | | |]; auto.
  pose proof (dec_int_total 7 r1 ltac:(lia)) as T2.
  destruct (dec_int 7 r1) as [[[f2 v2] r2]| | | |]; auto.
  apply dec_fields_total. lia.
Qed.

Theorem headers_with_frame_total bs :
  match headers_with_frame bs with Val _ => True | Err e => e = EDecompression | _ => False end.
Proof.
  unfold headers_with_frame. pose proof (qpack_decode_total bs) as T.
  destruct (qpack_decode bs); auto.
Qed.
