(* RunnerP.v -- proofs about Model/Runner.v: the session stream after
   establishment (C04), the control stream (C12/C13), stream admission. *)
From WT.Model Require Import Base Varint Ids Frame Async StreamTS Wire Qpack Session Runner.
From WT.Proofs Require Import VarintP FrameP AsyncP StreamTSP WireP.
From Coq Require Import Lia ZArith ZifyBool ZifyNat ZifyN.

(* one well-formed frame at the head of the stream, read through a typestate *)
Lemma read_frame_async_known ts fd f rest t :
  frame_wf f = true -> len (fpayload f) <= max_parse_payload ->
  read_frame_async (fuel_for (frame_write f ++ rest)) ts fd (frame_write f ++ rest) t =
  match validate ts fd f with
  | (fd', None) => ATFrame f rest fd'
  | (fd', Some e) => ATH3 e rest fd'
  end.
Proof.
  intros Hwf Hl. unfold fuel_for. cbn [read_frame_async].
  pose proof (frame_async_agrees (frame_write f ++ rest) t) as A.
  rewrite (frame_read_write f rest Hwf Hl) in A. rewrite A. reflexivity.
Qed.

(* ---------- the session stream (ConnectStream::run) ---------- *)
(* elements the session stream skips: unknown frames, GREASE frames, HEADERS
   frames, DATA frames whose payload is not a close capsule *)
Inductive sitem :=
| SUnknownFrame (t : N) (p : bytes)
| SFrame (f : frame).

Definition sitem_ok (i : sitem) : bool :=
  match i with
  | SUnknownFrame t p => match fkind_parse t with None => true | Some _ => false end
                         && (t <=? varint_max) && (len p <=? varint_max)
  | SFrame f => frame_wf f && (len (fpayload f) <=? max_parse_payload) &&
                match fk f with
                | KHeaders | KExercise _ => true
                | KData => match capsule_with_frame (fpayload f) with None => true | Some _ => false end
                | _ => false
                end
  end.
Definition enc_sitem (i : sitem) : bytes :=
  match i with SUnknownFrame t p => unknown_frame t p | SFrame f => frame_write f end.
Fixpoint enc_sitems (l : list sitem) : bytes :=
  match l with [] => [] | i :: r => enc_sitem i ++ enc_sitems r end.

Lemma connect_run_skip_item f i rest t : sitem_ok i = true ->
  connect_run (S f) (enc_sitem i ++ rest) t =
  match i with
  | SUnknownFrame _ _ => connect_run (S f) rest t
  | SFrame _ => connect_run f rest t
  end.
Proof.
  intros Hok. destruct i as [u p|fr]; cbn [enc_sitem sitem_ok] in *.
  - apply andb_prop in Hok. destruct Hok as [Hok Hp]. apply andb_prop in Hok. destruct Hok as [Hk Ht].
    apply N.leb_le in Hp, Ht. destruct (fkind_parse u) eqn:EK; [discriminate|].
    cbn [connect_run]. rewrite (read_frame_async_skips_unknown _ _ _ _ _ _ EK Ht Hp). reflexivity.
  - apply andb_prop in Hok. destruct Hok as [Hok Hkind]. apply andb_prop in Hok. destruct Hok as [Hwf Hl].
    apply N.leb_le in Hl. cbn [connect_run].
    rewrite (read_frame_async_known TSession false fr rest t Hwf Hl).
    destruct fr as [k p s]. cbn [fk fpayload] in *.
    destruct k; cbn [validate fk fpayload]; try discriminate.
    + destruct (capsule_with_frame p); [discriminate|reflexivity].
    + reflexivity.
    + reflexivity.
Qed.

(* number of frames the prefix makes the runner go through (fuel it needs) *)
Fixpoint sitems_frames (l : list sitem) : nat :=
  match l with [] => O | SFrame _ :: r => S (sitems_frames r) | SUnknownFrame _ _ :: r => sitems_frames r end.

Lemma connect_run_skip_items : forall items f rest t, forallb sitem_ok items = true ->
  connect_run (S (sitems_frames items + f)) (enc_sitems items ++ rest) t = connect_run (S f) rest t.
Proof.
  induction items as [|i items IH]; intros f rest t Hok; [reflexivity|].
  cbn [forallb] in Hok. apply andb_prop in Hok. destruct Hok as [Hi Hok].
  cbn [enc_sitems]. rewrite <- app_assoc.
  destruct i as [u p|fr].
  - cbn [sitems_frames]. rewrite (connect_run_skip_item _ (SUnknownFrame u p) _ _ Hi). apply IH. exact Hok.
  - cbn [sitems_frames Nat.add]. rewrite (connect_run_skip_item _ (SFrame fr) _ _ Hi). apply IH. exact Hok.
Qed.

(* a close capsule in one DATA frame, preceded only by skippable elements:
   the application close carries exactly the peer's code and reason *)
Theorem connect_run_close_capsule items code reason trailing rest t f :
  forallb sitem_ok items = true ->
  code < 4294967296 -> len reason <= 1024 -> utf8_valid reason = true ->
  len (close_capsule_bytes code reason ++ trailing) <= max_parse_payload ->
  connect_run (S (sitems_frames items + f))
    (enc_sitems items ++ frame_write (mkframe KData (close_capsule_bytes code reason ++ trailing) None) ++ rest) t
  = RAppClosed code reason.
Proof.
  intros Hok Hc Hl Hu Hlen. rewrite (connect_run_skip_items items f _ t Hok).
  cbn [connect_run].
  rewrite (read_frame_async_known TSession false _ rest t); [|reflexivity|exact Hlen].
  cbn [validate fk fpayload].
  destruct (close_capsule_roundtrip code reason trailing Hc Hl Hu) as (p & P1 & P2).
  rewrite P1, P2. reflexivity.
Qed.

(* cleanly finishing the stream at a frame boundary = close with code 0 and empty reason *)
Theorem connect_run_clean_fin items f :
  forallb sitem_ok items = true ->
  connect_run (S (sitems_frames items + f)) (enc_sitems items) Fin = RAppClosed 0 [].
Proof.
  intros Hok. rewrite <- (app_nil_r (enc_sitems items)).
  rewrite (connect_run_skip_items items f [] Fin Hok). reflexivity.
Qed.

(* abrupt termination is a protocol failure, never an application close *)
Theorem connect_run_reset items f :
  forallb sitem_ok items = true ->
  connect_run (S (sitems_frames items + f)) (enc_sitems items) Reset = RClose EClosedCriticalStream.
Proof.
  intros Hok. rewrite <- (app_nil_r (enc_sitems items)).
  rewrite (connect_run_skip_items items f [] Reset Hok). reflexivity.
Qed.

Theorem connect_run_lost items f :
  forallb sitem_ok items = true ->
  connect_run (S (sitems_frames items + f)) (enc_sitems items) Lost = RNotConnected.
Proof.
  intros Hok. rewrite <- (app_nil_r (enc_sitems items)).
  rewrite (connect_run_skip_items items f [] Lost Hok). reflexivity.
Qed.

(* FIN inside a frame: a proper, non-empty prefix of a valid frame then FIN *)
Theorem connect_run_fin_mid_frame items f fr p q :
  forallb sitem_ok items = true ->
  frame_wf fr = true -> len (fpayload fr) <= max_parse_payload ->
  frame_write fr = p ++ q -> p <> [] -> q <> [] ->
  connect_run (S (sitems_frames items + f)) (enc_sitems items ++ p) Fin = RClose EFrame.
Proof.
  intros Hok Hwf Hl Hw Hp Hq. rewrite (connect_run_skip_items items f p Fin Hok).
  cbn [connect_run]. unfold fuel_for. cbn [read_frame_async].
  pose proof (frame_async_agrees p Fin) as A.
  pose proof (frame_read_prefix fr p q Hwf Hl Hw Hq) as N0.
  destruct (frame_read p) as [x r]. cbn [fst] in N0. subst x. rewrite A.
  destruct p; [congruence|]. reflexivity.
Qed.

(* a malformed close capsule is a protocol failure, never an application close *)
Theorem connect_run_malformed_capsule items body trailing rest t f :
  forallb sitem_ok items = true ->
  (len body < 4 \/ 1028 < len body \/ utf8_valid (skipn 4 body) = false) ->
  len body <= varint_max ->
  len (enc capsule_close_type ++ enc (len body) ++ body ++ trailing) <= max_parse_payload ->
  connect_run (S (sitems_frames items + f))
    (enc_sitems items ++
     frame_write (mkframe KData (enc capsule_close_type ++ enc (len body) ++ body ++ trailing) None) ++ rest) t
  = RClose EDatagram.
Proof.
  intros Hok Hbad Hb Hlen. rewrite (connect_run_skip_items items f _ t Hok).
  cbn [connect_run].
  rewrite (read_frame_async_known TSession false _ rest t); [|reflexivity|exact Hlen].
  cbn [validate fk fpayload].
  unfold capsule_with_frame.
  rewrite get_enc by (unfold capsule_close_type, varint_max; lia).
  rewrite N.eqb_refl, (get_enc _ _ Hb), get_bytes_n_app.
  rewrite (close_with_capsule_malformed body Hbad). reflexivity.
Qed.

(* ---------- the control stream (RemoteSettingsStream::run) ---------- *)
Lemma settings_frame_wf payload : frame_wf (mkframe KSettings payload None) = true.
Proof. reflexivity. Qed.

(* SETTINGS first: published; then GREASE frames are ignored, anything else is H3_FRAME_UNEXPECTED *)
Theorem settings_run_first payload rest t f m :
  len payload <= max_parse_payload -> settings_with_frame payload = Val m ->
  settings_run (S f) None (frame_write (mkframe KSettings payload None) ++ rest) t =
  settings_run f (Some m) rest t.
Proof.
  intros Hl Hs. cbn [settings_run].
  rewrite (read_frame_async_known TUniRemote false _ rest t (settings_frame_wf payload) Hl).
  cbn [validate fk fpayload]. rewrite Hs. reflexivity.
Qed.

Theorem settings_run_missing_settings id p rest t f :
  is_exercise id = true -> id <= varint_max -> len p <= max_parse_payload ->
  settings_run (S f) None (frame_write (mkframe (KExercise id) p None) ++ rest) t = (RClose EMissingSettings, None).
Proof.
  intros Hx Hid Hl. cbn [settings_run].
  assert (Hwf : frame_wf (mkframe (KExercise id) p None) = true).
  { unfold frame_wf. cbn [fk fsid]. rewrite Hx. apply N.leb_le in Hid. rewrite Hid. reflexivity. }
  rewrite (read_frame_async_known TUniRemote false _ rest t Hwf Hl). reflexivity.
Qed.

Theorem settings_run_repeated_settings payload rest t f m :
  len payload <= max_parse_payload ->
  settings_run (S f) (Some m) (frame_write (mkframe KSettings payload None) ++ rest) t = (RClose EFrameUnexpected, Some m).
Proof.
  intros Hl. cbn [settings_run].
  rewrite (read_frame_async_known TUniRemote false _ rest t (settings_frame_wf payload) Hl). reflexivity.
Qed.

Theorem settings_run_data_or_headers k payload rest t f have :
  (k = KData \/ k = KHeaders) -> len payload <= max_parse_payload ->
  settings_run (S f) have (frame_write (mkframe k payload None) ++ rest) t = (RClose EFrameUnexpected, have).
Proof.
  intros Hk Hl. cbn [settings_run].
  assert (Hwf : frame_wf (mkframe k payload None) = true) by (destruct Hk as [-> | ->]; reflexivity).
  rewrite (read_frame_async_known TUniRemote false _ rest t Hwf Hl).
  destruct Hk as [-> | ->]; reflexivity.
Qed.

Theorem settings_run_grease_after_settings id p rest t f m :
  is_exercise id = true -> id <= varint_max -> len p <= max_parse_payload ->
  settings_run (S f) (Some m) (frame_write (mkframe (KExercise id) p None) ++ rest) t = settings_run f (Some m) rest t.
Proof.
  intros Hx Hid Hl. cbn [settings_run].
  assert (Hwf : frame_wf (mkframe (KExercise id) p None) = true).
  { unfold frame_wf. cbn [fk fsid]. rewrite Hx. apply N.leb_le in Hid. rewrite Hid. reflexivity. }
  rewrite (read_frame_async_known TUniRemote false _ rest t Hwf Hl). reflexivity.
Qed.

Theorem settings_run_unknown_frame u p rest t f have :
  fkind_parse u = None -> u <= varint_max -> len p <= varint_max ->
  settings_run (S f) have (unknown_frame u p ++ rest) t = settings_run (S f) have rest t.
Proof.
  intros Hk Hu Hp. cbn [settings_run].
  rewrite (read_frame_async_skips_unknown _ _ _ _ _ _ Hk Hu Hp). reflexivity.
Qed.

Theorem settings_run_closed f have t :
  settings_run (S f) have [] t =
  (match t with Lost => RNotConnected | _ => RClose EClosedCriticalStream end, have).
Proof. destruct t; reflexivity. Qed.

(* ---------- unidirectional stream admission ---------- *)
Theorem uni_accept_unknown_never_closes c id rest t :
  skind_parse id = None -> id <= varint_max ->
  uni_accept c (enc id ++ rest) t = (RIgnoreStream EStreamCreation, c).
Proof.
  intros Hk Hid. unfold uni_accept, uni_upgrade_async.
  pose proof (sheader_async_agrees (enc id ++ rest) t) as A.
  unfold sheader_read in A. rewrite (get_enc _ _ Hid), Hk in A. rewrite A. reflexivity.
Qed.

Theorem uni_accept_legacy_refuted :
  exists c d t e, uni_accept_legacy c d t = (RClose e, c).
Proof. exists (mkcrit false false false), [64; 66], Fin, EStreamCreation. reflexivity. Qed.

Theorem uni_accept_wt c s rest t : session_ok s = true -> s <= varint_max ->
  uni_accept c (sheader_write (mksheader SWebTransport (Some s)) ++ rest) t = (RHandWT s rest, c).
Proof.
  intros Hs Hm. unfold uni_accept, uni_upgrade_async.
  pose proof (sheader_async_agrees (sheader_write (mksheader SWebTransport (Some s)) ++ rest) t) as A.
  rewrite sheader_read_write in A.
  - rewrite A. reflexivity.
  - unfold sheader_wf. cbn [sk ssid]. rewrite Hs. apply N.leb_le in Hm. rewrite Hm. reflexivity.
Qed.

Theorem uni_accept_duplicate_critical c k rest t :
  (k = SControl /\ has_control c = true) \/ (k = SQPackEncoder /\ has_enc c = true) \/
  (k = SQPackDecoder /\ has_dec c = true) ->
  uni_accept c (sheader_write (mksheader k None) ++ rest) t = (RClose EStreamCreation, c).
Proof.
  intros H. unfold uni_accept, uni_upgrade_async.
  pose proof (sheader_async_agrees (sheader_write (mksheader k None) ++ rest) t) as A.
  rewrite sheader_read_write in A by (destruct H as [[-> _]|[[-> _]|[-> _]]]; reflexivity).
  rewrite A. destruct H as [[-> H]|[[-> H]|[-> H]]]; cbn [sk ssid]; rewrite H; reflexivity.
Qed.

(* ---------- worker exit: the code put on the wire ---------- *)
Theorem close_code_registry :
  map to_code [EDatagram; ENoError; EStreamCreation; EClosedCriticalStream; EFrameUnexpected; EFrame;
               EExcessiveLoad; EId; ESettings; EMissingSettings; ERequestRejected; EMessage;
               EDecompression; EBufferedStreamRejected; ESessionGone]
  = [51; 256; 259; 260; 261; 262; 263; 264; 265; 266; 267; 270; 512; 966049156; 386759528].
Proof. reflexivity. Qed.

Theorem close_code_of_spec e :
  close_code_of e = match e with
                    | DAppClosed _ _ => Some 256
                    | DProto c => Some (to_code c)
                    | DNotConnected => None
                    end.
Proof. destruct e; reflexivity. Qed.

(* ---------- WebTransport data streams: the preamble is stripped exactly ---------- *)
From WT.Model Require Import Emit.

Theorem bi_accept_wt s rest t : session_ok s = true -> s <= varint_max ->
  bi_accept (emit_bi_preamble s ++ rest) t = RHandWT s rest.
Proof.
  intros Hs Hm. unfold bi_accept, emit_bi_preamble.
  assert (Hwf : frame_wf (mkframe KWebTransport [] (Some s)) = true).
  { unfold frame_wf. cbn [fk fsid fpayload]. rewrite Hs. apply N.leb_le in Hm. rewrite Hm. reflexivity. }
  unfold fuel_for. cbn [bi_first_frame].
  rewrite (read_frame_async_known TBiRemote false _ rest t Hwf); [|unfold len, max_parse_payload; cbn; lia].
  cbn [validate fk fsid]. reflexivity.
Qed.

Theorem uni_accept_wt_emit c s rest t : session_ok s = true -> s <= varint_max ->
  uni_accept c (emit_uni_preamble s ++ rest) t = (RHandWT s rest, c).
Proof. apply uni_accept_wt. Qed.

(* GREASE frames before the signal on a bidirectional stream are skipped by the accept task *)
Theorem bi_accept_grease_then_wt id p s rest t :
  is_exercise id = true -> id <= varint_max -> len p <= max_parse_payload ->
  session_ok s = true -> s <= varint_max ->
  bi_accept (frame_write (mkframe (KExercise id) p None) ++ emit_bi_preamble s ++ rest) t = RClose EFrame.
Proof.
  (* the accept task skips GREASE frames, but the typestate has then seen a first frame:
     a WebTransport signal that is not first is H3_FRAME_ERROR (stream.rs:213-229) *)
  intros Hx Hid Hl Hs Hm. unfold bi_accept, emit_bi_preamble.
  assert (Hwf1 : frame_wf (mkframe (KExercise id) p None) = true).
  { unfold frame_wf. cbn [fk fsid]. rewrite Hx. apply N.leb_le in Hid. rewrite Hid. reflexivity. }
  assert (Hwf2 : frame_wf (mkframe KWebTransport [] (Some s)) = true).
  { unfold frame_wf. cbn [fk fsid fpayload]. rewrite Hs. apply N.leb_le in Hm. rewrite Hm. reflexivity. }
  unfold fuel_for at 1. cbn [bi_first_frame].
  rewrite (read_frame_async_known TBiRemote false _ _ t Hwf1 Hl).
  cbn [validate fk].
  destruct (length (frame_write (mkframe (KExercise id) p None) ++ frame_write (mkframe KWebTransport [] (Some s)) ++ rest)) eqn:EL.
  - exfalso. rewrite app_length in EL. pose proof (frame_write_length (mkframe (KExercise id) p None)).
    unfold frame_write_size in *. cbn [fk fsid fpayload fkind_id] in *. destruct (vsize_pos id) as [k Hk]. lia.
  - cbn [bi_first_frame].
    rewrite (read_frame_async_known TBiRemote true _ rest t Hwf2); [|unfold len, max_parse_payload; cbn; lia].
    reflexivity.
Qed.

(* ---------- the client's session stream: nothing after the response is lost on the hand-off ---------- *)
Theorem client_rest_after_response payload rest t : len payload <= max_parse_payload ->
  client_session_rest (frame_write (mkframe KHeaders payload None) ++ rest) t = Some rest.
Proof.
  intros Hl. unfold client_session_rest. unfold fuel_for at 1. cbn [response_first_frame].
  rewrite (read_frame_async_known TSession false (mkframe KHeaders payload None) rest t eq_refl Hl).
  reflexivity.
Qed.

Theorem client_established_after_response payload rest t : len payload <= max_parse_payload ->
  client_established_run (frame_write (mkframe KHeaders payload None) ++ rest) t = connect_run 64 rest t.
Proof. intros Hl. unfold client_established_run. rewrite client_rest_after_response by exact Hl. reflexivity. Qed.
