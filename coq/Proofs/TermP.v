(* TermP.v -- set-once cell, attribution of termination causes, stream error mapping *)
From WT.Model Require Import Base Varint Ids Frame Runner Term.
From Coq Require Import Lia.

Section Cell.
Context {V : Type}.

(* once a value is in, it never changes *)
Lemma cstep_value_stable (c : cell V) o v : cval c = Some v -> cval (fst (cstep c o)) = Some v.
Proof.
  intros H. destruct o; cbn [cstep].
  - destruct (setters c); [exact H|]. rewrite H. exact H.
  - exact H.
  - destruct (setters c); exact H.
  - rewrite H. exact H.
Qed.

Lemma crun_value_stable ops : forall (c : cell V) v, cval c = Some v -> cval (fst (crun c ops)) = Some v.
Proof.
  induction ops as [|o ops IH]; intros c v H; [exact H|].
  cbn [crun]. pose proof (cstep_value_stable c o v H) as S.
  destruct (cstep c o) as [c1 x]. cbn [fst] in S.
  specialize (IH c1 v S). destruct (crun c1 ops) as [c2 xs]. exact IH.
Qed.

(* every get after a successful set returns exactly that value; a set after it is refused *)
Theorem get_after_set ops : forall (c : cell V) v, cval c = Some v ->
  Forall (fun x => match x with OGot w => w = v | OSet b => b = false | OGotNone | OPending => False | _ => True end)
         (snd (crun c ops)).
Proof.
  induction ops as [|o ops IH]; intros c v H; [constructor|].
  cbn [crun]. pose proof (cstep_value_stable c o v H) as S.
  destruct (cstep c o) as [c1 x] eqn:E. cbn [fst] in S.
  specialize (IH c1 v S). destruct (crun c1 ops) as [c2 xs]. cbn [snd] in *.
  constructor; [|exact IH].
  destruct o; cbn [cstep] in E.
  - destruct (setters c); [injection E as <- <-; exact I|]. rewrite H in E. injection E as <- <-. reflexivity.
  - injection E as <- <-. exact I.
  - destruct (setters c); injection E as <- <-; exact I.
  - rewrite H in E. injection E as <- <-. reflexivity.
Qed.

(* at most one set succeeds *)
Fixpoint count_accepted (xs : list (cout V)) : nat :=
  match xs with [] => 0 | OSet true :: r => S (count_accepted r) | _ :: r => count_accepted r end.

Theorem at_most_one_set ops : forall c : cell V,
  (count_accepted (snd (crun c ops)) <= match cval c with None => 1 | Some _ => 0 end)%nat.
Proof.
  induction ops as [|o ops IH]; intros c; [cbn; destruct (cval c); lia|].
  cbn [crun]. destruct (cstep c o) as [c1 x] eqn:E.
  specialize (IH c1). destruct (crun c1 ops) as [c2 xs]. cbn [snd] in *.
  destruct o; cbn [cstep] in E.
  - destruct (setters c).
    + injection E as <- <-. cbn [count_accepted]. exact IH.
    + destruct (cval c) eqn:EV; injection E as <- <-; cbn [count_accepted cval] in *; [rewrite EV in IH|]; lia.
  - injection E as <- <-. cbn [count_accepted cval] in *. exact IH.
  - destruct (setters c); injection E as <- <-; cbn [count_accepted cval] in *; exact IH.
  - destruct (cval c) eqn:EV; [|destruct (setters c)]; injection E as <- <-; cbn [count_accepted]; rewrite ?EV in *; exact IH.
Qed.

(* a get reports "no result" only when every setter is gone and nothing was set *)
Theorem get_none_only_if_abandoned (c : cell V) : snd (cstep c CGet) = OGotNone -> cval c = None /\ setters c = 0%nat.
Proof.
  cbn [cstep]. destruct (cval c); [discriminate|]. destruct (setters c); [auto|discriminate].
Qed.
End Cell.

(* ---------- attribution: the error names the actual cause ---------- *)
Theorem attribution_app_closed c r q : with_driver_error (DAppClosed c r) q = CEApplicationClosed c r.
Proof. reflexivity. Qed.
Theorem attribution_local_h3 e q : with_driver_error (DProto e) q = CELocalH3 e.
Proof. reflexivity. Qed.
Theorem attribution_peer_quic_close c r : with_driver_error DNotConnected (Some (QApp c r)) = CEApplicationClosed c r.
Proof. reflexivity. Qed.
Theorem attribution_not_connected q :
  with_driver_error DNotConnected q = match q with Some x => of_quinn x | None => CELocallyClosed end.
Proof. reflexivity. Qed.

(* the worker closes the transport with the code of the cause it reports *)
Theorem worker_exit_code r e : derr_of_reaction r = Some e ->
  close_code_of e = match r with
                    | RClose c => Some (to_code c)
                    | RAppClosed _ _ => Some (to_code ENoError)
                    | _ => None
                    end.
Proof. destruct r; cbn; intros [= <-]; reflexivity. Qed.

(* ---------- stream termination signals keep their codes (C06) ---------- *)
Theorem varint_roundtrip x : varint_q2w (varint_w2q x) = x /\ varint_w2q (varint_q2w x) = x.
Proof. split; reflexivity. Qed.
Theorem varint_conv_safe x : x <= varint_max -> varint_conv_assert x = true.
Proof. intros H. unfold varint_conv_assert. apply N.leb_le. exact H. Qed.

Theorem write_error_codes e : map_write e = match e with
  | QWStopped c => SWStopped c | QWConnectionLost | QWClosedStream => SWNotConnected | QWZeroRtt => SWQuicProto end.
Proof. destruct e; reflexivity. Qed.
Theorem read_error_codes e : map_read e = match e with
  | QRReset c => SRReset c | QRConnectionLost | QRClosedStream => SRNotConnected | _ => SRQuicProto end.
Proof. destruct e; reflexivity. Qed.
Theorem stopped_codes e : map_stopped e = match e with
  | QSNone => SWClosed | QSSome c => SWStopped c | QSConnectionLost => SWNotConnected | QSZeroRtt => SWQuicProto end.
Proof. destruct e; reflexivity. Qed.

(* no two different signals are conflated, and no code is altered *)
Theorem write_error_injective_on_codes c d : map_write (QWStopped c) = map_write (QWStopped d) -> c = d.
Proof. cbn. intros [= H]. exact H. Qed.
Theorem read_error_injective_on_codes c d : map_read (QRReset c) = map_read (QRReset d) -> c = d.
Proof. cbn. intros [= H]. exact H. Qed.
Theorem stopped_never_confused_with_closed c : map_stopped (QSSome c) <> map_stopped QSNone.
Proof. discriminate. Qed.

(* finish succeeds only when the peer acknowledged everything; a stop is reported with its code *)
Theorem finish_spec e : finish_result e = None <-> e = QSNone.
Proof. destruct e; cbn; split; congruence. Qed.
Theorem finish_stopped c : finish_result (QSSome c) = Some (SWStopped c).
Proof. reflexivity. Qed.
