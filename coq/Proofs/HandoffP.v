(* HandoffP.v -- exactly-once delivery (C08) and independence of stalled streams (C07)
   for every capacity, every number of streams and every interleaving. *)
From WT.Model Require Import Base Handoff.
From Coq Require Import Lia Permutation.

Lemma mem_In x l : mem x l = true <-> In x l.
Proof.
  induction l as [|y l IH]; cbn [mem In]; [split; [discriminate|tauto]|].
  rewrite Bool.orb_true_iff, N.eqb_eq, IH. split; intros [H|H]; auto.
Qed.

Lemma remove1_perm x l : In x l -> Permutation l (x :: remove1 x l).
Proof.
  induction l as [|y l IH]; cbn [In remove1]; [tauto|]. intros H.
  destruct (x =? y) eqn:E.
  - apply N.eqb_eq in E. subst. reflexivity.
  - apply N.eqb_neq in E. destruct H as [H|H]; [congruence|].
    rewrite (IH H) at 1. apply perm_swap.
Qed.

Lemma NoDup_app_l {A} (a b : list A) : NoDup (a ++ b) -> NoDup a.
Proof.
  induction a as [|x a IH]; cbn [app]; intros H; [constructor|].
  inversion H as [|? ? Hn Hd]; subst. constructor; [|apply IH; exact Hd].
  intros Hin. apply Hn. apply in_or_app. auto.
Qed.
Lemma NoDup_app_r {A} (a b : list A) : NoDup (a ++ b) -> NoDup b.
Proof.
  induction a as [|x a IH]; cbn [app]; intros H; [exact H|].
  inversion H; subst. apply IH. assumption.
Qed.

(* ---------- C08: conservation ---------- *)
Definition inv (s : hst) : Prop := NoDup (all_ids s) /\ Permutation (all_ids s) (opened s).

Lemma inv_init : inv hinit.
Proof. split; [constructor|reflexivity]. Qed.

Ltac perm_solve :=
  repeat rewrite <- ?app_assoc, ?app_nil_r;
  repeat (apply Permutation_app_head || apply Permutation_app_tail || reflexivity).

Theorem step_preserves_inv cap s l s' : inv s -> step cap s l = Some s' -> inv s'.
Proof.
  intros [Hnd Hp] H. destruct l as [id|id|id| |id| |]; cbn [step] in H.
  - (* PeerOpen *)
    destruct (mem id (opened s)) eqn:E; [discriminate|]. injection H as <-.
    assert (Hni : ~ In id (all_ids s)).
    { intros Hin. apply (Permutation_in _ Hp) in Hin. apply mem_In in Hin. congruence. }
    unfold inv, all_ids in *. cbn [quinn_q waiting ready chan delivered gone opened].
    assert (P : Permutation ((quinn_q s ++ [id]) ++ waiting s ++ ready s ++ chan s ++ delivered s ++ gone s)
                            (id :: quinn_q s ++ waiting s ++ ready s ++ chan s ++ delivered s ++ gone s)).
    { rewrite <- app_assoc. symmetry. apply Permutation_middle. }
    split.
    + apply (Permutation_NoDup (Permutation_sym P)). constructor; assumption.
    + rewrite P. rewrite Hp. apply Permutation_cons_append.
  - (* PeerPreamble *)
    destruct (mem id (waiting s)) eqn:E; [|discriminate]. injection H as <-. apply mem_In in E.
    unfold inv, all_ids in *. cbn [quinn_q waiting ready chan delivered gone opened].
    assert (P : Permutation (quinn_q s ++ remove1 id (waiting s) ++ (ready s ++ [id]) ++ chan s ++ delivered s ++ gone s)
                            (quinn_q s ++ waiting s ++ ready s ++ chan s ++ delivered s ++ gone s)).
    { apply Permutation_app_head. rewrite (remove1_perm id (waiting s) E) at 2.
      rewrite <- !app_assoc. cbn [app].
      rewrite (Permutation_middle (remove1 id (waiting s)) _ id). apply Permutation_app_head.
      rewrite <- (Permutation_middle (ready s) _ id). reflexivity. }
    split; [apply (Permutation_NoDup (Permutation_sym P)); assumption|rewrite P; assumption].
  - (* PeerAbort *)
    destruct (mem id (waiting s)) eqn:E; [|discriminate]. injection H as <-. apply mem_In in E.
    unfold inv, all_ids in *. cbn [quinn_q waiting ready chan delivered gone opened].
    assert (P : Permutation (quinn_q s ++ remove1 id (waiting s) ++ ready s ++ chan s ++ delivered s ++ gone s ++ [id])
                            (quinn_q s ++ waiting s ++ ready s ++ chan s ++ delivered s ++ gone s)).
    { apply Permutation_app_head. rewrite (remove1_perm id (waiting s) E) at 2. cbn [app].
      rewrite (Permutation_middle (remove1 id (waiting s)) _ id). apply Permutation_app_head.
      rewrite !app_assoc. rewrite <- (Permutation_cons_append _ id). reflexivity. }
    split; [apply (Permutation_NoDup (Permutation_sym P)); assumption|rewrite P; assumption].
  - (* WorkerAccept *)
    destruct (quinn_q s) as [|id q] eqn:E; [discriminate|]. injection H as <-.
    unfold inv, all_ids in *. rewrite E in *. cbn [quinn_q waiting ready chan delivered gone opened].
    assert (P : Permutation (q ++ (waiting s ++ [id]) ++ ready s ++ chan s ++ delivered s ++ gone s)
                            ((id :: q) ++ waiting s ++ ready s ++ chan s ++ delivered s ++ gone s)).
    { cbn [app]. rewrite <- !app_assoc. cbn [app].
      rewrite <- (Permutation_middle (waiting s) _ id). rewrite <- (Permutation_middle q _ id). reflexivity. }
    split; [apply (Permutation_NoDup (Permutation_sym P)); assumption|rewrite P; assumption].
  - (* TaskSend *)
    destruct (mem id (ready s) && (length (chan s) <? cap)%nat) eqn:E; [|discriminate]. injection H as <-.
    apply andb_prop in E. destruct E as [E _]. apply mem_In in E.
    unfold inv, all_ids in *. cbn [quinn_q waiting ready chan delivered gone opened].
    assert (P : Permutation (quinn_q s ++ waiting s ++ remove1 id (ready s) ++ (chan s ++ [id]) ++ delivered s ++ gone s)
                            (quinn_q s ++ waiting s ++ ready s ++ chan s ++ delivered s ++ gone s)).
    { do 2 apply Permutation_app_head. rewrite (remove1_perm id (ready s) E) at 2. cbn [app].
      rewrite (Permutation_middle (remove1 id (ready s)) _ id). apply Permutation_app_head.
      rewrite <- !app_assoc. cbn [app]. rewrite <- (Permutation_middle (chan s) _ id). reflexivity. }
    split; [apply (Permutation_NoDup (Permutation_sym P)); assumption|rewrite P; assumption].
  - (* AppRecv *)
    destruct (chan s) as [|id c] eqn:E; [discriminate|]. injection H as <-.
    unfold inv, all_ids in *. rewrite E in *. cbn [quinn_q waiting ready chan delivered gone opened].
    assert (P : Permutation (quinn_q s ++ waiting s ++ ready s ++ c ++ (delivered s ++ [id]) ++ gone s)
                            (quinn_q s ++ waiting s ++ ready s ++ (id :: c) ++ delivered s ++ gone s)).
    { do 3 apply Permutation_app_head. cbn [app]. rewrite <- !app_assoc. cbn [app].
      rewrite <- (Permutation_middle (delivered s) _ id). rewrite <- (Permutation_middle c _ id). reflexivity. }
    split; [apply (Permutation_NoDup (Permutation_sym P)); assumption|rewrite P; assumption].
  - injection H as <-. split; assumption.
Qed.

Theorem run_preserves_inv cap ls : forall s s', inv s -> run (step cap) s ls = Some s' -> inv s'.
Proof.
  induction ls as [|l ls IH]; intros s s' Hi H; cbn [run] in H; [injection H as <-; exact Hi|].
  destruct (step cap s l) as [s1|] eqn:E; [|discriminate].
  apply (IH s1 s' (step_preserves_inv _ _ _ _ Hi E) H).
Qed.

(* exactly once: for every history from the initial state, what the application was handed
   contains no duplicate and nothing the peer did not open; every opened stream is in exactly
   one place (none lost, none invented) *)
Theorem exactly_once cap ls s : run (step cap) hinit ls = Some s ->
  NoDup (delivered s) /\ (forall x, In x (delivered s) -> In x (opened s)) /\
  NoDup (all_ids s) /\ Permutation (all_ids s) (opened s).
Proof.
  intros H. destruct (run_preserves_inv cap ls hinit s inv_init H) as [Hnd Hp].
  repeat split; auto.
  - unfold all_ids in Hnd. do 4 apply NoDup_app_r in Hnd. apply NoDup_app_l in Hnd. exact Hnd.
  - intros x Hx. apply (Permutation_in _ Hp). unfold all_ids. rewrite !in_app_iff. tauto.
Qed.

(* cancellation of a pending accept call changes nothing *)
Theorem cancel_is_noop cap s : step cap s AppCancel = Some s.
Proof. reflexivity. Qed.

(* ---------- C07: a stalled stream disables nothing ---------- *)
Theorem accept_never_blocked cap s id q : quinn_q s = id :: q -> step cap s WorkerAccept <> None.
Proof. intros H. cbn [step]. rewrite H. discriminate. Qed.

Theorem send_needs_only_channel_room cap s id :
  In id (ready s) -> (length (chan s) < cap)%nat -> step cap s (TaskSend id) <> None.
Proof.
  intros H1 H2. cbn [step]. apply mem_In in H1. rewrite H1.
  apply Nat.ltb_lt in H2. rewrite H2. discriminate.
Qed.

Theorem recv_needs_only_an_item cap s id c : chan s = id :: c -> step cap s AppRecv <> None.
Proof. intros H. cbn [step]. rewrite H. discriminate. Qed.

(* constructive progress: a healthy stream j sitting in the accept queue behind any number of
   streams (stalled or not) is delivered by a plan that uses only worker / app steps and j's own
   preamble and send -- no step of any other stream is needed *)
Definition drain (n : nat) : list lbl := repeat AppRecv n.

Lemma run_app : forall stp s a b, run stp s (a ++ b) = match run stp s a with Some s' => run stp s' b | None => None end.
Proof.
  intros stp s a. revert s. induction a as [|l a IH]; intros s b; [reflexivity|].
  cbn [app run]. destruct (stp s l); [apply IH|reflexivity].
Qed.

Lemma drain_all cap : forall s, exists s', run (step cap) s (drain (length (chan s))) = Some s' /\
  chan s' = [] /\ quinn_q s' = quinn_q s /\ waiting s' = waiting s /\ ready s' = ready s /\
  delivered s' = delivered s ++ chan s.
Proof.
  intros s. remember (length (chan s)) as n eqn:En. revert s En.
  induction n as [|n IH]; intros s En.
  - exists s. destruct (chan s) eqn:E; [|discriminate]. cbn. rewrite app_nil_r. repeat split; reflexivity.
  - destruct (chan s) as [|id c] eqn:E; [discriminate|]. cbn [length] in En.
    cbn [drain repeat run step]. rewrite E.
    set (s1 := mkhst (quinn_q s) (waiting s) (ready s) c (delivered s ++ [id]) (gone s) (opened s)).
    destruct (IH s1 ltac:(cbn; lia)) as (s' & R & C & Q & W & Rd & D).
    exists s'. subst s1. cbn [chan quinn_q waiting ready delivered] in *. repeat split; auto.
    transitivity ((delivered s ++ [id]) ++ c); [exact D|]. rewrite <- app_assoc. reflexivity.
Qed.

Lemma accept_n cap : forall pre s j post, quinn_q s = pre ++ j :: post ->
  exists s', run (step cap) s (repeat WorkerAccept (S (length pre))) = Some s' /\
             In j (waiting s') /\ chan s' = chan s /\ ready s' = ready s /\ delivered s' = delivered s.
Proof.
  induction pre as [|x pre IH]; intros s j post H.
  - cbn [length repeat run step]. rewrite H. cbn [app]. eexists. split; [reflexivity|].
    cbn [waiting chan ready delivered]. rewrite in_app_iff. cbn. auto.
  - cbn [length repeat run step]. rewrite H. cbn [app].
    set (s1 := mkhst (pre ++ j :: post) (waiting s ++ [x]) (ready s) (chan s) (delivered s) (gone s) (opened s)).
    destruct (IH s1 j post eq_refl) as (s' & R & I & C & Rd & D).
    exists s'. cbn [chan ready delivered] in *. auto.
Qed.

Theorem healthy_stream_is_delivered cap s pre j post :
  (1 <= cap)%nat -> quinn_q s = pre ++ j :: post ->
  exists s', run (step cap) s
               (repeat WorkerAccept (S (length pre)) ++ [PeerPreamble j] ++ drain (length (chan s)) ++ [TaskSend j; AppRecv])
             = Some s' /\ In j (delivered s').
Proof.
  intros Hcap Hq.
  destruct (accept_n cap pre s j post Hq) as (s1 & R1 & I1 & C1 & Rd1 & D1).
  rewrite run_app, R1. cbn [app run step]. apply mem_In in I1. rewrite I1.
  set (s2 := mkhst (quinn_q s1) (remove1 j (waiting s1)) (ready s1 ++ [j]) (chan s1) (delivered s1) (gone s1) (opened s1)).
  destruct (drain_all cap s2) as (s3 & R3 & C3 & Q3 & W3 & Rd3 & D3).
  assert (HC : chan s2 = chan s) by (subst s2; cbn [chan]; exact C1).
  rewrite HC in R3. rewrite run_app, R3. cbn [run step].
  assert (Hm : mem j (ready s3) = true). { apply mem_In. rewrite Rd3. cbn [ready s2]. rewrite in_app_iff. cbn. auto. }
  rewrite Hm, C3. cbn [length]. assert (Hc : (0 <? cap)%nat = true) by (apply Nat.ltb_lt; lia). rewrite Hc.
  cbn [andb chan app]. eexists. split; [reflexivity|]. cbn [delivered]. rewrite in_app_iff. cbn. auto.
Qed.

(* ---------- the pinned design: one stalled stream blocks the worker for ever ---------- *)
Definition no_progress_of (a : N) (l : lbl) : bool :=
  match l with PeerPreamble x | PeerAbort x => negb (x =? a) | _ => true end.

Lemma legacy_blocked_inv a ls : forall s,
  waiting s = [a] -> ready s = [] -> chan s = [] -> forallb (no_progress_of a) ls = true ->
  forall s', run (step_legacy 1) s ls = Some s' ->
    waiting s' = [a] /\ ready s' = [] /\ chan s' = [] /\ delivered s' = delivered s.
Proof.
  induction ls as [|l ls IH]; intros s Hw Hr Hc Hok s' H; cbn [run] in H.
  - injection H as <-. auto.
  - cbn [forallb] in Hok. apply andb_prop in Hok. destruct Hok as [Hl Hok].
    destruct (step_legacy 1 s l) as [s1|] eqn:E; [|discriminate].
    assert (G : waiting s1 = [a] /\ ready s1 = [] /\ chan s1 = [] /\ delivered s1 = delivered s).
    { destruct l as [id|id|id| |id| |]; cbn [step_legacy step] in E.
      - destruct (mem id (opened s)); [discriminate|]. injection E as <-. cbn. auto.
      - rewrite Hw in E. cbn [mem] in E. cbn [no_progress_of] in Hl.
        apply Bool.negb_true_iff in Hl. rewrite Hl in E. cbn in E. discriminate.
      - rewrite Hw in E. cbn [mem] in E. cbn [no_progress_of] in Hl.
        apply Bool.negb_true_iff in Hl. rewrite Hl in E. cbn in E. discriminate.
      - unfold slots_in_use in E. rewrite Hw, Hr, Hc in E. cbn in E. discriminate.
      - rewrite Hr in E. cbn in E. discriminate.
      - rewrite Hc in E. discriminate.
      - injection E as <-. auto. }
    destruct G as (G1 & G2 & G3 & G4).
    destruct (IH s1 G1 G2 G3 Hok s' H) as (I1 & I2 & I3 & I4). rewrite I4, G4. auto.
Qed.

(* after the worker accepted a stream that then stalls, NOTHING is ever delivered again,
   however many healthy streams the peer opens and however long the application keeps accepting *)
Theorem legacy_one_stalled_stream_blocks_all a ls s' :
  forallb (no_progress_of a) ls = true ->
  run (step_legacy 1) hinit ([PeerOpen a; WorkerAccept] ++ ls) = Some s' -> delivered s' = [].
Proof.
  intros Hok H. cbn [app run step_legacy step hinit opened mem quinn_q slots_in_use waiting ready chan length Nat.ltb Nat.leb] in H.
  cbn in H.
  pose proof (legacy_blocked_inv a ls (mkhst [] [a] [] [] [] [] [a]) eq_refl eq_refl eq_refl Hok s' H) as (_ & _ & _ & D).
  exact D.
Qed.

(* ... while the repaired design delivers (instance of healthy_stream_is_delivered) *)
Example repaired_delivers :
  exists s', run (step 1) hinit [PeerOpen 4; WorkerAccept; PeerOpen 8; WorkerAccept; PeerPreamble 8; TaskSend 8; AppRecv] = Some s'
             /\ delivered s' = [8] /\ waiting s' = [4].
Proof. eexists. split; [reflexivity|]. split; reflexivity. Qed.
