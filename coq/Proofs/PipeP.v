(* PipeP.v -- C01 end to end: for EVERY partition of the payload into writes, every partial-write size,
   every flow-control window, every arrival pattern and every sequence of read-buffer sizes, the reads
   return exactly the written bytes, in order, and end-of-stream only once everything was read. *)
From WT.Model Require Import Base Varint Ids Frame Async StreamTS Wire Qpack Session Runner Emit Pipe.
From WT.Proofs Require Import RunnerP.
From Coq Require Import Lia.

Definition pinv (s : pst) : Prop :=
  written s = got s ++ rbuf s ++ wire s ++ unsent s /\
  (fin_arrived s = true -> finished s = true /\ wire s = [] /\ unsent s = []) /\
  (eof s = true -> fin_arrived s = true /\ rbuf s = []).

Lemma pinv_init pre : pinv (pinit pre).
Proof. unfold pinv, pinit; cbn. repeat split; try discriminate. Qed.

Lemma firstn_skipn_app {A} n (l : list A) : firstn n l ++ skipn n l = l.
Proof. apply firstn_skipn. Qed.

Lemma pstep_inv w s o : pinv s -> pinv (fst (pstep w s o)).
Proof.
  intros Hinv. destruct o as [buf|k|k|n|]; cbn [pstep].
  - destruct (finished s) eqn:F; cbn [fst]; [exact Hinv|].
    destruct Hinv as (Hc & Hf & He).
    unfold pinv; cbn [written got rbuf wire unsent fin_arrived finished eof].
    split; [rewrite Hc, <- !app_assoc; reflexivity|].
    split.
    + intros H. destruct (Hf H) as (H1 & _). congruence.
    + exact He.
  - destruct Hinv as (Hc & Hf & He).
    cbn [fst]. unfold pinv; cbn [written got rbuf wire unsent fin_arrived finished eof].
    set (n := Nat.min k (w - in_flight s)).
    split; [rewrite Hc, <- !app_assoc, (firstn_skipn n (unsent s)); reflexivity|].
    split.
    + intros H. destruct (Hf H) as (H1 & H2 & H3). rewrite H2, H3.
      rewrite firstn_nil, skipn_nil. auto.
    + exact He.
  - destruct Hinv as (Hc & Hf & He).
    cbn [fst]. unfold pinv; cbn [written got rbuf wire unsent fin_arrived finished eof].
    split; [rewrite Hc, <- !app_assoc; f_equal; f_equal; rewrite app_assoc, (firstn_skipn k (wire s)); reflexivity|].
    split.
    + intros H. apply Bool.orb_true_iff in H. destruct H as [H|H].
      * destruct (Hf H) as (H1 & H2 & H3). rewrite H2, skipn_nil. auto.
      * destruct (skipn k (wire s)) eqn:E1; [|discriminate].
        destruct (unsent s) eqn:E2; [|discriminate]. auto.
    + intros H. destruct (He H) as (H1 & H2). destruct (Hf H1) as (_ & H3 & _).
      rewrite H1, H2, H3, firstn_nil. auto.
  - destruct (rbuf s) as [|b r] eqn:R.
    + destruct (fin_arrived s) eqn:F; cbn [fst]; [|exact Hinv].
      destruct Hinv as (Hc & Hf & He). rewrite R in Hc. rewrite F in Hf.
      unfold pinv; cbn [written got rbuf wire unsent fin_arrived finished eof].
      repeat split; auto; apply Hf; reflexivity.
    + destruct n as [|n]; cbn [fst]; [exact Hinv|].
      destruct Hinv as (Hc & Hf & He). rewrite R in Hc, He.
      unfold pinv; cbn [written got rbuf wire unsent fin_arrived finished eof].
      split.
      * rewrite Hc, <- !app_assoc. f_equal. rewrite !app_assoc. f_equal. f_equal.
        symmetry. apply (firstn_skipn (S n) (b :: r)).
      * split; [exact Hf|]. intros H. destruct (He H) as (_ & H2). discriminate.
  - destruct Hinv as (Hc & Hf & He).
    cbn [fst]. unfold pinv; cbn [written got rbuf wire unsent fin_arrived finished eof].
    split; [exact Hc|]. split.
    + intros H. apply Bool.orb_true_iff in H. destruct H as [H|H].
      * destruct (Hf H) as (_ & H2 & H3). auto.
      * destruct (unsent s) eqn:E1; [|discriminate]. destruct (wire s) eqn:E2; [|discriminate]. auto.
    + intros H. destruct (He H) as (H1 & H2). rewrite H1. auto.
Qed.

Lemma prun_inv w ops : forall s, pinv s -> pinv (fst (prun w s ops)).
Proof.
  induction ops as [|o ops IH]; intros s H; cbn [prun]; [exact H|].
  pose proof (pstep_inv w s o H) as H1. destruct (pstep w s o) as [s1 x]. cbn [fst] in H1.
  specialize (IH s1 H1). destruct (prun w s1 ops) as [s2 xs]. exact IH.
Qed.

(* what the reads returned is exactly what [got] accumulated *)
Lemma pstep_reads w s o :
  got (fst (pstep w s o)) = got s ++ match snd (pstep w s o) with RData d => d | _ => [] end.
Proof.
  destruct o as [buf|k|k|n|]; cbn [pstep].
  - destruct (finished s); cbn; rewrite app_nil_r; reflexivity.
  - cbn. rewrite app_nil_r. reflexivity.
  - cbn. rewrite app_nil_r. reflexivity.
  - destruct (rbuf s) as [|b r].
    + destruct (fin_arrived s); cbn; rewrite app_nil_r; reflexivity.
    + destruct n; cbn [fst snd got]; [rewrite app_nil_r; reflexivity|reflexivity].
  - cbn. rewrite app_nil_r. reflexivity.
Qed.

Lemma prun_reads w ops : forall s,
  got (fst (prun w s ops)) = got s ++ read_data (snd (prun w s ops)).
Proof.
  induction ops as [|o ops IH]; intros s; cbn [prun]; [cbn; rewrite app_nil_r; reflexivity|].
  pose proof (pstep_reads w s o) as H1. destruct (pstep w s o) as [s1 x]. cbn [fst snd] in H1.
  specialize (IH s1). destruct (prun w s1 ops) as [s2 xs]. cbn [fst snd] in *.
  rewrite IH, H1, <- app_assoc. f_equal. destruct x; cbn [read_data]; reflexivity.
Qed.

(* the bytes the sending application's accepted write calls carried, in order *)
Fixpoint app_writes (fin : bool) (ops : list pop) : bytes :=
  match ops with
  | [] => []
  | PWrite b :: r => if fin then app_writes fin r else b ++ app_writes fin r
  | PFinish :: r => app_writes true r
  | _ :: r => app_writes fin r
  end.

Lemma pstep_finished w s o :
  finished (fst (pstep w s o)) = match o with PFinish => true | _ => finished s end.
Proof.
  destruct o as [buf|k|k|n|]; cbn [pstep]; try reflexivity.
  - destruct (finished s) eqn:F; cbn; auto.
  - destruct (rbuf s); [destruct (fin_arrived s)|destruct n]; reflexivity.
Qed.

Lemma pstep_written w s o :
  written (fst (pstep w s o)) = written s ++ match o with PWrite b => if finished s then [] else b | _ => [] end.
Proof.
  destruct o as [buf|k|k|n|]; cbn [pstep]; try (cbn; rewrite app_nil_r; reflexivity).
  - destruct (finished s); cbn; [rewrite app_nil_r|]; reflexivity.
  - destruct (rbuf s); [destruct (fin_arrived s)|destruct n]; cbn; rewrite app_nil_r; reflexivity.
Qed.

Lemma prun_written w ops : forall s,
  written (fst (prun w s ops)) = written s ++ app_writes (finished s) ops.
Proof.
  induction ops as [|o ops IH]; intros s; cbn [prun app_writes]; [cbn; rewrite app_nil_r; reflexivity|].
  pose proof (pstep_written w s o) as H1. pose proof (pstep_finished w s o) as H2.
  destruct (pstep w s o) as [s1 x]. cbn [fst] in H1, H2.
  specialize (IH s1). destruct (prun w s1 ops) as [s2 xs]. cbn [fst] in *.
  rewrite IH, H1, H2, <- app_assoc. f_equal.
  destruct o; cbn [app]; try reflexivity. destruct (finished s); reflexivity.
Qed.

(* ---------- the statements ---------- *)

(* at every moment of every execution: nothing is lost, duplicated, reordered or invented -- the stream's
   bytes are, in order, those already read, those buffered, those in flight and those not yet sent *)
Theorem pipe_conservation w pre ops :
  let s := fst (prun w (pinit pre) ops) in
  pre ++ app_writes false ops = got s ++ rbuf s ++ wire s ++ unsent s.
Proof.
  cbn zeta. pose proof (prun_inv w ops (pinit pre) (pinv_init pre)) as (Hc & _).
  rewrite <- Hc, prun_written. reflexivity.
Qed.

(* the reads returned, concatenated, a prefix of the written bytes (preamble first) *)
Theorem pipe_reads_prefix w pre ops :
  exists rest, pre ++ app_writes false ops = read_data (snd (prun w (pinit pre) ops)) ++ rest.
Proof.
  pose proof (pipe_conservation w pre ops) as H. cbn zeta in H.
  pose proof (prun_reads w ops (pinit pre)) as R. cbn [pinit got app] in R.
  rewrite R in H. eexists. exact H.
Qed.

(* once a read has reported end-of-stream, the reads returned exactly everything that was written *)
Theorem pipe_eof_complete w pre ops :
  eof (fst (prun w (pinit pre) ops)) = true ->
  read_data (snd (prun w (pinit pre) ops)) = pre ++ app_writes false ops /\
  finished (fst (prun w (pinit pre) ops)) = true.
Proof.
  intros E. pose proof (prun_inv w ops (pinit pre) (pinv_init pre)) as (Hc & Hf & He).
  destruct (He E) as (F & R). destruct (Hf F) as (Fi & W & U).
  pose proof (pipe_conservation w pre ops) as H. cbn zeta in H.
  rewrite R, W, U, !app_nil_r in H.
  pose proof (prun_reads w ops (pinit pre)) as G. cbn [pinit got app] in G.
  split; [rewrite <- G; symmetry; exact H|exact Fi].
Qed.

(* end-of-stream is never reported while bytes are outstanding *)
Theorem pipe_no_early_eof w pre ops :
  let s := fst (prun w (pinit pre) ops) in
  eof s = true -> rbuf s = [] /\ wire s = [] /\ unsent s = [].
Proof.
  cbn zeta. intros E. pose proof (prun_inv w ops (pinit pre) (pinv_init pre)) as (_ & Hf & He).
  destruct (He E) as (F & R). destruct (Hf F) as (_ & W & U). auto.
Qed.

(* composition with the opening and the accept path: whatever the partition into writes, partial writes,
   windows, arrivals and read sizes, once the reader has seen end-of-stream the accept path has handed the
   receiving application exactly the bytes the sending application wrote -- no preamble byte, nothing swallowed *)
Theorem end_to_end_uni w c sid ops :
  session_ok sid = true -> sid <= varint_max ->
  eof (fst (prun w (pinit (emit_uni_preamble sid)) ops)) = true ->
  uni_accept c (read_data (snd (prun w (pinit (emit_uni_preamble sid)) ops))) Fin
  = (RHandWT sid (app_writes false ops), c).
Proof.
  intros Hs Hm E. destruct (pipe_eof_complete _ _ _ E) as (-> & _). apply uni_accept_wt_emit; assumption.
Qed.

Theorem end_to_end_bi w sid ops :
  session_ok sid = true -> sid <= varint_max ->
  eof (fst (prun w (pinit (emit_bi_preamble sid)) ops)) = true ->
  bi_accept (read_data (snd (prun w (pinit (emit_bi_preamble sid)) ops))) Fin
  = RHandWT sid (app_writes false ops).
Proof.
  intros Hs Hm E. destruct (pipe_eof_complete _ _ _ E) as (-> & _). apply bi_accept_wt; assumption.
Qed.
