(* SessionP.v -- admission predicates for requests and responses (C18, C02) *)
From WT.Model Require Import Base Varint Ids Frame Async StreamTS Wire Qpack Session Runner.
From WT.Proofs Require Import VarintP FrameP WireP QpackP.
From Coq Require Import Lia.

Definition has (k v : bytes) (h : hmap) : Prop := hget k h = Some v.
Definition present (k : bytes) (h : hmap) : Prop := exists v, hget k h = Some v.

Lemma list_eqb_false a b : list_eqb a b = false <-> a <> b.
Proof.
  split.
  - intros H E. apply list_eqb_eq in E. congruence.
  - intros H. destruct (list_eqb a b) eqn:E; [apply list_eqb_eq in E; congruence|reflexivity].
Qed.

(* a request is admitted iff it is an extended CONNECT for webtransport over https
   with authority and path present *)
Theorem request_admission h :
  (exists r, request_try_from h = inr r) <->
  (has k_method v_connect h /\ has k_scheme v_https h /\ has k_protocol v_webtransport h /\
   present k_authority h /\ present k_path h).
Proof.
  unfold request_try_from, has, present. split.
  - intros [r H].
    destruct (hget k_method h) as [m|]; [|discriminate].
    destruct (list_eqb m v_connect) eqn:E1; cbn [negb] in H; [|discriminate]. apply list_eqb_eq in E1. subst m.
    destruct (hget k_scheme h) as [s|]; [|discriminate].
    destruct (list_eqb s v_https) eqn:E2; cbn [negb] in H; [|discriminate]. apply list_eqb_eq in E2. subst s.
    destruct (hget k_protocol h) as [p|]; [|discriminate].
    destruct (list_eqb p v_webtransport) eqn:E3; cbn [negb] in H; [|discriminate]. apply list_eqb_eq in E3. subst p.
    destruct (hget k_authority h) as [a|]; [|discriminate].
    destruct (hget k_path h) as [pa|]; [|discriminate]. eauto 10.
  - intros (H1 & H2 & H3 & [a H4] & [p H5]). rewrite H1, H2, H3, H4, H5.
    assert (E : forall x, list_eqb x x = true) by (intros; apply list_eqb_eq; reflexivity).
    rewrite !E. cbn [negb]. eauto.
Qed.

Theorem request_try_from_identity h r : request_try_from h = inr r -> r = h.
Proof.
  unfold request_try_from.
  destruct (hget k_method h) as [m|]; [|discriminate]. destruct (negb (list_eqb m v_connect)); [discriminate|].
  destruct (hget k_scheme h) as [s|]; [|discriminate]. destruct (negb (list_eqb s v_https)); [discriminate|].
  destruct (hget k_protocol h) as [p|]; [|discriminate]. destruct (negb (list_eqb p v_webtransport)); [discriminate|].
  destruct (hget k_authority h); [|discriminate]. destruct (hget k_path h); [|discriminate]. congruence.
Qed.

(* the refusal: non-CONNECT => H3_REQUEST_REJECTED on that stream, other malformed => H3_MESSAGE_ERROR;
   never a connection close (from the definition of bi_accept) *)
Theorem request_refusal h :
  match request_try_from h with
  | inr _ => True
  | inl HMethodNotConnect => exists m, hget k_method h = Some m /\ m <> v_connect
  | inl e => e <> HMethodNotConnect
  end.
Proof.
  unfold request_try_from.
  destruct (hget k_method h) as [m|]; [|discriminate].
  destruct (list_eqb m v_connect) eqn:E1; cbn [negb].
  2:{ exists m. split; [reflexivity|]. apply list_eqb_false. exact E1. }
  destruct (hget k_scheme h) as [s|]; [|discriminate]. destruct (negb (list_eqb s v_https)); [discriminate|].
  destruct (hget k_protocol h) as [p|]; [|discriminate]. destruct (negb (list_eqb p v_webtransport)); [discriminate|].
  destruct (hget k_authority h); [|discriminate]. destruct (hget k_path h); [exact I|discriminate].
Qed.

(* header maps *)
Lemma hget_hinsert_same k v m : hget k (hinsert k v m) = Some v.
Proof.
  induction m as [|[k' v'] m IH]; cbn [hinsert hget].
  - assert (E : list_eqb k k = true) by (apply list_eqb_eq; reflexivity). rewrite E. reflexivity.
  - destruct (list_eqb k k') eqn:E; cbn [hget].
    + assert (E2 : list_eqb k k = true) by (apply list_eqb_eq; reflexivity). rewrite E2. reflexivity.
    + rewrite E. exact IH.
Qed.

Lemma hget_hinsert_other k k2 v m : k2 <> k -> hget k2 (hinsert k v m) = hget k2 m.
Proof.
  intros Hne. induction m as [|[k' v'] m IH]; cbn [hinsert hget].
  - apply list_eqb_false in Hne. rewrite Hne. reflexivity.
  - destruct (list_eqb k k') eqn:E; cbn [hget].
    + apply list_eqb_eq in E. subst k'. apply list_eqb_false in Hne. rewrite Hne. reflexivity.
    + destruct (list_eqb k2 k'); [reflexivity|exact IH].
Qed.

(* reserved pseudo-header fields can never be overridden through insert *)
Theorem insert_reserved_refused k v req : request_insert k v req = None <-> is_reserved k = true.
Proof. unfold request_insert. destruct (is_reserved k); split; congruence. Qed.

Theorem insert_preserves_reserved k v req req' r :
  request_insert k v req = Some req' -> In r reserved_headers -> hget r req' = hget r req.
Proof.
  unfold request_insert. destruct (is_reserved k) eqn:E; [discriminate|]. intros [= <-] Hin.
  apply hget_hinsert_other. intros ->.
  unfold is_reserved in E. assert (existsb (list_eqb k) reserved_headers = true); [|congruence].
  apply existsb_exists. exists k. split; [exact Hin|apply list_eqb_eq; reflexivity].
Qed.

(* what the server sees of a freshly built request *)
Theorem request_new_fields a p :
  hget k_method (request_new a p) = Some v_connect /\ hget k_scheme (request_new a p) = Some v_https /\
  hget k_protocol (request_new a p) = Some v_webtransport /\
  hget k_authority (request_new a p) = Some a /\ hget k_path (request_new a p) = Some p /\
  length (request_new a p) = 5%nat.
Proof. repeat split; reflexivity. Qed.

Theorem request_new_admitted a p : request_try_from (request_new a p) = inr (request_new a p).
Proof. reflexivity. Qed.

(* responses: the status that comes out is always a valid HTTP status *)
Theorem response_status_range h c : response_try_from h = inr c -> 100 <= c <= 599.
Proof.
  unfold response_try_from. destruct (hget k_status h) as [s|]; [|discriminate].
  destruct (status_from_str s) as [v|] eqn:E; [|discriminate]. intros [= <-].
  exact (status_from_str_range _ _ E).
Qed.

Theorem response_roundtrip c : 100 <= c <= 599 -> response_try_from (response_with_status c) = inr c.
Proof.
  intros H. unfold response_try_from, response_with_status. cbn [hget].
  assert (E : list_eqb k_status k_status = true) by reflexivity. rewrite E.
  rewrite (status_show_parse c H). reflexivity.
Qed.

Theorem response_legacy_refuted :
  exists h c, response_try_from_legacy h = inr c /\ ~ (100 <= c <= 599).
Proof. exists [(k_status, [57; 57; 57])], 999. split; [reflexivity|lia]. Qed.

(* extra response fields never change the outcome: only :status is read *)
Theorem response_extra_fields_irrelevant h k v : k <> k_status ->
  response_try_from (hinsert k v h) = response_try_from h.
Proof. intros Hne. unfold response_try_from. rewrite hget_hinsert_other by congruence. reflexivity. Qed.
