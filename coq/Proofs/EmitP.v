(* EmitP.v -- what the endpoint emits decodes as the specifications say (C16) *)
From WT.Model Require Import Base Varint Ids Frame Async StreamTS Wire Qpack Session Runner Emit.
From WT.Spec Require Import Spec9114.
From WT.Proofs Require Import VarintP FrameP WireP QpackP SpecP.
From Coq Require Import Lia.

(* control stream: type 0x00, then exactly one SETTINGS frame carrying the WebTransport settings,
   for EVERY iteration order of the settings map *)
Theorem emit_control_decodes order rest :
  forallb pair_ok order = true -> sok_nodup [] order = true ->
  len (settings_payload order) <= max_parse_payload ->
  exists r1, sheader_read (emit_control order ++ rest) = (SVal (mksheader SControl None), r1) /\
             frame_read r1 = (RVal (mkframe KSettings (settings_payload order) None), rest) /\
             settings_with_frame (settings_payload order) = Val (filter sok order).
Proof.
  intros H1 H2 H3. unfold emit_control. rewrite <- app_assoc.
  eexists. split; [apply sheader_read_write; reflexivity|]. split.
  - apply frame_read_write; [reflexivity|exact H3].
  - apply settings_roundtrip; assumption.
Qed.

Lemma local_settings_ok :
  forallb pair_ok local_settings = true /\ sok_nodup [] local_settings = true /\
  filter sok local_settings = local_settings /\ len (settings_payload local_settings) <= max_parse_payload.
Proof. vm_compute. repeat split; try reflexivity. discriminate. Qed.

(* stream preambles: minimal varints, the right type / signal value, then the session id *)
Theorem emit_uni_preamble_spec sid :
  emit_uni_preamble sid = enc STREAM_WEBTRANSPORT ++ enc sid.
Proof. reflexivity. Qed.
Theorem emit_bi_preamble_spec sid :
  emit_bi_preamble sid = enc FRAME_WEBTRANSPORT_STREAM ++ enc sid.
Proof. reflexivity. Qed.

(* datagrams are prefixed by the session's quarter stream id *)
Theorem emit_datagram_spec sid p : emit_datagram sid p = enc (sid / 4) ++ p.
Proof. unfold emit_datagram, drv_dgram_write. rewrite q_from_session_div. reflexivity. Qed.

(* field sections start with Required Insert Count = 0 and Base = 0 (no dynamic table) *)
Theorem emit_section_prefix l : exists r, qpack_encode l = 0 :: 0 :: r.
Proof. unfold qpack_encode. cbn [app]. eauto. Qed.

