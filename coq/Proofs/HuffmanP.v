(* HuffmanP.v -- the Huffman coder of Model/Qpack.v (httlib-huffman as used by
   qpack.rs): decode (encode s) = s for every byte string. *)
From WT.Model Require Import Base Varint Ids Frame Wire HuffmanTable StaticTable Qpack.
From Coq Require Import Lia.
Local Open Scope N_scope.

(* ---------- finite facts about the code table (computed inside the kernel) ---------- *)
Definition none_code (p : list bool) : bool :=
  match find_code p huff_codes with None => true | Some _ => false end.

Definition sym_ok (s : N) : bool :=
  let c := code_of s in
  match find_code c huff_codes with Some s' => s' =? s | None => false end &&
  forallb (fun k => none_code (firstn k c)) (seq 1 (length c - 1)) &&
  negb (Nat.eqb (length c) 0).

Lemma all_sym_ok : forallb sym_ok (map N.of_nat (seq 0 256)) = true.
Proof. vm_compute. reflexivity. Qed.

Lemma sym_facts s : s < 256 ->
  let c := code_of s in
  find_code c huff_codes = Some s /\
  (forall k, (1 <= k < length c)%nat -> find_code (firstn k c) huff_codes = None) /\
  (0 < length c)%nat.
Proof.
  intros Hs. pose proof all_sym_ok as A. rewrite forallb_forall in A.
  assert (Hin : In s (map N.of_nat (seq 0 256))).
  { apply in_map_iff. exists (N.to_nat s). split; [lia|]. apply in_seq. lia. }
  specialize (A s Hin). unfold sym_ok in A. cbv zeta in *.
  apply andb_prop in A. destruct A as [A A3]. apply andb_prop in A. destruct A as [A1 A2].
  split; [|split].
  - destruct (find_code (code_of s) huff_codes) as [s'|]; [|discriminate].
    apply N.eqb_eq in A1. congruence.
  - intros k Hk. rewrite forallb_forall in A2.
    assert (Hin2 : In k (seq 1 (length (code_of s) - 1))) by (apply in_seq; lia).
    specialize (A2 k Hin2). unfold none_code in A2.
    destruct (find_code (firstn k (code_of s)) huff_codes); [discriminate|reflexivity].
  - destruct (length (code_of s)); [discriminate|lia].
Qed.

(* ---------- one symbol ---------- *)
Lemma firstn_snoc {A} (d : A) : forall k (c : list A), (k < length c)%nat ->
  firstn (S k) c = firstn k c ++ [nth k c d] /\ skipn k c = nth k c d :: skipn (S k) c.
Proof.
  induction k as [|k IH]; intros c Hk.
  - destruct c as [|x c]; [cbn in Hk; lia|]. cbn. auto.
  - destruct c as [|x c]; [cbn in Hk; lia|]. cbn [length] in Hk.
    destruct (IH c ltac:(lia)) as [E1 E2]. split.
    + change (firstn (S (S k)) (x :: c)) with (x :: firstn (S k) c). rewrite E1. reflexivity.
    + change (skipn (S k) (x :: c)) with (skipn k c). rewrite E2. reflexivity.
Qed.

Lemma hdecode_sym_from s : s < 256 -> forall n k rest out,
  (n = length (code_of s) - k)%nat -> (k < length (code_of s))%nat ->
  hdecode_bits (firstn k (code_of s)) (skipn k (code_of s) ++ rest) out
  = hdecode_bits [] rest (out ++ [s]).
Proof.
  intros Hs. destruct (sym_facts s Hs) as (F1 & F2 & F3). cbv zeta in *.
  induction n as [|n IH]; intros k rest out Hn Hk; [lia|].
  destruct (firstn_snoc false k (code_of s) Hk) as [E1 E2].
  rewrite E2. cbn [app hdecode_bits]. rewrite <- E1.
  destruct (Nat.eq_dec (S k) (length (code_of s))) as [Hl|Hl].
  - rewrite Hl, firstn_all, F1.
    assert (L : (s <? 256) = true) by (apply N.ltb_lt; exact Hs). rewrite L.
    rewrite skipn_all. reflexivity.
  - rewrite F2 by lia. apply IH; lia.
Qed.

Lemma hdecode_sym s : s < 256 -> forall rest out,
  hdecode_bits [] (code_of s ++ rest) out = hdecode_bits [] rest (out ++ [s]).
Proof.
  intros Hs rest out. destruct (sym_facts s Hs) as (_ & _ & F3). cbv zeta in F3.
  exact (hdecode_sym_from s Hs _ 0%nat rest out eq_refl F3).
Qed.

Lemma hdecode_syms s : bytes_ok s = true -> forall rest out,
  hdecode_bits [] (flat_map code_of s ++ rest) out = hdecode_bits [] rest (out ++ s).
Proof.
  induction s as [|x s IH]; intros Hok rest out.
  - cbn. rewrite app_nil_r. reflexivity.
  - unfold bytes_ok in Hok. cbn [forallb] in Hok. apply andb_prop in Hok. destruct Hok as [Hx Hs'].
    cbn [flat_map]. rewrite <- app_assoc. rewrite hdecode_sym.
    + rewrite (IH Hs'). rewrite <- app_assoc. reflexivity.
    + unfold byte_ok in Hx. apply N.ltb_lt in Hx. exact Hx.
Qed.

(* ---------- packing into bytes ---------- *)
Lemma byte8_full b0 b1 b2 b3 b4 b5 b6 b7 r :
  exists v, byte_of_bits 0 8 (b0 :: b1 :: b2 :: b3 :: b4 :: b5 :: b6 :: b7 :: r) = (v, r) /\
            bits_msb 8 v = [b0; b1; b2; b3; b4; b5; b6; b7].
Proof.
  destruct b0, b1, b2, b3, b4, b5, b6, b7; eexists; split; vm_compute; reflexivity.
Qed.

Lemma byte8_short bits : (0 < length bits < 8)%nat ->
  exists v, byte_of_bits 0 8 bits = (v, []) /\
            bits_msb 8 v = bits ++ repeat true (8 - length bits).
Proof.
  intros H.
  destruct bits as [|b0 [|b1 [|b2 [|b3 [|b4 [|b5 [|b6 [|b7 r]]]]]]]]; cbn [length] in H; try lia.
  - destruct b0; eexists; split; vm_compute; reflexivity.
  - destruct b0, b1; eexists; split; vm_compute; reflexivity.
  - destruct b0, b1, b2; eexists; split; vm_compute; reflexivity.
  - destruct b0, b1, b2, b3; eexists; split; vm_compute; reflexivity.
  - destruct b0, b1, b2, b3, b4; eexists; split; vm_compute; reflexivity.
  - destruct b0, b1, b2, b3, b4, b5; eexists; split; vm_compute; reflexivity.
  - destruct b0, b1, b2, b3, b4, b5, b6; eexists; split; vm_compute; reflexivity.
Qed.

Lemma pack_nil f : pack_bits f [] = [].
Proof. destruct f; reflexivity. Qed.

Lemma unpack_pack fuel : forall bits, (length bits < fuel)%nat ->
  exists k, (k < 8)%nat /\ unpack_bits (pack_bits fuel bits) = bits ++ repeat true k.
Proof.
  induction fuel as [|f IH]; intros bits Hl; [lia|].
  destruct bits as [|b0 bits'].
  - exists 0%nat. split; [lia|]. reflexivity.
  - destruct (Nat.lt_ge_cases (length (b0 :: bits')) 8) as [Hs|Hg].
    + destruct (byte8_short (b0 :: bits')) as (v & E1 & E2); [cbn [length] in *; lia|].
      cbn [pack_bits]. rewrite E1. rewrite pack_nil.
      exists (8 - length (b0 :: bits'))%nat. split; [cbn [length] in *; lia|].
      unfold unpack_bits. cbn [flat_map]. rewrite app_nil_r. exact E2.
    + destruct bits' as [|b1 [|b2 [|b3 [|b4 [|b5 [|b6 [|b7 r]]]]]]]; cbn [length] in Hg; try lia.
      destruct (byte8_full b0 b1 b2 b3 b4 b5 b6 b7 r) as (v & E1 & E2).
      cbn [pack_bits]. rewrite E1.
      destruct (IH r) as (k & Hk & E3); [cbn [length] in Hl; lia|].
      exists k. split; [exact Hk|].
      unfold unpack_bits in *. cbn [flat_map]. rewrite E3, E2. reflexivity.
Qed.

(* ---------- the padding ---------- *)
Lemma ones_pending k : (k < 8)%nat -> forall out,
  hdecode_bits [] (repeat true k) out = Some (out, repeat true k) /\ pad_ok (repeat true k) = true.
Proof.
  intros Hk out.
  destruct k as [|[|[|[|[|[|[|[|k]]]]]]]]; try lia; split; vm_compute; reflexivity.
Qed.

(* ---------- round trip ---------- *)
Theorem huffman_roundtrip s : bytes_ok s = true -> hdecode (hencode s) = Some s.
Proof.
  intros Hok. unfold hdecode, hencode.
  destruct (unpack_pack (S (length (flat_map code_of s))) (flat_map code_of s) ltac:(lia)) as (k & Hk & E).
  rewrite E, (hdecode_syms s Hok).
  destruct (ones_pending k Hk ([] ++ s)) as [E1 E2]. rewrite E1, E2. reflexivity.
Qed.

(* the encoder never produces a symbol outside a byte *)
Lemma byte_of_bits_bound : forall n acc bits, fst (byte_of_bits acc n bits) < (acc + 1) * 2 ^ N.of_nat n.
Proof.
  induction n as [|n IH]; intros acc bits.
  - cbn [byte_of_bits fst]. change (2 ^ N.of_nat 0) with 1. lia.
  - cbn [byte_of_bits]. rewrite Nat2N.inj_succ, N.pow_succ_r'.
    destruct bits as [|b r].
    + specialize (IH (acc * 2 + 1) []). nia.
    + specialize (IH (acc * 2 + (if b then 1 else 0)) r). destruct b; nia.
Qed.

Lemma pack_bits_ok fuel : forall bits, bytes_ok (pack_bits fuel bits) = true.
Proof.
  induction fuel as [|f IH]; intros bits; [reflexivity|].
  destruct bits as [|b r]; [reflexivity|].
  cbn [pack_bits]. destruct (byte_of_bits 0 8 (b :: r)) as [v r'] eqn:E.
  unfold bytes_ok. cbn [forallb]. fold (bytes_ok (pack_bits f r')). rewrite IH, Bool.andb_true_r.
  pose proof (byte_of_bits_bound 8 0 (b :: r)) as B. rewrite E in B. cbn [fst] in B.
  unfold byte_ok. apply N.ltb_lt. change ((0 + 1) * 2 ^ N.of_nat 8) with 256 in B. exact B.
Qed.

Theorem hencode_bytes_ok s : bytes_ok (hencode s) = true.
Proof. unfold hencode. apply pack_bits_ok. Qed.
