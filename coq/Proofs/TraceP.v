(* TraceP.v -- every observed trace that [orun] accepts satisfies the conservation invariant of the
   hand-off system (so what the running driver did is an execution on which C08's statement holds),
   and an accepted trace whose receives are first-in-first-out IS a run of the proved transition
   system [step] (trace inclusion). *)
From WT.Model Require Import Base Handoff Trace.
From WT.Proofs Require Import HandoffP.
From Coq Require Import Lia Permutation.

Lemma recv_id_preserves_inv s id s' : inv s -> recv_id s id = Some s' -> inv s'.
Proof.
  intros [Hnd Hp] H. unfold recv_id in H.
  destruct (mem id (chan s)) eqn:E; [|discriminate]. injection H as <-. apply mem_In in E.
  unfold inv, all_ids in *. cbn [quinn_q waiting ready chan delivered gone opened].
  assert (P : Permutation (quinn_q s ++ waiting s ++ ready s ++ remove1 id (chan s) ++ (delivered s ++ [id]) ++ gone s)
                          (quinn_q s ++ waiting s ++ ready s ++ chan s ++ delivered s ++ gone s)).
  { do 3 apply Permutation_app_head. rewrite (remove1_perm id (chan s) E) at 2. cbn [app].
    rewrite (Permutation_middle (remove1 id (chan s)) _ id). apply Permutation_app_head.
    rewrite <- !app_assoc. cbn [app]. rewrite <- (Permutation_middle (delivered s) _ id). reflexivity. }
  split; [apply (Permutation_NoDup (Permutation_sym P)); assumption|rewrite P; assumption].
Qed.

(* when the received stream is the head of the channel, the observed receive is the system's AppRecv *)
Lemma recv_id_head cap s id c : chan s = id :: c -> recv_id s id = step cap s AppRecv.
Proof.
  intros E. unfold recv_id. cbn [step]. rewrite E. cbn [mem remove1]. rewrite N.eqb_refl. reflexivity.
Qed.

Lemma bind_hs_some o r o' : bind_hs o r = Some o' -> exists s, r = Some s /\ o' = with_hs o s.
Proof. destruct r as [s|]; cbn [bind_hs]; [intros [= <-]; eauto|discriminate]. Qed.

Theorem ostep_preserves_inv cap o e o' : inv (hs o) -> ostep cap o e = Some o' -> inv (hs o').
Proof.
  intros Hi H. destruct e as [id|id|id|id|id|id|]; cbn [ostep] in H.
  - destruct (exited o); [discriminate|].
    destruct (step cap (hs o) (PeerOpen id)) as [s1|] eqn:E1; [|discriminate].
    apply bind_hs_some in H. destruct H as (s2 & E2 & ->). cbn [with_hs hs].
    eapply step_preserves_inv; [|exact E2]. eapply step_preserves_inv; eauto.
  - apply bind_hs_some in H. destruct H as (s2 & E2 & ->). cbn [with_hs hs]. eapply step_preserves_inv; eauto.
  - apply bind_hs_some in H. destruct H as (s2 & E2 & ->). cbn [with_hs hs]. eapply step_preserves_inv; eauto.
  - destruct (mem id (ready (hs o)) && negb (mem id (begun o))); [|discriminate].
    injection H as <-. exact Hi.
  - destruct (mem id (delivered (hs o))); [injection H as <-; exact Hi|].
    destruct (mem id (begun o)); [|discriminate].
    apply bind_hs_some in H. destruct H as (s2 & E2 & ->). cbn [with_hs hs]. eapply step_preserves_inv; eauto.
  - destruct (mem id (chan (hs o))).
    + apply bind_hs_some in H. destruct H as (s2 & E2 & ->). cbn [with_hs hs]. eapply recv_id_preserves_inv; eauto.
    + destruct (mem id (begun o)); [|discriminate].
      destruct (step (S cap) (hs o) (TaskSend id)) as [s1|] eqn:E1; [|discriminate].
      apply bind_hs_some in H. destruct H as (s2 & E2 & ->). cbn [with_hs hs].
      eapply recv_id_preserves_inv; [|exact E2]. eapply step_preserves_inv; eauto.
  - injection H as <-. exact Hi.
Qed.

Theorem orun_preserves_inv cap es : forall o o', inv (hs o) -> orun cap o es = Some o' -> inv (hs o').
Proof.
  induction es as [|e es IH]; intros o o' Hi H; cbn [orun] in H; [injection H as <-; exact Hi|].
  destruct (ostep cap o e) as [o1|] eqn:E; [|discriminate].
  apply (IH o1 o' (ostep_preserves_inv _ _ _ _ Hi E) H).
Qed.

(* what holds of every trace the validator accepts: nothing was delivered twice, nothing was delivered
   that the worker did not accept, every accepted stream is in exactly one place *)
Theorem observed_exactly_once cap es o : orun cap oinit es = Some o ->
  NoDup (delivered (hs o)) /\ (forall x, In x (delivered (hs o)) -> In x (opened (hs o))) /\
  NoDup (all_ids (hs o)) /\ Permutation (all_ids (hs o)) (opened (hs o)).
Proof.
  intros H. destruct (orun_preserves_inv cap es oinit o inv_init H) as [Hnd Hp].
  repeat split; auto.
  - unfold all_ids in Hnd. do 4 apply NoDup_app_r in Hnd. apply NoDup_app_l in Hnd. exact Hnd.
  - intros x Hx. apply (Permutation_in _ Hp). unfold all_ids. rewrite !in_app_iff. tauto.
Qed.

(* ---------- trace inclusion for first-in-first-out traces ---------- *)
(* the labels of the transition system an observed event stands for *)
Definition olabels (o : ost) (e : oev) : list lbl :=
  match e with
  | OAccept id => [PeerOpen id; WorkerAccept]
  | OPreWt id => [PeerPreamble id]
  | OPreOther id => [PeerAbort id]
  | OSendBegin _ => []
  | OSendEnd id => if mem id (delivered (hs o)) then [] else [TaskSend id]
  | ORecv id => if mem id (chan (hs o)) then [AppRecv] else [TaskSend id; AppRecv]
  | OExit => []
  end.

(* the observed receive takes the stream at the head of the (model) channel *)
Definition fifo_here (o : ost) (e : oev) : bool :=
  match e with
  | ORecv id =>
      match chan (hs o) with
      | h :: _ => h =? id
      | [] => true          (* send and receive linearised together on an empty channel *)
      end
  | _ => true
  end.

Fixpoint all_labels (cap : nat) (o : ost) (es : list oev) : list lbl :=
  match es with
  | [] => []
  | e :: r => olabels o e ++ match ostep cap o e with Some o' => all_labels cap o' r | None => [] end
  end.
Fixpoint all_fifo (cap : nat) (o : ost) (es : list oev) : bool :=
  match es with
  | [] => true
  | e :: r => fifo_here o e && match ostep cap o e with Some o' => all_fifo cap o' r | None => true end
  end.

Lemma step_cap_mono cap s l s' : step cap s l = Some s' -> step (S cap) s l = Some s'.
Proof.
  destruct l as [id|id|id| |id| |]; cbn [step]; auto.
  destruct (mem id (ready s)); cbn [andb]; [|discriminate].
  destruct (length (chan s) <? cap)%nat eqn:E; [|discriminate].
  apply Nat.ltb_lt in E. assert (E2 : (length (chan s) <? S cap)%nat = true) by (apply Nat.ltb_lt; lia).
  rewrite E2. auto.
Qed.

Lemma tasksend_chan cap s id s1 : step cap s (TaskSend id) = Some s1 -> chan s1 = chan s ++ [id].
Proof.
  cbn [step]. destruct (mem id (ready s) && (length (chan s) <? cap)%nat); [|discriminate].
  intros [= <-]. reflexivity.
Qed.

Lemma ostep_is_run cap o e o' :
  ostep cap o e = Some o' -> fifo_here o e = true ->
  run (step (S cap)) (hs o) (olabels o e) = Some (hs o').
Proof.
  intros H F. destruct e as [id|id|id|id|id|id|]; cbn [ostep olabels] in *.
  - destruct (exited o); [discriminate|].
    destruct (step cap (hs o) (PeerOpen id)) as [s1|] eqn:E1; [|discriminate].
    apply bind_hs_some in H. destruct H as (s2 & E2 & ->). cbn [with_hs hs run].
    rewrite (step_cap_mono _ _ _ _ E1), (step_cap_mono _ _ _ _ E2). reflexivity.
  - apply bind_hs_some in H. destruct H as (s2 & E2 & ->). cbn [with_hs hs run].
    rewrite (step_cap_mono _ _ _ _ E2). reflexivity.
  - apply bind_hs_some in H. destruct H as (s2 & E2 & ->). cbn [with_hs hs run].
    rewrite (step_cap_mono _ _ _ _ E2). reflexivity.
  - destruct (mem id (ready (hs o)) && negb (mem id (begun o))); [|discriminate].
    injection H as <-. reflexivity.
  - destruct (mem id (delivered (hs o))); [injection H as <-; reflexivity|].
    destruct (mem id (begun o)); [|discriminate].
    apply bind_hs_some in H. destruct H as (s2 & E2 & ->). cbn [with_hs hs run]. rewrite E2. reflexivity.
  - cbn [fifo_here] in F. destruct (mem id (chan (hs o))) eqn:M.
    + apply bind_hs_some in H. destruct H as (s2 & E2 & ->). cbn [with_hs hs run].
      destruct (chan (hs o)) as [|h c] eqn:C; [cbn [mem] in M; discriminate|].
      apply N.eqb_eq in F. subst h. rewrite <- (recv_id_head (S cap) _ _ _ C), E2. reflexivity.
    + destruct (mem id (begun o)); [|discriminate].
      destruct (step (S cap) (hs o) (TaskSend id)) as [s1|] eqn:E1; [|discriminate].
      apply bind_hs_some in H. destruct H as (s2 & E2 & ->). cbn [with_hs hs run]. rewrite E1.
      pose proof (tasksend_chan _ _ _ _ E1) as C1.
      destruct (chan (hs o)) as [|h c] eqn:C.
      * cbn [app] in C1. rewrite <- (recv_id_head (S cap) _ _ _ C1), E2. reflexivity.
      * apply N.eqb_eq in F. subst h. cbn [mem] in M. rewrite N.eqb_refl in M. discriminate.
  - injection H as <-. reflexivity.
Qed.

Lemma run_app' stp : forall a b s, run stp s (a ++ b) = match run stp s a with Some s' => run stp s' b | None => None end.
Proof. induction a as [|l a IH]; intros b s; cbn [app run]; [reflexivity|]. destruct (stp s l); auto. Qed.

(* an accepted first-in-first-out trace is a run of the transition system of Handoff.v (with the
   observation slack of one channel slot): every theorem about [run (step _)] applies to it *)
Theorem observed_trace_is_a_run cap es : forall o o',
  orun cap o es = Some o' -> all_fifo cap o es = true ->
  run (step (S cap)) (hs o) (all_labels cap o es) = Some (hs o').
Proof.
  induction es as [|e es IH]; intros o o' H F; cbn [orun all_fifo all_labels] in *.
  - injection H as <-. reflexivity.
  - destruct (ostep cap o e) as [o1|] eqn:E; [|discriminate].
    apply andb_prop in F. destruct F as [F1 F2].
    rewrite run_app', (ostep_is_run _ _ _ _ E F1). apply IH; assumption.
Qed.

(* the validator is not vacuous: a trace with an overlapping send/receive log order is accepted,
   a double delivery and a delivery of something never accepted are refused *)
Example trace_accepts :
  option_map (fun o => delivered (hs o))
    (orun 1 oinit [OAccept 2; OAccept 6; OPreWt 6; OSendBegin 6; OPreWt 2; OSendBegin 2; ORecv 6; OSendEnd 6;
                   OSendEnd 2; ORecv 2; OExit]) = Some [6; 2].
Proof. vm_compute. reflexivity. Qed.
Example trace_refuses_double_delivery :
  orun 4 oinit [OAccept 2; OPreWt 2; OSendBegin 2; OSendEnd 2; ORecv 2; ORecv 2] = None.
Proof. vm_compute. reflexivity. Qed.
Example trace_refuses_unknown_stream : orun 4 oinit [OAccept 2; OPreWt 2; ORecv 6] = None.
Proof. vm_compute. reflexivity. Qed.
Example trace_refuses_overfull_channel :
  orun 1 oinit [OAccept 2; OAccept 6; OAccept 10; OPreWt 2; OPreWt 6; OPreWt 10; OSendBegin 2; OSendBegin 6;
                OSendBegin 10; OSendEnd 2; OSendEnd 6; OSendEnd 10] = None.
Proof. vm_compute. reflexivity. Qed.

(* ---------- C07 on observed traces: nothing a stalled stream does (or fails to do) disables the worker ---------- *)
(* in every state the validator can be in, however many streams sit in their tasks without a preamble,
   with a parsed preamble waiting for a slot, or in a full channel: a further stream can be accepted *)
Theorem observed_accept_never_blocked cap o id :
  exited o = false -> mem id (opened (hs o)) = false -> ostep cap o (OAccept id) <> None.
Proof.
  intros E M. cbn [ostep]. rewrite E. cbn [step]. rewrite M. cbn [bind_hs step quinn_q].
  destruct (quinn_q (hs o)); cbn; discriminate.
Qed.

(* and its preamble, once it arrives, is taken whatever the other streams are doing
   (the validator's accept queue is empty between events: PeerOpen is synthesised right before WorkerAccept) *)
Theorem observed_preamble_never_blocked cap o id o1 :
  quinn_q (hs o) = [] -> ostep cap o (OAccept id) = Some o1 -> ostep cap o1 (OPreWt id) <> None.
Proof.
  intros Q. cbn [ostep]. destruct (exited o); [discriminate|]. cbn [step].
  destruct (mem id (opened (hs o))); [discriminate|]. cbn [step quinn_q]. rewrite Q. cbn [app bind_hs with_hs].
  intros [= <-]. unfold ostep, with_hs. cbn [hs step waiting].
  assert (H : mem id (waiting (hs o) ++ [id]) = true).
  { apply mem_In, in_or_app. right. left. reflexivity. }
  rewrite H. cbn [bind_hs]. discriminate.
Qed.

(* ---------- settled states ---------- *)
(* [settled] says exactly that no task can move its stream into the channel: the only reason a stream with
   a parsed preamble is not (yet) in the channel is that the channel is full *)
Theorem settled_iff_no_send_enabled cap o :
  settled cap o = true <-> forall id, In id (ready (hs o)) -> step cap (hs o) (TaskSend id) = None.
Proof.
  unfold settled. split.
  - intros H id Hin. cbn [step]. destruct (ready (hs o)) as [|x r] eqn:R; [destruct Hin|].
    apply Nat.leb_le in H. assert (E : (length (chan (hs o)) <? cap)%nat = false) by (apply Nat.ltb_ge; lia).
    rewrite E, Bool.andb_false_r. reflexivity.
  - intros H. destruct (ready (hs o)) as [|x r] eqn:R; [reflexivity|].
    specialize (H x (or_introl eq_refl)). cbn [step] in H. rewrite R in H. cbn [mem] in H.
    rewrite N.eqb_refl in H. cbn [orb andb] in H.
    destruct (length (chan (hs o)) <? cap)%nat eqn:E; [discriminate|].
    apply Nat.ltb_ge in E. apply Nat.leb_le. exact E.
Qed.
