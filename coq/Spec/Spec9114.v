(* Spec9114.v -- what RFC 9114 (HTTP/3), RFC 9204 (QPACK), RFC 9220 / RFC 8441
   (extended CONNECT), RFC 9297 (HTTP datagrams, capsules) and
   draft-ietf-webtrans-http3 prescribe, written from the specifications and not
   from the code.  Constants are transcribed from the RFC registries (the RFC
   texts are not on disk in this sandbox: transcribed from memory, see DESIGN 7). *)
From WT.Model Require Import Base.

(* ---- error code registry (RFC 9114 8.1, RFC 9204 6, RFC 9297 5.2, WT draft) ---- *)
Definition H3_DATAGRAM_ERROR : N := 51.              (* 0x33 *)
Definition H3_NO_ERROR : N := 256.                   (* 0x0100 *)
Definition H3_GENERAL_PROTOCOL_ERROR : N := 257.
Definition H3_INTERNAL_ERROR : N := 258.
Definition H3_STREAM_CREATION_ERROR : N := 259.      (* 0x0103 *)
Definition H3_CLOSED_CRITICAL_STREAM : N := 260.     (* 0x0104 *)
Definition H3_FRAME_UNEXPECTED : N := 261.           (* 0x0105 *)
Definition H3_FRAME_ERROR : N := 262.                (* 0x0106 *)
Definition H3_EXCESSIVE_LOAD : N := 263.             (* 0x0107 *)
Definition H3_ID_ERROR : N := 264.                   (* 0x0108 *)
Definition H3_SETTINGS_ERROR : N := 265.             (* 0x0109 *)
Definition H3_MISSING_SETTINGS : N := 266.           (* 0x010a *)
Definition H3_REQUEST_REJECTED : N := 267.           (* 0x010b *)
Definition H3_MESSAGE_ERROR : N := 270.              (* 0x010e *)
Definition QPACK_DECOMPRESSION_FAILED : N := 512.    (* 0x0200 *)
Definition WEBTRANSPORT_BUFFERED_STREAM_REJECTED : N := 966049156. (* 0x3994bd84 *)
Definition WEBTRANSPORT_SESSION_GONE : N := 386759528.             (* 0x170d7b68 *)

(* ---- frame and stream types ---- *)
Definition FRAME_DATA : N := 0.
Definition FRAME_HEADERS : N := 1.
Definition FRAME_SETTINGS : N := 4.
Definition FRAME_WEBTRANSPORT_STREAM : N := 65.      (* 0x41 *)
Definition STREAM_CONTROL : N := 0.
Definition STREAM_QPACK_ENCODER : N := 2.
Definition STREAM_QPACK_DECODER : N := 3.
Definition STREAM_WEBTRANSPORT : N := 84.            (* 0x54 *)
(* reserved (GREASE) values: 0x1f * n + 0x21 (RFC 9114 7.2.8, 6.2.3, 7.2.4.1) *)
Definition is_grease (id : N) : bool := (33 <=? id) && ((id - 33) mod 31 =? 0).

(* ---- settings ---- *)
Definition SETTINGS_QPACK_MAX_TABLE_CAPACITY : N := 1.
Definition SETTINGS_MAX_FIELD_SECTION_SIZE : N := 6.
Definition SETTINGS_QPACK_BLOCKED_STREAMS : N := 7.
Definition SETTINGS_ENABLE_CONNECT_PROTOCOL : N := 8.
Definition SETTINGS_H3_DATAGRAM : N := 51.           (* 0x33 *)
Definition SETTINGS_ENABLE_WEBTRANSPORT : N := 727725890.      (* 0x2b603742 *)
Definition SETTINGS_WEBTRANSPORT_MAX_SESSIONS : N := 3329323114. (* 0xc671706a *)
(* HTTP/2 setting ids that are reserved in HTTP/3 (RFC 9114 7.2.4.1): receipt is H3_SETTINGS_ERROR *)
Definition h2_reserved_setting (id : N) : bool := (id =? 0) || (id =? 2) || (id =? 3) || (id =? 4) || (id =? 5).

Definition CAPSULE_CLOSE_WEBTRANSPORT_SESSION : N := 10307.    (* 0x2843 *)

(* ---- which frames may appear where (RFC 9114 7.2 Table 1; WT draft 4.2) ---- *)
Inductive where_ := OnControl | OnRequestFromPeer (* peer-initiated bidi *) | OnRequestLocal (* our own request stream *).
Inductive kind := DATA | HEADERS | SETTINGS | WT_STREAM | GREASE.

(* verdict: None = permitted; Some codes = the prescribed error(s); two codes
   where two rules of the specifications apply to the same event *)
Definition frame_rule (w : where_) (k : kind) (is_first : bool) : option (list N) :=
  match w, k with
  | _, GREASE => None
  | OnControl, SETTINGS => None (* position rules (first / not repeated) are the runner's, below *)
  | OnControl, (DATA | HEADERS) => Some [H3_FRAME_UNEXPECTED]
  | OnControl, WT_STREAM => Some [H3_FRAME_UNEXPECTED]
  | (OnRequestFromPeer | OnRequestLocal), (DATA | HEADERS) => None
  | (OnRequestFromPeer | OnRequestLocal), SETTINGS => Some [H3_FRAME_UNEXPECTED]
  | OnRequestFromPeer, WT_STREAM =>
      if is_first then None else Some [H3_FRAME_ERROR; H3_FRAME_UNEXPECTED]
  | OnRequestLocal, WT_STREAM => Some [H3_FRAME_UNEXPECTED; H3_FRAME_ERROR]
  end.

(* control stream position rules (RFC 9114 6.2.1, 7.2.4) *)
Definition control_first_not_settings : list N := [H3_MISSING_SETTINGS; H3_FRAME_UNEXPECTED].
Definition control_second_settings : list N := [H3_FRAME_UNEXPECTED].
Definition critical_stream_closed : list N := [H3_CLOSED_CRITICAL_STREAM].
Definition duplicate_critical_stream : list N := [H3_STREAM_CREATION_ERROR].
Definition frame_truncated_by_fin : list N := [H3_FRAME_ERROR; H3_CLOSED_CRITICAL_STREAM].
Definition oversize_frame : list N := [H3_EXCESSIVE_LOAD].
Definition invalid_session_id : list N := [H3_ID_ERROR].
