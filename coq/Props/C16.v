(* C16 -- Everything the endpoint emits is well-formed HTTP/3 and WebTransport. *)
From WT.Model Require Import Base Varint Ids Frame Async StreamTS Wire Qpack Session Runner Emit.
From WT.Spec Require Import Spec9114.
From WT.Proofs Require Import VarintP FrameP WireP QpackP SpecP EmitP HuffmanP QpackRT EmitOrderP.

(* the control stream: stream type 0x00 then exactly one SETTINGS frame whose content, for every
   iteration order of the map, is the set of settings below *)
Theorem C16_control_stream :
  forall order rest, forallb pair_ok order = true -> sok_nodup [] order = true ->
    len (settings_payload order) <= max_parse_payload ->
    exists r1, sheader_read (emit_control order ++ rest) = (SVal (mksheader SControl None), r1) /\
               frame_read r1 = (RVal (mkframe KSettings (settings_payload order) None), rest) /\
               settings_with_frame (settings_payload order) = Val (filter sok order).
Proof. exact emit_control_decodes. Qed.

Theorem C16_settings_advertised :
  forall k v, In (k, v) local_settings <->
    (k, v) = (SETTINGS_QPACK_MAX_TABLE_CAPACITY, 0) \/ (k, v) = (SETTINGS_QPACK_BLOCKED_STREAMS, 0) \/
    (k, v) = (SETTINGS_ENABLE_CONNECT_PROTOCOL, 1) \/ (k, v) = (SETTINGS_ENABLE_WEBTRANSPORT, 1) \/
    (k, v) = (SETTINGS_H3_DATAGRAM, 1) \/ (k, v) = (SETTINGS_WEBTRANSPORT_MAX_SESSIONS, 1).
Proof. exact local_settings_spec. Qed.

Theorem C16_stream_preambles :
  (forall sid, emit_uni_preamble sid = enc STREAM_WEBTRANSPORT ++ enc sid) /\
  (forall sid, emit_bi_preamble sid = enc FRAME_WEBTRANSPORT_STREAM ++ enc sid).
Proof. split; [exact emit_uni_preamble_spec|exact emit_bi_preamble_spec]. Qed.

Theorem C16_datagram_prefix : forall sid p, emit_datagram sid p = enc (sid / 4) ++ p.
Proof. exact emit_datagram_spec. Qed.

Theorem C16_field_sections_static_only : forall l, exists r, qpack_encode l = 0 :: 0 :: r.
Proof. exact emit_section_prefix. Qed.

(* pseudo-header fields first, whatever the map holds; every field line is a static-table reference
   or a literal (never a dynamic-table or post-base reference); and what is emitted decodes, under
   the decoder transcribed in Model/Qpack.v, to exactly the fields that were put in *)
Theorem C16_pseudo_headers_first : forall m, pfirst false (sorted_headers m) = true.
Proof. exact sorted_headers_pseudo_first. Qed.
Theorem C16_field_lines_static_or_literal :
  forall kv, exists b r, enc_field kv = b :: r /\ static_or_literal b = true.
Proof. exact enc_field_static_or_literal. Qed.
Theorem C16_field_sections_decode :
  forall l, fields_okb l = true -> qpack_decode (qpack_encode l) = Val (fold_left ins l []).
Proof. exact qpack_roundtrip_b. Qed.

Theorem C16_static_references_sound :
  forall k v,
    match lookup_index k v with
    | LKeyValue i => lookup_field i = Some (k, v)
    | LKeyOnly i => exists v', lookup_field i = Some (k, v')
    | LNone => True
    end.
Proof. exact lookup_index_sound. Qed.

Theorem C16_error_codes_registered :
  to_code EDatagram = H3_DATAGRAM_ERROR /\ to_code ENoError = H3_NO_ERROR /\
  to_code EStreamCreation = H3_STREAM_CREATION_ERROR /\ to_code EClosedCriticalStream = H3_CLOSED_CRITICAL_STREAM /\
  to_code EFrameUnexpected = H3_FRAME_UNEXPECTED /\ to_code EFrame = H3_FRAME_ERROR /\
  to_code EExcessiveLoad = H3_EXCESSIVE_LOAD /\ to_code EId = H3_ID_ERROR /\
  to_code ESettings = H3_SETTINGS_ERROR /\ to_code EMissingSettings = H3_MISSING_SETTINGS /\
  to_code ERequestRejected = H3_REQUEST_REJECTED /\ to_code EMessage = H3_MESSAGE_ERROR /\
  to_code EDecompression = QPACK_DECOMPRESSION_FAILED /\
  to_code EBufferedStreamRejected = WEBTRANSPORT_BUFFERED_STREAM_REJECTED /\
  to_code ESessionGone = WEBTRANSPORT_SESSION_GONE.
Proof. exact registry_matches. Qed.

Example C16_example :
  emit_control local_settings = [0; 4; 22; 1; 0; 7; 0; 8; 1; 171; 96; 55; 66; 1; 51; 1; 192; 0; 0; 0; 198; 113; 112; 106; 1] /\
  emit_datagram 8 [9] = [2; 9] /\ alpn = [104; 51].
Proof. vm_compute. repeat split; reflexivity. Qed.
