(* C17 -- Identifier algebra is exact; foreign-session traffic is never delivered (codec level and the
   driver's session filter). *)
From WT.Model Require Import Base Varint Ids Frame Wire Filter.
From WT.Proofs Require Import VarintP FrameP WireP FilterP.

(* a session id is accepted exactly when it names a client-initiated bidirectional stream *)
Theorem C17_session_id_accepted_iff : forall x, session_ok x = true <-> x mod 4 = 0.
Proof. exact session_ok_spec. Qed.

(* stream-id classification matches QUIC: bit 0 = initiator, bit 1 = direction *)
Theorem C17_is_client_initiated : forall x, is_client_initiated x = true <-> x mod 2 = 0.
Proof. exact is_client_initiated_spec. Qed.
Theorem C17_is_bidirectional : forall x, is_bidirectional x = true <-> (x / 2) mod 2 = 0.
Proof. exact is_bidirectional_spec. Qed.
Theorem C17_is_local : forall x srv, is_local x srv = true <-> x mod 2 = (if srv then 1 else 0).
Proof. exact is_local_spec. Qed.

(* conversions are mutually inverse and stay in range, for all 2^62 values *)
Theorem C17_session_to_quarter_and_back : forall s, session_ok s = true -> q_into_stream (q_from_session s) = s.
Proof. exact q_roundtrip_session. Qed.
Theorem C17_quarter_to_session_and_back : forall q, q_from_session (q_into_stream q) = q.
Proof. exact q_roundtrip_q. Qed.
Theorem C17_quarter_gives_session : forall q, session_ok (q_into_stream q) = true.
Proof. exact q_into_stream_session. Qed.
Theorem C17_quarter_to_stream_range : forall q, q <= qstream_max -> q_into_stream q <= varint_max.
Proof. exact q_into_stream_range. Qed.
Theorem C17_session_to_quarter_range : forall s, s <= varint_max -> q_from_session s <= qstream_max.
Proof. exact q_from_session_range. Qed.
Theorem C17_quarter_accepted_iff : forall v, q_try_from_varint v = Some v <-> v <= qstream_max.
Proof. exact q_try_from_varint_spec. Qed.

(* the debug_assert / unsafe preconditions hold on every checked value *)
Theorem C17_unsafe_preconditions :
  (forall s, s <= varint_max -> q_from_session_assert s = true) /\
  (forall q, q <= qstream_max -> q_into_stream_assert q = true).
Proof. exact q_asserts_hold. Qed.

(* what the parser hands out as a session id always names a client-initiated bidi stream *)
Theorem C17_parsed_session_ids_valid :
  forall bs f r, frame_read bs = (RVal f, r) -> frame_wf f = true /\ len (fpayload f) <= max_parse_payload.
Proof. exact frame_read_wf. Qed.
Theorem C17_parsed_header_session_ids_valid :
  forall bs h r, sheader_read bs = (SVal h, r) -> sheader_wf h = true.
Proof. exact sheader_read_wf. Qed.

(* datagrams name their session by the quarter id: the driver's view of the session id *)
Theorem C17_datagram_session :
  forall sid p, session_ok sid = true -> sid <= varint_max ->
    drv_dgram_read (drv_dgram_write sid p) = Val (sid, vsize (q_from_session sid), p).
Proof. exact drv_dgram_roundtrip. Qed.

(* ---- the driver's session filter (Driver::accept_uni / accept_bi / receive_datagram) ---- *)
(* whatever the channel holds: a call returns only an item of the caller's session ... *)
Theorem C17_accept_returns_own_session :
  forall sid ch x, returned (accept_loop sid ch) = Some x -> snd x = sid.
Proof. exact accept_returns_own_session. Qed.
(* ... refuses only items of other sessions, keeps the order and touches nothing behind the returned item ... *)
Theorem C17_accept_refuses_only_foreign :
  forall sid ch, Forall (fun y => snd y <> sid) (discarded (accept_loop sid ch)).
Proof. exact accept_refuses_only_foreign. Qed.
Theorem C17_accept_conserves :
  forall sid ch, ch = discarded (accept_loop sid ch)
                      ++ match returned (accept_loop sid ch) with Some x => [x] | None => [] end
                      ++ remaining (accept_loop sid ch).
Proof. exact accept_conserves. Qed.
(* ... and cannot skip a waiting item of its own session *)
Theorem C17_accept_finds_own :
  forall sid ch, (exists x, In x ch /\ snd x = sid) -> returned (accept_loop sid ch) <> None.
Proof. exact accept_finds_own. Qed.
(* any number of calls: delivered = the consumed items of the session, refused = the other consumed items *)
Theorem C17_calls_deliver_exactly_own :
  forall n sid ch g d r, accept_n n sid ch = (g, d, r) ->
    exists consumed, ch = consumed ++ r /\ g = own sid consumed /\ d = foreign sid consumed.
Proof. exact accept_n_spec. Qed.
Theorem C17_foreign_never_delivered :
  forall n sid ch g d r, accept_n n sid ch = (g, d, r) ->
    Forall (fun y => snd y = sid) g /\ Forall (fun y => snd y <> sid) d.
Proof. exact accept_n_never_delivers_foreign. Qed.
Theorem C17_refusal_code : discard_code = 966049156.   (* 0x3994bd84 WEBTRANSPORT_BUFFERED_STREAM_REJECTED *)
Proof. reflexivity. Qed.

Example C17_filter_example :
  accept_n 2 0 [(3, 4); (7, 0); (11, 8); (15, 0); (19, 0)] = ([(7, 0); (15, 0)], [(3, 4); (11, 8)], [(19, 0)]).
Proof. vm_compute. reflexivity. Qed.

Example C17_example :
  session_ok 4611686018427387900 = true /\ session_ok 4611686018427387901 = false /\
  q_from_session 4611686018427387900 = qstream_max /\ q_try_from_varint (qstream_max + 1) = None.
Proof. vm_compute. repeat split; reflexivity. Qed.
