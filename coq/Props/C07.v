(* C07 -- Streams are independent: a stalled stream never blocks the others.
   Theorems about the hand-off transition system (Model/Handoff.v), for every capacity,
   every number of stalled streams and every interleaving. *)
From WT.Model Require Import Base Handoff Trace.
From WT.Proofs Require Import HandoffP TraceP.

(* safety: nothing a stalled stream does or fails to do disables the worker, another stream's task or the application *)
Theorem C07_accept_never_blocked : forall cap s id q, quinn_q s = id :: q -> step cap s WorkerAccept <> None.
Proof. exact accept_never_blocked. Qed.
Theorem C07_send_needs_only_channel_room :
  forall cap s id, In id (ready s) -> (length (chan s) < cap)%nat -> step cap s (TaskSend id) <> None.
Proof. exact send_needs_only_channel_room. Qed.
Theorem C07_recv_needs_only_an_item : forall cap s id c, chan s = id :: c -> step cap s AppRecv <> None.
Proof. exact recv_needs_only_an_item. Qed.

(* progress: from ANY state, a healthy stream j queued behind any streams (stalled or not) is delivered
   by a plan of bounded length that uses only worker and application steps and j's own steps *)
Theorem C07_healthy_stream_is_delivered :
  forall cap s pre j post, (1 <= cap)%nat -> quinn_q s = pre ++ j :: post ->
    exists s', run (step cap) s
                 (repeat WorkerAccept (S (length pre)) ++ [PeerPreamble j] ++ drain (length (chan s)) ++ [TaskSend j; AppRecv])
               = Some s' /\ In j (delivered s').
Proof. exact healthy_stream_is_delivered. Qed.

(* the design of the pinned tree (slots reserved before the QUIC accept): one stream stalled before its
   preamble and NOTHING is delivered any more -- repaired by fix: d04ce45 *)
Theorem C07_legacy_refuted :
  forall a ls s', forallb (no_progress_of a) ls = true ->
    run (step_legacy 1) hinit ([PeerOpen a; WorkerAccept] ++ ls) = Some s' -> delivered s' = [].
Proof. exact legacy_one_stalled_stream_blocks_all. Qed.

(* the same on the validator of OBSERVED traces (suite "trace": the running driver's own event log): in every
   state it can reach -- any number of streams stuck in their tasks, waiting for a slot or filling the channel --
   a further stream is accepted and its preamble is taken *)
Theorem C07_observed_accept_never_blocked :
  forall cap o id, exited o = false -> mem id (opened (hs o)) = false -> ostep cap o (OAccept id) <> None.
Proof. exact observed_accept_never_blocked. Qed.
Theorem C07_observed_preamble_never_blocked :
  forall cap o id o1, quinn_q (hs o) = [] -> ostep cap o (OAccept id) = Some o1 -> ostep cap o1 (OPreWt id) <> None.
Proof. exact observed_preamble_never_blocked. Qed.

Example C07_example :
  exists s', run (step 1) hinit [PeerOpen 4; WorkerAccept; PeerOpen 8; WorkerAccept; PeerPreamble 8; TaskSend 8; AppRecv] = Some s'
             /\ delivered s' = [8] /\ waiting s' = [4].
Proof. exact repaired_delivers. Qed.
