(* C06 -- Stream termination signals carry their codes end to end (library side: conversions and mappings;
   quinn's stream life-cycle is an oracle, exercised by the wire suite "signals"). *)
From WT.Model Require Import Base Varint Ids Frame Runner Term.
From WT.Proofs Require Import TermP.

Theorem C06_code_conversions_identity : forall x, varint_q2w (varint_w2q x) = x /\ varint_w2q (varint_q2w x) = x.
Proof. exact varint_roundtrip. Qed.
Theorem C06_conversion_asserts_hold : forall x, x <= varint_max -> varint_conv_assert x = true.
Proof. exact varint_conv_safe. Qed.

Theorem C06_reset_code_reported :
  forall e, map_read e = match e with
    | QRReset c => SRReset c | QRConnectionLost | QRClosedStream => SRNotConnected | _ => SRQuicProto end.
Proof. exact read_error_codes. Qed.
Theorem C06_stop_code_reported_on_write :
  forall e, map_write e = match e with
    | QWStopped c => SWStopped c | QWConnectionLost | QWClosedStream => SWNotConnected | QWZeroRtt => SWQuicProto end.
Proof. exact write_error_codes. Qed.
Theorem C06_stop_code_reported_on_stopped :
  forall e, map_stopped e = match e with
    | QSNone => SWClosed | QSSome c => SWStopped c | QSConnectionLost => SWNotConnected | QSZeroRtt => SWQuicProto end.
Proof. exact stopped_codes. Qed.

Theorem C06_codes_never_altered :
  (forall c d, map_write (QWStopped c) = map_write (QWStopped d) -> c = d) /\
  (forall c d, map_read (QRReset c) = map_read (QRReset d) -> c = d) /\
  (forall c, map_stopped (QSSome c) <> map_stopped QSNone).
Proof. split; [exact write_error_injective_on_codes|split; [exact read_error_injective_on_codes|exact stopped_never_confused_with_closed]]. Qed.

(* finish succeeds only once the peer has acknowledged everything *)
Theorem C06_finish_iff_acknowledged : forall e, finish_result e = None <-> e = QSNone.
Proof. exact finish_spec. Qed.
Theorem C06_finish_reports_stop : forall c, finish_result (QSSome c) = Some (SWStopped c).
Proof. exact finish_stopped. Qed.

Example C06_example :
  map_read (QRReset 4611686018427387903) = SRReset 4611686018427387903 /\ finish_result QSNone = None.
Proof. split; reflexivity. Qed.
