(* C09 -- Termination is prompt, total and never misattributed (the library's own logic: the set-once
   result cell, the worker's exit protocol, the error mapping; "bounded time" is bounded steps of the model;
   runtime wake-ups are observed by the wire suites). *)
From WT.Model Require Import Base Varint Ids Frame Runner Term Closing Handoff.
From WT.Proofs Require Import TermP ClosingP.

Theorem C09_at_most_one_result :
  forall (V : Type) ops (c : cell V),
    (count_accepted (snd (crun c ops)) <= match cval c with None => 1 | Some _ => 0 end)%nat.
Proof. exact @at_most_one_set. Qed.

Theorem C09_every_get_after_the_result_returns_it :
  forall (V : Type) ops (c : cell V) v, cval c = Some v ->
    Forall (fun x => match x with OGot w => w = v | OSet b => b = false | OGotNone | OPending => False | _ => True end)
           (snd (crun c ops)).
Proof. exact @get_after_set. Qed.

Theorem C09_no_result_only_if_abandoned :
  forall (V : Type) (c : cell V), snd (cstep c CGet) = OGotNone -> cval c = None /\ setters c = 0%nat.
Proof. exact @get_none_only_if_abandoned. Qed.

(* attribution: each error names the actual cause *)
Theorem C09_peer_capsule_or_fin : forall c r q, with_driver_error (DAppClosed c r) q = CEApplicationClosed c r.
Proof. exact attribution_app_closed. Qed.
Theorem C09_local_protocol_error : forall e q, with_driver_error (DProto e) q = CELocalH3 e.
Proof. exact attribution_local_h3. Qed.
Theorem C09_peer_quic_close : forall c r, with_driver_error DNotConnected (Some (QApp c r)) = CEApplicationClosed c r.
Proof. exact attribution_peer_quic_close. Qed.
Theorem C09_transport_cause_or_local_close :
  forall q, with_driver_error DNotConnected q = match q with Some x => of_quinn x | None => CELocallyClosed end.
Proof. exact attribution_not_connected. Qed.

(* the worker closes the transport with the code of the cause it reports, then publishes the cause *)
Theorem C09_worker_exit_code :
  forall r e, derr_of_reaction r = Some e ->
    close_code_of e = match r with
                      | RClose c => Some (to_code c)
                      | RAppClosed _ _ => Some (to_code ENoError)
                      | _ => None
                      end.
Proof. exact worker_exit_code. Qed.

(* ---- every pending or later accept call observes the end (Model/Closing.v: who keeps a channel open) ---- *)
(* a call reports the end exactly when its own channel is empty, the worker has ended and no task of ITS kind is left *)
Theorem C09_accept_reports_end_iff :
  forall k s, snd (accept k s) = AErr <->
    kchan (kof k s) = [] /\ worker_alive s = false /\ kparked (kof k s) = [] /\ kreading (kof k s) = [].
Proof. exact accept_err_iff. Qed.
(* the other kind of stream never matters: however large its backlog, however many of its tasks are parked *)
Theorem C09_end_reported_despite_other_backlog :
  forall s, kchan (cbi (worker_exit s)) = [] -> kparked (cbi (worker_exit s)) = [] ->
    snd (accept KBi (worker_exit s)) = AErr.
Proof. exact end_reported_despite_other_backlog. Qed.
Theorem C09_accept_independent_of_other_kind :
  forall s s',
    (cuni s = cuni s' -> worker_alive s = worker_alive s' -> snd (accept KUni s) = snd (accept KUni s')) /\
    (cbi s = cbi s' -> worker_alive s = worker_alive s' -> snd (accept KBi s) = snd (accept KBi s')).
Proof. exact accept_independent_of_other_kind. Qed.
(* an application that keeps accepting after the end is handed the whole backlog, in order, then the end --
   bounded by the size of the backlog, for every capacity and backlog *)
Theorem C09_draining_reaches_the_end :
  forall cap k, (1 <= cap)%nat -> forall q s, quiet cap k s -> queue k s = q ->
    drain_calls cap k (S (length q)) s = map AItem q ++ [AErr].
Proof. exact drain_reaches_the_end. Qed.
(* a design in which the per-stream tasks keep BOTH channels open is refuted: one parked task of the other
   kind and the call never returns (this is seeded change C09-5) *)
Theorem C09_shared_senders_refuted :
  let s := mkcst (mkkst [1; 2; 3; 4] [5] []) (mkkst [] [] []) false in
  snd (accept KBi s) = AErr /\ snd (accept_shared KBi s) = APending /\
  snd (accept_shared KBi (task_send 1 KBi s)) = APending.
Proof. exact shared_senders_refuted. Qed.

(* Closing.v is the per-kind projection of the hand-off system of Handoff.v (C07/C08): its moves are that
   system's TaskSend and AppRecv, so the two sets of theorems speak about one and the same machine *)
Theorem C09_closing_refines_handoff_send :
  forall cap k c s id p, kof k c = kst_of s -> ready s = id :: p ->
    match step cap s (TaskSend id) with
    | Some s' => kof k (task_send cap k c) = kst_of s'
    | None => task_send cap k c = c
    end.
Proof. exact task_send_is_handoff_step. Qed.
Theorem C09_closing_refines_handoff_recv :
  forall cap k c s id r, kof k c = kst_of s -> chan s = id :: r ->
    snd (accept k c) = AItem id /\
    exists s', step cap s AppRecv = Some s' /\ kof k (fst (accept k c)) = kst_of s'.
Proof. exact accept_is_handoff_step. Qed.

Example C09_example :
  snd (crun (mkcell (@None N) 1) [CGet; CSet 7; CSet 9; CGet; CDropSetter; CGet]) =
  [OPending; OSet true; OSet false; OGot 7; ONothing; OGot 7].
Proof. reflexivity. Qed.
