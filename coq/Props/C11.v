(* C11 -- Decoding untrusted bytes is total, bounded and invariant-preserving.
   Every decoder of the model is a total Coq function; the outcome classes
   Panic / OutOfFuel exist only for the loops and the arithmetic that could
   leave its width, and the theorems below show they are never produced. *)
From WT.Model Require Import Base Varint Ids Frame Async StreamTS Wire Qpack.
From WT.Proofs Require Import VarintP FrameP AsyncP StreamTSP WireP QpackP.

(* integers below 2^62 *)
Theorem C11_varint_range : forall bs v r, get_varint bs = Some (v, r) -> v <= varint_max.
Proof. exact get_varint_range. Qed.

(* frames: session ids on client-initiated bidirectional streams, payload within the limit *)
Theorem C11_frame_invariants :
  forall bs f r, frame_read bs = (RVal f, r) -> frame_wf f = true /\ len (fpayload f) <= max_parse_payload.
Proof. exact frame_read_wf. Qed.
Theorem C11_sheader_invariants : forall bs h r, sheader_read bs = (SVal h, r) -> sheader_wf h = true.
Proof. exact sheader_read_wf. Qed.

(* no decoder spins: every loop consumes input (fuel = |input| + 1 is never exhausted) *)
Theorem C11_read_frame_terminates : forall ts fd bs, read_frame (fuel_for bs) ts fd bs <> TOutOfFuel.
Proof. exact read_frame_terminates. Qed.
Theorem C11_read_frame_async_terminates : forall ts fd d t, read_frame_async (fuel_for d) ts fd d t <> ATOutOfFuel.
Proof. exact read_frame_async_terminates. Qed.
Theorem C11_frame_progress : forall bs x r, frame_read bs = (x, r) -> x <> RNone -> (length r < length bs)%nat.
Proof. exact frame_read_progress. Qed.
Theorem C11_settings_total :
  forall payload, settings_with_frame payload <> OutOfFuel /\ settings_with_frame payload <> Panic /\
                  settings_with_frame payload <> NeedMore.
Proof. exact settings_with_frame_total. Qed.
Theorem C11_qpack_section_total :
  forall bs, match qpack_decode bs with Val _ => True | Err _ => True | _ => False end.
Proof. exact qpack_decode_total. Qed.
Theorem C11_headers_total :
  forall bs, match headers_with_frame bs with Val _ => True | Err e => e = EDecompression | _ => False end.
Proof. exact headers_with_frame_total. Qed.

(* QPACK prefix integers: total for every width, and a numeric field too large
   to represent is an error, never a silently wrong value: what is returned IS
   the mathematical value of the consumed bytes *)
Theorem C11_qpack_integer_total :
  forall n bs, n <= 8 ->
    match dec_int n bs with
    | Val (_, v, r) => (length r < length bs)%nat /\ v < two64
    | Err _ => True
    | _ => False
    end.
Proof. exact dec_int_total. Qed.
Theorem C11_qpack_integer_no_wrap :
  forall fuel value power bs v r, dec_int_rest fuel value power bs = Val (v, r) ->
    exists p, bs = p ++ r /\ p <> [] /\ v = value + groups_val power p /\ v < two64.
Proof. exact dec_int_rest_exact. Qed.

(* quarter stream ids in range *)
Theorem C11_datagram_invariants :
  forall bs q p, dgram_read bs = Val (q, p) -> exists h, bs = h ++ p /\ h <> [] /\ q <= qstream_max.
Proof. exact dgram_read_suffix. Qed.

(* the code before the repair (fix: d9dcadc): panics with overflow checks, silently wrong without *)
Theorem C11_legacy_refuted :
  dec_int_rest_legacy true 20 63 0 ([128; 128; 128; 128; 128; 128; 128; 128; 128; 128] ++ [0]) = Panic /\
  dec_int_rest_legacy false 20 63 0 ([128; 128; 128; 128; 128; 128; 128; 128; 128] ++ [2]) = Val (63, []) /\
  63 + groups_val 0 ([128; 128; 128; 128; 128; 128; 128; 128; 128] ++ [2]) <> 63 /\
  dec_int_rest 20 63 0 ([128; 128; 128; 128; 128; 128; 128; 128; 128; 128] ++ [0]) = Err QIntegerOverflow /\
  dec_int_rest 20 63 0 ([128; 128; 128; 128; 128; 128; 128; 128; 128] ++ [2]) = Err QIntegerOverflow.
Proof. exact dec_int_legacy_refuted. Qed.

Example C11_example :
  qpack_decode [0; 0; 255; 128; 128; 128; 128; 128; 128; 128; 128; 128; 2] = Err QIntegerOverflow /\
  frame_read [0; 128; 0; 16; 1] = (RErr PPayloadTooBig, []).
Proof. vm_compute. split; reflexivity. Qed.
