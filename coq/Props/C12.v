(* C12 -- HTTP/3 and WebTransport stream rules are enforced with the prescribed error. *)
From WT.Model Require Import Base Varint Ids Frame Async StreamTS Wire Qpack Session Runner.
From WT.Spec Require Import Spec9114.
From WT.Proofs Require Import VarintP FrameP AsyncP StreamTSP WireP RunnerP SpecP ControlSpecP.

(* every accept/reject verdict of every typestate, for every frame, is the one
   of the specification table (RFC 9114 7.2, WT draft 4.2) with a prescribed code *)
Theorem C12_frame_rules :
  forall ts fd f,
    match snd (validate ts fd f), frame_rule (where_of ts) (kind_of (fk f)) (negb fd) with
    | None, None => True
    | Some e, Some codes => In (to_code e) codes
    | _, _ => False
    end.
Proof. exact validate_refines_spec. Qed.

(* error codes equal their registered values *)
Theorem C12_registry :
  to_code EDatagram = H3_DATAGRAM_ERROR /\ to_code ENoError = H3_NO_ERROR /\
  to_code EStreamCreation = H3_STREAM_CREATION_ERROR /\ to_code EClosedCriticalStream = H3_CLOSED_CRITICAL_STREAM /\
  to_code EFrameUnexpected = H3_FRAME_UNEXPECTED /\ to_code EFrame = H3_FRAME_ERROR /\
  to_code EExcessiveLoad = H3_EXCESSIVE_LOAD /\ to_code EId = H3_ID_ERROR /\
  to_code ESettings = H3_SETTINGS_ERROR /\ to_code EMissingSettings = H3_MISSING_SETTINGS /\
  to_code ERequestRejected = H3_REQUEST_REJECTED /\ to_code EMessage = H3_MESSAGE_ERROR /\
  to_code EDecompression = QPACK_DECOMPRESSION_FAILED /\
  to_code EBufferedStreamRejected = WEBTRANSPORT_BUFFERED_STREAM_REJECTED /\
  to_code ESessionGone = WEBTRANSPORT_SESSION_GONE.
Proof. exact registry_matches. Qed.

Theorem C12_parse_error_codes :
  In (to_code EExcessiveLoad) oversize_frame /\ In (to_code EId) invalid_session_id /\
  In (to_code EFrame) frame_truncated_by_fin /\ In (to_code EClosedCriticalStream) critical_stream_closed /\
  In (to_code EStreamCreation) duplicate_critical_stream /\
  In (to_code EMissingSettings) control_first_not_settings /\ In (to_code EFrameUnexpected) control_first_not_settings /\
  In (to_code EFrameUnexpected) control_second_settings.
Proof. exact parse_errors_match. Qed.

(* control stream: SETTINGS first, exactly once; GREASE afterwards ignored; closing it is fatal *)
Theorem C12_control_settings_first :
  forall payload rest t f m, len payload <= max_parse_payload -> settings_with_frame payload = Val m ->
    settings_run (S f) None (frame_write (mkframe KSettings payload None) ++ rest) t = settings_run f (Some m) rest t.
Proof. exact settings_run_first. Qed.
Theorem C12_control_missing_settings :
  forall id p rest t f, is_exercise id = true -> id <= varint_max -> len p <= max_parse_payload ->
    settings_run (S f) None (frame_write (mkframe (KExercise id) p None) ++ rest) t = (RClose EMissingSettings, None).
Proof. exact settings_run_missing_settings. Qed.
Theorem C12_control_repeated_settings :
  forall payload rest t f m, len payload <= max_parse_payload ->
    settings_run (S f) (Some m) (frame_write (mkframe KSettings payload None) ++ rest) t = (RClose EFrameUnexpected, Some m).
Proof. exact settings_run_repeated_settings. Qed.
Theorem C12_control_data_or_headers :
  forall k payload rest t f have, (k = KData \/ k = KHeaders) -> len payload <= max_parse_payload ->
    settings_run (S f) have (frame_write (mkframe k payload None) ++ rest) t = (RClose EFrameUnexpected, have).
Proof. exact settings_run_data_or_headers. Qed.
Theorem C12_control_closed :
  forall f have t, settings_run (S f) have [] t =
    (match t with Lost => RNotConnected | _ => RClose EClosedCriticalStream end, have).
Proof. exact settings_run_closed. Qed.

(* duplicated critical streams *)
Theorem C12_duplicate_critical_stream :
  forall c k rest t,
    (k = SControl /\ has_control c = true) \/ (k = SQPackEncoder /\ has_enc c = true) \/
    (k = SQPackDecoder /\ has_dec c = true) ->
    uni_accept c (sheader_write (mksheader k None) ++ rest) t = (RClose EStreamCreation, c).
Proof. exact uni_accept_duplicate_critical. Qed.

(* sequences: for EVERY sequence of frames on the peer's control stream (SETTINGS, GREASE, unknown
   types, DATA, HEADERS, WebTransport signals, any payloads within the parse limit, any length) and
   every way the stream ends, the runner's reaction is the one the sequential rules of RFC 9114
   6.2.1 / 7.2.4 / 7.2.8 prescribe ([spec_control], an automaton over abstract items written from the
   RFC): close with one of the prescribed codes, or keep going.  By induction over the sequence. *)
Theorem C12_control_stream_refines_spec :
  forall items t, forallb citem_ok items = true ->
    refines (spec_control false items t) (settings_run (S (length items)) None (enc_citems items) t).
Proof. exact control_stream_refines_spec. Qed.
(* no permitted sequence is rejected *)
Theorem C12_permitted_control_stream_accepted :
  forall payload items,
    citem_ok (CSettings payload) = true -> forallb citem_ok items = true -> forallb benign items = true ->
    fst (settings_run (S (S (length items))) None (enc_citems (CSettings payload :: items)) Lost) = RNotConnected.
Proof. exact permitted_control_stream_accepted. Qed.

Definition ex_items : list citem :=
  [CUnknown 7 [1]; CSettings [1; 0]; CGrease 33 [9; 9]; CUnknown 16962 [0; 4; 0]; CData [1]].
Example C12_sequence_example :
  (forallb citem_ok ex_items = true) /\
  (spec_control false ex_items Fin = VClose [H3_FRAME_UNEXPECTED]) /\
  (fst (settings_run 6 None (enc_citems ex_items) Fin) = RClose EFrameUnexpected).
Proof. vm_compute. repeat split; reflexivity. Qed.

Example C12_example :
  settings_run 4 None [4; 0; 4; 0] Fin = (RClose EFrameUnexpected, Some []) /\
  settings_run 4 None [0; 1; 9] Fin = (RClose EFrameUnexpected, None) /\
  bi_accept [64; 65; 1] Fin = RClose EId /\
  bi_accept [4; 0] Fin = RClose EFrameUnexpected.
Proof. vm_compute. repeat split; reflexivity. Qed.
