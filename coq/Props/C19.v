(* C19 -- Identities, PEM files and digests round-trip; generated certs are W3C-conformant.
   Text formats are proved; DER encoding, key generation and signatures (rcgen, ring) and the third-party
   PEM parser are oracles exercised by the suites "digest", "pem", "identity". *)
From WT.Model Require Import Base Varint Ids Tls.
From WT.Proofs Require Import TlsP.

(* SHA-256 digests survive format-then-parse in both textual formats, for ALL 2^256 values *)
Theorem C19_digest_array_roundtrip :
  forall d, bytes_ok d = true -> length d = 32%nat -> parse_array (fmt_array d) = Some d.
Proof. exact array_roundtrip. Qed.
Theorem C19_digest_hex_roundtrip :
  forall d, bytes_ok d = true -> length d = 32%nat -> parse_dotted_hex (fmt_hex d) = Some d.
Proof. exact hex_roundtrip. Qed.
(* FromStr (array form first, dotted-hex as fallback) never mis-parses either format's output *)
Theorem C19_digest_from_str_array :
  forall d, bytes_ok d = true -> length d = 32%nat -> digest_from_str (fmt_array d) = Some d.
Proof. exact from_str_array. Qed.
Theorem C19_digest_from_str_hex :
  forall d, bytes_ok d = true -> length d = 32%nat -> digest_from_str (fmt_hex d) = Some d.
Proof. exact from_str_hex. Qed.

(* the Base64 body of PEM files is lossless for every byte string *)
Theorem C19_base64_roundtrip :
  forall bs fuel, bytes_ok bs = true -> (length bs < fuel)%nat -> b64_decode fuel (b64_encode bs) = Some bs.
Proof. exact b64_roundtrip. Qed.

(* a generated identity (P-256, X.509 record with validity nb .. nb + days) with at most 14 days is accepted by
   hash pinning configured with its own hash while it is valid; the default is exactly 14 days *)
Theorem C19_generated_identity_is_pinnable :
  forall nb days now, days <= 14 -> nb <= now <= nb + days * 86400 -> pin_verify (identity_cert nb days) now true = PinOk.
Proof. exact generated_identity_is_pinnable. Qed.
Theorem C19_default_validity_is_14_days :
  forall nb, c_na (identity_cert nb 14) - c_nb (identity_cert nb 14) = 14 * 86400.
Proof. exact generated_identity_default_validity. Qed.

Example C19_example :
  fmt_hex [10; 255] = [48; 97; 58; 102; 102] /\ fmt_array [7; 200] = [91; 55; 44; 32; 50; 48; 48; 93] /\
  b64_encode [77] = [84; 81; 61; 61] /\ parse_dotted_hex [48; 97] = None.
Proof. vm_compute. repeat split; reflexivity. Qed.
