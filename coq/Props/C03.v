(* C03 -- Datagram payloads are never altered and the size contract is exact. *)
From WT.Model Require Import Base Varint Ids Frame Wire.
From WT.Proofs Require Import VarintP FrameP WireP.

Theorem C03_roundtrip :
  forall sid p, session_ok sid = true -> sid <= varint_max ->
    drv_dgram_read (drv_dgram_write sid p) = Val (sid, vsize (q_from_session sid), p).
Proof. exact drv_dgram_roundtrip. Qed.

(* whatever is delivered is exactly the suffix after the quarter-stream-id
   header: never merged, truncated or delivered with framing bytes *)
Theorem C03_payload_is_suffix :
  forall bs q p, dgram_read bs = Val (q, p) -> exists h, bs = h ++ p /\ h <> [] /\ q <= qstream_max.
Proof. exact dgram_read_suffix. Qed.

(* size contract: within the advertised maximum <=> never refused as too large *)
Theorem C03_size_contract :
  forall qm sid m L, max_datagram_size (Some qm) sid = Some m -> (send_too_large qm sid L = false <-> L <= m).
Proof. exact max_datagram_size_contract. Qed.

(* querying the maximum is total and sane whatever the peer advertises *)
Theorem C03_max_is_sane :
  forall qm sid,
    match max_datagram_size qm sid with
    | None => True
    | Some m => exists q, qm = Some q /\ m + N.of_nat (vsize (q_from_session sid)) = q
    end.
Proof. exact max_datagram_size_sane. Qed.

Theorem C03_none_means_nothing_fits :
  forall qm sid L, max_datagram_size (Some qm) sid = None -> send_too_large qm sid L = true.
Proof. exact max_datagram_size_none. Qed.

(* the code before the repair (fix: bc3d4c5): panic with overflow checks, a huge bogus maximum without *)
Theorem C03_legacy_refuted :
  exists qm sid, max_datagram_size_legacy true (Some qm) sid = Panic /\
                 exists m, max_datagram_size_legacy false (Some qm) sid = Val (Some m) /\ qm < m.
Proof. exact max_datagram_size_legacy_refuted. Qed.

Example C03_example :
  max_datagram_size (Some 1200) 16384 = Some 1198 /\ max_datagram_size (Some 0) 0 = None /\
  send_too_large 1200 16384 1198 = false /\ send_too_large 1200 16384 1199 = true.
Proof. vm_compute. repeat split; reflexivity. Qed.
