(* C02 -- Session setup carries the request faithfully and mirrors the decision. *)
From WT.Model Require Import Base Varint Ids Frame Async StreamTS Wire Qpack Session Runner Emit.
From WT.Proofs Require Import VarintP FrameP WireP QpackP SessionP RunnerP HuffmanP QpackRT.
From Coq Require Import Permutation.

(* what the server application sees of a request built from (authority, path-with-query): exactly the
   fixed WebTransport pseudo-headers plus the URL's authority and path, and it is admitted *)
Theorem C02_request_fields :
  forall a p,
    hget k_method (request_new a p) = Some v_connect /\ hget k_scheme (request_new a p) = Some v_https /\
    hget k_protocol (request_new a p) = Some v_webtransport /\
    hget k_authority (request_new a p) = Some a /\ hget k_path (request_new a p) = Some p /\
    length (request_new a p) = 5%nat.
Proof. exact request_new_fields. Qed.
Theorem C02_request_admitted : forall a p, request_try_from (request_new a p) = inr (request_new a p).
Proof. exact request_new_admitted. Qed.

(* additional fields are carried next to the reserved ones, which they can never override *)
Theorem C02_extra_fields_kept : forall k v m, hget k (hinsert k v m) = Some v.
Proof. exact hget_hinsert_same. Qed.
Theorem C02_extra_fields_do_not_disturb : forall k k2 v m, k2 <> k -> hget k2 (hinsert k v m) = hget k2 m.
Proof. exact hget_hinsert_other. Qed.

(* the decision: connect yields a session iff the status is 2xx, 'session rejected' iff it is another valid
   status; extra response fields never change the outcome *)
Theorem C02_acceptance_iff_2xx : forall v, status_is_successful v = true <-> 200 <= v <= 299.
Proof. exact status_acceptance. Qed.
Theorem C02_response_roundtrip : forall c, 100 <= c <= 599 -> response_try_from (response_with_status c) = inr c.
Proof. exact response_roundtrip. Qed.
Theorem C02_extra_response_fields_irrelevant :
  forall h k v, k <> k_status -> response_try_from (hinsert k v h) = response_try_from h.
Proof. exact response_extra_fields_irrelevant. Qed.

(* the wire form: prefix integers of every width round-trip, static-table references are sound,
   the section decoder is total *)
Theorem C02_qpack_integer_roundtrip :
  forall n fl v tail, In n [1; 2; 3; 4; 5; 6; 7; 8] -> fl < 2 ^ (8 - n) -> v < two64 ->
    dec_int n (enc_int n fl v ++ tail) = Val (fl, v, tail).
Proof. exact dec_enc_int. Qed.
Theorem C02_static_table_sound :
  forall k v,
    match lookup_index k v with
    | LKeyValue i => lookup_field i = Some (k, v)
    | LKeyOnly i => exists v', lookup_field i = Some (k, v')
    | LNone => True
    end.
Proof. exact lookup_index_sound. Qed.

(* the whole wire form: any set of fields with distinct names (what a HashMap holds) whose names and
   values are Rust Strings (valid UTF-8, length below 2^64) survives generate_frame -> with_frame:
   the receiver's map holds exactly the sender's fields (Huffman or raw strings, static-table
   references and literals alike), in the emitted order *)
Theorem C02_header_map_roundtrip :
  forall m, keys_distinct m = true -> fields_okb m = true ->
    headers_with_frame (fpayload (headers_generate_frame m)) = Val (sorted_headers m)
    /\ Permutation (sorted_headers m) m
    /\ forall k, hget k (sorted_headers m) = hget k m.
Proof. exact headers_roundtrip_b. Qed.
Theorem C02_huffman_roundtrip : forall s, bytes_ok s = true -> hdecode (hencode s) = Some s.
Proof. exact huffman_roundtrip. Qed.

(* both endpoints name the session by the CONNECT stream: the id the accept path hands out is the
   one the opening path wrote *)
Theorem C02_session_id_agrees :
  forall s rest t, session_ok s = true -> s <= varint_max -> bi_accept (emit_bi_preamble s ++ rest) t = RHandWT s rest.
Proof. exact bi_accept_wt. Qed.

Definition ex_authority : bytes := [101; 120; 97; 109; 112; 108; 101; 46; 99; 111; 109]. (* "example.com" *)
Definition ex_path : bytes := [47; 120; 63; 121; 61; 49].                                   (* "/x?y=1" *)
Example C02_example :
  client_response (emit_response 200 []) Lost = CSession /\ client_response (emit_response 404 []) Lost = CSessionRejected /\
  match bi_accept (emit_request (request_new ex_authority ex_path)) Lost with
  | ROfferSession h => hget k_authority h = Some ex_authority /\ hget k_path h = Some ex_path /\
                       hget k_method h = Some v_connect /\ length h = 5%nat
  | _ => False
  end.
Proof. vm_compute. repeat split; reflexivity. Qed.

Definition ex_map : hmap := request_new ex_authority ex_path ++ [([120; 45; 195; 169], [226; 152; 131; 33])].
Example C02_header_map_example :
  keys_distinct ex_map = true /\ fields_okb ex_map = true /\
  headers_with_frame (fpayload (headers_generate_frame ex_map)) = Val (sorted_headers ex_map) /\
  hdecode (hencode ex_authority) = Some ex_authority.
Proof. vm_compute. repeat split; reflexivity. Qed.
