(* C04 -- Session termination is reported with the peer's exact code and reason. *)
From WT.Model Require Import Base Varint Ids Frame Async StreamTS Wire Qpack Session Runner.
From WT.Proofs Require Import VarintP FrameP WireP RunnerP.

(* close capsule, wholly inside one DATA frame, preceded by any skippable
   elements (unknown / GREASE / HEADERS frames, other capsules): every 32-bit
   code, every UTF-8 reason up to 1024 bytes *)
Theorem C04_close_capsule_exact :
  forall items code reason trailing rest t f,
    forallb sitem_ok items = true ->
    code < 4294967296 -> len reason <= 1024 -> utf8_valid reason = true ->
    len (close_capsule_bytes code reason ++ trailing) <= max_parse_payload ->
    connect_run (S (sitems_frames items + f))
      (enc_sitems items ++ frame_write (mkframe KData (close_capsule_bytes code reason ++ trailing) None) ++ rest) t
    = RAppClosed code reason.
Proof. exact connect_run_close_capsule. Qed.

(* client side: the session stream is the one the response arrived on; whatever follows the response
   HEADERS (in the same packet or not) is interpreted by the same runner, nothing is lost in between *)
Theorem C04_client_side_after_response :
  forall payload rest t, len payload <= max_parse_payload ->
    client_established_run (frame_write (mkframe KHeaders payload None) ++ rest) t = connect_run 64 rest t.
Proof. exact client_established_after_response. Qed.

(* clean finish at a frame boundary = application close (0, "") *)
Theorem C04_clean_finish :
  forall items f, forallb sitem_ok items = true ->
    connect_run (S (sitems_frames items + f)) (enc_sitems items) Fin = RAppClosed 0 [].
Proof. exact connect_run_clean_fin. Qed.

(* abrupt termination and malformed capsules are protocol failures, never application closes *)
Theorem C04_reset_is_protocol_failure :
  forall items f, forallb sitem_ok items = true ->
    connect_run (S (sitems_frames items + f)) (enc_sitems items) Reset = RClose EClosedCriticalStream.
Proof. exact connect_run_reset. Qed.

Theorem C04_fin_inside_frame_is_protocol_failure :
  forall items f fr p q, forallb sitem_ok items = true ->
    frame_wf fr = true -> len (fpayload fr) <= max_parse_payload ->
    frame_write fr = p ++ q -> p <> [] -> q <> [] ->
    connect_run (S (sitems_frames items + f)) (enc_sitems items ++ p) Fin = RClose EFrame.
Proof. exact connect_run_fin_mid_frame. Qed.

Theorem C04_malformed_capsule_is_protocol_failure :
  forall items body trailing rest t f, forallb sitem_ok items = true ->
    (len body < 4 \/ 1028 < len body \/ utf8_valid (skipn 4 body) = false) ->
    len body <= varint_max ->
    len (enc capsule_close_type ++ enc (len body) ++ body ++ trailing) <= max_parse_payload ->
    connect_run (S (sitems_frames items + f))
      (enc_sitems items ++
       frame_write (mkframe KData (enc capsule_close_type ++ enc (len body) ++ body ++ trailing) None) ++ rest) t
    = RClose EDatagram.
Proof. exact connect_run_malformed_capsule. Qed.

(* the capsule decoder itself: exact characterisation *)
Theorem C04_close_capsule_decoder :
  forall payload c r,
    close_with_capsule payload = Val (c, r) <->
    (4 <= len payload <= 1028 /\ c = unbe (firstn 4 payload) /\ r = skipn 4 payload /\ utf8_valid r = true).
Proof. exact close_with_capsule_spec. Qed.

(* what the endpoint answers on the wire: H3_NO_ERROR for an application close,
   the H3 code of the protocol failure otherwise *)
Theorem C04_wire_code :
  forall e, close_code_of e = match e with
                              | DAppClosed _ _ => Some 256
                              | DProto c => Some (to_code c)
                              | DNotConnected => None
                              end.
Proof. exact close_code_of_spec. Qed.

Example C04_example :
  connect_run 8 (frame_write (mkframe KData (close_capsule_bytes 7 [98; 121; 101]) None)) Lost = RAppClosed 7 [98; 121; 101] /\
  connect_run 8 [] Fin = RAppClosed 0 [] /\ connect_run 8 [0; 5; 1] Fin = RClose EFrame.
Proof. vm_compute. repeat split; reflexivity. Qed.
