(* C13 -- Unknown and GREASE protocol elements are skipped whole, with no side effects. *)
From WT.Model Require Import Base Varint Ids Frame Async StreamTS.
From WT.Proofs Require Import VarintP FrameP AsyncP StreamTSP.

(* an unknown frame -- any unknown type id, any payload (including bytes that
   look like frames), followed by anything -- is consumed whole *)
Theorem C13_unknown_frame_consumed_whole :
  forall t p rest, fkind_parse t = None -> t <= varint_max -> len p <= varint_max ->
    frame_read (unknown_frame t p ++ rest) = (RErr PUnknown, rest).
Proof. exact frame_read_unknown. Qed.

(* ... and every typestate's read_frame then behaves exactly as if it were not
   there: same result, same first-frame state (sync and async paths) *)
Theorem C13_read_frame_skips_unknown :
  forall ts fd t p rest, fkind_parse t = None -> t <= varint_max -> len p <= varint_max ->
    read_frame (fuel_for (unknown_frame t p ++ rest)) ts fd (unknown_frame t p ++ rest)
    = read_frame (fuel_for rest) ts fd rest.
Proof. exact read_frame_skips_unknown. Qed.

Theorem C13_read_frame_async_skips_unknown :
  forall ts fd t p rest tm, fkind_parse t = None -> t <= varint_max -> len p <= varint_max ->
    read_frame_async (fuel_for (unknown_frame t p ++ rest)) ts fd (unknown_frame t p ++ rest) tm
    = read_frame_async (fuel_for rest) ts fd rest tm.
Proof. exact read_frame_async_skips_unknown. Qed.

(* any number of insertions at any frame boundaries of an exchange: the
   sequence of frames delivered and the way the exchange ends are unchanged *)
Theorem C13_insertions_invisible :
  forall ts items fd tail, forallb item_ok items = true ->
    frames_of (S (length (enc_items items ++ tail))) ts fd (enc_items items ++ tail)
    = frames_of (S (length (enc_items (filter is_known items) ++ tail))) ts fd
                (enc_items (filter is_known items) ++ tail).
Proof. exact insertions_invisible. Qed.

(* skipping terminates: the loop consumes input on every iteration *)
Theorem C13_read_frame_terminates :
  forall ts fd bs, read_frame (fuel_for bs) ts fd bs <> TOutOfFuel.
Proof. exact read_frame_terminates. Qed.

(* the code before the repair (fix: 4e69a07) violated the frame clause *)
Theorem C13_legacy_refuted :
  exists ts t p rest,
    fkind_parse t = None /\
    read_frame_legacy (fuel_for (unknown_frame t p ++ rest)) ts false (unknown_frame t p ++ rest)
    <> read_frame_legacy (fuel_for rest) ts false rest.
Proof. exact legacy_unknown_frame_refuted. Qed.

Example C13_example :
  let items := [IUnknown 7 [4; 0]; IFrame (mkframe KSettings [] None); IUnknown 16962 [0; 1; 5]] in
  forallb item_ok items = true /\
  frames_of 64 TUniRemote false (enc_items items) = ([mkframe KSettings [] None], EndNeedMore).
Proof. vm_compute. split; reflexivity. Qed.
