(* C13 -- Unknown and GREASE protocol elements are skipped whole, with no side effects. *)
From WT.Model Require Import Base Varint Ids Frame Async StreamTS.
From WT.Proofs Require Import VarintP FrameP AsyncP StreamTSP.

(* an unknown frame -- any unknown type id, any payload (including bytes that
   look like frames), followed by anything -- is consumed whole *)
Theorem C13_unknown_frame_consumed_whole :
  forall t p rest, fkind_parse t = None -> t <= varint_max -> len p <= varint_max ->
    frame_read (unknown_frame t p ++ rest) = (RErr PUnknown, rest).
Proof. exact frame_read_unknown. Qed.

(* ... and every typestate's read_frame then behaves exactly as if it were not
   there: same result, same first-frame state (sync and async paths) *)
Theorem C13_read_frame_skips_unknown :
  forall ts fd t p rest, fkind_parse t = None -> t <= varint_max -> len p <= varint_max ->
    read_frame (fuel_for (unknown_frame t p ++ rest)) ts fd (unknown_frame t p ++ rest)
    = read_frame (fuel_for rest) ts fd rest.
Proof. exact read_frame_skips_unknown. Qed.

Theorem C13_read_frame_async_skips_unknown :
  forall ts fd t p rest tm, fkind_parse t = None -> t <= varint_max -> len p <= varint_max ->
    read_frame_async (fuel_for (unknown_frame t p ++ rest)) ts fd (unknown_frame t p ++ rest) tm
    = read_frame_async (fuel_for rest) ts fd rest tm.
Proof. exact read_frame_async_skips_unknown. Qed.

(* any number of insertions at any frame boundaries of an exchange: the
   sequence of frames delivered and the way the exchange ends are unchanged *)
Theorem C13_insertions_invisible :
  forall ts items fd tail, forallb item_ok items = true ->
    frames_of (S (length (enc_items items ++ tail))) ts fd (enc_items items ++ tail)
    = frames_of (S (length (enc_items (filter is_known items) ++ tail))) ts fd
                (enc_items (filter is_known items) ++ tail).
Proof. exact insertions_invisible. Qed.

(* skipping terminates: the loop consumes input on every iteration *)
Theorem C13_read_frame_terminates :
  forall ts fd bs, read_frame (fuel_for bs) ts fd bs <> TOutOfFuel.
Proof. exact read_frame_terminates. Qed.

(* the code before the repair (fix: 4e69a07) violated the frame clause *)
Theorem C13_legacy_refuted :
  exists ts t p rest,
    fkind_parse t = None /\
    read_frame_legacy (fuel_for (unknown_frame t p ++ rest)) ts false (unknown_frame t p ++ rest)
    <> read_frame_legacy (fuel_for rest) ts false rest.
Proof. exact legacy_unknown_frame_refuted. Qed.

Example C13_example :
  let items := [IUnknown 7 [4; 0]; IFrame (mkframe KSettings [] None); IUnknown 16962 [0; 1; 5]] in
  forallb item_ok items = true /\
  frames_of 64 TUniRemote false (enc_items items) = ([mkframe KSettings [] None], EndNeedMore).
Proof. vm_compute. split; reflexivity. Qed.

(* ---------------- settings, capsules, unidirectional streams, runners ---------------- *)
From WT.Model Require Import Wire Qpack Session Runner.
From WT.Proofs Require Import WireP RunnerP.

(* unknown setting ids are skipped, GREASE ids are stored apart: for every order and every
   placement, the known settings read from the frame are exactly the known ones written *)
Theorem C13_settings_unknown_transparent :
  forall l m, forallb pair_ok l = true -> sok_nodup [] l = true ->
    settings_with_frame (settings_payload l) = Val m ->
    filter is_known_setting m = filter is_known_setting l.
Proof. exact settings_unknown_transparent. Qed.

(* a capsule of any other type is skipped *)
Theorem C13_unknown_capsule_skipped :
  forall ty rest, ty <= varint_max -> ty <> capsule_close_type -> capsule_with_frame (enc ty ++ rest) = None.
Proof. exact other_capsule_skipped. Qed.

(* the session stream: any number of skippable elements (unknown frames, GREASE frames,
   unknown capsules) change nothing *)
Theorem C13_session_stream_skips :
  forall items f rest t, forallb sitem_ok items = true ->
    connect_run (S (sitems_frames items + f)) (enc_sitems items ++ rest) t = connect_run (S f) rest t.
Proof. exact connect_run_skip_items. Qed.

(* the control stream: unknown frames anywhere, GREASE frames after SETTINGS *)
Theorem C13_control_stream_unknown_frame :
  forall u p rest t f have, fkind_parse u = None -> u <= varint_max -> len p <= varint_max ->
    settings_run (S f) have (unknown_frame u p ++ rest) t = settings_run (S f) have rest t.
Proof. exact settings_run_unknown_frame. Qed.
Theorem C13_control_stream_grease :
  forall id p rest t f m, is_exercise id = true -> id <= varint_max -> len p <= max_parse_payload ->
    settings_run (S f) (Some m) (frame_write (mkframe (KExercise id) p None) ++ rest) t = settings_run f (Some m) rest t.
Proof. exact settings_run_grease_after_settings. Qed.

(* an unknown unidirectional stream type, whatever follows, never closes the connection *)
Theorem C13_unknown_uni_stream_never_closes :
  forall c id rest t, skind_parse id = None -> id <= varint_max ->
    uni_accept c (enc id ++ rest) t = (RIgnoreStream EStreamCreation, c).
Proof. exact uni_accept_unknown_never_closes. Qed.

(* the code before the repair (fix: 4af9bb3) closed the connection *)
Theorem C13_uni_legacy_refuted : exists c d t e, uni_accept_legacy c d t = (RClose e, c).
Proof. exact uni_accept_legacy_refuted. Qed.
