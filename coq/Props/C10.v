(* C10 -- Certificate-hash pinning accepts exactly the pinned, short-lived P-256 leaf.
   The decision rule of ServerHashVerification::verify_server_cert as a function of the certificate's
   abstract fields; X.509 parsing, SHA-256 and the TLS handshake are oracles (exercised by the "pin" suite). *)
From WT.Model Require Import Base Varint Ids Tls.
From WT.Proofs Require Import TlsP.

Theorem C10_accepts_iff :
  forall c now h,
    pin_verify c now h = PinOk <->
    (c_parse_ok c = true /\ c_nb c <= now <= c_na c /\ c_na c - c_nb c <= max_validity /\
     c_is_ec c = true /\ c_is_p256 c = true /\ h = true).
Proof. exact pin_accepts_iff. Qed.

(* no value of the other inputs makes a certificate failing one condition acceptable *)
Theorem C10_each_condition_necessary :
  forall c now h,
    (c_parse_ok c = false \/ now < c_nb c \/ c_na c < now \/ max_validity < c_na c - c_nb c \/
     c_is_ec c = false \/ c_is_p256 c = false \/ h = false) -> pin_verify c now h <> PinOk.
Proof. exact pin_each_condition_necessary. Qed.

Theorem C10_refusal_values :
  forall c now h,
    match pin_verify c now h with
    | PinBadEncoding => c_parse_ok c = false
    | PinNotValidYet => now < c_nb c
    | PinExpired => c_na c < now
    | PinUnknownIssuer => max_validity < c_na c - c_nb c \/ c_is_ec c = false \/ c_is_p256 c = false \/ h = false
    | PinOk => True
    end.
Proof. exact pin_refusals. Qed.

(* the code before the repair (fix: b8325ad) refused a pinned certificate valid for a single instant *)
Theorem C10_legacy_refuted :
  exists c now, pin_verify_legacy c now true <> PinOk /\
    c_parse_ok c = true /\ c_nb c <= now <= c_na c /\ c_na c - c_nb c <= max_validity /\ c_is_ec c = true /\ c_is_p256 c = true.
Proof. exact pin_legacy_refuted. Qed.

Example C10_example :
  pin_verify (mkcertv true 100 (100 + 1209600) true true) 100 true = PinOk /\
  pin_verify (mkcertv true 100 (100 + 1209601) true true) 100 true = PinUnknownIssuer /\
  pin_verify (mkcertv true 100 200 true false) 150 true = PinUnknownIssuer /\
  pin_verify (mkcertv true 100 200 true true) 201 true = PinExpired.
Proof. vm_compute. repeat split; reflexivity. Qed.
