(* C14 -- Encoding and decoding are exact inverses with exact sizes.
   Only statements, `exact` proofs, pins and assumption printing live here. *)
From WT.Model Require Import Base Varint.
From WT.Proofs Require Import VarintP.

(* variable-length integers: decode (encode v ++ rest) = (v, rest) for every
   representable v and every continuation *)
Theorem C14_varint_roundtrip :
  forall v r, v <= varint_max -> get_varint (enc v ++ r) = Some (v, r).
Proof. exact get_enc. Qed.

(* the encoder writes exactly the number of bytes its size query announces *)
Theorem C14_varint_size : forall v, length (enc v) = vsize v.
Proof. exact enc_length. Qed.

(* shortest form: any of the four wire sizes that can hold v is >= size v, and
   every decoding consumed at least size v bytes *)
Theorem C14_varint_shortest :
  forall v n, In n [1%nat; 2%nat; 4%nat; 8%nat] -> v < 2 ^ (8 * N.of_nat n - 2) -> (vsize v <= n)%nat.
Proof. exact vsize_minimal. Qed.

Theorem C14_varint_decode_consumes_at_least_size :
  forall bs v r, get_varint bs = Some (v, r) -> (vsize v <= length bs - length r)%nat.
Proof. exact get_varint_minimal. Qed.

(* a too-small destination is refused (and the model returns no bytes, i.e. the
   destination is untouched); otherwise exactly size bytes are produced *)
Theorem C14_varint_capacity :
  forall cap v,
    (put_varint_cap cap v = None <-> (cap < vsize v)%nat) /\
    (forall bs, put_varint_cap cap v = Some bs -> bs = enc v /\ length bs = vsize v).
Proof. exact put_varint_cap_spec. Qed.

(* non-vacuity: the hypotheses are met by non-trivial values *)
Example C14_varint_example :
  varint_max <= varint_max /\ get_varint (enc 16384 ++ [7]) = Some (16384, [7]) /\ vsize 16384 = 4%nat.
Proof. vm_compute. repeat split; congruence. Qed.

(* ---------------- frames ---------------- *)
From WT.Model Require Import Ids Frame.
From WT.Proofs Require Import FrameP.

(* decode (encode f ++ rest) = (f, rest) for every well-formed frame whose
   payload is within the receiver's parse limit (4096), any continuation *)
Theorem C14_frame_roundtrip :
  forall f r, frame_wf f = true -> len (fpayload f) <= max_parse_payload ->
              frame_read (frame_write f ++ r) = (RVal f, r).
Proof. exact frame_read_write. Qed.

Theorem C14_frame_size : forall f, length (frame_write f) = frame_write_size f.
Proof. exact frame_write_length. Qed.

Theorem C14_frame_capacity :
  forall cap f,
    (frame_write_to_buffer cap f = None <-> (cap < frame_write_size f)%nat) /\
    (forall w, frame_write_to_buffer cap f = Some w -> w = frame_write f /\ length w = frame_write_size f).
Proof. exact frame_write_to_buffer_spec. Qed.

(* ---------------- stream headers ---------------- *)
Theorem C14_sheader_roundtrip :
  forall h r, sheader_wf h = true -> sheader_read (sheader_write h ++ r) = (SVal h, r).
Proof. exact sheader_read_write. Qed.

Theorem C14_sheader_size : forall h, length (sheader_write h) = sheader_write_size h.
Proof. exact sheader_write_length. Qed.

Theorem C14_sheader_capacity :
  forall cap h,
    (sheader_write_to_buffer cap h = None <-> (cap < sheader_write_size h)%nat) /\
    (forall w, sheader_write_to_buffer cap h = Some w -> w = sheader_write h /\ length w = sheader_write_size h).
Proof. exact sheader_write_to_buffer_spec. Qed.

Example C14_frame_example :
  let f := mkframe (KExercise 64) [1; 2; 3] None in
  frame_wf f = true /\ len (fpayload f) <= max_parse_payload /\
  frame_read (frame_write f ++ [9]) = (RVal f, [9]) /\
  sheader_wf (mksheader SWebTransport (Some 16384)) = true.
Proof. vm_compute. repeat split; congruence. Qed.

(* ---------------- settings, datagrams, QPACK integers ---------------- *)
From WT.Model Require Import Wire Qpack.
From WT.Proofs Require Import WireP QpackP HuffmanP QpackRT.
From Coq Require Import Permutation.

(* SETTINGS: for EVERY order in which the map is iterated (any list l of
   distinct, non-reserved ids), decoding the generated payload gives back
   exactly the entries the receiver stores (all of them when the ids are known
   or GREASE) *)
Theorem C14_settings_roundtrip :
  forall l, forallb pair_ok l = true -> sok_nodup [] l = true ->
    settings_with_frame (settings_payload l) = Val (filter sok l).
Proof. exact settings_roundtrip. Qed.

Theorem C14_datagram_roundtrip :
  forall q p, q <= qstream_max -> dgram_read (enc q ++ p) = Val (q, p).
Proof. exact dgram_roundtrip. Qed.

Theorem C14_datagram_capacity :
  forall cap q p,
    (dgram_write cap q p = None <-> (cap < dgram_write_size q p)%nat) /\
    (forall w, dgram_write cap q p = Some w -> w = enc q ++ p /\ length w = dgram_write_size q p).
Proof. exact dgram_write_spec. Qed.

(* QPACK prefix integers, every prefix width 1..8, every flag pattern, every 64-bit value *)
Theorem C14_qpack_integer_roundtrip :
  forall n fl v tail, In n [1; 2; 3; 4; 5; 6; 7; 8] -> fl < 2 ^ (8 - n) -> v < two64 ->
    dec_int n (enc_int n fl v ++ tail) = Val (fl, v, tail).
Proof. exact dec_enc_int. Qed.

(* QPACK strings (Huffman when shorter, raw otherwise), for the two prefix widths in use and any flags *)
Theorem C14_huffman_roundtrip : forall s, bytes_ok s = true -> hdecode (hencode s) = Some s.
Proof. exact huffman_roundtrip. Qed.
Theorem C14_qpack_string_roundtrip :
  forall n fl s tail, In n [1; 2; 3; 4; 5; 6; 7; 8] -> fl * 2 + 1 < 2 ^ (8 - n) -> str_ok s ->
    dec_str n (enc_str n fl s ++ tail) = Val (s, tail).
Proof. exact dec_enc_str. Qed.
(* whole field sections, any number of fields in any order (later duplicates overwrite, as HashMap::insert) *)
Theorem C14_field_section_roundtrip :
  forall l, fields_okb l = true -> qpack_decode (qpack_encode l) = Val (fold_left ins l []).
Proof. exact qpack_roundtrip_b. Qed.
(* header maps through HEADERS frames *)
Theorem C14_header_map_roundtrip :
  forall m, keys_distinct m = true -> fields_okb m = true ->
    headers_with_frame (fpayload (headers_generate_frame m)) = Val (sorted_headers m)
    /\ Permutation (sorted_headers m) m
    /\ forall k, hget k (sorted_headers m) = hget k m.
Proof. exact headers_roundtrip_b. Qed.

(* static-table references produced by the encoder denote the field they replace *)
Theorem C14_static_table_sound :
  forall k v,
    match lookup_index k v with
    | LKeyValue i => lookup_field i = Some (k, v)
    | LKeyOnly i => exists v', lookup_field i = Some (k, v')
    | LNone => True
    end.
Proof. exact lookup_index_sound. Qed.

Example C14_settings_example :
  forallb pair_ok local_settings = true /\ sok_nodup [] local_settings = true /\
  settings_with_frame (settings_payload local_settings) = Val local_settings /\
  dec_int 6 (enc_int 6 3 98 ++ [1]) = Val (3, 98, [1]).
Proof. vm_compute. repeat split; reflexivity. Qed.
