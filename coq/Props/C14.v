(* C14 -- Encoding and decoding are exact inverses with exact sizes.
   Only statements, `exact` proofs, pins and assumption printing live here. *)
From WT.Model Require Import Base Varint.
From WT.Proofs Require Import VarintP.

(* variable-length integers: decode (encode v ++ rest) = (v, rest) for every
   representable v and every continuation *)
Theorem C14_varint_roundtrip :
  forall v r, v <= varint_max -> get_varint (enc v ++ r) = Some (v, r).
Proof. exact get_enc. Qed.

(* the encoder writes exactly the number of bytes its size query announces *)
Theorem C14_varint_size : forall v, length (enc v) = vsize v.
Proof. exact enc_length. Qed.

(* shortest form: any of the four wire sizes that can hold v is >= size v, and
   every decoding consumed at least size v bytes *)
Theorem C14_varint_shortest :
  forall v n, In n [1%nat; 2%nat; 4%nat; 8%nat] -> v < 2 ^ (8 * N.of_nat n - 2) -> (vsize v <= n)%nat.
Proof. exact vsize_minimal. Qed.

Theorem C14_varint_decode_consumes_at_least_size :
  forall bs v r, get_varint bs = Some (v, r) -> (vsize v <= length bs - length r)%nat.
Proof. exact get_varint_minimal. Qed.

(* a too-small destination is refused (and the model returns no bytes, i.e. the
   destination is untouched); otherwise exactly size bytes are produced *)
Theorem C14_varint_capacity :
  forall cap v,
    (put_varint_cap cap v = None <-> (cap < vsize v)%nat) /\
    (forall bs, put_varint_cap cap v = Some bs -> bs = enc v /\ length bs = vsize v).
Proof. exact put_varint_cap_spec. Qed.

(* non-vacuity: the hypotheses are met by non-trivial values *)
Example C14_varint_example :
  varint_max <= varint_max /\ get_varint (enc 16384 ++ [7]) = Some (16384, [7]) /\ vsize 16384 = 4%nat.
Proof. vm_compute. repeat split; congruence. Qed.
