(* C18 -- Only well-formed WebTransport requests and responses are admitted. *)
From WT.Model Require Import Base Varint Ids Frame Async StreamTS Wire Qpack Session Runner.
From WT.Proofs Require Import VarintP FrameP WireP QpackP SessionP.

Theorem C18_request_admitted_iff :
  forall h, (exists r, request_try_from h = inr r) <->
    (has k_method v_connect h /\ has k_scheme v_https h /\ has k_protocol v_webtransport h /\
     present k_authority h /\ present k_path h).
Proof. exact request_admission. Qed.

Theorem C18_admitted_request_unchanged : forall h r, request_try_from h = inr r -> r = h.
Proof. exact request_try_from_identity. Qed.

Theorem C18_refusal_class :
  forall h, match request_try_from h with
            | inr _ => True
            | inl HMethodNotConnect => exists m, hget k_method h = Some m /\ m <> v_connect
            | inl e => e <> HMethodNotConnect
            end.
Proof. exact request_refusal. Qed.

(* a status value never escapes 100..599 through any constructor *)
Theorem C18_status_from_str_range : forall s n, status_from_str s = Some n -> 100 <= n <= 599.
Proof. exact status_from_str_range. Qed.
Theorem C18_status_numeric_range : forall v n, status_try_from v = Some n -> n = v /\ 100 <= n <= 599.
Proof. exact status_try_from_range. Qed.
Theorem C18_status_default_range : 100 <= status_default <= 599.
Proof. exact status_default_range. Qed.
Theorem C18_status_print_parse : forall n, 100 <= n <= 599 -> status_from_str (show_dec n) = Some n.
Proof. exact status_show_parse. Qed.
Theorem C18_response_status_range : forall h c, response_try_from h = inr c -> 100 <= c <= 599.
Proof. exact response_status_range. Qed.
Theorem C18_acceptance_iff_2xx : forall v, status_is_successful v = true <-> 200 <= v <= 299.
Proof. exact status_acceptance. Qed.

(* reserved pseudo-header fields cannot be overridden *)
Theorem C18_insert_reserved_refused : forall k v req, request_insert k v req = None <-> is_reserved k = true.
Proof. exact insert_reserved_refused. Qed.
Theorem C18_insert_preserves_reserved :
  forall k v req req' r, request_insert k v req = Some req' -> In r reserved_headers -> hget r req' = hget r req.
Proof. exact insert_preserves_reserved. Qed.
Theorem C18_request_fields_are_the_urls :
  forall a p,
    hget k_method (request_new a p) = Some v_connect /\ hget k_scheme (request_new a p) = Some v_https /\
    hget k_protocol (request_new a p) = Some v_webtransport /\
    hget k_authority (request_new a p) = Some a /\ hget k_path (request_new a p) = Some p /\
    length (request_new a p) = 5%nat.
Proof. exact request_new_fields. Qed.

(* the code before the repair (fix: 15c4e38) let out-of-range statuses through *)
Theorem C18_legacy_refuted :
  (exists s n, status_from_str_legacy s = Some n /\ ~ (100 <= n <= 599)) /\ ~ (100 <= status_default_legacy <= 599).
Proof. exact status_legacy_refuted. Qed.

Example C18_example :
  status_from_str [50; 48; 48] = Some 200 /\ status_from_str [57; 57; 57] = None /\ status_from_str [43; 50; 48; 48] = Some 200 /\
  request_insert k_path [47] (request_new [97] [47]) = None.
Proof. vm_compute. repeat split; reflexivity. Qed.
