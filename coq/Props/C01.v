(* C01 -- Stream bytes arrive exactly, in order, with framing invisible. *)
From WT.Model Require Import Base Varint Ids Frame Async StreamTS Wire Qpack Session Runner Emit Pipe.
From WT.Proofs Require Import VarintP FrameP AsyncP MachineP StreamTSP WireP RunnerP PipeP.

(* unidirectional: for every valid session id, every payload, every way the stream ends, the
   receiving side strips exactly the preamble the opening side emitted and hands over exactly
   the payload -- nothing of the preamble, nothing swallowed *)
Theorem C01_uni_preamble_invisible :
  forall c s payload t, session_ok s = true -> s <= varint_max ->
    uni_accept c (emit_uni_preamble s ++ payload) t = (RHandWT s payload, c).
Proof. exact uni_accept_wt_emit. Qed.

(* bidirectional (the opening direction) *)
Theorem C01_bi_preamble_invisible :
  forall s payload t, session_ok s = true -> s <= varint_max ->
    bi_accept (emit_bi_preamble s ++ payload) t = RHandWT s payload.
Proof. exact bi_accept_wt. Qed.

(* the preamble reader's outcome is a function of the bytes only: however the preamble is
   segmented into packets and however often the transport reports not-ready, the varint
   readers return the same value after consuming the same bytes *)
Theorem C01_segmentation_invariant :
  forall data sch t,
    exists s', drive (S (length sch)) gv_poll gv_init (mksrc data sch t) = Some (fst (gv_final data t), s') /\
               sdata s' = snd (gv_final data t).
Proof. exact get_varint_machine_refines. Qed.

(* no over-read: the accept task never consumes more than the preamble (the remainder is the payload) *)
Theorem C01_header_consumes_only_itself :
  forall h r, sheader_wf h = true -> sheader_read (sheader_write h ++ r) = (SVal h, r).
Proof. exact sheader_read_write. Qed.

(* ---- any partition into writes and reads (Model/Pipe.v: write calls, partial writes of any size, any
   flow-control window, any arrival pattern, read buffers of any size incl. zero, finish at any point) ---- *)

(* at every moment of every execution the stream's bytes are, in order: read ++ buffered ++ in flight ++ unsent *)
Theorem C01_pipe_conservation :
  forall w pre ops, let s := fst (prun w (pinit pre) ops) in
    pre ++ app_writes false ops = got s ++ rbuf s ++ wire s ++ unsent s.
Proof. exact pipe_conservation. Qed.

(* what the reads returned is always a prefix of what was written *)
Theorem C01_reads_are_a_prefix :
  forall w pre ops, exists rest, pre ++ app_writes false ops = read_data (snd (prun w (pinit pre) ops)) ++ rest.
Proof. exact pipe_reads_prefix. Qed.

(* end-of-stream only after the sender finished and everything was read *)
Theorem C01_eof_only_when_complete :
  forall w pre ops, eof (fst (prun w (pinit pre) ops)) = true ->
    read_data (snd (prun w (pinit pre) ops)) = pre ++ app_writes false ops /\
    finished (fst (prun w (pinit pre) ops)) = true.
Proof. exact pipe_eof_complete. Qed.

(* composed with the opening path (preamble first) and the accept path (preamble stripped): the receiving
   application is handed exactly the concatenation of the sending application's writes *)
Theorem C01_end_to_end_uni :
  forall w c sid ops, session_ok sid = true -> sid <= varint_max ->
    eof (fst (prun w (pinit (emit_uni_preamble sid)) ops)) = true ->
    uni_accept c (read_data (snd (prun w (pinit (emit_uni_preamble sid)) ops))) Fin
    = (RHandWT sid (app_writes false ops), c).
Proof. exact end_to_end_uni. Qed.
Theorem C01_end_to_end_bi :
  forall w sid ops, session_ok sid = true -> sid <= varint_max ->
    eof (fst (prun w (pinit (emit_bi_preamble sid)) ops)) = true ->
    bi_accept (read_data (snd (prun w (pinit (emit_bi_preamble sid)) ops))) Fin
    = RHandWT sid (app_writes false ops).
Proof. exact end_to_end_bi. Qed.

(* the premise is satisfiable: two writes, a window of 3 bytes, partial writes, small reads, a zero-length read *)
Example C01_pipe_example :
  let r := prun 3 (pinit (emit_uni_preamble 8))
             [PWrite [1; 2]; PTake 2; PWrite [3; 4; 5]; PDeliver 1; PRead 4; PTake 5; PDeliver 9; PRead 0; PRead 2;
              PFinish; PRead 9; PTake 9; PDeliver 9; PRead 1; PTake 9; PDeliver 9; PRead 7; PTake 9; PDeliver 9; PRead 7;
              PRead 7; PWrite [6]] in
  eof (fst r) = true /\ read_data (snd r) = [64; 84; 8; 1; 2; 3; 4; 5] /\ app_writes false
             [PWrite [1; 2]; PTake 2; PWrite [3; 4; 5]; PFinish; PWrite [6]] = [1; 2; 3; 4; 5].
Proof. vm_compute. repeat split; reflexivity. Qed.

Example C01_example :
  uni_accept (mkcrit true false false) (emit_uni_preamble 8 ++ [1; 2; 3]) Fin = (RHandWT 8 [1; 2; 3], mkcrit true false false) /\
  bi_accept (emit_bi_preamble 0 ++ []) Fin = RHandWT 0 [] /\ emit_uni_preamble 8 = [64; 84; 8].
Proof. vm_compute. repeat split; reflexivity. Qed.
