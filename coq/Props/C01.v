(* C01 -- Stream bytes arrive exactly, in order, with framing invisible. *)
From WT.Model Require Import Base Varint Ids Frame Async StreamTS Wire Qpack Session Runner Emit.
From WT.Proofs Require Import VarintP FrameP AsyncP MachineP StreamTSP WireP RunnerP.

(* unidirectional: for every valid session id, every payload, every way the stream ends, the
   receiving side strips exactly the preamble the opening side emitted and hands over exactly
   the payload -- nothing of the preamble, nothing swallowed *)
Theorem C01_uni_preamble_invisible :
  forall c s payload t, session_ok s = true -> s <= varint_max ->
    uni_accept c (emit_uni_preamble s ++ payload) t = (RHandWT s payload, c).
Proof. exact uni_accept_wt_emit. Qed.

(* bidirectional (the opening direction) *)
Theorem C01_bi_preamble_invisible :
  forall s payload t, session_ok s = true -> s <= varint_max ->
    bi_accept (emit_bi_preamble s ++ payload) t = RHandWT s payload.
Proof. exact bi_accept_wt. Qed.

(* the preamble reader's outcome is a function of the bytes only: however the preamble is
   segmented into packets and however often the transport reports not-ready, the varint
   readers return the same value after consuming the same bytes *)
Theorem C01_segmentation_invariant :
  forall data sch t,
    exists s', drive (S (length sch)) gv_poll gv_init (mksrc data sch t) = Some (fst (gv_final data t), s') /\
               sdata s' = snd (gv_final data t).
Proof. exact get_varint_machine_refines. Qed.

(* no over-read: the accept task never consumes more than the preamble (the remainder is the payload) *)
Theorem C01_header_consumes_only_itself :
  forall h r, sheader_wf h = true -> sheader_read (sheader_write h ++ r) = (SVal h, r).
Proof. exact sheader_read_write. Qed.

Example C01_example :
  uni_accept (mkcrit true false false) (emit_uni_preamble 8 ++ [1; 2; 3]) Fin = (RHandWT 8 [1; 2; 3], mkcrit true false false) /\
  bi_accept (emit_bi_preamble 0 ++ []) Fin = RHandWT 0 [] /\ emit_uni_preamble 8 = [64; 84; 8].
Proof. vm_compute. repeat split; reflexivity. Qed.
