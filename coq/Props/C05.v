(* C05 -- Control-plane interpretation is independent of segmentation and interleaving. *)
From WT.Model Require Import Base Varint Ids Frame Async StreamTS Wire Qpack Session Runner Select.
From WT.Proofs Require Import VarintP FrameP AsyncP MachineP SelectP RunnerP.

(* segmentation: with no cancellation, every split of the bytes into packets and every pattern
   of not-ready results gives the same outcome after consuming the same bytes *)
Theorem C05_segmentation_varint :
  forall data sch t,
    exists s', drive_c (repeat EvPoll (S (length sch))) gv_init (mksrc data sch t) = Some (fst (gv_final data t), s') /\
               sdata s' = snd (gv_final data t).
Proof. exact select_no_cancel. Qed.

Theorem C05_segmentation_buffer :
  forall (E : Type) n data sch t,
    exists s', drive (S (length sch)) (gb_poll (S n) n) [] (mksrc data sch t) =
               Some (match @a_get_buffer E n data t with
                     | AOk p _ => inr p | AIo e _ => inl e | AParse _ _ => inl IoLost end, s') /\
               sdata s' = match @a_get_buffer E n data t with AOk _ r => r | AIo _ r => r | AParse _ r => r end.
Proof. exact get_buffer_machine_refines. Qed.

(* interleaving: other connection events make the worker's select! loop drop and re-create the
   future that reads the control plane.  Dropping it while it holds no partial progress is harmless *)
Theorem C05_cancel_without_progress_harmless :
  forall evs st s, cancel_safe evs st s = true -> drive_c evs st s = drive_c (filter is_poll evs) st s.
Proof. exact select_cancel_safe. Qed.

(* ... but the worker of the pinned tree can drop it in the middle of a frame: the bytes already
   consumed are lost and the remainder is mis-parsed.  This is the known finding of C05
   (known_findings.json: control-plane-read-future-dropped-mid-frame); by the theorem above it is
   the ONLY way a segmentation/interleaving can change the outcome. *)
Theorem C05_refuted_on_pinned_tree :
  exists data sch t evs,
    drive_c evs gv_init (mksrc data sch t) <> drive_c (filter is_poll evs) gv_init (mksrc data sch t) /\
    length (filter (fun e => negb (is_poll e)) evs) = 1%nat.
Proof. exact select_cancel_refuted. Qed.

(* the client's hand-off of the session stream from Endpoint::connect to the driver: the bytes the
   peer sent after the response HEADERS (e.g. a close capsule in the same packet) are exactly what
   the session runner sees: none is consumed or dropped by the code that read the response *)
Theorem C05_client_handoff_keeps_every_byte :
  forall payload rest t, len payload <= max_parse_payload ->
    client_session_rest (frame_write (mkframe KHeaders payload None) ++ rest) t = Some rest.
Proof. exact client_rest_after_response. Qed.

Example C05_example :
  cancel_safe [EvCancel; EvPoll; EvPoll] gv_init (mksrc [64; 200] [Chunk 1] Fin) = true /\
  cancel_safe [EvPoll; EvCancel; EvPoll] gv_init (mksrc [64; 200] [Chunk 1; Pend] Fin) = false.
Proof. vm_compute. split; reflexivity. Qed.
