(* C20 -- Configuration is honoured (the builder -> configuration function; the OS socket layer, rustls'
   negotiation and quinn's timers are observed by the suites "bind", "idle", "alpn", "reload", not modelled). *)
From WT.Model Require Import Base Varint Ids Tls Config.
From WT.Proofs Require Import TlsP ConfigP.

(* the six bind presets: address and dual-stack mode (IPV6_V6ONLY set / cleared / left to the OS) *)
Theorem C20_bind_presets :
  forall p, (preset_ip p, v6only (preset_dual p)) =
    match p with
    | LocalV4 => (Ip4Localhost, None) | LocalV6 => (Ip6Localhost, Some true) | LocalDual => (Ip6Localhost, Some false)
    | AnyV4 => (Ip4Unspecified, None) | AnyV6 => (Ip6Unspecified, Some true) | AnyDual => (Ip6Unspecified, Some false)
    end.
Proof. exact bind_table. Qed.

(* an idle timeout is applied exactly (in milliseconds) when it is representable, refused when it is not,
   never altered *)
Theorem C20_idle_timeout :
  forall secs nanos,
    (forall ms, idle_accept secs nanos = Some ms -> ms = idle_ms secs nanos /\ ms < two62) /\
    (idle_accept secs nanos = None <-> two62 <= idle_ms secs nanos).
Proof. exact idle_accept_spec. Qed.

(* ---- the transport setters of both builders (Model/Config.v), for every chain of calls ---- *)
(* build() yields a configuration exactly when every requested idle timeout is representable, and then every
   field holds what the LAST call of its setter asked for (quinn's default when there was none) *)
Theorem C20_setter_chains_honoured :
  forall ops c,
    cbuild c ops = if forallb idle_ok ops
                   then Some (mktcfg (last_idle ops (t_idle c)) (last_keep ops (t_keep c)) (last_migr ops (t_migr c)))
                   else None.
Proof. exact cbuild_spec. Qed.
Theorem C20_invalid_idle_gives_no_configuration :
  forall ops c, cbuild c ops = None <-> forallb idle_ok ops = false.
Proof. exact cbuild_refuses. Qed.
(* a setter call changes its own field only; calls of different setters commute *)
Theorem C20_setter_frame :
  forall c o c', capply c o = Some c' ->
    match o with
    | SetIdle _ => t_keep c' = t_keep c /\ t_migr c' = t_migr c
    | SetKeep k => t_idle c' = t_idle c /\ t_migr c' = t_migr c /\ t_keep c' = k
    | SetMigr b => t_idle c' = t_idle c /\ t_keep c' = t_keep c /\ t_migr c' = b
    end.
Proof. exact capply_frame. Qed.
Theorem C20_setters_commute :
  forall c a b, same_setter a b = false -> cbuild c [a; b] = cbuild c [b; a].
Proof. exact setters_commute. Qed.

Example C20_setter_example :
  cbuild tdefault [SetKeep (Some 250); SetIdle None; SetMigr false; SetIdle (Some (2, 500000000))]
  = Some (mktcfg (Some 2500) (Some 250) false).
Proof. vm_compute. reflexivity. Qed.

Example C20_example :
  idle_accept 30 0 = Some 30000 /\ idle_accept 4611686018427387 904000000 = None /\
  idle_accept 4611686018427387 903999999 = Some 4611686018427387903.
Proof. vm_compute. repeat split; reflexivity. Qed.
