(* C20 -- Configuration is honoured (the builder -> configuration function; the OS socket layer, rustls'
   negotiation and quinn's timers are observed by the suites "bind", "idle", "alpn", "reload", not modelled). *)
From WT.Model Require Import Base Varint Ids Tls.
From WT.Proofs Require Import TlsP.

(* the six bind presets: address and dual-stack mode (IPV6_V6ONLY set / cleared / left to the OS) *)
Theorem C20_bind_presets :
  forall p, (preset_ip p, v6only (preset_dual p)) =
    match p with
    | LocalV4 => (Ip4Localhost, None) | LocalV6 => (Ip6Localhost, Some true) | LocalDual => (Ip6Localhost, Some false)
    | AnyV4 => (Ip4Unspecified, None) | AnyV6 => (Ip6Unspecified, Some true) | AnyDual => (Ip6Unspecified, Some false)
    end.
Proof. exact bind_table. Qed.

(* an idle timeout is applied exactly (in milliseconds) when it is representable, refused when it is not,
   never altered *)
Theorem C20_idle_timeout :
  forall secs nanos,
    (forall ms, idle_accept secs nanos = Some ms -> ms = idle_ms secs nanos /\ ms < two62) /\
    (idle_accept secs nanos = None <-> two62 <= idle_ms secs nanos).
Proof. exact idle_accept_spec. Qed.

Example C20_example :
  idle_accept 30 0 = Some 30000 /\ idle_accept 4611686018427387 904000000 = None /\
  idle_accept 4611686018427387 903999999 = Some 4611686018427387903.
Proof. vm_compute. repeat split; reflexivity. Qed.
