(* C15 -- All decoding paths agree and incomplete input is never consumed. *)
From WT.Model Require Import Base Varint Ids Frame Async StreamTS.
From WT.Proofs Require Import VarintP FrameP AsyncP MachineP StreamTSP.

(* Frame: one-shot vs async, every byte string, every terminal.  The async
   result is a function of (bytes, terminal) only: no chunking or Pending
   pattern can change it (see the machine theorems below). *)
Theorem C15_frame_paths_agree :
  forall bs t,
    match frame_read bs with
    | (RVal f, r) => frame_read_async bs t = AOk f r
    | (RErr e, r) => frame_read_async bs t = AParse e r
    | (RNone, _) => frame_read_async bs t = AIo (eof_err t (is_nil bs)) []
    end.
Proof. exact frame_async_agrees. Qed.

(* buffered reader: the offset moves only when a value is returned, and then by
   exactly the bytes of that value *)
Theorem C15_frame_buffer_offset :
  forall buf off x o, frame_read_from_buffer buf off = (x, o) ->
    match x with RVal _ => True | _ => o = off end.
Proof. exact frame_read_from_buffer_offset. Qed.

Theorem C15_frame_buffer_value :
  forall buf off f o, (off <= length buf)%nat -> frame_read_from_buffer buf off = (RVal f, o) ->
    exists r, frame_read (skipn off buf) = (RVal f, r) /\ (o = length buf - length r)%nat /\ (off < o <= length buf)%nat.
Proof. exact frame_read_from_buffer_value. Qed.

(* a proper prefix of a valid encoding asks for more data: never a value, never an error *)
Theorem C15_frame_prefix_needs_more :
  forall f p q, frame_wf f = true -> len (fpayload f) <= max_parse_payload ->
    frame_write f = p ++ q -> q <> [] -> fst (frame_read p) = RNone.
Proof. exact frame_read_prefix. Qed.

(* more input never changes a completed read *)
Theorem C15_frame_extension :
  forall p q x r, frame_read p = (x, r) -> x <> RNone -> frame_read (p ++ q) = (x, r ++ q).
Proof. exact frame_read_ext. Qed.

Theorem C15_sheader_paths_agree :
  forall bs t,
    match sheader_read bs with
    | (SVal h, r) => sheader_read_async bs t = AOk h r
    | (SErr e, r) => sheader_read_async bs t = AParse e r
    | (SNone, _) => sheader_read_async bs t = AIo (eof_err t (is_nil bs)) []
    end.
Proof. exact sheader_async_agrees. Qed.

Theorem C15_sheader_buffer_offset :
  forall buf off x o, sheader_read_from_buffer buf off = (x, o) ->
    match x with SVal _ => True | _ => o = off end.
Proof. exact sheader_read_from_buffer_offset. Qed.

Theorem C15_sheader_prefix_needs_more :
  forall h p q, sheader_wf h = true -> sheader_write h = p ++ q -> q <> [] -> fst (sheader_read p) = SNone.
Proof. exact sheader_read_prefix. Qed.

(* the poll machines keep their progress across Pending: driven to completion
   they compute the completed-read semantics for EVERY schedule *)
Theorem C15_get_varint_machine :
  forall data sch t,
    exists s', drive (S (length sch)) gv_poll gv_init (mksrc data sch t) = Some (fst (gv_final data t), s') /\
               sdata s' = snd (gv_final data t).
Proof. exact get_varint_machine_refines. Qed.

Theorem C15_get_buffer_machine :
  forall (E : Type) n data sch t,
    exists s', drive (S (length sch)) (gb_poll (S n) n) [] (mksrc data sch t) =
               Some (match @a_get_buffer E n data t with
                     | AOk p _ => inr p | AIo e _ => inl e | AParse _ _ => inl IoLost end, s') /\
               sdata s' = match @a_get_buffer E n data t with AOk _ r => r | AIo _ r => r | AParse _ r => r end.
Proof. exact get_buffer_machine_refines. Qed.

(* the typestates' read_frame / read_frame_async agree (first-frame state included) *)
Theorem C15_typestate_paths_agree :
  forall n ts fd bs t, (length bs < n)%nat ->
    match read_frame n ts fd bs with
    | TFrame f r fd' => read_frame_async n ts fd bs t = ATFrame f r fd'
    | TErr e r fd' => read_frame_async n ts fd bs t = ATH3 e r fd'
    | TNeedMore _ fd' =>
        fd' = fd /\
        read_frame_async n ts fd bs t =
          match eof_err t (is_nil (after_unknowns n bs)) with
          | UnexpectedFin => ATH3 EFrame [] fd
          | e => ATIo e [] fd
          end
    | TOutOfFuel => False
    end.
Proof. exact read_frame_paths_agree. Qed.

Theorem C15_typestate_buffer_offset :
  forall ts fd buf off,
    match read_frame_from_buffer ts fd buf off with
    | BFrame _ o _ => (off <= length buf -> off < o <= length buf)%nat
    | BNeedMore o _ => o = off
    | BErr _ o _ => o = off
    | BOutOfFuel => False
    end.
Proof. exact read_frame_from_buffer_offset. Qed.

Theorem C15_typestate_buffer_same :
  forall ts fd buf off,
    match read_frame_from_buffer ts fd buf off, read_frame (fuel_for (skipn off buf)) ts fd (skipn off buf) with
    | BFrame f o fd1, TFrame g r fd2 => f = g /\ fd1 = fd2 /\ o = (length buf - length r)%nat
    | BNeedMore _ fd1, TNeedMore _ fd2 => fd1 = fd2
    | BErr e _ fd1, TErr e' _ fd2 => e = e' /\ fd1 = fd2
    | BOutOfFuel, TOutOfFuel => True
    | _, _ => False
    end.
Proof. exact read_frame_from_buffer_same. Qed.

Example C15_example :
  frame_read [0; 3; 1; 2] = (RNone, [1; 2]) /\
  frame_read_async [0; 3; 1; 2] Fin = AIo UnexpectedFin [] /\
  frame_read_async [] Fin = AIo ImmediateFin [] /\
  frame_read_from_buffer [9; 0; 3; 1; 2] 1 = (RNone, 1%nat).
Proof. vm_compute. repeat split; congruence. Qed.
