(* C08 -- Every peer-opened stream is delivered exactly once at any acceptance pace. *)
From WT.Model Require Import Base Handoff Trace.
From WT.Proofs Require Import HandoffP TraceP.
From Coq Require Import Permutation.

(* for every capacity and every history (any interleaving of peer, worker, tasks, application, any
   cancellations): no stream is delivered twice, nothing is delivered that the peer did not open, and every
   opened stream is in exactly one place (accept queue, task, channel, delivered, ended) -- none lost, none invented *)
Theorem C08_exactly_once :
  forall cap ls s, run (step cap) hinit ls = Some s ->
    NoDup (delivered s) /\ (forall x, In x (delivered s) -> In x (opened s)) /\
    NoDup (all_ids s) /\ Permutation (all_ids s) (opened s).
Proof. exact exactly_once. Qed.

Theorem C08_invariant_step : forall cap s l s', inv s -> step cap s l = Some s' -> inv s'.
Proof. exact step_preserves_inv. Qed.

(* cancelling a pending accept call changes nothing *)
Theorem C08_cancel_is_noop : forall cap s, step cap s AppCancel = Some s.
Proof. exact cancel_is_noop. Qed.

(* and everything that can be delivered is: see C07_healthy_stream_is_delivered *)
Theorem C08_delivery_possible :
  forall cap s pre j post, (1 <= cap)%nat -> quinn_q s = pre ++ j :: post ->
    exists s', run (step cap) s
                 (repeat WorkerAccept (S (length pre)) ++ [PeerPreamble j] ++ drain (length (chan s)) ++ [TaskSend j; AppRecv])
               = Some s' /\ In j (delivered s').
Proof. exact healthy_stream_is_delivered. Qed.

(* the tie to the running driver (suite "trace"): the driver's own event log, as accepted by the validator
   [orun], is an execution on which the statement above holds -- for every log, of any length *)
Theorem C08_observed_traces_exactly_once :
  forall cap es o, orun cap oinit es = Some o ->
    NoDup (delivered (hs o)) /\ (forall x, In x (delivered (hs o)) -> In x (opened (hs o))) /\
    NoDup (all_ids (hs o)) /\ Permutation (all_ids (hs o)) (opened (hs o)).
Proof. exact observed_exactly_once. Qed.

(* and an accepted log whose receives are first-in-first-out is literally a run of the transition system
   (trace inclusion; one channel slot of slack because sends and receives are logged after the fact) *)
Theorem C08_observed_fifo_trace_is_a_run :
  forall cap es o o', orun cap o es = Some o' -> all_fifo cap o es = true ->
    run (step (S cap)) (hs o) (all_labels cap o es) = Some (hs o').
Proof. exact observed_trace_is_a_run. Qed.

Example C08_validator_refuses_double_delivery :
  orun 4 oinit [OAccept 2; OPreWt 2; OSendBegin 2; OSendEnd 2; ORecv 2; ORecv 2] = None.
Proof. exact trace_refuses_double_delivery. Qed.

Example C08_example :
  option_map delivered (run (step 2) hinit [PeerOpen 1; PeerOpen 2; WorkerAccept; AppCancel; WorkerAccept; PeerPreamble 2;
                                            TaskSend 2; PeerPreamble 1; TaskSend 1; AppRecv; AppCancel; AppRecv]) = Some [2; 1].
Proof. vm_compute. reflexivity. Qed.
