(* C08 -- Every peer-opened stream is delivered exactly once at any acceptance pace. *)
From WT.Model Require Import Base Handoff.
From WT.Proofs Require Import HandoffP.
From Coq Require Import Permutation.

(* for every capacity and every history (any interleaving of peer, worker, tasks, application, any
   cancellations): no stream is delivered twice, nothing is delivered that the peer did not open, and every
   opened stream is in exactly one place (accept queue, task, channel, delivered, ended) -- none lost, none invented *)
Theorem C08_exactly_once :
  forall cap ls s, run (step cap) hinit ls = Some s ->
    NoDup (delivered s) /\ (forall x, In x (delivered s) -> In x (opened s)) /\
    NoDup (all_ids s) /\ Permutation (all_ids s) (opened s).
Proof. exact exactly_once. Qed.

Theorem C08_invariant_step : forall cap s l s', inv s -> step cap s l = Some s' -> inv s'.
Proof. exact step_preserves_inv. Qed.

(* cancelling a pending accept call changes nothing *)
Theorem C08_cancel_is_noop : forall cap s, step cap s AppCancel = Some s.
Proof. exact cancel_is_noop. Qed.

(* and everything that can be delivered is: see C07_healthy_stream_is_delivered *)
Theorem C08_delivery_possible :
  forall cap s pre j post, (1 <= cap)%nat -> quinn_q s = pre ++ j :: post ->
    exists s', run (step cap) s
                 (repeat WorkerAccept (S (length pre)) ++ [PeerPreamble j] ++ drain (length (chan s)) ++ [TaskSend j; AppRecv])
               = Some s' /\ In j (delivered s').
Proof. exact healthy_stream_is_delivered. Qed.

Example C08_example :
  option_map delivered (run (step 2) hinit [PeerOpen 1; PeerOpen 2; WorkerAccept; AppCancel; WorkerAccept; PeerPreamble 2;
                                            TaskSend 2; PeerPreamble 1; TaskSend 1; AppRecv; AppCancel; AppRecv]) = Some [2; 1].
Proof. vm_compute. reflexivity. Qed.
