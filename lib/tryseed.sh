#!/bin/sh
# tryseed.sh <patch.diff> <property id>... : apply a seeded change to /repo, run the checks, undo it.
patch="$(readlink -f "$1")"; shift
[ -f "$(dirname "$patch")/patch_on_hooks.diff" ] && [ "$(basename "$patch")" = "patch.diff" ] && patch="$(dirname "$patch")/patch_on_hooks.diff"
cd /repo && { git apply "$patch" 2>/dev/null || { echo "patch does not apply"; git checkout -q -- . ; git reset -q; exit 2; }; }
git -C /repo reset -q
cd /verif
for p in "$@"; do
  ./check "$p" 2>&1 | grep -E "VIOLATION|KNOWN-FINDING|\] (ok|FAIL)" | head -4
done
git -C /repo checkout -- . ; git -C /repo clean -fdq -e target
git -C /repo status --short | head -3
