#!/bin/sh
# tryseed.sh <patch.diff> <property id>... : apply a seeded change to /repo, run the checks, undo it.
patch="$1"; shift
cd /repo && git apply "$patch" || { echo "patch does not apply"; exit 2; }
cd /verif
for p in "$@"; do
  ./check "$p" 2>&1 | grep -E "VIOLATION|KNOWN-FINDING|\] (ok|FAIL)" | head -4
done
git -C /repo checkout -- . ; git -C /repo clean -fdq -e target
git -C /repo status --short | head -3
