#!/bin/sh
# tryseed.sh <patch.diff> <property id>... : apply a seeded change to /repo, run the checks, undo it.
patch="$(readlink -f "$1")"; shift
cd /repo && { git apply "$patch" 2>/dev/null || git apply -3 "$patch" 2>/dev/null || { echo "patch does not apply"; exit 2; }; }
git -C /repo reset -q
cd /verif
for p in "$@"; do
  ./check "$p" 2>&1 | grep -E "VIOLATION|KNOWN-FINDING|\] (ok|FAIL)" | head -4
done
git -C /repo checkout -- . ; git -C /repo clean -fdq -e target
git -C /repo status --short | head -3
