#!/usr/bin/env python3
"""dev helper: devsuite.py <suite> [seed] [tier] [build] -- run one E1 suite and evaluate the model on it"""
import sys, os, glob, time
ROOT = os.path.dirname(os.path.dirname(os.path.abspath(__file__)))
sys.path.insert(0, os.path.join(ROOT, "lib"))
import vcheck
vcheck.ENV["CARGO_TARGET_DIR"] = os.path.join(ROOT, ".cache", "target")
suite = sys.argv[1]
seed = int(sys.argv[2]) if len(sys.argv) > 2 else 1
tier = sys.argv[3] if len(sys.argv) > 3 else "quick"
build = sys.argv[4] if len(sys.argv) > 4 else "debug"
engine = os.environ.get("ENGINE", "e1")
rc, out, dt, binp = vcheck.build_harness(ROOT, engine, release=(build == "release"))
if rc:
    print(out[-3000:]); sys.exit(1)
t = time.time()
st = vcheck.run_e1_suite(ROOT, binp, suite, seed, tier, os.path.join(ROOT, ".cache", "run", "dev"), build)
if "error" in st:
    print(st["error"]); sys.exit(1)
print("gen %.1fs cases=%d oracle_failures=%d" % (time.time() - t, st["evaluations"], len(st["oracle_failures"])))
for o in st["oracle_failures"][:5]:
    print("  ORACLE", str(o)[:500])
t = time.time()
files = sorted(glob.glob(os.path.join(st["dir"], suite + "_*.v")))
res, errs = vcheck.eval_shards(ROOT, files)
print("coq eval %.1fs shards=%d errors=%d" % (time.time() - t, len(files), len(errs)))
for f, e in errs[:3]:
    print("  ERR", f, e)
n = 0
import re
for f, idxs in sorted(res.items()):
    shard = int(re.search(r"_(\d+)\.v$", f).group(1))
    for ix in idxs:
        n += 1
        if n <= 12:
            print("  DISAGREE", shard, ix, vcheck.case_line(st, shard, ix)[:600])
print("disagreements:", n)
