#!/bin/sh
# Regenerate _CoqProject / Makefile.coq from the .v files on disk and build the
# requested targets (default: everything). Full .vo builds only (never -vos).
set -e
cd "$(dirname "$0")/../coq"
{
  echo "-Q . WT"
  echo "-arg -w -arg -notation-overridden,-deprecated-hint-without-locality,-deprecated-instance-without-locality,-ambiguous-paths,-deprecated-syntactic-definition"
  find Model Spec Proofs Props Corr -name '*.v' 2>/dev/null | sort
} > _CoqProject.new
if ! cmp -s _CoqProject.new _CoqProject 2>/dev/null; then
  mv _CoqProject.new _CoqProject
  coq_makefile -f _CoqProject -o Makefile.coq >/dev/null
else
  rm -f _CoqProject.new
  [ -f Makefile.coq ] || coq_makefile -f _CoqProject -o Makefile.coq >/dev/null
fi
if [ $# -eq 0 ]; then
  exec timeout "${COQ_TIMEOUT:-3000}" make -f Makefile.coq -j"${COQ_JOBS:-16}"
else
  exec timeout "${COQ_TIMEOUT:-3000}" make -f Makefile.coq -j"${COQ_JOBS:-16}" "$@"
fi
