#!/usr/bin/env python3
"""Generate MANIFEST.json from lib/props.py."""
import json, os, sys
sys.path.insert(0, os.path.dirname(os.path.abspath(__file__)))
import props as P

root = os.path.dirname(os.path.dirname(os.path.abspath(__file__)))
checks = []
for pid in P.ALL_IDS:
    if pid not in P.PROPS:
        continue
    i = P.PROPS[pid]
    checks.append({
        "property_id": pid,
        "quick_cmd": "./check %s --tier quick" % pid,
        "thorough_cmd": "./check %s --tier thorough" % pid,
        "evidence_file": "evidence/%s.json" % pid,
        "replay_cmd_template": "./check %s --replay {path}" % pid,
        "engine": "+".join(sorted({e for (e, _, _) in i.get("suites", [])})) or "coq",
        "level_claimed": {"category": "proof", "text": i["level_text"], "design_ref": i.get("design_ref", "DESIGN.md 5")},
        "level_note": i["level_note"],
        "technique": i["technique"],
    })
hooks_commits = []
try:
    hooks_commits = json.load(open(os.path.join(root, "hooks_commits.json")))
except OSError:
    pass
m = {
    "version": 1,
    "setup_cmd": "./setup.sh",
    "hooks": {
        "guard": "--cfg wtransport_verif",
        "enable": "RUSTFLAGS=\"--cfg wtransport_verif\" cargo build --offline (set by lib/vcheck.py for every harness build); hooks (add-only, all behind #[cfg(wtransport_verif)]): module wtransport::verif re-exporting the driver's crate-private SharedResult/bichannel, and a process-wide log of hand-off events appended to by the driver worker, its per-stream tasks and Driver::accept_uni/accept_bi; used by the wire harness suites 'trace' and 'cell'; every other suite uses public APIs only (wtransport features quinn, dangerous-configuration, self-signed)",
        "baseline_off_cmd": "cd /repo && cargo test --workspace --no-fail-fast --offline",
        "source_commits": hooks_commits,
        "add_only": True,
    },
    "engines": [
        {"name": "coq", "path": "coq", "serves_properties": sorted(P.PROPS), "kind_free_text": "Rocq/Coq 8.16.1 development: Model (executable Gallina), Proofs, Props (property theorems), Corr (model side of the correspondence)"},
        {"name": "e1", "path": "harness/e1", "serves_properties": sorted(p for p in P.PROPS if any(e == "e1" for (e, _, _) in P.PROPS[p].get("suites", []))), "kind_free_text": "Rust codec harness: runs wtransport-proto on generated cases and prints them with observed outcomes as Coq terms; coqc evaluates the model on them"},
        {"name": "e2", "path": "harness/e2", "serves_properties": sorted(p for p in P.PROPS if any(e == "e2" for (e, _, _) in P.PROPS[p].get("suites", []))), "kind_free_text": "Rust wire harness: the real wtransport driver on loopback against a raw quinn peer following byte scripts; scenario and observation printed as Coq terms and judged by the model"},
        {"name": "e4", "path": "harness/e4", "serves_properties": sorted(p for p in P.PROPS if any(e == "e4" for (e, _, _) in P.PROPS[p].get("suites", []))), "kind_free_text": "Rust TLS/configuration harness: generated certificates with injected clocks, digest/PEM text, real sockets and connections"},
    ],
    "checks": checks,
    "not_applicable": [{"property_id": p, "reason": P.NOT_APPLICABLE.get(p, P.NOT_YET) if hasattr(P, "NOT_APPLICABLE") else P.NOT_YET} for p in P.ALL_IDS if p not in P.PROPS],
    "notes": "All checks are ./check <id>; theorems live in coq/Props/<id>.v; see DESIGN.md.",
}
json.dump(m, open(os.path.join(root, "MANIFEST.json"), "w"), indent=1)
print("MANIFEST.json: %d checks, %d not claimed" % (len(checks), len(m["not_applicable"])))
