#!/bin/bash
# confirm_seed.sh <worktree> <n> <prop> : confirm a seeded change in its scratch worktree:
# (1) applies cleanly, (2) workspace tests stay green, (3) demo fails with it, (4) demo passes without.
# On success copies patch/demo/meta to /verif/seeded/<prop>-<k>/ and prints CONFIRMED.
wt="$1"; n="$2"; prop="$3"
export CARGO_NET_OFFLINE=true CARGO_TARGET_DIR="$wt/target"
cd "$wt" || exit 2
git checkout -q -- . 
git apply "out/patch_$n.diff" || { echo "NOAPPLY $prop $n"; exit 1; }
tests=$(cargo test --workspace --offline 2>&1 | grep -E "^test result" | awk '{p+=$4; f+=$6} END{print p" passed "f" failed"}')
demo_run() {
  cd "$wt/out/demo_$n" || return 2
  if grep -q "^\[\[bin\]\]\|src/main.rs" Cargo.toml 2>/dev/null || [ -f src/main.rs ]; then
    CARGO_TARGET_DIR="$wt/out/demo_$n/target" cargo run --offline --quiet >/tmp/demo_$prop_$n.log 2>&1
  else
    CARGO_TARGET_DIR="$wt/out/demo_$n/target" cargo test --offline --quiet >/tmp/demo_$prop_$n.log 2>&1
  fi
  rc=$?; cd "$wt"; return $rc
}
demo_run; with=$?
git checkout -q -- .
demo_run; without=$?
echo "$prop patch $n: tests: $tests ; demo with patch rc=$with ; without rc=$without"
if [ "$with" != "0" ] && [ "$without" = "0" ] && echo "$tests" | grep -q " 0 failed"; then
  k=$(ls -d /verif/seeded/$prop-* 2>/dev/null | wc -l); k=$((k+1))
  d=/verif/seeded/$prop-$k; mkdir -p "$d"
  cp "out/patch_$n.diff" "$d/patch.diff"
  rm -rf "out/demo_$n/target"
  cp -r "out/demo_$n" "$d/demo"
  python3 - "$wt/out/meta_$n.json" "$d/meta.json" "$prop" "$tests" <<'PY'
import json, sys
m = json.load(open(sys.argv[1]))
out = {"property": sys.argv[3], "what": m.get("what"), "needs": m.get("needs"),
       "agent_ran": m.get("ran"),
       "confirmed_by_me": "applied in the scratch worktree; `cargo test --workspace --offline`: %s; demo exits non-zero with the patch and 0 without (lib/confirm_seed.sh)" % sys.argv[4]}
json.dump(out, open(sys.argv[2], "w"), indent=1)
PY
  echo "CONFIRMED $prop $n -> $d"
else
  echo "NOT-CONFIRMED $prop $n"
fi
rm -rf "$wt/out/demo_$n/target"
