"""Per-property configuration of the checks (which theorems file, which
correspondence suites, what is trusted).  MANIFEST.json is generated from this
table by lib/mkmanifest.py so the two cannot drift."""

DEFAULT_RULE = (
    "cases come from structured generators (boundaries of every varint length, every first byte, "
    "every proper prefix, mutations, random) driven by one splitmix64 PRNG seeded from VERIF_SEED, plus the "
    "committed corpus; a case is counted in distinct_nontrivial when its (function id, arguments) is new in this "
    "run and the generator does not mark it trivial (empty input / first error branch)"
)

TRUSTED_BASE_COMMON = [
    "Coq 8.16.1 kernel including its VM (vm_compute is used for finite sweeps inside proofs and to evaluate the model on the correspondence cases); no native_compute",
    "no axioms declared by the development; source audit (grep) for Admitted/admit/Axiom/Parameter/Conjecture/guard switches runs on every check",
    "hand-written Gallina model (coq/Model) of the Rust code: the theorems are about the model; the tie to /repo is the differential correspondence check run by this command (Rust harness under /verif/harness, generators, canonicalisation, printer of Coq terms)",
    "rustc/cargo and the crates in the offline registry used to build /repo and the harness",
]

# suite name -> Coq correspondence module
SUITE_MODULES = {
    "varint": "VarintC",
    "frame": "FrameC",
    "sheader": "FrameC",
    "typestate": "StreamTSC",
    "wire": "WireC", "settings": "WireC", "dgram": "WireC", "capsule": "WireC", "ids": "WireC", "status": "WireC",
}

SUITE_FRANGE = {
    "varint": (100, 199),
    "frame": (200, 249),
    "sheader": (250, 299),
    "typestate": (300, 399),
    "wire": (400, 499), "settings": (401, 402), "dgram": (403, 404), "capsule": (405, 406), "ids": (407, 407), "status": (408, 409),
}


def suite_owns(suite, f):
    lo, hi = SUITE_FRANGE.get(suite, (0, -1))
    return lo <= f <= hi


ENGINE_RUNNERS = {}

# class predicates for open known findings (none open yet)
KNOWN_CLASSES = {}

PROPS = {
    "C14": {
        "title": "Encoding and decoding are exact inverses with exact sizes",
        "corr_modules": ["VarintC", "FrameC", "WireC", "QpackC"],
        "suites": [("e1", "varint", ["debug"]), ("e1", "frame", ["debug"]), ("e1", "sheader", ["debug"]),
                   ("e1", "settings", ["debug"]), ("e1", "dgram", ["debug"]), ("e1", "qpack", ["debug"])],
        "technique": "Rocq proof (induction over byte counts / lists) on an executable Gallina model + differential correspondence check against the Rust code",
        "level_text": "machine-checked theorems for all values/byte strings (no size bound) about the Gallina model of the codec; model tied to /repo by running model and implementation on the same generated and exhaustive-range cases every run",
        "level_note": "trusts: Coq kernel+VM, the hand-written model (validated differentially, finite tables exhaustively), the Rust harness; octets/std are modelled, not verified",
        "design_ref": "DESIGN.md 5 (C14), 2.2, 3.1",
        "trusted_base": ["octets 0.3 get_varint/put_varint/varint_len are modelled in Model/Varint.v from their source and compared on every run"],
        "assumptions": ["Vec/BufferWriter memory behaviour as documented by std/octets"],
    },
}

PROOF_TECH = "Rocq proof (induction over byte strings / frame sequences / schedules) on an executable Gallina model + differential correspondence check against the Rust code"
CODEC_NOTE = "trusts: Coq kernel+VM, the hand-written model (validated differentially on every run, finite tables exhaustively), the Rust harness; octets/std are modelled, not verified"

PROPS["C15"] = {
    "title": "All decoding paths agree and incomplete input is never consumed",
    "corr_modules": ["FrameC", "StreamTSC"],
    "suites": [("e1", "frame", ["debug"]), ("e1", "sheader", ["debug"]), ("e1", "typestate", ["debug"])],
    "technique": PROOF_TECH,
    "level_text": "theorems for every byte string, every terminal and every schedule of chunk sizes and Pending results: one-shot = buffered = async for frames, stream headers and the typestates' read_frame loops; the GetVarint/GetBuffer poll machines are proved to keep their progress across Pending; model tied to /repo by three-path differential runs with generated schedules",
    "level_note": CODEC_NOTE + "; that an async fn resumes where it was suspended is Rust semantics and is trusted",
    "design_ref": "DESIGN.md 5 (C15), 2.3",
    "trusted_base": ["Rust async/await resumption semantics (the async fn bodies are modelled over completed reads; the poll machines GetVarint/GetBuffer are modelled and proved explicitly)"],
    "assumptions": ["AsyncRead sources obey the documented contract (Ok(0) only at EOF)"],
}

PROPS["C13"] = {
    "title": "Unknown and GREASE protocol elements are skipped whole, with no side effects",
    "corr_modules": ["StreamTSC", "WireC"],
    "suites": [("e1", "typestate", ["debug"]), ("e1", "settings", ["debug"]), ("e1", "capsule", ["debug"])],
    "technique": PROOF_TECH,
    "level_text": "theorems: an unknown frame of any type id / payload is consumed whole on the sync and async paths of every typestate, and any number of insertions at frame boundaries leaves the delivered frames and the ending unchanged (induction over the exchange); pre-repair code refuted by a computed witness; tie: metamorphic differential runs",
    "level_note": CODEC_NOTE,
    "design_ref": "DESIGN.md 5 (C13), 6",
    "trusted_base": [],
    "assumptions": [],
}

PROPS["C17"] = {
    "title": "Identifier algebra is exact and foreign-session traffic is never delivered",
    "corr_modules": ["WireC", "FrameC"],
    "suites": [("e1", "ids", ["debug"]), ("e1", "dgram", ["debug"])],
    "technique": PROOF_TECH,
    "level_text": "theorems for all 2^62 ids: acceptance iff client-initiated bidirectional, conversions mutually inverse and in range, unsafe preconditions never violated, parsed session ids always valid; tie: differential runs over all low-bit classes x boundary magnitudes",
    "level_note": CODEC_NOTE + "; the driver-level session filter (foreign streams stopped, foreign datagrams dropped) is exercised by the wire engine, see DESIGN.md",
    "design_ref": "DESIGN.md 5 (C17)",
    "trusted_base": [],
    "assumptions": [],
}

PROPS["C03"] = {
    "title": "Datagram payloads are never altered and the size contract is exact",
    "corr_modules": ["WireC"],
    "suites": [("e1", "dgram", ["debug"])],
    "technique": PROOF_TECH,
    "level_text": "theorems: datagram framing round-trips for every session id and payload, a delivered payload is exactly the suffix after the quarter-stream-id, L <= max <=> not refused as too large, the maximum is total and never exceeds the transport's (pre-repair code refuted by a computed witness); tie: differential runs of the proto codec",
    "level_note": CODEC_NOTE + "; loss/reordering are allowed by the property and not modelled; quinn's datagram transport is an oracle",
    "design_ref": "DESIGN.md 5 (C03), 6",
    "trusted_base": ["quinn's send_datagram size rule (refuses iff longer than max_datagram_size) is modelled from its documentation"],
    "assumptions": ["QUIC datagrams are delivered unmodified or not at all (quinn)"],
}

PROPS["C04"] = {
    "title": "Session termination is reported with the peer's exact code and reason",
    "corr_modules": ["WireC", "StreamTSC"],
    "suites": [("e1", "capsule", ["debug"]), ("e1", "typestate", ["debug"])],
    "technique": PROOF_TECH,
    "level_text": "theorems about the session-stream runner for every history of skippable elements followed by a close capsule / clean FIN / reset / FIN inside a frame / malformed capsule: exact code and reason, (0,\"\") for a clean finish, protocol failure otherwise; the wire code answered; tie: differential runs of the capsule decoders and the session typestate",
    "level_note": CODEC_NOTE + "; quinn's transport of CONNECTION_CLOSE is an oracle",
    "design_ref": "DESIGN.md 5 (C04)",
    "trusted_base": ["Model/Runner.v connect_run is a hand transcription of driver/streams/connect.rs (private code); its building blocks (typestate reader, capsule decoders) are compared with the code on every run"],
    "assumptions": [],
}

PROPS["C18"] = {
    "title": "Only well-formed WebTransport requests and responses are admitted",
    "corr_modules": ["WireC", "QpackC"],
    "suites": [("e1", "status", ["debug"]), ("e1", "qpack", ["debug"])],
    "technique": PROOF_TECH,
    "level_text": "theorems: request admitted iff extended CONNECT/webtransport/https with authority and path; every status constructor stays within 100..599 (print/parse identity on the whole range by exhaustive computation inside the proof); acceptance iff 2xx; reserved fields can never be overridden; pre-repair code refuted; tie: all 65 536 status integers plus decorated strings through the real parser",
    "level_note": CODEC_NOTE + "; '+200' and '0200' denote in-range numbers and are treated as numeric (DESIGN.md 5 C18)",
    "design_ref": "DESIGN.md 5 (C18), 6",
    "trusted_base": ["Rust's u16::from_str is modelled (optional '+', digits, overflow) and compared on every run"],
    "assumptions": [],
}

PROPS["C11"] = {
    "title": "Decoding untrusted bytes is total, bounded and invariant-preserving",
    "corr_modules": ["VarintC", "FrameC", "StreamTSC", "WireC", "QpackC"],
    "suites": [("e1", "frame", ["debug"]), ("e1", "typestate", ["debug"]), ("e1", "settings", ["debug"]),
               ("e1", "dgram", ["debug"]), ("e1", "capsule", ["debug"]), ("e1", "qpack", ["debug", "release"]),
               ("e1", "varint", ["release"])],
    "oracle_also": [],
    "technique": PROOF_TECH,
    "level_text": "theorems for every byte string: no decoder panics, spins or runs out of fuel, returned values respect their invariants, a QPACK integer that does not fit is an error and a returned one equals the mathematical value of the consumed bytes (pre-repair code refuted, both overflow modes); tie: differential runs in debug and release builds (overflow checks on/off), exhaustive short strings, adversarial continuation runs, panics caught",
    "level_note": CODEC_NOTE + "; the allocation bound is argued from the model's structure (payload buffers only after the 4096 check, string buffers only after the bytes are present) and is not measured by a counting allocator in this revision",
    "design_ref": "DESIGN.md 5 (C11), 6",
    "trusted_base": ["usize is modelled as 64 bits (the sandbox target); httlib-huffman OneBit decoding is modelled and compared exhaustively on 1- and 2-byte inputs"],
    "assumptions": [],
}

PROPS["C12"] = {
    "title": "HTTP/3 and WebTransport stream rules are enforced with the prescribed error",
    "corr_modules": ["StreamTSC", "WireC"],
    "suites": [("e1", "typestate", ["debug"]), ("e1", "settings", ["debug"])],
    "technique": PROOF_TECH,
    "level_text": "theorems: every accept/reject verdict of every typestate for every frame is the one of an independently written specification table (RFC 9114 / WT draft) with a prescribed code; error codes equal the registry; control-stream position rules, duplicated/closed critical streams by theorems on the runner model; tie: all frame sequences to depth 3 (quick) / 4 (thorough) over the property's alphabet through the real typestates",
    "level_note": CODEC_NOTE + "; the runner functions (private driver code) are hand-transcribed and exercised end to end by the wire engine",
    "design_ref": "DESIGN.md 5 (C12)",
    "trusted_base": ["Spec/Spec9114.v is transcribed from the RFCs from memory (the texts are not on disk)"],
    "assumptions": [],
}

ALL_IDS = ["C%02d" % i for i in range(1, 21)]

NOT_YET = "check not built yet in this revision of /verif (planned: DESIGN.md section 5); not claimed"
